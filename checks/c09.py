"""C09 — connection racing leaves both peers on the same single connection. Theorems: Props/C09.lean over Model/Race (any number of
candidates, every interleaving of handshake completions on both sides, failures, cancellations, claims, the caller's receive, the
listener's accepts and the concurrent authentications). Tie: the REAL ProbeAndDial runs against a REAL quic-go listener that is reachable
under several loopback addresses (plus an unreachable port, a duplicate, a turn:-prefixed address and a path through a delaying UDP
relay); (1) schedule replay: goroutines are parked at the verif hook points after a successful dial and after the caller took its result
and released in the model's order - returned connection, number of 'won' reports and the connections still open at the listener a grace
period later must equal the model's; (2) uncontrolled runs (natural timing); (3) both peers' real selection code: ProbeAndDial +
authenticateTransport on the dialing side, acceptAuthenticated / acceptExtraConns on the accepting side - same connection, prompt
authentication, all extra connections, nothing abandoned ever authenticated."""
import itertools
import json
import os

from checks.c14 import run_parallel

LEVEL = "proof"
REACH = ["A", "B", "C", "D"]


def model_steps(cands, schedule):
    """the model steps a controlled run corresponds to: every reachable candidate's dial completes (it is parked after it), then claims /
    the caller's receive in schedule order, then the remaining claims"""
    uniq = []
    for c in cands:
        if c == "A'":
            continue
        if c not in uniq:
            uniq.append(c)
    idx = {c: i for i, c in enumerate(uniq)}
    steps = []
    for c in uniq:
        if c == "X":
            continue
        steps.append(f"d{idx[c]}")
    done = set()
    main = False
    if "cb" in schedule:
        return len(uniq), None, idx   # the winner's status callback is held: which select case the caller takes is not determined
    for n, s in enumerate(schedule):
        if s == "cancel":
            # the caller's context is cancelled; ProbeAndDial returns at once unless the caller is parked (then its select has
            # several ready cases and picks any: no prediction)
            if any(t in ("main", "premain") for t in schedule[n + 1:]) or main:
                return len(uniq), None, idx
            steps += ["K", "b"]
            main = True
        elif s in ("main", "premain"):
            steps.append("m")
            main = True
        else:
            steps.append(f"c{idx[s]}")
            done.add(s)
    rest = [c for c in uniq if c != "X" and c not in done]
    if not main:
        # released all at once: the first claimant is not determined -> no prediction beyond the invariants
        return len(uniq), None, idx
    for c in rest:
        steps.append(f"c{idx[c]}")
    return len(uniq), steps, idx


def run(ctx):
    ctx.regen()
    ok, thms = ctx.lean_props()
    if ok:
        ctx.audit(thms)
    if ctx.tier == "thorough":
        ctx.leanchecker()
    ctx.build_driver()
    exe = ctx.build_harness("app")
    if not exe:
        ctx.oblige("harness.build", False, getattr(ctx, "harness_err", "")[-400:])
        return ctx.finish(LEVEL)
    thorough = ctx.tier == "thorough"
    rng = ctx.rng
    specs = []
    # ---- 1. schedule replay: every order of (claims of 2-3 reachable candidates, caller's receive) in which the receive follows a claim
    for n in ((2, 3, 4) if thorough else (2, 3)):
        cs = REACH[:n]
        for perm in itertools.permutations(cs + ["main"]):
            if perm[0] == "main":
                continue
            specs.append({"cands": list(cs), "schedule": list(perm), "mode": "observe"})
    # the caller reaches its select only after every dial goroutine has finished (both select cases ready at once)
    for n in (1, 2, 3):
        for perm in itertools.permutations(REACH[:n]):
            for _ in range(4 if not thorough else 10):
                specs.append({"cands": list(REACH[:n]), "schedule": list(perm) + ["premain"], "mode": "observe"})
    # the caller is held before it counts and starts each dial goroutine (whatever waits for "all dials done" must not fire early)
    for cs in (["A"], ["A", "B"], ["B", "X"], ["A", "B", "C"]):
        for d in ((3, 10) if not thorough else (1, 3, 10, 30)):
            specs.append({"cands": cs, "schedule": [], "mode": "observe", "spawn_delay_ms": d})
    for extra in (["X"], ["A'"], ["T"], ["X", "A'", "T"]):
        for sched in (["A", "main", "B"], ["B", "main", "A"], ["A", "B", "main"]):
            specs.append({"cands": ["A", "B"] + extra, "schedule": sched, "mode": "observe"})
    # the caller gives up while dials hold a connection but have not claimed the race yet / have just claimed it
    for cs in (["A"], ["A", "B"], ["A", "B", "C"], ["A", "X", "B"]):
        live = [c for c in cs if c != "X"]
        specs.append({"cands": cs, "schedule": ["cancel"] + live, "mode": "observe"})
        specs.append({"cands": cs, "schedule": ["cancel"] + live[::-1], "mode": "observe"})
        for _ in range(3 if not thorough else 8):
            specs.append({"cands": cs, "schedule": [live[0], "cancel", "premain"] + live[1:], "mode": "observe"})
        if len(live) > 1:
            specs.append({"cands": cs, "schedule": [live[1], "cancel", "premain", live[0]], "mode": "observe"})
        # the caller gives up while the winning dial is inside its status callback (between its claim and whatever it does next)
        for _ in range(3 if not thorough else 8):
            specs.append({"cands": cs, "schedule": [live[0], "cancel", "cb"] + live[1:], "mode": "observe"})
    # the listener completes the loser first (the winner's path is delayed towards the listener)
    for d in ([60, 150] if not thorough else [30, 60, 150, 300]):
        specs.append({"cands": ["R", "B"], "schedule": ["R", "main", "B"], "relay_delay_ms": d, "mode": "observe"})
        specs.append({"cands": ["R", "B"], "schedule": ["R", "main", "B"], "relay_delay_ms": d, "mode": "select", "extra": 2})
        specs.append({"cands": ["R", "B", "C"], "schedule": ["R", "main", "C", "B"], "relay_delay_ms": d, "mode": "select", "extra": 1})
    # a slow direct path next to a relay ("turn:") candidate: relay candidates are tried only after every direct dial has given up, so a
    # direct handshake that is merely slow (2.6 s) wins and nothing else is ever dialled - one connection at the listener afterwards
    for d in ([2600] if not thorough else [1200, 2600, 3500]):
        specs.append({"cands": ["S", "T"], "schedule": [], "relay_delay_ms": d, "mode": "observe", "grace_ms": 2000})
        specs.append({"cands": ["S", "U"], "schedule": [], "relay_delay_ms": d, "turn_delay_ms": 1200, "mode": "observe", "grace_ms": 2500})
    n_sched = len(specs)
    # ---- 2./3. natural timing
    for _ in range(300 if thorough else 16):
        k = rng.range(2, 4)
        cs = REACH[:k] + rng.choice([[], [], ["X"], ["A'"], ["T"]])
        rng.shuffle(cs)
        specs.append({"cands": cs, "schedule": [], "mode": "observe"})
        specs.append({"cands": cs, "schedule": [], "mode": "select", "extra": rng.choice([0, 1, 3]),
                      "rogues": rng.choice([0, 0, 1, 3]), "rogue_code": rng.choice(["", "WRONGCOD"])})
    specs.append({"cands": ["X"], "schedule": [], "mode": "observe"})
    specs.append({"cands": ["A"], "schedule": [], "mode": "select", "extra": 3})
    lines = ["race " + json.dumps(s).encode().hex() for s in specs]
    res, errs = run_parallel(ctx, exe, "race", lines, {}, workers=4)
    ctx.oblige("harness:race", not errs and all(r is not None for r in res), "; ".join(errs)[:300])
    # model predictions for the controlled observe runs
    mcases, mix = [], []
    for i, s in enumerate(specs[:n_sched]):
        if s["mode"] != "observe":
            continue
        k, steps, idx = model_steps(s["cands"], s["schedule"])
        if steps is None:
            continue
        mcases.append(f"race {k} " + " ".join(steps))
        mix.append((i, idx))
    mp = os.path.join(ctx.workdir, "race.model.cases")
    open(mp, "w").write("\n".join(mcases) + "\n")
    mo = os.path.join(ctx.workdir, "race.model.out")
    ctx.driver(mp, mo)
    mod = open(mo).read().splitlines()
    pred = {}
    for (i, idx), m in zip(mix, mod):
        inv = {v: k for k, v in idx.items()}
        f = dict(x.split("=") for x in m.split() if "=" in x)
        pred[i] = {"returned": inv.get(int(f["returned"])) if f.get("returned", "-").isdigit() else None, "won": int(f.get("won", -1)),
                   "open": [inv[int(x)] for x in f.get("open", "[]")[1:-1].split(",") if x], "raw": m}
    diffs = []
    ok_runs = 0
    cancelled_runs = 0
    for i, (s, r) in enumerate(zip(specs, res)):
        if r is None:
            continue
        try:
            o = json.loads(r)
        except Exception:
            ctx.oblige("harness:race-output", False, r[:200])
            continue
        rep = {"candidates": s["cands"], "schedule": s["schedule"], "mode": s["mode"], "relay_delay_ms": s.get("relay_delay_ms", 0), "observed": o}
        if "setup_err" in o:
            ctx.oblige("harness:race-setup", False, o["setup_err"][:200])
            continue
        if o.get("hang") or "schedule_stuck_at" in o:
            ctx.violation("C09:probe-hangs", f"ProbeAndDial did not return / a goroutine never reached its hook: {json.dumps(o)[:200]}", rep)
            continue
        reachable = [c for c in s["cands"] if c not in ("X", "A'")]
        if not reachable:
            if "dial_err" not in o:
                ctx.violation("C09:returned-without-candidate", "a connection was returned although no candidate is reachable", rep)
            ok_runs += 1
            continue
        if "cancel" in s["schedule"] and "dial_err" in o:
            # the caller gave up: the dialing side has no connection, so nothing may stay open at the listener and nothing is "won"
            # unless the winner was closed again by the caller (then its close has arrived)
            if o.get("server_open"):
                ctx.violation("C09:abandoned-connection-left-open", f"ProbeAndDial returned '{o['dial_err']}' to a caller that cancelled, but {len(o['server_open'])} connection(s) "
                              f"of its dials are still open at the listener a grace period later (candidates {s['cands']}, schedule {s['schedule']}, updates {o.get('updates')})", rep)
            p = pred.get(i)
            if p and (p["returned"] is not None or p["won"] != o.get("won_updates") or len(p["open"]) != len(o.get("server_open") or [])):
                diffs.append((s, o, p))
            cancelled_runs += 1
            ok_runs += 1
            continue
        if "dial_err" in o:
            ctx.violation("C09:no-connection", f"ProbeAndDial failed with reachable candidates {reachable}: {o['dial_err']}", rep)
            continue
        if o.get("won_updates") != 1:
            ctx.violation("C09:several-winners", f"{o.get('won_updates')} attempts were reported 'won' (candidates {s['cands']}, schedule {s['schedule']})", rep)
        if s["mode"] == "observe":
            if len(o.get("server_token_conn") or []) != 1:
                ctx.violation("C09:returned-connection-unusable", "the connection handed to the caller did not carry a stream to the listener", rep)
            elif (o["server_token_conn"][0] not in (o.get("server_open") or [])
                  or len(o.get("server_open") or []) - 1 > len([u for u in o.get("updates", "").split(",")
                                                              if u.endswith(":canceled") and u.split(":")[0] not in (o.get("established") or [])])):
                # (a dial cancelled at the very moment its handshake completes is dropped by quic-go without a CONNECTION_CLOSE: the
                #  listener keeps that half-open connection until its idle timeout; it is not a connection of the dialing side any more.
                #  Anything open beyond the caller's connection and one such leftover per dial that was cancelled before tr.Dial returned
                #  a connection (it never reached the hook behind tr.Dial) is an abandoned live connection.)
                ctx.violation("C09:abandoned-connection-left-open", f"{len(o.get('server_open', []))} connections are still open at the listener a grace period after ProbeAndDial returned "
                              f"(the caller's is #{o['server_token_conn'][0]}; candidates {s['cands']}, schedule {s['schedule']})", rep)
            p = pred.get(i)
            if p and (p["returned"] != o.get("returned") or p["won"] != o.get("won_updates") or len(p["open"]) != len(o.get("server_open", []))):
                diffs.append((s, o, p))
        else:
            if not o.get("same_connection"):
                why = o.get("sender_auth_err") or o.get("receiver_select_err") or "the receiver's choice does not carry the caller's stream"
                ctx.violation("C09:peers-on-different-connections", f"dialing and accepting side did not end up on one authenticated connection: {why} (candidates {s['cands']}, schedule {s['schedule']}, {o.get('auth_ms')} ms)", rep)
            elif o.get("auth_ms", 0) > 3000:
                ctx.violation("C09:authentication-delayed-by-abandoned-connection", f"authentication took {o['auth_ms']} ms", rep)
            if s.get("extra") and o.get("same_connection") and (o.get("extra_receiver_ok") != s["extra"] or o.get("extra_sender_ok") != s["extra"]):
                ctx.violation("C09:extra-connections-lost", f"{s['extra']} extra connections dialled, sender authenticated {o.get('extra_sender_ok')}, receiver kept {o.get('extra_receiver_ok')}: {o.get('extra_receiver_err', '')}", rep)
            if o.get("rogue_accepted"):
                ctx.violation("C09:stranger-authenticated", f"{o['rogue_accepted']} stranger(s) without the join code passed authentication at the accepting side", rep)
            if o.get("unexpected_extra_authenticated"):
                ctx.violation("C09:abandoned-connection-authenticated", "a connection nobody authenticates on came out of acceptAuthenticated", rep)
        ok_runs += 1
    ctx.oblige("correspondence:probe-and-dial-schedules", not diffs,
               "; ".join(f"cands {d[0]['cands']} schedule {d[0]['schedule']}: impl returned={d[1].get('returned')} won={d[1].get('won_updates')} open={d[1].get('server_open')} model {d[2]['raw']}" for d in diffs[:3])[:900])
    ctx.coverage.update({
        "evaluations": len(specs), "distinct_nontrivial": ok_runs, "controlled_schedules": n_sched, "model_predictions_compared": len(pred), "caller_cancelled_runs": cancelled_runs,
        "disagreements_model_vs_impl": len(diffs),
        "rule": "controlled: every order of the claims of 2 and 3 (thorough: 4) reachable candidates and the caller's receive (receive after at least one claim), every order of 1-3 claims with the caller reaching its select only after all dials finished (repeated: select then has two ready cases), the same with an unreachable port / a duplicate spelling / a turn:-prefixed address added, "
                "the caller cancelling while 1-3 dials are parked between their handshake and their claim (and with one of them having claimed, the caller parked before its select), "
                "and the winner's path behind a relay that delays its packets towards the listener by 30-300 ms so that the listener completes the loser first (observer and real receiver selection). "
                "natural timing: 2-4 reachable loopback addresses of one listener (+ optional unreachable/duplicate/turn candidate) in random order, observer mode and real selection with 0-3 extra connections and 0-3 strangers (silent, or authenticating with a wrong code) connected to the listener first. "
                "oracle: one 'won', the caller's connection is the only one open at the listener after 400 ms, both peers authenticate on the same connection within 3 s, all extra connections kept, nothing else authenticates",
        "samples": [json.dumps(specs[0]), json.dumps(specs[n_sched - 1]), mcases[0] if mcases else ""],
    })
    ctx.assumptions += ["one model step = the code between two park points (hook after a successful dial, hook after the caller's receive); quic-go's handshake, its Accept queue and close/cancel signalling are exercised, not modelled "
                        "(the model over-approximates: the listener may complete any non-failed attempt at any time)",
                        "authentication succeeds exactly on the connection the dialing side authenticates on (the model's authOk guard); C08 proves what acceptance means",
                        "loopback only: no packet loss; the relay delays but does not drop",
                        "the receiver's runTransfer select itself (dial path vs accepted path) is not executed here; its accept side is run through acceptAuthenticated/acceptExtraConns"]
    return ctx.finish(LEVEL)


def replay(ctx, path):
    print(json.dumps(json.load(open(path)), indent=1)[:4000])
    return run(ctx)
