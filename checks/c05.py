"""C05 — resume metadata never ahead of the data file. Theorems: Props/C05.lean (inductive invariant over writers ||
flusher || crash || restart; atomic replacement). Ties: (a) SSA dominance facts (write before mark, CRC before write,
temp write before rename) regenerated; (b) crash-point enumeration: the real transfer runs in a child process that
SIGKILLs itself at the k-th hit of each hook point (optionally with the flusher firing exactly there); every sidecar
LoadSidecar accepts afterwards is compared chunk by chunk with the source."""
import json
from checks import crashgen as G
from checks import e2egen as G2

LEVEL = "proof"


def run(ctx):
    ctx.regen()
    ok, thms = ctx.lean_props()
    if ok:
        ctx.audit(thms)
    if ctx.tier == "thorough":
        ctx.leanchecker()
    exe = ctx.build_harness("xfer")
    if not exe:
        ctx.oblige("harness.build", False, getattr(ctx, "harness_err", "")[-400:])
        return ctx.finish(LEVEL)
    rng = ctx.rng
    wl = G.workloads(rng, 3 if ctx.tier == "quick" else 8)
    # counting runs
    rc, counts = G.run_cases(ctx, exe, "count", [{"mode": "crash", "name": f"count{i}", "base": w, "kills": [], "resume": False} for i, w in enumerate(wl)], timeout=300)
    cases = []
    for i, (w, cr) in enumerate(zip(wl, counts)):
        hits = cr.get("hits") or {}
        if not hits:
            ctx.oblige(f"hooks:workload{i}", False, "no hook hits reported: " + json.dumps(cr)[:300])
            continue
        for p in G.POINTS:
            n = hits.get(p, 0)
            ks = list(range(1, n + 1))
            if ctx.tier == "quick" and len(ks) > 6:
                ks = sorted(set([1, 2, n - 1, n] + [rng.range(1, n) for _ in range(3)]))
            for k in ks:
                for ff in (False, True):
                    cases.append({"mode": "crash", "name": f"w{i}-{p}-{k}-{'flush' if ff else 'noflush'}", "base": w,
                                  "kills": [{"point": p, "at": k, "flush_first": ff}], "resume": False})
        # the flusher firing between every write and its mark, then a kill somewhere
        n = hits.get("recv.after_mark", 0)
        for k in sorted({1, max(1, n // 2), max(1, n)}):
            cases.append({"mode": "crash", "name": f"w{i}-flush-between-write-and-mark-kill{k}", "base": w,
                          "kills": [{"point": "recv.after_mark", "at": k, "flush_at_all": "recv.after_write"}], "resume": False})
            cases.append({"mode": "crash", "name": f"w{i}-flush-before-write-kill{k}", "base": w,
                          "kills": [{"point": "recv.after_write", "at": k, "flush_at_all": "recv.before_write"}], "resume": False})
    rc, results = G.run_cases(ctx, exe, "kills", cases, timeout=1500)
    if rc != 0 or len(results) != len(cases):
        ctx.oblige("harness:kill-run", False, f"rc={rc} results={len(results)}/{len(cases)} {ctx.harness_stderr[-300:]}")
    killed = marked = with_marks = 0
    for c, r in zip(cases, results):
        if r.get("killed") and r["killed"][0]:
            killed += 1
        marked += r.get("marked_chunks_checked", 0)
        if r.get("marked_chunks_checked", 0) > 0:
            with_marks += 1
        if r.get("unsound"):
            ctx.violation("C05:unsound-sidecar:" + c["kills"][0]["point"] + (":flusher" if c["kills"][0].get("flush_first") or c["kills"][0].get("flush_at_all") else ""),
                          f"after a kill at {c['name']} the sidecar on disk marks chunks that are not in the file: {r['unsound'][:3]}", {"case": c, "result": r})
        if r.get("note"):
            ctx.oblige(f"run:{c['name']}", False, r["note"][:200])
    # several flushers of one sidecar at once (ticker, finalizeFile, the signal handler's FlushAllFlushers) while chunks are marked;
    # the file on disk is loaded over and over - each observation is what a kill at that instant would leave
    storms = [{"mode": "flushstorm", "name": f"storm-{fl}f-{ch}c", "chunks": ch, "flushers": fl, "millis": 400 if ctx.tier == "quick" else 1500, "mark_gap_us": gap}
              for fl, ch, gap in ([(1, 200, 50), (2, 400, 100), (3, 2000, 20), (4, 64, 500)] + ([(rng.range(2, 6), rng.range(50, 3000), rng.range(0, 300)) for _ in range(6)] if ctx.tier == "thorough" else []))]
    rcs, sres = G.run_cases(ctx, exe, "flushstorm", storms, timeout=300)
    ctx.oblige("harness:flushstorm", rcs == 0 and len(sres) == len(storms), ctx.harness_stderr[-300:])
    observations = 0
    for c, r in zip(storms, sres):
        observations += r.get("valid", 0)
        rep = {"case": c, "result": r}
        if r.get("note"):
            ctx.oblige(f"run:{c['name']}", False, r["note"][:200])
        if r.get("invalid"):
            ctx.violation("C05:no-valid-version-on-disk", f"with {c['flushers']} concurrent flushers the resume metadata on disk was at some instant neither absent nor a valid version "
                          f"({r['invalid'][0]}): an update was not atomic, the previous valid version is gone", rep)
        if r.get("unsound"):
            ctx.violation("C05:unsound-sidecar:concurrent-flushers", f"with {c['flushers']} concurrent flushers the metadata on disk claimed a chunk that was not yet written", rep)
        if r.get("shrunk"):
            ctx.violation("C05:version-went-back", f"with {c['flushers']} concurrent flushers a later version on disk claims fewer chunks than an earlier one", rep)
    # whole transfers with an observer: sidecars flushed (as the signal handler does) and loaded from disk continuously, every claimed
    # chunk compared with the source at that instant - windows without a hook point (inside a chunk write) are sampled this way
    M = 1 << 20
    ocases = [{"name": f"observe-{i}", "files": [{"p": "big.bin", "n": n, "s": 900 + i}, {"p": "s.bin", "n": 3 * ch + 7, "s": 950 + i}], "chunk": ch, "streams": st,
               "conns": 1, "transport": tr, "noroot": True, "resume": True, "observe": True, "timeout_ms": 30000}
              for i, (n, ch, st, tr) in enumerate([(24 * M, 4 * M, 2, "netsim"), (16 * M + 5, 8 * M, 1, "mock"), (12 * M, 2 * M, 3, "netsim")]
                                                  + ([(rng.range(8, 40) * M + rng.below(999), rng.choice([1, 2, 4, 8]) * M, rng.range(1, 4), rng.choice(["netsim", "mock"])) for _ in range(5)] if ctx.tier == "thorough" else []))]
    rco, ores = G2.run_xfer(ctx, exe, "observe", ocases, timeout=600)
    ctx.oblige("harness:observe", rco == 0 and len(ores) == len(ocases), ctx.harness_stderr[-300:])
    obs_n = 0
    for c, r in zip(ocases, ores):
        obs_n += r.get("observations", 0)
        if r.get("unsound"):
            ctx.violation("C05:unsound-sidecar:observed", f"during {c['name']} {r['unsound'][0]} (a kill at that instant would leave metadata claiming a chunk that is not in the file)",
                          {"case": c, "result": r})
        if r.get("note"):
            ctx.oblige(f"run:{c['name']}", False, r["note"][:200])
    # a reader that writes into a file another reader has just finalised as failed (two streams carry chunks of one file, one frame is
    # damaged while the other reader is in the middle of its payload): whatever that late write does, the metadata on disk must not
    # claim bytes that are not in the file - also not the chunks written before the failure
    lcases = []
    for n in ((4, 7) if ctx.tier == "quick" else (3, 4, 7, 12)):
        for late in sorted({n - 1, 1}):
            for kind in ("crc", "range", "cut"):
                first = [i for i in range(n) if i != late][: n - 2]
                bad = [i for i in range(n) if i != late and i not in first][0]
                lcases.append({"mode": "latewriter", "name": f"late-{n}c-late{late}-{kind}", "chunks": n, "first": first, "late": late, "bad": bad,
                               "hold_ms": 150, "kind": kind})
    rcl, lres = G.run_cases(ctx, exe, "latewriter", lcases, timeout=300)
    ctx.oblige("harness:latewriter", rcl == 0 and len(lres) == len(lcases), ctx.harness_stderr[-300:])
    late_marked = 0
    for c, r in zip(lcases, lres):
        late_marked += r.get("marked_chunks_checked", 0)
        if r.get("note"):
            ctx.oblige(f"run:{c['name']}", False, r["note"][:200])
        if r.get("unsound"):
            ctx.violation("C05:unsound-sidecar:late-writer", f"{c['name']}: after a reader wrote chunk {c['late']} into the file another reader had finalised as failed "
                          f"({c['kind']}), the metadata on disk marks chunks that are not in the file (length {r.get('file_len')}): {r['unsound'][:3]}", {"case": c, "result": r})
    bigs = G2.big_cases(rng, ctx.tier == "thorough")
    rcb, bres = G2.run_xfer(ctx, exe, "big", bigs, timeout=600)
    ctx.oblige("harness:big", rcb == 0 and len(bres) == len(bigs), ctx.harness_stderr[-300:])
    nbig = G2.judge_big(ctx, "C05", bigs, bres)
    ctx.coverage.update({
        "big_sparse_files_above_4GiB": nbig, "late_writer_runs": len(lcases), "late_writer_marked_chunks_checked": late_marked, "flush_storms": len(storms), "observed_transfers": len(ocases), "sidecar_observations_during_transfers": obs_n, "flush_storm_valid_observations": observations,
        "evaluations": len(cases) + len(wl), "distinct_nontrivial": with_marks,
        "rule": "for each workload (fixed 3 + seeded), the real transfer over netsim runs in a child process that SIGKILLs itself at the k-th hit of each of 6 hook points "
                "(before write, after write, after mark, between temp write and rename, after rename, before finalize) for every k (thorough) or a stride (quick), with and without "
                "FlushAllFlushers() fired at that instant; plus runs in which the flusher fires between every write and its mark / before every write. After each kill every sidecar that "
                "LoadSidecar accepts is compared chunk by chunk with the source. non-trivial = kill runs that left at least one marked chunk to check",
        "samples": [cases[0]["name"], cases[len(cases) // 2]["name"], cases[-1]["name"]],
        "kills_delivered": killed, "marked_chunks_compared": marked, "workloads": wl[:3],
    })
    ctx.assumptions += ["process-kill semantics: completed write/rename syscalls persist; no power-loss model (the code has no fsync)",
                        "chunk writers write CRC-verified source bytes (the CRC check dominates the write: regenerated order fact)",
                        "the flusher is represented by FlushAllFlushers() fired at hook points; the 1 s ticker itself is not exercised"]
    return ctx.finish(LEVEL)


def replay(ctx, path):
    print(json.dumps(json.load(open(path)), indent=1)[:4000])
    return run(ctx)
