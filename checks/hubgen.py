"""Generators and the implementation-side oracle for the hub schedule replay (C11; also used by C10)."""
import itertools


def words(alphabet, n):
    for L in range(0, n + 1):
        for w in itertools.product(alphabet, repeat=L):
            yield list(w)


SMALL = [
    # (threads, set-up schedule, alphabet, quick word length, thorough word length)
    # Broadcast || remove (send on a channel that remove closes)
    (["a:1:1:1,a:1:2:2,b:1:7", "r:1:1:1"], [0, 0], [0, 1], 7, 8),
    # BroadcastExcept || remove || remove
    (["a:1:1:1,a:1:2:2,a:1:3:3,x:1:3:7", "r:1:1:1", "r:1:2:2"], [0, 0, 0], [0, 1, 2], 6, 8),
    # replacement by a reconnect || BroadcastExcept || the replaced connection's remove
    (["a:1:1:1,a:1:2:2,x:1:2:7,l:1", "a:1:3:1,s:1:1:8", "r:1:1:1,s:1:1:9"], [0, 0], [0, 1, 2], 6, 8),
    # remove || add || remove || add on one session (garbage collection of the session entry)
    (["a:1:1:1,r:1:1:1", "a:1:2:2,r:1:2:2", "a:1:3:3,s:1:3:5,l:1"], [], [0, 1, 2], 7, 10),
    # CloseSession || BroadcastExcept || remove || late join
    (["a:1:1:1,a:1:2:2,c:1", "x:1:1:9,s:1:2:4", "r:1:2:2", "a:1:3:3,l:1"], [0, 0], [0, 1, 2, 3], 5, 7),
    # two sessions: nothing crosses
    (["a:1:1:1,a:2:2:1,b:1:5", "b:2:6,r:2:2:1", "s:1:1:7,l:2,s:2:1:8"], [0, 0], [0, 1, 2], 6, 8),
    # two broadcasts inside the read lock at once, a writer waiting
    (["a:1:1:1,a:1:2:2,b:1:5", "b:1:6", "a:1:3:3,r:1:3:3"], [0, 0], [0, 1, 2], 6, 8),
]


def gen_cases(rng, tier):
    cases, seen = [], set()
    dist = {"small_exhaustive": 0, "handler_shaped": 0, "free_form": 0, "ops": {}, "threads": {}}

    def add(threads, sched, kind):
        line = "hub " + "/".join(threads) + " | " + " ".join(str(x) for x in sched)
        line = line.rstrip()
        if line in seen:
            return
        seen.add(line)
        cases.append(line)
        dist[kind] += 1
        dist["threads"][len(threads)] = dist["threads"].get(len(threads), 0) + 1
        for t in threads:
            for o in t.split(","):
                if o:
                    dist["ops"][o[0]] = dist["ops"].get(o[0], 0) + 1

    for threads, setup, alpha, lq, lt in SMALL:
        L = lt if tier == "thorough" else lq
        for w in words(alpha, L):
            add(threads, setup + w, "small_exhaustive")
    # handler-shaped programs: connect, talk, disconnect (what cmd/thruserv's handler does), plus expiry threads
    n = 4000 if tier == "thorough" else 900
    for _ in range(n):
        nthreads = rng.range(2, 5)
        conn = 0
        threads = []
        nsid = rng.range(1, 2)
        npeers = rng.range(1, 3)
        msg = 0
        for _t in range(nthreads):
            if rng.chance(1, 8):
                ops = []
                for _ in range(rng.range(1, 2)):
                    ops.append(f"c:{rng.range(1, nsid)}")
                threads.append(",".join(ops))
                continue
            ops = []
            for _round in range(rng.range(1, 2)):
                conn += 1
                sid = rng.range(1, nsid)
                p = rng.range(1, npeers)
                ops.append(f"a:{sid}:{conn}:{p}")
                if rng.chance(2, 3):
                    ops.append(f"l:{sid}")
                msg += 1
                ops.append(f"b:{sid}:{msg}")
                for _ in range(rng.range(0, 3)):
                    msg += 1
                    r = rng.below(4)
                    if r == 0:
                        ops.append(f"l:{sid}")
                    elif r == 1:
                        ops.append(f"s:{sid}:{rng.range(1, npeers + 1)}:{msg}")
                    else:
                        ops.append(f"x:{sid}:{p}:{msg}")
                if rng.chance(5, 6):
                    ops.append(f"r:{sid}:{conn}:{p}")
                    msg += 1
                    ops.append(f"b:{sid}:{msg}")
            threads.append(",".join(ops))
        est = sum(len(t.split(",")) for t in threads) * 2
        sched = [rng.below(nthreads) for _ in range(rng.range(est // 2, est + 4))]
        add(threads, sched, "handler_shaped")
    # free-form programs
    n = 3000 if tier == "thorough" else 700
    for _ in range(n):
        nthreads = rng.range(2, 4)
        conn = 0
        msg = 0
        threads = []
        for _t in range(nthreads):
            ops, mine = [], []
            for _ in range(rng.range(1, 6)):
                r = rng.below(12)
                sid = rng.range(1, 2)
                msg += 1
                if r < 3:
                    conn += 1
                    p = rng.range(1, 3)
                    ops.append(f"a:{sid}:{conn}:{p}")
                    mine.append((sid, conn, p))
                elif r < 5 and mine:
                    s_, c_, p_ = rng.choice(mine)
                    ops.append(f"r:{s_}:{c_}:{p_}")
                elif r == 5:
                    ops.append(f"c:{sid}")
                elif r == 6:
                    ops.append(f"l:{sid}")
                elif r < 9:
                    ops.append(f"s:{sid}:{rng.range(1, 3)}:{msg}")
                elif r < 11:
                    ops.append(f"b:{sid}:{msg}")
                else:
                    ops.append(f"x:{sid}:{rng.range(1, 3)}:{msg}")
            threads.append(",".join(ops))
        est = sum(len(t.split(",")) for t in threads) * 2
        sched = [rng.below(nthreads) for _ in range(rng.range(est // 2, est + 4))]
        add(threads, sched, "free_form")
    return cases, dist


def parse_final(fin):
    import re
    d = {}
    for key in ("reg", "conns", "idx", "regidx", "closed", "kicked"):
        m = re.search(r"\b%s=\[(.*?)\]" % key, fin)
        d[key] = [x for x in m.group(1).split(",") if x] if m else None
    m = re.search(r"recv=\{(.*?)\}", fin)
    recv = {}
    if m:
        for part in m.group(1).split():
            c, ms = part.split(":", 1)
            recv[c] = [x for x in ms.strip("[]").split(",") if x]
    d["recv"] = recv
    m = re.search(r"res=\[(.*)\] unfinished=(\d+)", fin)
    d["res"] = m.group(1).split() if m and m.group(1) else []
    d["unfinished"] = int(m.group(2)) if m else -1
    d["hang"] = "HANG" in fin
    return d


def spec_check(line, out, stats):
    """Evaluate C11's clauses on the implementation's output for one case; yields (signature, text)."""
    if out.startswith("aborted"):
        return
    if " # " not in out or " ; " not in out:
        yield ("C11:harness-output", f"unexpected harness output {out[:200]!r}")
        return
    prog = line.split()[1]
    progs = [[o for o in t.split(",") if o] for t in prog.split("/")]
    ex, rest = out.split(" # ", 1)
    obs_s, fin = rest.split(" ; ", 1)
    executed = ex.split()
    obs = obs_s.split()
    if len(executed) != len(obs):
        yield ("C11:harness-output", "schedule/observation count mismatch")
        return
    pos = ["op" if p else "done" for p in progs]
    opi = [0] * len(progs)
    live = []            # (sid, conn, peer)
    home = {}
    added = set()
    kicked_exp = set()
    res_exp = []
    bad = False
    interleaved = False
    special = False
    for item, ob in zip(executed, obs):
        t = int(item.split("@")[0])
        if ob == "skip":
            continue
        if ob.startswith("panic"):
            yield ("C11:panic", f"thread {t} panicked: {ob}")
            bad = True
            break
        if ob == "hang":
            yield ("C11:hang", f"thread {t} did not reach its next park within 3 s")
            bad = True
            break
        if pos[t] == "op":
            o = progs[t][opi[t]].split(":")
            opi[t] += 1
            k = o[0]
            if k == "a":
                sid, c, p = o[1], o[2], o[3]
                if any(e[0] == sid and e[2] == p for e in live):
                    special = True
                live = [e for e in live if not (e[0] == sid and e[2] == p)] + [(sid, c, p)]
                home[c] = sid
                added.add(c)
            elif k == "r":
                live = [e for e in live if e[1] != o[2]]
            elif k == "c":
                kicked_exp |= {e[1] for e in live if e[0] == o[1]}
                if any(e[0] == o[1] for e in live):
                    special = True
                live = [e for e in live if e[0] != o[1]]
            elif k == "l":
                ps = sorted((int(e[2]) for e in live if e[0] == o[1]))
                res_exp.append(f"{t}:L:{o[1]}:[{','.join(map(str, ps))}]")
            elif k == "s":
                found = any(e[0] == o[1] and e[2] == o[2] for e in live)
                res_exp.append(f"{t}:S:{o[1]}:{o[2]}:{int(found)}")
        pos[t] = ob.split(":")[0]
        if sum(1 for x in pos if x not in ("op", "done")) >= 2:
            interleaved = True
    if interleaved:
        stats["interleaved"] += 1
    if interleaved or special:
        stats["nontrivial"] += 1
    if bad:
        return
    f = parse_final(fin)
    if f["hang"]:
        yield ("C11:hang", "a thread hung")
        return
    if f["unfinished"] != 0:
        yield ("C11:deadlock", f"{f['unfinished']} threads could not finish although no thread was running")
        return
    stats["results"] += len(res_exp)
    if f["res"] != res_exp:
        for a, b in zip(f["res"], res_exp):
            if a != b:
                kind = a.split(":")[1]
                if kind == "S" and b.endswith(":1"):
                    yield ("C11:connected-not-routable", f"SendTo result {a}, but that peer is connected (expected {b})")
                elif kind == "S":
                    yield ("C11:left-still-routable", f"SendTo result {a}, but no connection of that peer is registered (expected {b})")
                else:
                    yield ("C11:list-mismatch", f"List result {a}, connected peers are {b}")
                break
        else:
            yield ("C11:harness-output", f"result count {len(f['res'])} vs {len(res_exp)}")
    live_s = sorted(f"{a}:{b}:{c}" for a, b, c in live)
    key = lambda s: tuple(int(x) for x in s.split(":"))
    live_s.sort(key=key)
    for name in ("conns", "idx"):
        have = f[name]
        missing = [e for e in live_s if e not in have]
        extra = [e for e in have if e not in live_s]
        if missing:
            yield ("C11:connected-not-routable", f"connected {missing} missing from table {name}={have}")
        if extra:
            yield ("C11:left-still-listed", f"table {name} still holds {extra}; connected are {live_s}")
    sids = sorted({e.split(":")[0] for e in live_s}, key=int)
    for name in ("reg", "regidx"):
        if f[name] != sids:
            if [x for x in f[name] if x not in sids]:
                yield ("C11:session-leak", f"{name}={f[name]} although only sessions {sids} have connected peers")
            else:
                yield ("C11:connected-not-routable", f"{name}={f[name]} but sessions {sids} have connected peers")
    livec = {e[1] for e in live}
    closed = set(f["closed"])
    if (added - livec) - closed:
        yield ("C11:channel-leak", f"connections {sorted((added - livec) - closed)} were unregistered but their channel/writer is still open")
    if livec & closed:
        yield ("C11:live-channel-closed", f"connections {sorted(livec & closed)} are registered but their channel is closed")
    if set(f["kicked"]) != kicked_exp:
        yield ("C11:kick-mismatch", f"closeFn called for {f['kicked']}, CloseSession detached {sorted(kicked_exp)}")
    for c, ms in f["recv"].items():
        for m in ms:
            if m.split("/")[0] != home.get(c):
                yield ("C11:cross-session", f"connection {c} of session {home.get(c)} received {m}")
        if len(set(ms)) != len(ms):
            yield ("C11:duplicate-delivery", f"connection {c} received {ms}")
