"""C12 — host admission. Theorems: Props/C12.lean over Model/Admission (handlers transcribed event by event).
Tie (b): every event history is run on a REAL SnapshotSender (stub transfer function that reports start,
context cancellation and returns when told) and on the model; queue, active set, statuses and running
transfers must agree after every event."""
import itertools
import json
import re

LEVEL = "proof"


def gen(ctx):
    rng = ctx.rng
    cases, seen = [], set()

    def add(mx, ttl, evs):
        line = f"adm {mx} {ttl} " + " ".join(evs)
        if line not in seen:
            seen.add(line)
            cases.append(line)

    peers2 = ["p1", "p2"]
    alpha = []
    for p in peers2:
        alpha += [f"j:{p}", f"a:{p}", f"l:{p}", f"f:{p}#0:1", f"f:{p}#0:0", f"f:{p}#1:1", f"f:{p}#0:2"]
    alpha.append("t:700")
    L = 4 if ctx.tier == "thorough" else 3
    for mx in (1, 2):
        for n in range(1, L + 1):
            for seq in itertools.product(alpha, repeat=n):
                # prune sequences that start with a no-op finish
                if seq[0].startswith("f:"):
                    continue
                add(mx, 600, list(seq))
    # a receiver waiting for the only slot(s) for many idle periods while the ones ahead are served; then the slot frees
    for mx in (1, 2):
        ahead = [f"p{i}" for i in range(1, mx + 1)]
        pre = [x for p in ahead for x in (f"j:{p}", f"a:{p}")] + ["j:p8", "a:p8", "j:p9", "a:p9"]
        for ticks in (["t:601"], ["t:300", "t:400"], ["t:5000", "t:5000", "t:5000"]):
            for ok in "012":
                add(mx, 600, pre + ticks + [f"f:p1#0:{ok}"] + ticks + [f"f:p8#0:{ok}"])
    # P11-shaped histories with every placement of the stale finish
    base = ["j:p1", "a:p1", "l:p1", "j:p1", "a:p1", "j:p2", "a:p2"]
    for mx in (1, 2):
        for i in range(3, len(base) + 1):
            for ok in "01":
                add(mx, 600, base[:i] + [f"f:p1#0:{ok}"] + base[i:] + ["f:p1#1:1", "f:p2#0:1"])
    n = 3000 if ctx.tier == "thorough" else 700
    for _ in range(n):
        npeers = rng.range(2, 5)
        peers = [f"p{i}" for i in range(1, npeers + 1)]
        mx = rng.range(1, 3)
        starts = {p: 0 for p in peers}
        evs = []
        for _ in range(rng.range(4, 28)):
            p = rng.choice(peers)
            r = rng.below(20)
            if r < 3:
                evs.append(f"j:{p}")
            elif r < 9:
                evs.append(f"a:{p}")
                starts[p] += 1
            elif r < 12:
                evs.append(f"l:{p}")
            elif r < 19:
                evs.append(f"f:{p}#{rng.range(0, max(starts[p] - 1, 0))}:{rng.below(3)}")
            else:
                evs.append(f"t:{rng.choice([10, 599, 601, 5000])}")
        add(mx, 600, evs)
    return cases


STATE = re.compile(r"q=\[(.*?)\] a=\[(.*?)\] s=\{(.*?)\} r=\[(.*?)\]")


def parse_state(txt):
    m = STATE.search(txt)
    if not m:
        return None
    q = [x for x in m.group(1).split(",") if x]
    a = [x for x in m.group(2).split(",") if x]
    s = dict(x.split(":") for x in m.group(3).split(",") if x)
    r = {}
    for x in m.group(4).split(","):
        if x:
            lbl, c = x.rsplit(":", 1)
            r[lbl] = c == "1"
    return q, a, s, r


def search(ctx, cases, impl):
    nontrivial = 0
    for line, out in zip(cases, impl):
        parts = line.split()
        mx = int(parts[1])
        evs = parts[3:]
        states = out.split(" ; ")
        if len(states) != len(evs) or "UNSETTLED" in out or "panic" in out:
            ctx.violation("C12:harness-output", f"unexpected output {out[:200]!r}", {"case": line, "impl": out[:2000]})
            continue
        prev = ([], [], {}, {})
        used = False
        for i, (ev, txt) in enumerate(zip(evs, states)):
            if txt == "nop":
                continue
            st = parse_state(txt)
            if st is None:
                ctx.violation("C12:harness-output", f"unparsable state {txt[:100]!r}", {"case": line})
                break
            q, a, s, r = st
            hist = {"case": line, "after_event": i, "event": ev, "state": txt}
            live = [l for l, c in r.items() if not c]
            if len(live) > mx or len(a) > mx:
                ctx.violation("C12:cap-exceeded", f"{len(live)} uncancelled transfers running / {len(a)} active with max-receivers={mx}", hist)
            if len(set(q)) != len(q):
                ctx.violation("C12:queue-duplicate", "a receiver is queued twice", hist)
            for p, v in s.items():
                if (v == "QUEUED") != (p in q):
                    ctx.violation("C12:status-queue-mismatch", f"{p} status {v} but queue {q}", hist)
                if (v == "TRANSFERRING") != (p in a):
                    ctx.violation("C12:status-active-mismatch", f"{p} status {v} but active {a}", hist)
            for p in q + a:
                if p not in s:
                    ctx.violation("C12:unknown-peer-in-queue-or-active", f"{p} queued/active without a receiver record", hist)
            if q and len(a) != mx:
                ctx.violation("C12:not-eager", f"queue {q} non-empty but only {len(a)}/{mx} slots busy", hist)
            if sorted(p for p in {l.split('#')[0] for l in live}) != sorted(a):
                ctx.violation("C12:active-vs-running", f"active {a} but uncancelled running transfers {live}", hist)
            for l, c in r.items():
                if l not in prev[3] and c:
                    ctx.violation("C12:started-cancelled", f"transfer {l} was started with an already cancelled context", hist)
            # a receiver that was waiting keeps waiting or is being served, unless it is the one that left (whatever else happened: other
            # receivers' events, transfer ends of any kind, idle clean-up ticks however late)
            for p, v in prev[2].items():
                if v == "QUEUED" and ev != f"l:{p}" and s.get(p) not in ("QUEUED", "TRANSFERRING"):
                    ctx.violation("C12:waiting-receiver-dropped", f"{p} was waiting in the queue and did not leave, but after {ev} its state is {s.get(p, 'forgotten')} "
                                  f"(queue {q}, serving {a}, max-receivers {mx})", hist)
            if ev.startswith("l:"):
                p = ev[2:]
                if p in q or p in a or any((l.split("#")[0] == p and not c) for l, c in r.items()):
                    ctx.violation("C12:leave-not-released", f"{p} left but is still queued/active/uncancelled", hist)
            newly = [l for l in r if l not in prev[3]]
            if newly:
                used = True
                # FIFO: the peers started in this event are the head of the previous queue (after this event's own enqueue/removal)
                started = [l.split("#")[0] for l in sorted(newly)]
                pq = list(prev[0])
                if ev.startswith("a:") and ev[2:] not in pq and prev[2].get(ev[2:]) != "TRANSFERRING":
                    pq.append(ev[2:])
                if ev.startswith("l:"):
                    pq = [x for x in pq if x != ev[2:]]
                if sorted(started) != sorted(pq[:len(started)]):
                    ctx.violation("C12:not-fifo", f"started {started} but queue order was {pq}", hist)
            prev = st
        if used:
            nontrivial += 1
    return nontrivial


def run(ctx):
    ctx.regen()
    ok, thms = ctx.lean_props()
    if ok:
        ctx.audit(thms)
    if ctx.tier == "thorough":
        ctx.leanchecker()
    ctx.build_driver()
    exe = ctx.build_harness("app")
    if not exe:
        ctx.oblige("harness.build", False, getattr(ctx, "harness_err", "")[-400:])
        return ctx.finish(LEVEL)
    cases = gen(ctx)
    impl, model, diffs = ctx.differential("adm", cases, exe, timeout=600)
    nt = search(ctx, cases, impl)
    # the handlers are called concurrently in the application (WebSocket reader, returning transfer goroutines): free-running storms on the
    # real SnapshotSender, the stub counts the transfers that run un-cancelled at the same time
    import os as _os
    storms = []
    for k in range(16 if ctx.tier == "thorough" else 5):
        storms.append({"max": ctx.rng.range(1, 3), "peers": ctx.rng.range(3, 7), "workers": ctx.rng.range(3, 9), "millis": 1500 if ctx.tier == "thorough" else 500})
    # the idle clean-up tick runs on its own goroutine in the application: storms in which the clock keeps jumping past the TTL while
    # clean-up ticks run next to the other handlers
    for k in range(8 if ctx.tier == "thorough" else 3):
        storms.append({"max": ctx.rng.range(1, 3), "peers": ctx.rng.range(3, 7), "workers": ctx.rng.range(3, 7), "cleaners": ctx.rng.range(1, 3), "millis": 1500 if ctx.tier == "thorough" else 500})
    # the application redraws its display in the change notification, which the handlers call between their critical sections
    for k in range(8 if ctx.tier == "thorough" else 3):
        storms.append({"max": ctx.rng.range(2, 4), "peers": ctx.rng.range(4, 8), "workers": ctx.rng.range(3, 7), "change_cb_us": ctx.rng.choice([100, 300, 1000]), "millis": 1500 if ctx.tier == "thorough" else 500})
    spath = _os.path.join(ctx.workdir, "admstorm.cases")
    open(spath, "w").write("\n".join("admstorm " + json.dumps(sp).encode().hex() for sp in storms) + "\n")
    rcs = ctx.run_harness(exe, spath, _os.path.join(ctx.workdir, "admstorm.out"), timeout=300)
    souts = open(_os.path.join(ctx.workdir, "admstorm.out")).read().splitlines()
    ctx.oblige("harness:admstorm", rcs == 0 and len(souts) == len(storms), ctx.harness_stderr[-200:] if rcs else "")
    storm_started = 0
    for sp, so in zip(storms, souts):
        try:
            o = json.loads(so)
        except Exception:
            ctx.violation("C12:harness-output", f"storm output {so[:200]!r}", {"storm": sp})
            continue
        rep = {"storm": sp, "result": o}
        storm_started += o.get("started", 0)
        if o.get("peak_uncancelled_transfers", 0) > sp["max"]:
            ctx.violation("C12:cap-exceeded-concurrently", f"{o['peak_uncancelled_transfers']} un-cancelled transfers ran at once with max-receivers={sp['max']} when the handlers were called concurrently: {o.get('first_over_limit', '')[:300]}", rep)
        if o.get("same_peer_twice"):
            ctx.violation("C12:peer-transferring-twice", f"receiver {o['same_peer_twice']} had two un-cancelled transfers running at once", rep)
        if o.get("stalled") or o.get("panics"):
            ctx.violation("C12:handlers-stall-or-panic", f"concurrent handler calls stalled or panicked: {o.get('panics')}", rep)
        if o.get("stranded"):
            ctx.violation("C12:waiting-receiver-not-started", f"after the handlers stopped a receiver kept waiting in the queue next to a free slot for 300 ms (queue {o.get('final_queue')}, "
                          f"slots in use {o.get('final_active')} of {sp['max']}): nobody will start it", rep)
        if o.get("final_queue") != o.get("final_status_queued") or o.get("final_active") != o.get("final_status_transferring"):
            ctx.violation("C12:status-queue-mismatch", f"after the storm: queue {o.get('final_queue')} vs {o.get('final_status_queued')} QUEUED, slots {o.get('final_active')} vs {o.get('final_status_transferring')} TRANSFERRING", rep)
    # directed: the pass that serves a freed slot is held in the change notification while another transfer ends
    hp = _os.path.join(ctx.workdir, "admhold.cases")
    open(hp, "w").write("admhold\n" * 3)
    rch = ctx.run_harness(exe, hp, _os.path.join(ctx.workdir, "admhold.out"), timeout=120)
    houts = open(_os.path.join(ctx.workdir, "admhold.out")).read().splitlines()
    ctx.oblige("harness:admhold", rch == 0 and len(houts) == 3, ctx.harness_stderr[-200:] if rch else "")
    for ho in houts:
        try:
            o = json.loads(ho)
        except Exception:
            ctx.oblige("harness:admhold-output", False, ho[:200])
            continue
        if o.get("setup_err"):
            ctx.oblige("harness:admhold-setup", False, o["setup_err"])
        elif not o.get("d_started") or not o.get("c_started"):
            ctx.violation("C12:waiting-receiver-not-started", f"max-receivers 2, a and b served, c and d waiting; a ended, the pass serving its slot was held in the change notification "
                          f"while b ended: afterwards c started={o.get('c_started')} d started={o.get('d_started')}, queue {o.get('queue')}, slots {o.get('active')}", {"scenario": "admhold", "result": o})
            break
    ctx.coverage.update({
        "storms": len(storms), "storm_transfers_started": storm_started,
        "evaluations": len(cases) + len(storms), "distinct_nontrivial": nt,
        "rule": "event histories over {join, accept, leave, finish(run,ok), tick} : EXHAUSTIVE for 2 receivers up to length 3|4 and max-receivers in {1,2}; "
                "stale-finish placements around leave/re-accept; seeded histories over 2-5 receivers up to 28 events; run on a REAL SnapshotSender with a stub transfer function. "
                "non-trivial = histories in which at least one transfer was started",
        "samples": [cases[100], cases[len(cases) // 2], cases[-1]],
        "disagreements_model_vs_impl": len(diffs),
    })
    ctx.assumptions += ["each handler is atomic (it runs under SnapshotSender.mu); the differential waits for runTransfer's return hook before the next event; concurrent calls are sampled by free-running storms (3-8 goroutines, some with 1-2 goroutines running the idle clean-up tick against a clock that keeps jumping past the TTL), which can show a violation of the cap, not exclude one",
                        "TransferStart/TransferQueued messages are not compared (no WebSocket sink in this harness)"]
    return ctx.finish(LEVEL)


def replay(ctx, path):
    print(json.dumps(json.load(open(path)), indent=1)[:4000])
    return run(ctx)
