"""C01 — fidelity on mutual success. Theorems: Props/C01.lean (per-file inductive invariant; finalised ok => identical,
incl. duplicates, overtaking FileEnd, resumed and repaired chunks). Tie (b): the real Send/RecvManifestMultiStream on
generated trees over netsim (QUIC stream visibility), the repo's mock transport and real loopback QUIC, single and
multi-connection, both root modes, both scan modes, resume off/on/with partial state; whenever both report success the
output tree must equal the source tree exactly."""
import json
from checks import e2egen as G

LEVEL = "proof"


def run(ctx):
    ctx.regen()
    ok, thms = ctx.lean_props()
    if ok:
        ctx.audit(thms)
    if ctx.tier == "thorough":
        ctx.leanchecker()
    exe = ctx.build_harness("xfer")
    if not exe:
        ctx.oblige("harness.build", False, getattr(ctx, "harness_err", "")[-400:])
        return ctx.finish(LEVEL)
    rng = ctx.rng
    n = 160 if ctx.tier == "quick" else 900
    cases = []
    for k in range(n):
        c = G.healthy_case(rng, k, ["netsim", "netsim", "netsim-eager", "mock"], odd=(k % 7 == 0))
        if c["transport"] == "mock":
            c["conns"] = 1
        # resume with partial prior state for some
        if c["resume"] and c["files"] and c["scan"] == "dir" and rng.chance(1, 3):
            f = rng.choice(c["files"])
            total = (f["n"] + c["chunk"] - 1) // c["chunk"] if c["chunk"] else 0
            if 0 < total <= 64:
                marked = sorted({rng.below(total) for _ in range(rng.range(1, total))})
                pr = {"file": f["p"], "chunks": marked}
                if rng.chance(1, 3):
                    pr["damage"] = [max(marked)]
                c["prior"] = [pr]
                c["noroot"] = True
        cases.append(c)
    nq = 12 if ctx.tier == "quick" else 80
    for k in range(nq):
        c = G.healthy_case(rng, 10000 + k, ["quic"])
        c["chunk"] = rng.choice([64, 4096])
        c["files"] = [dict(f, n=min(f["n"], 6 * c["chunk"])) for f in c["files"][:6]]
        c["timeout_ms"] = 10000
        cases.append(c)
    cases += G.sibling_cases(rng)
    rc, results = G.run_xfer(ctx, exe, "healthy", cases, timeout=1500)
    if rc != 0 or len(results) != len(cases):
        ctx.oblige("harness:run", False, f"rc={rc} results={len(results)}/{len(cases)} {ctx.harness_stderr[-300:]}")
    both_ok = nontrivial = 0
    dist = {}
    for c, r in zip(cases, results):
        key = f"{c['transport']}/conns{c['conns']}"
        dist[key] = dist.get(key, 0) + 1
        if r.get("note"):
            ctx.oblige(f"run:{c['name']}", False, r["note"][:200])
            continue
        if r.get("sender_ok") and r.get("recv_ok"):
            both_ok += 1
            if c["files"]:
                nontrivial += 1
            if not r.get("equal"):
                ctx.violation("C01:tree-differs:" + c["transport"] + (":resumed" if c.get("prior") else ""),
                              f"both endpoints reported success but the output tree differs: {r.get('diff')}", {"case": G.strip(c), "result": r})
    # one sender process, two receivers (what `thru host` does): the first transfer is cancelled while one of its chunk reads is queued
    # in the shared read pool; the read workers' schedule is scripted so that the abandoned read completes late. The second transfer
    # must deliver the source bytes (or fail), whatever became of the first one's buffers.
    rcs, sres = G.run_xfer(ctx, exe, "stalebuf", [{"mode": "stalebuf", "name": f"stale-{i}"} for i in range(3)], timeout=120)
    ctx.oblige("harness:stalebuf", rcs == 0 and len(sres) == 3, ctx.harness_stderr[-300:])
    for r in sres:
        if r.get("note"):
            ctx.oblige(f"run:{r['name']}", False, r["note"][:200])
        elif r.get("sender_ok") and r.get("recv_ok") and not r.get("equal"):
            ctx.violation("C01:tree-differs:recycled-buffer", "a transfer that ran after another one of the same sender process was cancelled reported success on both sides but delivered "
                          f"other bytes: {r.get('diff')} (chunk buffer recycled into it while the cancelled transfer's read was still pending: {r.get('buffer_recycled_into_b')})",
                          {"scenario": "stalebuf", "result": r})
    bigs = G.big_cases(rng, ctx.tier == "thorough")
    rcb, bres = G.run_xfer(ctx, exe, "big", bigs, timeout=600)
    ctx.oblige("harness:big", rcb == 0 and len(bres) == len(bigs), ctx.harness_stderr[-300:])
    nbig = G.judge_big(ctx, "C01", bigs, bres)
    ctx.coverage.update({
        "big_sparse_files_above_4GiB": nbig,
        "evaluations": len(cases) + len(bigs), "distinct_nontrivial": nontrivial + nbig,
        "rule": "trees: 0-12 files with sizes at k*chunk-1,k*chunk,k*chunk+1 and 0, nesting 0-2, empty directories, every 7th with odd legal names (a..b, spaces, backslash, unicode, 200-byte names); "
                "chunk in {1,7,64,4096,1MiB}; streams {1,2,3,4,8}; connections {1,2,4}; transports netsim (lazy stream visibility), netsim-eager, repo mock, real loopback QUIC; both root modes; "
                "Scan and ScanPaths; resume off / on / on with a partial prior state (incl. damaged highest chunk); sparse files of 4-12 GiB resumed so that only chunks beyond 2^32 bytes travel. non-trivial = runs with at least one file in which both endpoints returned nil",
        "samples": [json.dumps(G.strip(cases[1]))[:300], json.dumps(G.strip(cases[-1]))[:300]],
        "both_ok": both_ok, "distribution": dist,
    })
    ctx.assumptions += ["runs that fail or hang are C03/C02 matter, not C01 violations",
                        "atomicity finer than the model's steps, the Go scheduler, quic-go and the kernel file system are exercised, not proved",
                        "per-file theorem lifts to the manifest because file keys are distinct and frames carry their key (fileKeyForItem); multi-connection stream ids are kept apart by makeVirtualStreamID (C19 translator covers it)"]
    return ctx.finish(LEVEL)


def replay(ctx, path):
    print(json.dumps(json.load(open(path)), indent=1)[:4000])
    return run(ctx)
