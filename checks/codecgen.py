"""Generators for control-protocol records (shared by C18 and C15)."""

U8, U16, U32, U64 = 2 ** 8 - 1, 2 ** 16 - 1, 2 ** 32 - 1, 2 ** 64 - 1


def hx(b):
    return b.hex() if b else "-"


def num(rng, mx):
    return rng.choice([0, 1, mx - 1, mx, rng.range(0, mx), rng.range(0, min(mx, 300))])


def name_bytes(rng, n):
    # mostly path-like bytes, sometimes arbitrary
    if rng.chance(1, 4):
        return rng.bytes(n)
    alphabet = b"abcdefgh.._-/ \\\xc3\xa9"
    return bytes(alphabet[rng.below(len(alphabet))] for _ in range(n))


def valid_path(rng, n):
    if n == 0:
        return b""
    alphabet = b"abcdefghijklmnopqrstuvwxyz0123456789._- "
    out = bytearray()
    while len(out) < n:
        seg = bytes(alphabet[rng.below(len(alphabet))] for _ in range(rng.range(1, 12)))
        if seg in (b"..",):
            seg = b"x."
        out += seg + b"/"
    out = bytes(out[:n])
    if out.endswith(b"/"):
        out = out[:-1] + b"z"
    out = out.replace(b"/../", b"/.a/")
    if out.startswith(b"../"):
        out = b"a" + out[1:]
    if out.endswith(b"/.."):
        out = out[:-1] + b"b"
    if out == b"..":
        out = b".a"
    if out.startswith(b"/"):
        out = b"r" + out[1:]
    return out


def gen_record(rng, kind=None, big=False):
    kind = kind or rng.choice(["FB", "CR", "CB", "FE", "FD", "RI", "RQ", "DS", "EN"])
    if kind == "FB":
        ln = rng.choice([1, 2, 1023, 1024, rng.range(1, 64), rng.range(1, 1024)])
        if rng.chance(1, 8):
            # multi-byte UTF-8 names around the 1024-BYTE limit (rune count well below it)
            unit = rng.choice(["\u00e9", "\u65e5", "\U0001f600"]).encode("utf-8")
            target = rng.choice([1020, 1023, 1024, 1025, 1026, 1030, 2048])
            p = (b"d/" + unit * (target // len(unit)))[:target] if rng.chance(1, 2) else unit * (target // len(unit))
        else:
            p = valid_path(rng, ln) if rng.chance(5, 6) else name_bytes(rng, rng.choice([0, ln, 1025, rng.range(0, 1100)]))
        return f"FB {hx(p)} {num(rng, U64)} {num(rng, U32)} {num(rng, U64)} {num(rng, U8)} {num(rng, U16)} {num(rng, U16)} {num(rng, U32)} {num(rng, U32)}"
    if kind == "CR":
        return f"CR {num(rng, U64)} {num(rng, U32)}"
    if kind == "CB":
        n = rng.choice([0, 1, 2, rng.range(0, 40)] + ([rng.range(1000, 5000)] if big else []))
        return "CB %d" % n + "".join(f" {num(rng, U64)} {num(rng, U32)}" for _ in range(n))
    if kind == "FE":
        return f"FE {num(rng, U64)} {num(rng, U32)}"
    if kind == "FD":
        n = rng.choice([0, 1, 2, rng.range(0, 80)] + ([65534, 65535] if big else []))
        return f"FD {num(rng, U64)} {rng.below(2)} {hx(name_bytes(rng, n))}"
    if kind == "RI":
        n = rng.choice([0, 1, 2, rng.range(0, 64)] + ([65535] if big else []))
        bm = rng.choice([0, 1, 2, rng.range(0, 64)] + ([70000, 200000] if big else []))
        return f"RI {hx(name_bytes(rng, n))} {num(rng, U64)} {num(rng, U32)} {hx(rng.bytes(bm))} {num(rng, U32)} {num(rng, U64)}"
    if kind == "RQ":
        n = rng.choice([0, 1, 2, rng.range(0, 64)] + ([65535] if big else []))
        return f"RQ {hx(name_bytes(rng, n))} {num(rng, U64)}"
    if kind == "DS":
        return f"DS {num(rng, U16)}"
    return "EN"


KINDS = ["FB", "CR", "CB", "FE", "FD", "RI", "RQ", "DS", "EN"]


def strip_alloc(line):
    return " ".join(t for t in line.split(" ") if not t.startswith("alloc="))
