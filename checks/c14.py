"""C14 — join-code lifetime and server limits. Theorems: Props/C14.lean over Model/Server (store invariant, lifetime,
never-afterwards, limits under every sequence of atomic resource operations = every interleaving of handlers, zero = no
limit, token bucket bound). Tie: (1) the real session.Store driven in-process with a scripted crypto/rand.Reader (forced
join-code collisions) and aged sessions vs the model, the two real maps compared after every op; (2) the real tokenBucket and
connLimiter (inside the thruserv binary) vs the model; (3) sequential histories of the REAL thruserv binary (session creation,
joins with every refusal kind, disconnects, host leave, expiry by timer, message sizes) vs the handler model, plus a direct
property oracle over the transcript; (4) concurrent bursts against the real binary with the window between limit test and
action widened through the verif hook points: the bounds of C14_limits must hold."""
import json
import os
import subprocess
import threading

LEVEL = "proof"
NOLIM = ["--ws-connects-per-min", "0", "--session-creates-per-min", "0", "--ws-msgs-per-sec", "0", "--ws-idle-timeout", "0"]


def run_parallel(ctx, exe, name, cases, env, workers=8, timeout=900):
    """run the harness on `cases` in `workers` processes; results in case order"""
    chunks = [[] for _ in range(workers)]
    for i, c in enumerate(cases):
        chunks[i % workers].append((i, c))
    res = [None] * len(cases)
    errs = []

    def work(k):
        if not chunks[k]:
            return
        cp = os.path.join(ctx.workdir, f"{name}.{k}.cases")
        op = os.path.join(ctx.workdir, f"{name}.{k}.out")
        open(cp, "w").write("\n".join(c for _, c in chunks[k]) + "\n")
        e = dict(os.environ)
        e.update(env)
        e["VERIF_SEED"] = str(ctx.seed)
        with open(cp, "rb") as fin, open(op, "wb") as fout:
            p = subprocess.run([exe], stdin=fin, stdout=fout, stderr=subprocess.PIPE, timeout=timeout, env=e)
        if p.returncode != 0:
            errs.append(f"worker {k} exit {p.returncode}: {p.stderr.decode()[-300:]}")
        lines = open(op).read().splitlines()
        for (i, _), l in zip(chunks[k], lines):
            res[i] = l

    ts = [threading.Thread(target=work, args=(k,)) for k in range(workers)]
    [t.start() for t in ts]
    [t.join() for t in ts]
    return res, errs


# ------------------------------------------------------------------------------------------------ generators
def gen_store(ctx, n):
    rng = ctx.rng
    cases = []
    fresh = [5000]

    def cands(k):
        cs = [rng.range(1, 6) for _ in range(k)]
        fresh[0] += 1
        return ",".join(str(c) for c in cs + [fresh[0]])

    for _ in range(n):
        ttl = rng.choice([0, 10500, 60500])   # ages below are whole seconds: every look-up is at least 500 ms away from an expiry instant
        ops = []
        nsess = 0
        for _ in range(rng.range(3, 30)):
            r = rng.below(20)
            if r < 8:
                ops.append(f"c:{rng.choice([0, 0, 1, 2, 3])}:{cands(rng.range(0, 4))}")
                nsess += 1
            elif r < 13:
                ops.append(f"g:{rng.choice([rng.range(1, 6), fresh[0], 77])}")
            elif r < 15:
                ops.append(f"x:{rng.range(1, max(nsess, 1) + 1)}")
            elif r < 17:
                ops.append("n")
            else:
                ops.append(f"a:{rng.choice([1000, 2000, 5000, 10000, 11000, 30000, 59000, 61000])}")
        cases.append(f"store {ttl} " + " ".join(ops))
    # aimed: collision chains of every length up to 6, expiry around the boundary
    for k in range(1, 7):
        cases.append("store 1000 " + " ".join(f"c:0:{','.join(str(j) for j in range(1, i + 2))}" for i in range(k)) + " n " + " ".join(f"g:{j}" for j in range(1, k + 2)))
    cases.append("store 1500 c:0:1 a:1000 g:1 a:1000 g:1 n c:0:1 g:1 n")
    cases.append("store 0 c:0:1 a:99999999 g:1 x:1 g:1 c:0:1 g:1")
    cases.append("store 1000 c:2:1 c:2:2 c:2:3 n x:1 c:2:3 n g:1 g:2 g:3")
    return list(dict.fromkeys(cases))


def gen_hist(ctx, n, with_time):
    rng = ctx.rng
    cases = []
    for k in range(n):
        ms_, mr_, mw_ = rng.choice([0, 1, 2, 3]), rng.choice([0, 1, 2]), rng.choice([0, 2, 3, 5])
        mm = rng.choice([0, 200, 1000])
        timed = with_time and k % 2 == 0
        ttl = 1500 if timed else rng.choice([0, 0, 600000])
        evs = []
        nsess = 0
        conns = {}   # idx -> (peer, open?)  (approximate: the generator does not know refusals)
        nconn = 0
        peers_used = {}
        elapsed = 0
        for _ in range(rng.range(4, 22)):
            r = rng.below(40)
            if r < 7 or nsess == 0:
                evs.append("c" if rng.chance(3, 4) else f"cm:{rng.choice(['1', '2', '5', '0', '-3', 'abc'])}")
                nsess += 1
            elif r < 24:
                sess = rng.choice([str(rng.range(1, nsess))] * 6 + ["x", "-", str(nsess + 3)])
                role = rng.choice(["r", "r", "r", "s", "s", "o"])
                peer = rng.choice([f"p{rng.range(1, 9)}"] * 8 + ["-"])
                w = f"w:{sess}:{peer}:{role}"
                if role == "s" and rng.chance(1, 3):
                    w += f":{rng.choice(['1', '2', '7', '0', 'zz'])}"
                evs.append(w)
                nconn += 1
                conns[nconn] = peer
                peers_used[peer] = peers_used.get(peer, 0) + 1
            elif r < 30 and nconn:
                evs.append(f"d:{rng.range(1, nconn)}")
            elif r < 35 and nconn:
                c = rng.range(1, nconn)
                if peers_used.get(conns[c], 0) == 1 and conns[c] != "-":   # the echo probe needs an unambiguous peer id
                    base = mm if mm else 65536
                    evs.append(f"m:{c}:{rng.choice([60, base - 1, base, base + 1, base + 500, 70000])}")
            elif timed and elapsed < 3000 and r < 38:
                evs.append("t:1000")
                elapsed += 1000
        flags = NOLIM + ["--max-sessions", str(ms_), "--max-receivers-per-sender", str(mr_), "--max-ws-connections", str(mw_),
                         "--max-message-bytes", str(mm), "--session-timeout", f"{ttl}ms"]
        cases.append({"cfg": (ms_, mr_, mw_, mm, ttl), "flags": flags, "evs": evs})
    # aimed histories
    aimed = [
        ((2, 1, 0, 0, 0), ["c", "c", "c", "w:1:p1:s", "w:1:p2:r", "w:1:p3:r", "d:2", "w:1:p3:r", "d:1", "w:1:p4:r", "c", "w:3:p1:s"]),
        ((0, 0, 0, 0, 0), ["c"] * 6 + ["w:1:p1:s"] + [f"w:1:p{i}:r" for i in range(2, 9)] + ["m:1:70000", "m:1:300000"]),
        ((0, 2, 2, 0, 0), ["c", "w:1:p1:s", "w:1:p2:r", "w:1:p3:r", "d:2", "w:1:p3:r", "w:1:p2:r", "d:1", "w:1:p1:s"]),
        ((0, 0, 0, 100, 0), ["c", "w:1:p1:s", "w:1:p2:r", "m:2:100", "m:2:101", "w:1:p2:r", "m:1:99", "m:1:150", "w:1:p9:r"]),
        ((0, 1, 0, 0, 0), ["c", "w:1:p1:s", "w:1:p2:r", "w:1:p2:r", "w:1:p3:r", "d:2", "d:3", "w:1:p3:r"]),   # reconnect with the same peer id replaces
        ((0, 0, 0, 0, 0), ["c", "w:1:p1:s", "w:1:p1:s", "d:2", "w:1:p5:r", "d:3", "w:1:p6:r"]),                # host reconnects, old socket ends later
    ]
    # a receiver that uses the host's peer id takes the host's place in the routing table; the host's own disconnect still ends the session
    aimed += [
        ((0, 0, 0, 0, 0), ["c", "w:1:p1:s", "w:1:p1:r", "d:1", "w:1:p5:r", "w:1:p1:r", "c", "w:2:p1:s"]),
        ((0, 0, 0, 0, 0), ["c", "w:1:p1:s", "w:1:p1:r", "d:2", "d:1", "w:1:p5:r"]),
        ((1, 0, 0, 0, 0), ["c", "w:1:p1:s", "w:1:p2:r", "w:1:p1:r", "d:1", "c", "w:1:p6:r", "w:2:p1:s"]),
        ((0, 2, 0, 0, 0), ["c", "w:1:p3:s", "w:1:p3:r", "w:1:p3:r", "d:1", "w:1:p4:r", "d:2", "d:3", "w:1:p4:r"]),
    ]
    if with_time:
        aimed += [
            ((0, 0, 0, 0, 1500), ["c", "w:1:p1:s", "w:1:p2:r", "t:1000", "w:1:p3:r", "t:1000", "w:1:p4:r", "c", "w:2:p1:s"]),
            ((1, 0, 0, 0, 1500), ["c", "c", "t:2000", "c", "w:1:p1:s", "w:2:p1:s", "t:1000", "w:2:p2:r", "t:1000", "w:2:p3:r", "c"]),
            ((0, 0, 2, 0, 1500), ["c", "w:1:p1:s", "w:1:p2:r", "w:1:p3:r", "t:2000", "c", "w:2:p1:s", "w:2:p2:r", "w:2:p3:r"]),
            ((0, 0, 0, 0, 1500), ["c", "w:1:p1:s", "d:1", "t:2000", "c", "w:2:p2:s", "w:1:p3:r"]),
        ]
    for cfg, evs in aimed:
        flags = NOLIM + ["--max-sessions", str(cfg[0]), "--max-receivers-per-sender", str(cfg[1]), "--max-ws-connections", str(cfg[2]),
                         "--max-message-bytes", str(cfg[3]), "--session-timeout", f"{cfg[4]}ms"]
        cases.append({"cfg": cfg, "flags": flags, "evs": evs})
    return cases


# ------------------------------------------------------------------------------------------------ property oracle
def oracle(ctx, case, toks):
    """C14 evaluated directly on the transcript of the real server (no model involved)."""
    ms_, mr_, mw_, mm, ttl = case["cfg"]
    evs = case["evs"]
    rep = {"flags": case["flags"], "events": evs, "answers": toks}
    live = {}      # session idx -> created at (nominal ms)
    dead = set()
    conns = {}     # conn idx -> (sid, role, peer, still registered?)
    nsess = nconn = 0
    now = 0

    def expire():
        for sid, t0 in list(live.items()):
            if ttl and now > t0 + ttl:
                del live[sid]
                dead.add(sid)

    for ev, tok in zip(evs, toks):
        f = ev.split(":")
        if f[0] in ("c", "cm"):
            if tok.startswith("201:"):
                nsess += 1
                live[nsess] = now
                if ms_ and len(live) > ms_:
                    ctx.violation("C14:session-limit-exceeded", f"{len(live)} live sessions with --max-sessions {ms_}", rep)
            elif tok == "429:session_limit_reached":
                if ms_ == 0 or len(live) < ms_:
                    ctx.violation("C14:session-refused-below-limit", f"refused with {len(live)} live sessions, --max-sessions {ms_}", rep)
            elif tok.startswith("429:max_receivers") and mr_ == 0:
                ctx.violation("C14:zero-limit-refuses", "max_receivers refused although --max-receivers-per-sender is 0", rep)
        elif f[0] == "w":
            nconn += 1
            sid = int(f[1]) if f[1].isdigit() else None
            if tok.startswith("ok:"):
                if sid not in live:
                    why = "after its session ended" if sid in dead else "for a session that never existed"
                    ctx.violation("C14:dead-code-admits", f"join code of session {sid} admitted a peer {why}", rep)
                # same peer id again: the old registration is replaced (its socket stays open)
                for c, v in conns.items():
                    if v[0] == sid and v[2] == f[2]:
                        conns[c] = (v[0], v[1], v[2], False)
                conns[nconn] = (sid, f[3], f[2], True)
                recv = sum(1 for v in conns.values() if v[0] == sid and v[1] == "r" and v[3])
                if mr_ and f[3] == "r" and recv > mr_:
                    ctx.violation("C14:receiver-limit-exceeded", f"{recv} receivers registered in one session with --max-receivers-per-sender {mr_}", rep)
                if mw_ and len(conns) > mw_:
                    ctx.violation("C14:connection-limit-exceeded", f"{len(conns)} open sockets with --max-ws-connections {mw_}", rep)
            elif tok == "404":
                if sid in live and f[2] != "" and not (ttl and abs(now - (live[sid] + ttl)) < 400):
                    ctx.violation("C14:live-code-refused", f"join code of live session {sid} answered 404", rep)
            elif tok == "429:receiver_limit_reached" and mr_ == 0:
                ctx.violation("C14:zero-limit-refuses", "receiver refused although --max-receivers-per-sender is 0", rep)
            elif tok == "429:connection_limit_reached" and mw_ == 0:
                ctx.violation("C14:zero-limit-refuses", "connection refused although --max-ws-connections is 0", rep)
            elif tok == "429:receiver_limit_reached":
                recv = sum(1 for v in conns.values() if v[0] == sid and v[1] == "r" and v[3])
                if recv < mr_:
                    ctx.violation("C14:receiver-refused-below-limit", f"refused with {recv} receivers, limit {mr_}", rep)
            elif tok == "429:connection_limit_reached" and len(conns) < mw_:
                ctx.violation("C14:connection-refused-below-limit", f"refused with {len(conns)} open sockets, limit {mw_}", rep)
        elif f[0] == "d":
            c = int(f[1])
            if c in conns and tok.startswith("closed"):
                v = conns.pop(c)
                if v[1] == "s" and v[0] in live:
                    del live[v[0]]
                    dead.add(v[0])
        elif f[0] == "t":
            now += int(f[1])
            expire()
            for c in [int(x) for x in tok[2:].split(",") if x]:
                conns.pop(c, None)
        elif f[0] == "m":
            c, size = int(f[1]), int(f[2])
            if c in conns:
                if tok == "dropped":
                    if mm == 0 or size <= mm:
                        ctx.violation("C14:message-within-limit-dropped" if mm else "C14:zero-limit-refuses",
                                      f"a {size}-byte message closed the connection with --max-message-bytes {mm}", rep)
                    v = conns.pop(c)
                    if v[1] == "s" and v[0] in live:
                        del live[v[0]]
                        dead.add(v[0])
                elif tok == "kept" and mm and size > mm:
                    ctx.violation("C14:message-size-exceeded", f"a {size}-byte message was processed with --max-message-bytes {mm}", rep)


def store_oracle(ctx, case, out):
    """C14 on the transcript of the real Store alone: a code finds exactly its live, unexpired session; the limit is neither exceeded nor
    applied below it; 0 = no limit"""
    f = case.split()
    ttl = int(f[1])
    toks = [t for t in out.split() if not t.startswith("MAPS:")]
    ops = f[2:]
    if len(toks) != len(ops):
        return
    live = {}      # idx -> (code, created at)
    now = 0
    rep = {"case": case, "impl": out[:1500]}
    for op, tok in zip(ops, toks):
        g = op.split(":")
        if g[0] == "c":
            mx = int(g[1])
            if tok.startswith("ok:"):
                _, idx, code = tok.split(":")
                if mx > 0 and len(live) >= mx:
                    ctx.violation("C14:session-limit-exceeded", f"CreateLimited({mx}) created a session with {len(live)} stored", rep)
                if any(c == int(code) for c, _ in live.values()):
                    ctx.violation("C14:duplicate-join-code", f"join code {code} given to a second live session", rep)
                live[int(idx)] = (int(code), now)
            elif tok == "limit":
                if mx == 0 or len(live) < mx:
                    ctx.violation("C14:zero-limit-refuses" if mx == 0 else "C14:session-refused-below-limit", f"CreateLimited({mx}) refused with {len(live)} sessions stored", rep)
        elif g[0] == "g":
            code = int(g[1])
            holder = [i for i, (c, t0) in live.items() if c == code]
            alive = [i for i in holder if not (ttl and now - live[i][1] > ttl)]
            if tok.startswith("some:"):
                if int(tok[5:]) not in alive:
                    ctx.violation("C14:dead-code-admits", f"GetByJoinCode({code}) returned session {tok[5:]}, which is {'expired' if int(tok[5:]) in holder else 'not the holder of that code'}", rep)
            else:
                if alive:
                    ctx.violation("C14:live-code-refused", f"GetByJoinCode({code}) found nothing although session {alive[0]} holds it and has not expired", rep)
                for i in holder:       # lazily dropped
                    del live[i]
        elif g[0] == "x":
            live.pop(int(g[1]), None)
        elif g[0] == "a":
            now += int(g[1])
        elif g[0] == "n":
            if tok.isdigit() and int(tok) != len(live):
                ctx.violation("C14:store-count-differs", f"Count() = {tok} with {len(live)} sessions stored", rep)


def run(ctx):
    ctx.regen()
    ok, thms = ctx.lean_props()
    if ok:
        ctx.audit(thms)
    if ctx.tier == "thorough":
        ctx.leanchecker()
    ctx.build_driver()
    exe = ctx.build_harness("serv")
    srv = ctx.build_thruserv() if exe else None
    if not exe or not srv:
        ctx.oblige("harness.build", False, getattr(ctx, "harness_err", "")[-400:])
        return ctx.finish(LEVEL)
    thorough = ctx.tier == "thorough"
    rng = ctx.rng
    # ---- 1. the real Store
    scases = gen_store(ctx, 8000 if thorough else 400)
    impl, model, diffs = ctx.differential("store", scases, exe, timeout=600)
    for c, o in zip(scases, impl):
        store_oracle(ctx, c, o)
        if "MAPS:" in o:
            ctx.violation("C14:store-maps-disagree", "sessions and byCode disagree after an operation: " + o[o.index("MAPS:"):][:200], {"case": c, "impl": o})
    # ---- 2. tokenBucket / connLimiter inside the binary
    bcases, ccases = [], []
    for _ in range(3000 if thorough else 120):
        rate = rng.choice([1, 2, 5, 10, 50]) * 1000
        burst = rng.choice([0, 1, 2, 5, 10])
        dts = [rng.choice([0, 0, 10, 50, 100, 250, 500, 1000, 3000]) for _ in range(rng.range(1, 40))]
        if rng.chance(1, 4):   # idle long enough to refill, then a volley
            dts = [rng.choice([0, 100])] * rng.range(0, 3) + [rng.choice([1300, 3000, 10000])] + [0] * rng.range(2, 30)
        bcases.append(f"bucket {rate} {burst} " + " ".join(map(str, dts)))
        ccases.append(f"connlim {rng.choice([0, 1, 2, 3])} " + " ".join(rng.choice(["a", "a", "r"]) for _ in range(rng.range(1, 30))))
    pcases = bcases + ccases
    mp = os.path.join(ctx.workdir, "pure.cases")
    open(mp, "w").write("\n".join(pcases) + "\n")
    mo = os.path.join(ctx.workdir, "pure.model.out")
    ctx.driver(mp, mo)
    p = subprocess.run([srv], input=("\n".join(pcases) + "\n").encode(), stdout=subprocess.PIPE, stderr=subprocess.PIPE, timeout=300, env=dict(os.environ, THRUSERV_VERIF="1"))
    real = p.stdout.decode().splitlines()
    mod = open(mo).read().splitlines()
    bad = [(c, r, m) for c, r, m in zip(pcases, real, mod) if r != m]
    ctx.oblige("correspondence:tokenBucket+connLimiter", not bad and len(real) == len(mod) == len(pcases),
               "; ".join(f"`{b[0][:60]}` impl {b[1][:50]} model {b[2][:50]}" for b in bad[:3]) + f" ({len(real)}/{len(mod)}/{len(pcases)})")
    for c, r in zip(pcases, real):
        f = c.split()
        if f[0] == "bucket":
            rate, burst, dts = int(f[1]), max(int(f[2]), 1), [int(x) for x in f[3:]]
            if r.count("1") * 1000000 > burst * 1000000 + sum(dts) * rate + 1000:
                ctx.violation("C14:rate-exceeded", f"bucket rate {rate / 1000}/s burst {burst} admitted {r.count('1')} events in {sum(dts)} ms", {"case": c, "impl": r})
            else:
                # every window: from any call on, at most burst + rate * (time since that call) are admitted (C14_bucket_window)
                bits = [ch for ch in r if ch in "01"]
                worst = None
                for i in range(len(bits)):
                    adm, span = 0, 0
                    for j in range(i, min(len(bits), len(dts))):
                        if j > i:
                            span += dts[j]
                        adm += bits[j] == "1"
                        if adm * 1000000 > burst * 1000000 + span * rate + 1000 and worst is None:
                            worst = (i, j, adm, span)
                if worst:
                    ctx.violation("C14:rate-exceeded:window", f"bucket rate {rate / 1000}/s burst {burst} admitted {worst[2]} events within {worst[3]} ms (calls {worst[0]}..{worst[1]} of the sequence)",
                                  {"case": c, "impl": r})
        else:
            lim = int(f[1])
            inuse = 0
            for op, ch in zip(f[2:], r[2:].split()[0]):
                if op == "a":
                    if ch == "1":
                        inuse += 1
                    elif lim == 0:
                        ctx.violation("C14:zero-limit-refuses", "connLimiter with limit 0 refused", {"case": c, "impl": r})
                    if lim and inuse > lim:
                        ctx.violation("C14:connection-limit-exceeded", f"connLimiter holds {inuse} with limit {lim}", {"case": c, "impl": r})
                else:
                    inuse = max(inuse - 1, 0)
    # ---- 3. sequential histories on the real binary
    hcases = gen_hist(ctx, 600 if thorough else 48, with_time=True)
    lines = ["hist " + json.dumps({"flags": h["flags"], "evs": h["evs"]}).encode().hex() for h in hcases]
    res, errs = run_parallel(ctx, exe, "hist", lines, {"THRUSERV_BIN": srv}, workers=12)
    ctx.oblige("harness:hist", not errs and all(r is not None for r in res), "; ".join(errs)[:300])
    mcases = [f"srv {h['cfg'][0]} {h['cfg'][1]} {h['cfg'][2]} {h['cfg'][3]} {h['cfg'][4]} " + " ".join(h["evs"]) for h in hcases]
    mp = os.path.join(ctx.workdir, "hist.model.cases")
    open(mp, "w").write("\n".join(mcases) + "\n")
    mo = os.path.join(ctx.workdir, "hist.model.out")
    ctx.driver(mp, mo)
    mod = open(mo).read().splitlines()
    # a history whose transcript differs from the model's is run once more on its own before it counts: the harness synchronises on the
    # server's log lines, and under load a later deferred call of a handler (slot release) can still be pending when the next request arrives
    rerun = 0
    for i, (h, r, m) in enumerate(zip(hcases, res, mod)):
        if r is not None and r.partition(" | ")[0] != m:
            r2, _ = run_parallel(ctx, exe, "hist-retry", [lines[i]], {"THRUSERV_BIN": srv}, workers=1)
            rerun += 1
            if r2 and r2[0] is not None:
                res[i] = r2[0]
    hd = []
    inconclusive = 0
    nontrivial = 0
    for h, r, m in zip(hcases, res, mod):
        if r is None:
            continue
        body, _, tail = r.partition(" | ")
        info = dict(x.split("=") for x in tail.split() if "=" in x)
        if info.get("alive") != "true":
            ctx.violation("C14:server-died", "the server stopped answering /health during a history", {"flags": h["flags"], "events": h["evs"], "answers": body})
        timed = any(e.startswith("t:") for e in h["evs"])
        if timed and int(info.get("drift_ms", "0")) > 350:
            inconclusive += 1
            continue
        toks = body.split()
        if len(toks) == len(h["evs"]):
            oracle(ctx, h, toks)
            if any(t.startswith("ok:") for t in toks):
                nontrivial += 1
        if body != m:
            hd.append((h, body, m))
    ctx.oblige("correspondence:thruserv-histories", not hd,
               "; ".join(f"flags {' '.join(d[0]['flags'][8:])} events {' '.join(d[0]['evs'])}: impl `{d[1]}` model `{d[2]}`" for d in hd[:2])[:900])
    # ---- 4. concurrent bursts on the real binary, window widened at the hook points
    bursts = []
    for delay in ([0, 20] if not thorough else [0, 5, 20, 60]):
        for mx in ([1, 3] if not thorough else [1, 2, 3, 5]):
            bursts.append(("sessions", ["--max-sessions", str(mx)], 12, delay, mx))
            bursts.append(("receivers", ["--max-receivers-per-sender", str(mx)], 8, delay, mx))
        bursts.append(("conns", ["--max-ws-connections", "2", "--max-receivers-per-sender", "0"], 8, delay, 2))
        # receivers refused after the upgrade must give back exactly the slot they took
        for k, r in ([(4, 1), (3, 2)] if not thorough else [(4, 1), (3, 2), (5, 1), (6, 3)]):
            bursts.append(("slots", ["--max-ws-connections", str(k), "--max-receivers-per-sender", str(r)], 6, delay, k))
    bursts.append(("sessions", ["--max-sessions", "0"], 12, 0, 12))
    bursts.append(("receivers", ["--max-receivers-per-sender", "0", "--max-ws-connections", "0"], 8, 0, 8))
    blines = []
    for kind, fl, n, delay, mx in bursts:
        blines.append("burst " + json.dumps({"flags": NOLIM + fl, "kind": kind, "n": n, "delay_ms": delay, "rounds": 2, "extra": mx + 3}).encode().hex())
    rate_specs = [(60, 3, 0), (600, 2, 0), (600, 3, 700), (1200, 5, 600)] if not thorough else [(60, 3, 0), (600, 2, 0), (120, 5, 0), (6000, 1, 0), (600, 3, 700), (1200, 5, 600), (300, 2, 1500), (3000, 10, 500)]
    for permin, burst, idle in rate_specs:
        blines.append("burst " + json.dumps({"flags": ["--session-creates-per-min", str(permin), "--session-creates-burst", str(burst), "--max-sessions", "0"],
                                              "kind": "rate", "n": 25, "delay_ms": 0, "idle_ms": idle}).encode().hex())
    res, errs = run_parallel(ctx, exe, "burst", blines, {"THRUSERV_BIN": srv}, workers=6)
    ctx.oblige("harness:burst", not errs and all(r is not None for r in res), "; ".join(errs)[:300])
    nb = 0
    for i, r in enumerate(res):
        if r is None:
            continue
        try:
            o = json.loads(r)
        except Exception:
            ctx.oblige("harness:burst-output", False, r[:200])
            continue
        if "server_err" in o or "create_err" in o or "host_dial_err" in o:
            ctx.oblige("harness:burst-setup", False, json.dumps(o)[:200])
            continue
        nb += 1
        if i < len(bursts):
            kind, fl, n, delay, mx = bursts[i]
            rep = {"kind": kind, "flags": fl, "concurrent": n, "hook_delay_ms": delay, "result": o}
            zero = fl[1] == "0"
            if not zero and o["admitted"] > mx:
                ctx.violation(f"C14:{kind}-limit-exceeded-concurrently", f"{o['admitted']} {kind} admitted at once with {' '.join(fl)} ({n} concurrent arrivals, hook delay {delay} ms)", rep)
            if zero and o["admitted"] < n:
                ctx.violation("C14:zero-limit-refuses", f"only {o['admitted']} of {n} {kind} admitted with {' '.join(fl)}", rep)
            if not zero and kind != "slots" and o["admitted"] < min(mx, n):
                ctx.violation(f"C14:{kind}-refused-below-limit", f"only {o['admitted']} {kind} admitted with {' '.join(fl)} and {n} arrivals", rep)
            if o.get("duplicate_code"):
                ctx.violation("C14:duplicate-join-code", f"two live sessions share join code {o['duplicate_code']}", rep)
        else:
            permin, burst, idle = rate_specs[i - len(bursts)]
            bound = burst + permin / 60.0 * (o.get("elapsed_ms", 0) / 1000.0) + 1
            rep = {"kind": "rate", "per_min": permin, "burst": burst, "idle_before_volley_ms": idle, "result": o}
            if o["admitted"] > bound:
                ctx.violation("C14:rate-exceeded", f"{o['admitted']} session creations admitted in {o.get('elapsed_ms')} ms with {permin}/min burst {burst}", rep)
            if o["admitted"] < burst:
                ctx.violation("C14:rate-refused-below-burst", f"only {o['admitted']} creations admitted with burst {burst}", rep)
        if not o.get("alive", True):
            ctx.violation("C14:server-died", "the server stopped answering /health during a burst", {"result": o})
    ctx.coverage.update({
        "evaluations": len(scases) + len(pcases) + len(hcases) + len(blines),
        "distinct_nontrivial": nontrivial + nb + len([c for c in scases if "c:" in c]),
        "store_histories": len(scases), "bucket_and_connlimiter_runs": len(pcases), "server_histories": len(hcases),
        "server_histories_inconclusive_timing": inconclusive, "server_histories_rerun_after_mismatch": rerun, "bursts": len(blines),
        "disagreements_model_vs_impl": len(diffs) + len(bad) + len(hd),
        "rule": "Store: op sequences over CreateLimited(max) with scripted code candidates (collision chains up to 6), GetByJoinCode, Delete, Count, ageing across the TTL in whole seconds, ttl in {0, 10.5 s, 60.5 s}; real maps compared after every op. "
                "tokenBucket / connLimiter: rates 1-50/s, bursts 0-10, gaps 0-3000 ms; limits 0-3. "
                "thruserv histories: max-sessions 0-3 x max-receivers 0-2 x max-ws-connections {0,2,3,5} x max-message-bytes {0,200,1000} x session-timeout {0, 1.5 s, 10 min}; events: create (with valid/invalid/excessive max_receivers), "
                "join as sender/receiver/other role with live, unknown, missing codes and missing peer ids, duplicate peer ids, disconnects, host leave, waiting across expiry, messages at limit-1/limit/limit+1/70 kB. "
                "bursts: 8-12 concurrent arrivals x limits x hook delays between limit test and action; receivers racing for the receiver limit followed by further hosts, open sockets counted against --max-ws-connections; per-IP create bucket. non-trivial = histories with at least one admitted peer / bursts that ran",
        "samples": [scases[3], mcases[0], mcases[-1]],
    })
    ctx.assumptions += ["session ids (128 random bits) never repeat; the join-code generator eventually yields an unregistered code",
                        "one model step = one mutex-protected region of the code; atomicity of those regions is exercised by the bursts with widened windows, not derived from the source",
                        "wall-clock expiry is tested with 500 ms margins around the deadline (histories whose measured drift exceeds 350 ms are discarded and counted); float64 token arithmetic is modelled exactly and compared away from rounding boundaries",
                        "limits are per server process; one client IP"]
    return ctx.finish(LEVEL)


def replay(ctx, path):
    print(json.dumps(json.load(open(path)), indent=1)[:4000])
    return run(ctx)
