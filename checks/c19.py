"""C19 — chunk geometry. Theorems: lean/ThruVerif/Props/C19.lean over the regenerated Gen.Geometry.
Tie: (a) regenerated definitions, (b) xlate validation: generated Lean vs the real Go functions on a grid."""
LEVEL = "proof"

MAX_SIZE = 10 * 2 ** 40


def cases_for(ctx):
    rng = ctx.rng
    cases = []
    seen = set()

    def add(size, c, idx, sc=0):
        k = (size, c, idx, sc)
        if k in seen or size < 0 or c < 0 or idx < 0 or c >= 2 ** 32 or idx >= 2 ** 32:
            return
        seen.add(k)
        cases.append(f"geo {size} {c} {idx} {sc}")

    smax, cmax = (96, 24) if ctx.tier == "thorough" else (48, 12)
    for size in range(0, smax + 1):
        for c in range(0, cmax + 1):
            total = 0 if c == 0 or size == 0 else (size + c - 1) // c
            for idx in range(0, total + 3):
                add(size, c, idx, 1 if (idx == 0 and c > 0) else 0)
    # boundary triples
    bases = [1, 2, 3, 7, 8, 255, 256, 4095, 4096, 65535, 65536, 2 ** 20, 4 * 2 ** 20, 2 ** 31 - 1, 2 ** 31, 2 ** 32 - 1]
    for c in bases:
        for k in [1, 2, 3, 5, 1000]:
            for d in (-1, 0, 1):
                size = k * c + d
                if 0 <= size <= MAX_SIZE:
                    total = (size + c - 1) // c
                    if total < 2 ** 32:
                        for idx in {0, max(total - 2, 0), max(total - 1, 0), total, total + 1}:
                            add(size, c, idx, 1 if (idx == 0 and total <= 65536) else 0)
    for size in (0, 1, MAX_SIZE - 1, MAX_SIZE):
        for c in (1, 4096, 2 ** 32 - 1, 2561, 2560):
            total = 0 if size == 0 else (size + c - 1) // c
            if total < 2 ** 32:
                for idx in {0, max(total - 1, 0), total}:
                    add(size, c, idx, 1 if (idx == 0 and total <= 65536) else 0)
    n = 20000 if ctx.tier == "thorough" else 4000
    for _ in range(n):
        c = rng.choice([rng.range(1, 2 ** 32 - 1), rng.range(1, 2 ** 16), 1 << rng.range(0, 31), (1 << rng.range(1, 31)) + rng.range(-1, 1)])
        c = max(1, min(c, 2 ** 32 - 1))
        size = rng.choice([rng.range(0, MAX_SIZE), rng.range(0, 2 ** 33), c * rng.range(0, 5000) + rng.range(-1, 1)])
        size = max(0, min(size, MAX_SIZE))
        total = 0 if size == 0 else (size + c - 1) // c
        if total >= 2 ** 32:
            continue
        idx = rng.choice([0, max(total - 1, 0), total, rng.range(0, max(total, 1))])
        if idx * c >= 2 ** 63:
            continue
        add(size, c, idx, 1 if (rng.chance(1, 8) and total <= 65536) else 0)
    return cases


def search(ctx, cases, impl):
    """The property itself, evaluated on the real functions' outputs."""
    by = {}
    for line, out in zip(cases, impl):
        _, size, c, idx, sc = line.split()
        size, c, idx = int(size), int(c), int(idx)
        f = out.split()
        if len(f) != 3 or not f[0].isdigit():
            ctx.violation(f"C19:harness-output:{line}", f"unexpected harness output {out!r}", {"case": line, "impl": out})
            continue
        total, ln = int(f[0]), int(f[1])
        d = by.setdefault((size, c), {"total": total, "len": {}, "sc": None})
        if d["total"] != total:
            ctx.violation(f"C19:total-unstable:{size}:{c}", "chunkTotal not a function", {"case": line})
        d["len"][idx] = ln
        if f[2] != "-":
            d["sc"] = int(f[2])
    n_full = 0
    for (size, c), d in by.items():
        if c == 0:
            continue
        total = d["total"]
        want = 0 if size == 0 else (size + c - 1) // c
        if total != want:
            ctx.violation("C19:total", f"chunkTotal({size},{c})={total}, ceil={want}", {"size": size, "chunk": c, "impl_total": total})
        if d["sc"] is not None and d["sc"] != total:
            ctx.violation("C19:sidecar-total" + (":size0" if size == 0 else ""), f"CreateSidecar({size},{c}).TotalChunks={d['sc']} but chunkTotal={total}",
                          {"size": size, "chunk": c, "sidecar_total": d["sc"], "impl_total": total})
        for idx, ln in d["len"].items():
            exp = 0 if idx >= want else min(c, size - idx * c)
            if ln != exp:
                ctx.violation("C19:len", f"chunkSizeForIndex({size},{c},{idx})={ln}, expected {exp}", {"size": size, "chunk": c, "idx": idx, "impl_len": ln})
        if all(i in d["len"] for i in range(total)) and total > 0:
            n_full += 1
            if sum(d["len"][i] for i in range(total)) != size:
                ctx.violation("C19:sum", f"lengths do not sum to size for ({size},{c})", {"size": size, "chunk": c})
    return len(by), n_full


def run(ctx):
    ctx.regen()
    ctx.xlate_ok(["chunkTotal", "chunkSizeForIndex", "totalChunks", "offset", "CreateSidecar", "hashFileChunk"])
    ok, thms = ctx.lean_props()
    ctx.audit(thms)
    if ctx.tier == "thorough":
        ctx.leanchecker()
    ctx.build_driver()
    exe = ctx.build_harness("pure")
    if not exe:
        ctx.oblige("harness.build", False, getattr(ctx, "harness_err", "")[-400:])
        return ctx.finish(LEVEL)
    cases = cases_for(ctx)
    impl, model, diffs = ctx.differential("geo", cases, exe)
    npairs, nfull = search(ctx, cases, impl)
    # the embedded offset expressions are not separately callable: exercise them beyond 2^32 with sparse files that are resumed
    from checks import e2egen as G2
    xexe = ctx.build_harness("xfer")
    nbig = 0
    if xexe:
        bigs = G2.big_cases(ctx.rng, ctx.tier == "thorough")
        rcb, bres = G2.run_xfer(ctx, xexe, "big", bigs, timeout=600)
        ctx.oblige("harness:big", rcb == 0 and len(bres) == len(bigs), ctx.harness_stderr[-300:])
        nbig = G2.judge_big(ctx, "C19", bigs, bres)
    else:
        ctx.oblige("harness.build:xfer", False, getattr(ctx, "harness_err", "")[-300:])
    ctx.coverage.update({
        "big_sparse_files_above_4GiB": nbig,
        "evaluations": len(cases) + nbig, "distinct_nontrivial": npairs,
        "rule": "geo cases = exhaustive grid (size<=48|96, chunk<=12|24, idx<=total+2) + boundary triples k*c-1,k*c,k*c+1 for 16 chunk sizes + Dom corners + seeded random (size<=10TiB, chunk<2^32); non-trivial/distinct = distinct (size,chunk) pairs with chunk>0",
        "samples": cases[:3] + cases[-3:],
        "pairs_with_full_tiling_checked": nfull,
        "disagreements_model_vs_impl": len(diffs),
    })
    ctx.assumptions += ["Go int64/uint32 arithmetic is two's complement wrap-around as modelled by wrapS/wrapU",
                        "embedded offset/total expressions are tied by regeneration (they are not separately callable) and exercised end to end, also beyond 2^32 bytes with resumed sparse files of 4-12 GiB"]
    return ctx.finish(LEVEL)


def replay(ctx, path):
    import json
    d = json.load(open(path))
    print(json.dumps(d, indent=1))
    return run(ctx)
