"""C18 — control-protocol round trip. Theorems: Props/C18.lean (generic layout codec + per-record layouts
checked against token lists regenerated from controlproto.go). Tie (b): both encoders byte-equal, both
decoders equal on valid and concatenated streams."""
import json
import os as _os
from checks import codecgen as G

LEVEL = "proof"


def run(ctx):
    ctx.regen()
    ctx.xlate_ok(["layout:", "const:controlType", "const:maxRelPathLength", "const:controlMagic"])
    ok, thms = ctx.lean_props()
    if ok:
        ctx.audit(thms)
    if ctx.tier == "thorough":
        ctx.leanchecker()
    ctx.build_driver()
    exe = ctx.build_harness("pure")
    if not exe:
        ctx.oblige("harness.build", False, getattr(ctx, "harness_err", "")[-400:])
        return ctx.finish(LEVEL)
    rng = ctx.rng
    n = 6000 if ctx.tier == "thorough" else 1500
    recs = []
    for k in G.KINDS:
        for _ in range(n // 12):
            recs.append(G.gen_record(rng, k))
    for k in ["CB", "FD", "RI", "RQ"]:
        for _ in range(6 if ctx.tier == "quick" else 30):
            recs.append(G.gen_record(rng, k, big=True))
    while len(recs) < n:
        recs.append(G.gen_record(rng))
    recs = list(dict.fromkeys(recs))
    enc_cases = ["enc " + r for r in recs]
    impl, model, d1 = ctx.differential("enc", enc_cases, exe)
    # phase 2: decode what the real encoder produced, alone, with a suffix, and concatenated
    dec_cases = []
    valid = []
    for r, out in zip(recs, impl):
        if out.startswith("err") or out.startswith("panic") or out == "bad-op":
            continue
        valid.append((r, out))
        suffix = rng.bytes(rng.range(1, 5)).hex() if rng.chance(1, 3) else ""
        body = "" if out == "-" else out
        dec_cases.append("dec " + (body + suffix or "-"))
    nseq = 400 if ctx.tier == "thorough" else 100
    seqs = []
    small = [v for v in valid if len(v[1]) < 4000]
    for _ in range(nseq):
        k = rng.range(1, 40)
        pick = [small[rng.below(len(small))] for _ in range(k)]
        seqs.append(pick)
        dec_cases.append("decall " + "".join(p[1] for p in pick))
    impl2, model2, d2 = ctx.differential("dec", dec_cases, exe, canon=G.strip_alloc)
    # search: the property itself on the Go side only
    nv = 0
    for (r, out), line, res in zip(valid, dec_cases, impl2):
        res = G.strip_alloc(res)
        enc_len = 0 if out == "-" else len(out) // 2
        want = f"ok {r} consumed={enc_len}"
        # normalise hex case / canonical numbers already identical by construction
        if res != want:
            kind = r.split()[0]
            ctx.violation(f"C18:roundtrip:{kind}", f"decode(encode(x)) != x for {r[:120]}: got {res[:160]}",
                          {"record": r, "encoded": out[:400], "decoded": res[:400]})
            nv += 1
    for pick, res in zip(seqs, impl2[len(valid):]):
        want = " | ".join(p[0] for p in pick) + " | err eof"
        if res != want:
            ctx.violation("C18:sequence", f"a concatenation of {len(pick)} records does not decode to the same sequence",
                          {"records": [p[0][:200] for p in pick], "decoded": res[:600]})
    # encoders after a failed write: a record is written to a stream that refuses it, then other records go to a healthy stream -
    # that stream must receive exactly their encodings (nothing carried over from the failed write)
    enc_of = dict(valid)
    fcases, fwant = [], []
    vs = [v for v in valid if len(v[1]) < 2000]
    for _ in range(300 if ctx.tier == "thorough" else 80):
        a = vs[rng.below(len(vs))]
        later = [vs[rng.below(len(vs))] for _ in range(rng.range(1, 4))]
        fcases.append("encfail " + a[0] + " | " + " | ".join(p[0] for p in later))
        fwant.append("".join("" if p[1] == "-" else p[1] for p in later) or "-")
    fpath, fout = _os.path.join(ctx.workdir, "encfail.cases"), _os.path.join(ctx.workdir, "encfail.out")
    open(fpath, "w").write("\n".join(fcases) + "\n")
    rcf = ctx.run_harness(exe, fpath, fout, timeout=300)
    fres = open(fout).read().splitlines()
    ctx.oblige("harness:encfail", rcf == 0 and len(fres) == len(fcases), ctx.harness_stderr[-200:])
    for c, w, r in zip(fcases, fwant, fres):
        if r != w:
            ctx.violation("C18:stale-bytes-after-failed-write", f"after a refused write the next records were not encoded as they are on their own: {c[:160]}",
                          {"case": c[:600], "stream_received": r[:600], "encodings_on_their_own": w[:600]})
            break
    # the manifest header (magic, length, JSON) through the real writer and reader, with a record behind it: names with JSON-significant
    # characters, control characters, every multi-byte UTF-8 length, long paths, many items - and names that are not valid UTF-8 (legal
    # file names on Linux)
    def hexs(b):
        return b.hex() or "-"
    hcases, hkind = [], []
    specials = [b"plain.txt", b"q\"uote", b"back\\slash", b"<&>", b"tab\there", b"nl\nname", "\u00e9\u65e5\U0001f600".encode(), "\u2028\u2029".encode(), b"\x7f", b" ", b"a" * 1024,
                b"d/" + "\u65e5".encode() * 300]
    for n in (0, 1, 3, 40 if ctx.tier == "quick" else 400):
        items = []
        for i in range(n):
            nm = specials[rng.below(len(specials))] if rng.chance(1, 2) else G.valid_path(rng, rng.range(1, 60))
            items += [hexs(nm + b"-%d" % i), str(rng.choice([0, 1, 2**31, 2**40 + 5, rng.below(10**9)])), str(rng.below(2)), hexs(b"%016x" % rng.below(2**63))]
        hcases.append("hdrrt " + hexs(specials[rng.below(len(specials))]) + (" " + " ".join(items) if items else ""))
        hkind.append("utf8")
    for bad in (b"caf\xe9.txt", b"d/a\xff", b"\xc3", b"ok/\xed\xa0\x80"):
        hcases.append("hdrrt " + hexs(b"root") + " " + " ".join([hexs(bad), "10", "0", hexs(b"0123456789abcdef")]))
        hkind.append("non-utf8-name")
    hcases.append("hdrrt " + hexs(b"ro\xffot") + " " + " ".join([hexs(b"f"), "1", "0", hexs(b"0123456789abcdef")]))
    hkind.append("non-utf8-name")
    hpath, hout = _os.path.join(ctx.workdir, "hdr.cases"), _os.path.join(ctx.workdir, "hdr.out")
    open(hpath, "w").write("\n".join(hcases) + "\n")
    rch = ctx.run_harness(exe, hpath, hout, timeout=300)
    hres = open(hout).read().splitlines()
    ctx.oblige("harness:header-roundtrip", rch == 0 and len(hres) == len(hcases), ctx.harness_stderr[-200:])
    for c, k, r in zip(hcases, hkind, hres):
        if not r.startswith("same "):
            sig = "C18:header-roundtrip:non-utf8-name" if k == "non-utf8-name" else "C18:header-roundtrip"
            ctx.violation(sig, f"the manifest header does not decode to the value that was written: {r[:200]}", {"case": c[:800], "result": r})
    kinds = {}
    for r in recs:
        kinds[r.split()[0]] = kinds.get(r.split()[0], 0) + 1
    rejected = sum(1 for o in impl if o.startswith("err"))
    ctx.coverage.update({
        "evaluations": len(enc_cases) + len(dec_cases) + len(hcases), "manifest_headers_round_tripped": len(hcases),
        "distinct_nontrivial": len(valid) + len(seqs),
        "rule": "records generated per type with every numeric field in {0,1,max-1,max,random}, byte fields at {0,1,2,max-1,max,random} lengths "
                "(paths at 1,2,1023,1024 and invalid ones), encoded by BOTH the real write* and the Lean encoder (byte equality), then decoded by BOTH "
                "(alone, with a random suffix, and as concatenations of 1-40 records). distinct/non-trivial = distinct records the real encoder accepted + sequences",
        "samples": enc_cases[:2] + [c[:160] for c in dec_cases[-2:]],
        "records_per_kind": kinds, "encoder_rejections": rejected,
        "disagreements_model_vs_impl": len(d1) + len(d2),
    })
    ctx.assumptions += ["manifest JSON inside the header is opaque bytes to the theorems (encoding/json is Go library code: the header round trip is executed on generated manifests, not proved)"]
    return ctx.finish(LEVEL)


def replay(ctx, path):
    print(json.dumps(json.load(open(path)), indent=1)[:4000])
    return run(ctx)
