"""C17 — exactly-once dispatch. Theorems: Props/C17.lean over Model/SendFile (transcription of
nextChunkToSend / markChunkDone / trySendEnd) and Model/Sched. Tie (b): every op sequence is run on the
REAL sendFileState (methods called directly) and on the model; outputs and full final state must agree."""
import itertools
import json

LEVEL = "proof"


def gen_sf(ctx):
    rng = ctx.rng
    cases = []
    seen = set()

    def add(total, ops):
        line = f"sf {total} " + " ".join(ops)
        if line not in seen:
            seen.add(line)
            cases.append(line)

    maxlen = 7 if ctx.tier == "thorough" else 6
    # exhaustive: every sequence over {t,f,e} up to maxlen, for every total 0..3 (any number of workers interleaved)
    for total in range(0, 4):
        for L in range(0, maxlen + 1):
            for seq in itertools.product("tfe", repeat=L):
                add(total, list(seq))
    # a resume report that arrives only after the end record went out (a receiver that handled FileBegin late): nothing may follow the record
    for total in (1, 2, 3):
        done = ["t"] * total + ["f"] * total
        for bits in ("1" * total, "0" * total):
            for c in range(total):
                for tail in (["t"], ["t", "f", "e"], ["e", "t", "t", "f"]):
                    add(total, done + ["v", f"p:{bits}:{total}", f"m:{c}"] + tail)
                    add(total, done + [f"p:{bits}:0", "v", "k"] + tail)
                    add(total, done[:-1] + ["v"] + done[-1:] + [f"m:{c}"] + tail)
    # exhaustive insertion of plan / verifyBegin / verdict into disciplined worker runs
    bases = []
    for total in (1, 2, 3, 4):
        for L in (3, 4, 5, 6):
            for _ in range(12 if ctx.tier == "quick" else 40):
                bases.append((total, [rng.choice("ttfe") for _ in range(L)]))
    for total, base in bases:
        bits_all = ["".join(b) for b in itertools.product("01", repeat=total)]
        for bits in rng_sample(rng, bits_all, 3):
            for ff in sorted({0, total, rng.range(0, total)}):
                for vchunk in sorted({0, max(total - 1, 0)}):
                    for verdict in ("k", f"m:{vchunk}"):
                        n = len(base)
                        for i in range(n + 1):
                            for j in range(i, n + 1):
                                if rng.chance(1, 3):
                                    k = rng.range(j, n)
                                    ops = base[:i] + ["v", f"p:{bits}:{ff}"] + base[i:j] + base[j:k] + [verdict] + base[k:]
                                    add(total, ops)
    # seeded long random sequences
    n = 6000 if ctx.tier == "thorough" else 1500
    for _ in range(n):
        total = rng.range(0, 12)
        L = rng.range(5, 60)
        ops = []
        for _ in range(L):
            r = rng.below(20)
            if r < 8:
                ops.append("t")
            elif r < 14:
                ops.append("f")
            elif r < 16:
                ops.append("e")
            elif r == 16:
                bits = "".join(rng.choice("01") for _ in range(total))
                ops.append(f"p:{bits}:{rng.range(0, total + 1)}")
            elif r == 17:
                ops.append("v")
            elif r == 18:
                ops.append("k")
            else:
                ops.append(f"m:{rng.range(0, max(total - 1, 0))}")
        add(total, ops)
    return cases


def rng_sample(rng, xs, k):
    xs = list(xs)
    rng.shuffle(xs)
    return xs[:k]


def search_sf(ctx, cases, impl):
    """exactly-once statements evaluated on the REAL machine's outputs"""
    n_nontrivial = 0
    for line, out in zip(cases, impl):
        parts = line.split()
        total = int(parts[1])
        ops = parts[2:]
        if "|" not in out:
            ctx.violation("C17:harness-output", f"unexpected output {out!r}", {"case": line, "impl": out})
            continue
        outs = out.split("|")[0].split()
        if len(outs) != len(ops):
            ctx.violation("C17:harness-output", "op/out count mismatch", {"case": line, "impl": out})
            continue
        ends = outs.count("E")
        if ends > 1:
            ctx.violation("C17:end-twice", f"FileEnd emitted {ends} times", {"case": line, "impl": out})
        plan = None
        allowed_dups = {}
        outstanding = None   # chunk whose re-send is owed
        taken = {}
        ended = False
        inflight = 0
        for op, o in zip(ops, outs):
            if op.startswith("p:"):
                _, bits, ff = op.split(":")
                plan = (bits, int(ff))
            elif op.startswith("m:") and o == "-":
                # (a verdict is delivered only by the verification goroutine, which exists only when beginVerify accepted: "x" otherwise)
                c = int(op[2:])
                allowed_dups[c] = allowed_dups.get(c, 0) + 1
                outstanding = c
            if o.startswith("c"):
                idx = int(o[1:])
                inflight += 1
                if idx == outstanding:
                    outstanding = None
                taken[idx] = taken.get(idx, 0) + 1
                if taken[idx] > 1 + allowed_dups.get(idx, 0):
                    ctx.violation("C17:chunk-twice", f"chunk {idx} handed out {taken[idx]} times with {allowed_dups.get(idx,0)} mismatch verdicts for it",
                                  {"case": line, "impl": out})
                if idx >= total and idx not in allowed_dups:
                    ctx.violation("C17:chunk-out-of-range", f"chunk {idx} >= total {total}", {"case": line, "impl": out})
                if plan and idx not in allowed_dups:
                    bits, ff = plan
                    if idx < len(bits) and bits[idx] == "1" and idx < ff:
                        ctx.violation("C17:skipped-chunk-sent", f"chunk {idx} is marked present below forceFrom={ff} but was handed out",
                                      {"case": line, "impl": out})
                if ended:
                    ctx.violation("C17:chunk-after-end", f"chunk {idx} handed out after FileEnd", {"case": line, "impl": out})
            if op == "f" and inflight > 0:
                inflight -= 1
            if o == "E":
                ended = True
                if outstanding is not None:
                    ctx.violation("C17:end-before-resend", f"FileEnd emitted while the re-send of chunk {outstanding} is outstanding",
                                  {"case": line, "impl": out})
                if inflight != 0:
                    ctx.violation("C17:end-with-inflight", f"FileEnd emitted with {inflight} chunks in flight", {"case": line, "impl": out})
        if taken:
            n_nontrivial += 1
    return n_nontrivial


def gen_sched(ctx):
    rng = ctx.rng
    lines = []
    n = 1500 if ctx.tier == "thorough" else 400
    for _ in range(n):
        thr = rng.choice([10, 100, 4096])
        par = rng.range(1, 8)
        nfiles = rng.range(1, 10)
        keys = list(range(1, nfiles + 1))
        rng.shuffle(keys)
        ops = []
        added, started = [], []
        for k in keys:
            ops.append(f"a:{k}:{rng.choice([1, thr - 1, thr, thr + 1, rng.range(1, thr * 40)]) or 1}")
            added.append(k)
            if rng.chance(1, 3):
                ops.append("n")
        for _ in range(rng.range(1, 14)):
            r = rng.below(4)
            if r < 2:
                ops.append("n")
            elif r == 2 and added:
                ops.append(f"r:{rng.choice(added)}")
            else:
                ops.append(f"t:{rng.choice([1, 200, 4999, 5001, 6000, 20000, 600000])}")   # around and far beyond AgingAfter (5 s)
        ops += ["n"] * 3
        lines.append((thr, par, ops))
    return lines


def sched_differential(ctx, exe, prop):
    """random Add / Next / Remove / clock histories on the real HybridScheduler; the model validates each real choice against its
    allowed set and says when declining is allowed. Returns (histories, model cases, disagreements)."""
    # scheduler: impl first, then the model validates each real choice against its allowed set
    import os
    sched = gen_sched(ctx)
    ipath = os.path.join(ctx.workdir, "sched.cases")
    opath = os.path.join(ctx.workdir, "sched.impl.out")
    with open(ipath, "w") as f:
        for thr, par, ops in sched:
            f.write(f"sched {thr} {par} " + " ".join(ops) + "\n")
    ctx.run_harness(exe, ipath, opath)
    implo = open(opath).read().splitlines()
    mcases = []
    for (thr, par, ops), out in zip(sched, implo):
        res = out.split()
        slots = max(1, min(par, par // 4))
        mops = []
        chosen = []
        for op, r in zip(ops, res):
            if op == "n":
                mops.append(r)
                if r != "n:none":
                    chosen.append(r)
            else:
                mops.append(op)
        if len(chosen) != len(set(chosen)):
            ctx.violation(f"{prop}:file-begun-twice", "scheduler returned the same file twice", {"case": f"sched {thr} {par} " + " ".join(ops), "impl": out})
        mcases.append(f"sched {thr} {slots} " + " ".join(mops))
    mpath = os.path.join(ctx.workdir, "sched.model.cases")
    mout = os.path.join(ctx.workdir, "sched.model.out")
    open(mpath, "w").write("\n".join(mcases) + "\n")
    ctx.driver(mpath, mout)
    bad = [(c, o) for c, o in zip(mcases, open(mout).read().splitlines()) if "NOT-ALLOWED" in o or "MODEL-ALLOWS" in o or o in ("bad-op", "fuel")]
    ctx.oblige("correspondence:sched", not bad and len(implo) == len(sched), "; ".join(f"{c[:100]} -> {o[:100]}" for c, o in bad[:3]))
    for c, o in bad[:5]:
        if "MODEL-ALLOWS" in o:
            ctx.violation(f"{prop}:scheduler-starves", "scheduler returned nothing although a pending file may be started", {"case": c, "model": o})
    return sched, mcases, bad


def run(ctx):
    ctx.regen()
    ok, thms = ctx.lean_props()
    if ok:
        ctx.audit(thms)
    if ctx.tier == "thorough":
        ctx.leanchecker()
    ctx.build_driver()
    exe = ctx.build_harness("pure")
    if not exe:
        ctx.oblige("harness.build", False, getattr(ctx, "harness_err", "")[-400:])
        return ctx.finish(LEVEL)
    cases = gen_sf(ctx)
    impl, model, d1 = ctx.differential("sf", cases, exe)
    nt = search_sf(ctx, cases, impl)
    sched, mcases, bad = sched_differential(ctx, exe, "C17")
    # the dispatch machine inside the real sender: chunk frames that travel for generated resume reports, and the frame count FileEnd announces
    from checks import resumegen
    xfer = ctx.build_harness("xfer")
    if xfer:
        n_plan, d_plan, plan_stats = resumegen.run(ctx, xfer, "C17")
    else:
        ctx.oblige("harness.build:xfer", False, getattr(ctx, "harness_err", "")[-300:])
        n_plan, d_plan, plan_stats = 0, 0, {}
    ctx.coverage.update({
        "evaluations": len(cases) + len(sched) + n_plan, "resume_reports": n_plan,
        "distinct_nontrivial": nt + len(sched),
        "rule": "sf: EXHAUSTIVE op sequences over {take,finish,tryEnd} up to length 6|7 for totals 0-3 (= all interleavings of any number of workers), "
                "plan/verifyBegin/verdict inserted at all ordered position triples (sampled 1/3) into worker runs for sampled bitmaps, forceFrom in {0,total,random}, "
                "seeded random sequences up to 60 ops on up to 12 chunks; run on the REAL sendFileState via its methods. non-trivial = sequences in which at least one chunk was handed out. "
                "sched: random Add/Next/Remove histories on the real HybridScheduler with the clock advanced by 1 ms .. 10 min between operations (around and beyond AgingAfter); each real choice must be in the model's allowed set, and the scheduler may decline only when the model allows nothing",
        "samples": [cases[500], cases[len(cases) // 2], cases[-1], mcases[0]],
        "disagreements_model_vs_impl": len(d1) + len(bad),
        "exhaustive": False,
    })
    ctx.assumptions += ["applyResumeInfo's closure is represented by its three locked state updates (applyPlan, verifyBegin, verdict); the closure itself is exercised end-to-end by C04/C06 runs",
                        "the scheduler's float credit arithmetic is abstracted to 'any pending medium/large file'"]
    return ctx.finish(LEVEL)


def replay(ctx, path):
    print(json.dumps(json.load(open(path)), indent=1)[:4000])
    return run(ctx)
