"""C08 — transport authentication. Theorems: Props/C08.lean (byte level for an arbitrary MAC: exact characterisation of
accepted messages, completeness, reflection, truncation, single-byte alteration, other key; symbolic Dolev-Yao soundness,
relay and reflection; regenerated order facts incl. success-branch dominance). Tie: the real authenticateTransport runs at the
honest end(s) over netsim and over real loopback QUIC (two separate TLS sessions for the relay) against a scripted attacker whose
material (replays from other sessions, other codes, role swaps) is produced by the Lean model executed with HMAC-SHA256; every
byte the honest ends read/wrote is taken to the model: verdicts and emitted messages must agree byte for byte."""
import json
import os

LEVEL = "proof"

CODES = ["ABCD-1234", "ABCD-1235", "abcd-1234", "ABCD-123", "ABCD-1234 ", "", "x", "é-ü", "A" * 70]


def hx(b):
    return b.hex() if b else "-"


def run_model(ctx, name, lines):
    cp = os.path.join(ctx.workdir, name + ".model.cases")
    op = os.path.join(ctx.workdir, name + ".model.out")
    open(cp, "w").write("\n".join(lines) + "\n")
    ctx.driver(cp, op)
    return open(op).read().splitlines()


def run(ctx):
    ctx.regen()
    ctx.xlate_ok(["auth", "Order"])
    ok, thms = ctx.lean_props()
    if ok:
        ctx.audit(thms)
    if ctx.tier == "thorough":
        ctx.leanchecker()
    ctx.build_driver()
    exe = ctx.build_harness("app")
    if not exe:
        ctx.oblige("harness.build", False, getattr(ctx, "harness_err", "")[-400:])
        return ctx.finish(LEVEL)
    rng = ctx.rng
    thorough = ctx.tier == "thorough"
    import subprocess
    stall_proc = subprocess.Popen([exe], stdin=subprocess.PIPE, stdout=subprocess.PIPE, stderr=subprocess.PIPE)
    stall_proc.stdin.write(b"authstall\n")
    stall_proc.stdin.close()
    stall_proc.stdin = None
    E1, E2 = bytes(rng.bytes(32)), bytes(rng.bytes(32))
    code = "ABCD-1234"
    cases = []   # (scenario, expectation) ; expectation: dict who -> True (must accept) / False (must reject) / None (either)

    def add(sc, exp, label):
        sc["label"] = label
        cases.append((sc, exp))

    # A. two honest ends of one session, all code pairs
    for tr in ("netsim", "quic"):
        for cs in CODES:
            for cr in CODES:
                if tr == "quic" and not thorough and not (cs == cr or rng.chance(1, 6)):
                    continue
                same = cs == cr
                add({"kind": "pair", "transport": tr, "code_s": cs, "code_r": cr, "ekm1": E1.hex()}, {"s": same, "r": same}, f"pair:{'same' if same else 'different'}-code")
    # B. relay between two TLS sessions, same code at both honest ends
    for tr in ("netsim", "quic"):
        for _ in range(6 if not thorough else 30):
            c = rng.choice(CODES)
            add({"kind": "relay", "transport": tr, "code_s": c, "code_r": c, "ekm1": E1.hex(), "ekm2": bytes(rng.bytes(32)).hex(), "strategy": "forward"},
                {"s": False, "r": False}, "relay:two-sessions")
    # C. in-path alteration of either message (device: relay whose two legs export the same keying material)
    bits = list(range(400))
    if not thorough:
        bits = [b for b in bits if b < 24 or b % 7 == 0 or b >= 392]
    for b in bits:
        add({"kind": "relay", "transport": "netsim", "code_s": code, "code_r": code, "ekm1": E1.hex(), "ekm2": E1.hex(), "strategy": f"flip:{b}"}, {"s": False, "r": False}, "alter:sender-msg-bit")
        add({"kind": "relay", "transport": "netsim", "code_s": code, "code_r": code, "ekm1": E1.hex(), "ekm2": E1.hex(), "strategy": f"rflip:{b}"}, {"s": False, "r": True}, "alter:receiver-msg-bit")
    for n in range(0, 50, 1 if thorough else 3):
        add({"kind": "relay", "transport": "netsim", "code_s": code, "code_r": code, "ekm1": E1.hex(), "ekm2": E1.hex(), "strategy": f"trunc:{n}"}, {"s": False, "r": False}, "alter:sender-msg-truncated")
        add({"kind": "relay", "transport": "netsim", "code_s": code, "code_r": code, "ekm1": E1.hex(), "ekm2": E1.hex(), "strategy": f"rtrunc:{n}"}, {"s": False, "r": True}, "alter:receiver-msg-truncated")
    add({"kind": "relay", "transport": "netsim", "code_s": code, "code_r": code, "ekm1": E1.hex(), "ekm2": E1.hex(), "strategy": "forward"}, {"s": True, "r": True}, "control:transparent-relay-same-session")
    # D/E. attacker material produced by the model
    mk = []
    nonce = bytes(rng.bytes(16))
    specs = [
        ("replay-from-other-session", 1, code, E2, False), ("other-code-this-session", 1, "ABCD-1235", E1, False), ("empty-code", 1, "", E1, False),
        ("receiver-role-msg", 2, code, E1, False), ("legit-holder", 1, code, E1, True),
    ]
    for name, role, c, e, legit in specs:
        mk.append(f"auth mk {role} {hx(c.encode())} {e.hex()} {nonce.hex()}")
    rspecs = [
        ("replay-from-other-session", 2, code, E2, False), ("other-code-this-session", 2, "ABCD-1235", E1, False),
        ("sender-role-msg", 1, code, E1, False), ("legit-holder", 2, code, E1, True),
    ]
    for name, role, c, e, legit in rspecs:
        mk.append(f"auth mk {role} {hx(c.encode())} {e.hex()} {nonce.hex()}")
    made = run_model(ctx, "mk", mk)
    ok_mk = len(made) == len(mk) and all(len(m) == 100 for m in made)
    ctx.oblige("model:attack-material", ok_mk, str(made[:2]))
    if ok_mk:
        for (name, role, c, e, legit), m in zip(specs, made):
            add({"kind": "rogue-dialer", "transport": "netsim", "code_r": code, "ekm1": E1.hex(), "wire": m}, {"r": legit}, "rogue-dialer:" + name)
            if not legit or True:
                bad = bytearray(bytes.fromhex(m))
                bad[0] ^= 3
                add({"kind": "rogue-dialer", "transport": "netsim", "code_r": code, "ekm1": E1.hex(), "wire": bad.hex()}, {"r": False}, "rogue-dialer:bad-version")
                add({"kind": "rogue-dialer", "transport": "netsim", "code_r": code, "ekm1": E1.hex(), "wire": m + "00"}, {"r": legit}, "rogue-dialer:" + name + "+trailing")
        for (name, role, c, e, legit), m in zip(rspecs, made[len(specs):]):
            add({"kind": "rogue-listener", "transport": "netsim", "code_s": code, "ekm1": E1.hex(), "strategy": "fixed", "reply": m}, {"s": legit}, "rogue-listener:" + name)
    for tr in ("netsim", "quic"):
        add({"kind": "rogue-listener", "transport": tr, "code_s": code, "ekm1": E1.hex(), "strategy": "reflect"}, {"s": False}, "rogue-listener:reflect")
        add({"kind": "rogue-listener", "transport": tr, "code_s": code, "ekm1": E1.hex(), "strategy": "reflect-swap-role"}, {"s": False}, "rogue-listener:reflect-swap-role")
        for _ in range(4 if not thorough else 40):
            add({"kind": "rogue-dialer", "transport": tr, "code_r": code, "ekm1": E1.hex(), "wire": (bytes([1, 1]) + bytes(rng.bytes(48))).hex()}, {"r": False}, "rogue-dialer:random-proof")
            add({"kind": "rogue-listener", "transport": tr, "code_s": code, "ekm1": E1.hex(), "strategy": "fixed", "reply": (bytes([1, 2]) + bytes(rng.bytes(48))).hex()}, {"s": False}, "rogue-listener:random-proof")
    # run the real code
    cpath = os.path.join(ctx.workdir, "auth.cases")
    with open(cpath, "w") as f:
        for sc, _ in cases:
            f.write("auth " + json.dumps(sc).encode().hex() + "\n")
    opath = os.path.join(ctx.workdir, "auth.impl.out")
    rc = ctx.run_harness(exe, cpath, opath, timeout=1200)
    outs = open(opath).read().splitlines()
    if rc != 0 or len(outs) != len(cases):
        ctx.oblige("harness:run", False, f"rc={rc} {len(outs)}/{len(cases)} {ctx.harness_stderr[-300:]}")
        return ctx.finish(LEVEL)
    results = []
    for o in outs:
        try:
            results.append(json.loads(o))
        except Exception:
            results.append({"setup_err": o[:200]})
    # model verdicts on exactly the bytes the honest ends read; model messages for the nonces the honest ends chose
    mlines, mrefs = [], []
    for i, ((sc, exp), r) in enumerate(zip(cases, results)):
        for who, expect_role, my_role, ckey in (("s", 2, 1, "code_s"), ("r", 1, 2, "code_r")):
            if who not in r:
                continue
            c = hx(sc.get(ckey, "").encode())
            ekm = r.get(who + "_ekm", "")
            mlines.append(f"auth chk {expect_role} {c} {ekm} {r.get(who + '_read') or '-'}")
            mrefs.append((i, who, "verdict"))
            w = r.get(who + "_wrote") or ""
            if w:
                n = w[4:36]
                mlines.append(f"auth mk {my_role} {c} {ekm} {n}")
                mrefs.append((i, who, "wrote"))
    mout = run_model(ctx, "verdicts", mlines)
    diffs = []
    if len(mout) != len(mlines):
        ctx.oblige("driver:run", False, f"{len(mout)}/{len(mlines)}")
    for (i, who, what), m in zip(mrefs, mout):
        sc, exp = cases[i]
        r = results[i]
        if what == "verdict":
            impl = r[who]
            if impl == "short-read" and m == "short-read":
                continue
            if impl != m:
                diffs.append((sc["label"], who, impl, m, r.get(who + "_err")))
        else:
            if r.get(who + "_wrote") != m:
                diffs.append((sc["label"], who + ":message", r.get(who + "_wrote"), m, None))
    ctx.oblige("correspondence:auth", not diffs, "; ".join(f"{d[0]} {d[1]}: impl {d[2]} ({d[4]}) model {d[3]}" for d in diffs[:3]))
    # the property itself, on the implementation
    hist = {}
    tls_same = tls_diff = 0
    for (sc, exp), r in zip(cases, results):
        rep = {"scenario": sc, "result": r, "expected_accept": exp}
        if "setup_err" in r:
            ctx.oblige("harness:session-setup", False, r["setup_err"])
            continue
        hist[sc["label"]] = hist.get(sc["label"], 0) + 1
        for who, must in exp.items():
            got = r.get(who)
            if must is False and got == "accept":
                ctx.violation(f"C08:accepted:{sc['label']}:{who}", f"the honest {'sender' if who == 's' else 'receiver'} accepted in scenario {sc['label']} ({sc.get('strategy', '')})", rep)
            elif must is True and got != "accept":
                ctx.violation(f"C08:honest-rejected:{sc['label']}:{who}", f"the honest {'sender' if who == 's' else 'receiver'} rejected a legitimate peer in scenario {sc['label']}: {r.get(who + '_err')}", rep)
            if r.get(who + "_streams", 1) != 1:
                ctx.violation(f"C08:streams-during-auth:{who}", f"{r.get(who + '_streams')} streams were opened/accepted by the authentication step (expected exactly the one auth stream)", rep)
        if sc["transport"] == "quic" and sc["kind"] == "pair":
            if r.get("s_ekm") == r.get("r_ekm") and r.get("s_ekm"):
                tls_same += 1
            else:
                ctx.violation("C08:ekm-differs-within-session", "the two ends of one QUIC/TLS session exported different keying material", rep)
        if sc["transport"] == "quic" and sc["kind"] == "relay":
            if r.get("s_ekm") != r.get("r_ekm"):
                tls_diff += 1
            else:
                ctx.violation("C08:ekm-equal-across-sessions", "two different QUIC/TLS sessions exported the same keying material", rep)
    # peers that stall inside the handshake (silent listener; dialer that sends one byte and stops) while the honest ends run with the
    # application's own 10 s budget: they must end in an error / deliver nothing (started early, collected here: it takes ~12 s)
    stall_out = None
    try:
        so, se = stall_proc.communicate(timeout=60)
        stall_out = json.loads(so.decode().strip().splitlines()[-1])
    except Exception as ex:
        ctx.oblige("harness:authstall", False, str(ex)[:200])
    if stall_out is not None:
        ctx.oblige("harness:authstall", not any(k.endswith("setup_err") for k in stall_out), json.dumps(stall_out)[:200])
        if stall_out.get("sender_accepted_silent_listener"):
            ctx.violation("C08:accepted:silent-listener:s", f"the honest sender reported successful authentication after {stall_out.get('sender_ms')} ms against a listener that accepted the auth stream and never answered", {"result": stall_out})
        if stall_out.get("receiver_delivered_stalling_dialer"):
            ctx.violation("C08:accepted:stalling-dialer:r", f"the receiver's authenticated accept handed on (after {stall_out.get('receiver_ms')} ms) a connection whose dialer sent one byte and then nothing", {"result": stall_out})
        hist["stalling-peer"] = 2
    # the receiver's accept path (acceptAuthenticated / acceptExtraConns): strangers that reach the listener first - silent ones, and ones that
    # run the sender's side of the handshake with another join code - are never handed on; the legitimate sender is, promptly
    acc_specs = []
    for rogues, code in ((1, "WRONGCOD"), (3, "WRONGCOD"), (2, ""), (3, ""), (2, "ABCDEFGX"), (1, "abcdefgh")):
        acc_specs.append({"cands": ["A", "B"], "schedule": [], "mode": "select", "extra": 1, "rogues": rogues, "rogue_code": code})
    apath = os.path.join(ctx.workdir, "accept.cases")
    open(apath, "w").write("\n".join("race " + json.dumps(a).encode().hex() for a in acc_specs) + "\n")
    rc = ctx.run_harness(exe, apath, os.path.join(ctx.workdir, "accept.out"), timeout=300)
    aouts = open(os.path.join(ctx.workdir, "accept.out")).read().splitlines()
    ctx.oblige("harness:accept-path", rc == 0 and len(aouts) == len(acc_specs), ctx.harness_stderr[-300:])
    for a, line in zip(acc_specs, aouts):
        try:
            o = json.loads(line)
        except Exception:
            ctx.oblige("harness:accept-path-output", False, line[:200])
            continue
        rep = {"scenario": a, "result": o}
        if o.get("rogue_accepted") or o.get("unexpected_extra_authenticated"):
            ctx.violation("C08:accepted:stranger-at-accept", f"a connection that does not hold the join code came out of the receiver's authenticated accept ({a['rogues']} strangers with code {a['rogue_code']!r})", rep)
        if not o.get("same_connection") or o.get("extra_receiver_ok") != a["extra"]:
            ctx.violation("C08:honest-rejected:accept-path", f"the legitimate sender was not taken (or its extra connection was not) with {a['rogues']} strangers ahead of it: {o.get('sender_auth_err') or o.get('receiver_select_err') or o.get('extra_receiver_err')}", rep)
        hist["accept-path"] = hist.get("accept-path", 0) + 1
    ctx.coverage.update({
        "evaluations": len(cases) + len(acc_specs), "distinct_nontrivial": sum(1 for (sc, exp) in cases if False in exp.values()) + len(acc_specs),
        "scenario_histogram": hist,
        "rule": "honest pair over all ordered pairs of 9 join codes (netsim; QUIC: equal pairs + a sample, thorough: all); relay between two TLS sessions (netsim with distinct exporter outputs, and two real loopback QUIC sessions); "
                "every (quick: a third of the) single-bit flip(s) and truncation(s) of either auth message in flight; rogue dialer / rogue listener with model-made replays from another session, messages under another or the empty code, "
                "role-swapped messages, reflection, random proofs, bad version, trailing bytes; positive controls (legitimate holder); the receiver's real accept path (acceptAuthenticated/acceptExtraConns on a quic-go listener) with 1-3 silent or wrong-code strangers connected ahead of the legitimate sender. non-trivial = scenarios in which some honest end must reject",
        "tls_exporter_measured": {"same_session_equal": tls_same, "different_sessions_differ": tls_diff},
        "disagreements_model_vs_impl": len(diffs),
        "samples": [json.dumps(cases[0][0])[:200], json.dumps(cases[-1][0])[:200]],
    })
    ctx.assumptions += ["HMAC-SHA256: no forgery without the key and no collisions (the symbolic theorems treat hmac as a free constructor; the byte-level theorems state the collision they would need)",
                        "distinct TLS sessions export distinct keying material and both ends of one session export the same (measured on real loopback QUIC each run, not proved)",
                        "crypto/rand nonces are not modelled: the model is given the nonce the real endpoint chose",
                        "time-outs: a stalling peer is run once per side with the 10 s budget of the call sites; other stall lengths are not explored"]
    return ctx.finish(LEVEL)


def replay(ctx, path):
    print(json.dumps(json.load(open(path)), indent=1)[:4000])
    return run(ctx)
