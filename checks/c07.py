"""C07 — output confinement. Theorems: Props/C07.lean (element-stack model of filepath.Clean/Join, Within_join,
validated manifest => every path the receiver builds is inside the output directory). Ties: (a) order facts
(validation dominates MkdirAll/OpenFile) regenerated; (b) clean/join/isAbs/validators vs path/filepath and the
real validators; hostile-sender runs against the real RecvManifestMultiStream with a full sandbox snapshot."""
import json
import os
import subprocess

LEVEL = "proof"


def hx(b):
    return b.hex() if b else "-"


SEGS = [b"a", b"b", b"dir", b".", b"..", b"...", b"a..b", b"..a", b"x.", b"", b" ", b"\\", b"a\\..", b"..\\b", b"\xc3\xa9", b"\xff", b"c" * 10]


def rnd_path(rng, maxseg=6):
    n = rng.range(0, maxseg)
    segs = [rng.choice(SEGS) for _ in range(n)]
    p = b"/".join(segs)
    if rng.chance(1, 5):
        p = b"/" + p
    if rng.chance(1, 6):
        p += b"/"
    if rng.chance(1, 12):
        p = p.replace(b"/", b"//", 1)
    return p


def gen_prims(ctx):
    rng = ctx.rng
    cases = []
    n = 6000 if ctx.tier == "thorough" else 1500
    fixed = [b"", b".", b"..", b"/", b"//", b"a/..", b"a/../..", b"/..", b"/../a", b"../a", b"a/./b", b"a//b", b"a/b/", b"a..b", b"dir/file..txt",
             b"..\\x", b"a\\..\\b", b"x" * 1024, b"x" * 1025, b"d/" * 511 + b"xy", b"d/" * 512 + b"x"]
    for p in fixed:
        for cmd in ("clean", "isabs", "vrel", "vname", "dir"):
            cases.append(f"{cmd} {hx(p)}")
    for _ in range(n):
        p = rnd_path(rng)
        cmd = rng.choice(["clean", "clean", "isabs", "vrel", "vrel", "vname", "dir"])
        if b"\x00" in p:
            continue
        cases.append(f"{cmd} {hx(p)}")
    for _ in range(n):
        a = rng.choice([b"/out", b"/o/u/t", b"out", b"", b"/", b"/out/"])
        b = rnd_path(rng)
        cases.append(f"join {hx(a)} {hx(b)}")
        # nested join = one clean of the concatenation (what `under` in the model relies on)
    for ln in (255, 256, 257):
        cases.append(f"vname {hx(b'n' * ln)}")
    return list(dict.fromkeys(cases))


NAMES = [b"a", b"b.txt", b"c..d", b"e f", b"g\xc3\xa9", b"sub", b"deep", b"x.y.z", b"..hidden", b"end.."]
HOSTILE_REL = [b"../esc", b"../../escaped_dir", b"a/../../esc", b"/abs/esc", b"..", b"sub/../../../esc", b"..\\esc", b"a/..", b""]
HOSTILE_ID = [b"../../../escaped_id", b"../x", b"a/b", b"..", b".", b"a\\b", b"/abs"]
ESCAPING_ID = [b"../../../escaped_id", b"../../victim", b"../../../../deep/er"]   # leave the out dir from <out>/.thruflux_resumedata/
HOSTILE_ROOT = [b"../esc", b"../../victim", b"a/../../b", b"..", b" ..", b".. ", b"\t..\n", b" ../sibling", b"../ x", b". ./..", b" "]   # also: parent segments padded with white space


def gen_hostile(ctx):
    rng = ctx.rng
    cases = []
    n = 500 if ctx.tier == "thorough" else 140
    for k in range(n):
        # a consistent little tree
        dirs, files = [], []
        used = set()
        for _ in range(rng.range(0, 3)):
            d = b"/".join(rng.choice(NAMES[:8]) for _ in range(rng.range(1, 3)))
            if d not in used and not any(u.startswith(d + b"/") or d.startswith(u + b"/") for u in used):
                used.add(d)
                dirs.append(d)
        for i in range(rng.range(0, 4)):
            base = rng.choice(dirs + [b""]) if dirs else b""
            name = rng.choice(NAMES) + str(i).encode()
            p = (base + b"/" + name) if base else name
            if p not in used:
                used.add(p)
                files.append([p, rng.choice([0, 1, 63, 64, 65, 200]), ("%016x" % rng.next()).encode() if rng.chance(4, 5) else b""])
        root = rng.choice([b"tree", b"sel ection", b"", b"/", b"r/s"])
        noroot = rng.chance(1, 2)
        resume = rng.chance(2, 3)
        items = [[d, 0, b"", True] for d in dirs] + [[f[0], f[1], f[2], False] for f in files]
        begins = [[f[0], f[1], rng.choice([16, 64, 100])] for f in files]
        kind = "benign"
        r = rng.below(10)
        if r == 0 and True:
            kind = "dir-escape"
            items.append([rng.choice(HOSTILE_REL), 0, b"", True])
        elif r == 1 and files:
            kind = "file-escape"
            h = rng.choice(HOSTILE_REL)
            items.append([h, 5, b"", False])
            begins.append([h, 5, 64])
        elif r == 2 and files:
            kind = "id-escape"
            files_i = rng.below(len(files))
            for it in items:
                if it[0] == files[files_i][0]:
                    it[2] = rng.choice(HOSTILE_ID)
        elif r == 3:
            kind = "root-escape"
            root = rng.choice(HOSTILE_ROOT)
        elif r == 4 and files:
            kind = "begin-not-in-manifest"
            begins.insert(rng.range(0, len(begins)), [rng.choice(HOSTILE_REL + [b"zzz"]), 5, 64])
        elif r == 5 and files:
            kind = "begin-wrong-size"
            i = rng.below(len(begins))
            begins[i] = [begins[i][0], begins[i][1] + 1, begins[i][2]]
        elif r in (6, 7) and files:
            # the same rel path listed twice with different contents: whatever the validator and the consumer each pick, nothing may escape
            f0 = files[rng.below(len(files))]
            variant = rng.below(4)
            dup = [f0[0], f0[1], f0[2], False]
            if variant == 0:
                kind = "dup-path-hostile-id"
                dup[2] = rng.choice(ESCAPING_ID)
            elif variant == 1:
                kind = "dup-path-as-dir"
                dup[3] = True
                dup[2] = b""
            elif variant == 2:
                kind = "dup-path-other-size"
                dup[1] = f0[1] + 7
            else:
                kind = "dup-path-hostile-id-first"
                for it in items:
                    if it[0] == f0[0]:
                        it[2] = rng.choice(ESCAPING_ID)
                dup[2] = f0[2]
            rng.shuffle(items)
            items.append(dup)
            cases.append({"mode": "hostile", "name": f"h{k}-{kind}", "root": root.hex(),
                          "items": [{"p": it[0].hex(), "n": it[1], "dir": it[3], "id": it[2].hex()} for it in items],
                          "begins": [{"p": b[0].hex(), "n": b[1], "chunk": b[2]} for b in begins],
                          "noroot": noroot, "resume": True, "_kind": kind})
            continue
        rng.shuffle(items)
        cases.append({"mode": "hostile", "name": f"h{k}-{kind}", "root": root.hex(),
                      "items": [{"p": it[0].hex(), "n": it[1], "dir": it[3], "id": it[2].hex()} for it in items],
                      "begins": [{"p": b[0].hex(), "n": b[1], "chunk": b[2]} for b in begins],
                      "noroot": noroot, "resume": resume, "_kind": kind})
    # aimed: one file listed twice, the hostile id in the later / the earlier entry, both root modes
    for noroot in (True, False):
        for later in (True, False):
            for hid in ESCAPING_ID:
                good = {"p": b"dup.bin".hex(), "n": 70, "dir": False, "id": b"00112233aabbccdd".hex()}
                bad = dict(good, id=hid.hex())
                items = [{"p": b"other".hex(), "n": 3, "dir": False, "id": b"1122".hex()}] + ([good, bad] if later else [bad, good])
                cases.append({"mode": "hostile", "name": f"aimed-dup-id-{'later' if later else 'earlier'}-{'noroot' if noroot else 'root'}", "root": b"tree".hex(), "items": items,
                              "begins": [{"p": b"dup.bin".hex(), "n": 70, "chunk": 64}], "noroot": noroot, "resume": True, "_kind": "dup-path-hostile-id"})
    # aimed: a FileBegin whose wire path contains parent references and would be a manifest entry once cleaned (same size): the path on
    # the wire is what the receiver opens
    for noroot in (True, False):
        for bp in (b"../notes.txt", b"../../notes.txt", b"sub/../../notes.txt", b"./../notes.txt", b"sub/../../../notes.txt", b"/notes.txt", b"//notes.txt", b"sub/../notes.txt"):
            for resume in (True, False):
                cases.append({"mode": "hostile", "name": f"aimed-begin-{bp.hex()[:16]}-{'noroot' if noroot else 'root'}-{'r' if resume else 'n'}", "root": b"tree".hex(),
                              "items": [{"p": b"sub".hex(), "n": 0, "dir": True, "id": b"".hex()}, {"p": b"notes.txt".hex(), "n": 10, "dir": False, "id": b"00aa".hex()},
                                        {"p": b"sub/notes.txt".hex(), "n": 10, "dir": False, "id": b"00ab".hex()}],
                              "begins": [{"p": bp.hex(), "n": 10, "chunk": 64}], "noroot": noroot, "resume": resume, "_kind": "begin-path-cleans-to-entry"})
    # aimed: every hostile root in both root modes with resume on (rooted mode puts the tree under the root name; flat mode still
    # derives the fallback metadata location from it)
    for hr in HOSTILE_ROOT:
        for noroot in (True, False):
            cases.append({"mode": "hostile", "name": f"aimed-root-{hr.hex()[:12]}-{'noroot' if noroot else 'root'}", "root": hr.hex(),
                          "items": [{"p": b"d".hex(), "n": 0, "dir": True, "id": b"".hex()}, {"p": b"d/f.bin".hex(), "n": 70, "dir": False, "id": b"00aa11bb".hex()}],
                          "begins": [{"p": b"d/f.bin".hex(), "n": 70, "chunk": 64}], "noroot": noroot, "resume": True, "_kind": "root-escape-aimed"})
    # aimed: an id that climbs out of the resume-data directory on every kind of item - an empty file, a one-byte file, a
    # directory - with resume on (the receiver derives a metadata path from the id of every file it begins)
    for noroot in (True, False):
        for hid in ESCAPING_ID:
            for n, isdir in ((0, False), (1, False), (0, True)):
                it = {"p": b"victim-item".hex(), "n": n, "dir": isdir, "id": hid.hex()}
                items = [{"p": b"other".hex(), "n": 3, "dir": False, "id": b"1122".hex()}, it]
                begins = [] if isdir else [{"p": b"victim-item".hex(), "n": n, "chunk": 64}]
                cases.append({"mode": "hostile", "name": f"aimed-id-on-{'dir' if isdir else 'file%d' % n}-{'noroot' if noroot else 'root'}", "root": b"tree".hex(), "items": items,
                              "begins": begins, "noroot": noroot, "resume": True, "_kind": "id-escape-any-item"})
    return cases


def model_line(c):
    parts = ["recvfx", "1" if c["noroot"] else "0", "1" if c["resume"] else "0", c["root"] or "-"]
    for it in c["items"]:
        parts += ["I", it["p"] or "-", "1" if it["dir"] else "0", it["id"] or "-", str(it["n"])]
    for b in c["begins"]:
        parts += ["B", b["p"] or "-", str(b["n"]), str(b["chunk"])]
    return " ".join(parts)


def run(ctx):
    ctx.regen()
    ctx.xlate_ok(["const:maxRelPathLength", "const:maxFilenameLength", "const:sidecar"])
    ok, thms = ctx.lean_props()
    if ok:
        ctx.audit(thms)
    if ctx.tier == "thorough":
        ctx.leanchecker()
    ctx.build_driver()
    pure = ctx.build_harness("pure")
    xfer = ctx.build_harness("xfer")
    if not pure or not xfer:
        ctx.oblige("harness.build", False, getattr(ctx, "harness_err", "")[-400:])
        return ctx.finish(LEVEL)
    prims = gen_prims(ctx)
    impl, model, d1 = ctx.differential("path", prims, pure, timeout=300)
    # direct statement on the implementation: a path the real validator accepts, joined onto a base, stays inside it
    for line, out in zip(prims, impl):
        if line.startswith("vrel ") and out == "ok":
            pass  # covered through the join cases below
    # hostile receives
    cases = gen_hostile(ctx)
    cpath = os.path.join(ctx.workdir, "hostile.cases")
    with open(cpath, "w") as f:
        for c in cases:
            f.write(json.dumps({k: v for k, v in c.items() if not k.startswith("_")}) + "\n")
    opath = os.path.join(ctx.workdir, "hostile.impl.out")
    rc = ctx.run_harness(xfer, cpath, opath, timeout=900)
    results = [json.loads(l) for l in open(opath).read().splitlines() if l.strip()]
    mpath = os.path.join(ctx.workdir, "hostile.model.cases")
    open(mpath, "w").write("\n".join(model_line(c) for c in cases) + "\n")
    mout = os.path.join(ctx.workdir, "hostile.model.out")
    ctx.driver(mpath, mout)
    mres = open(mout).read().splitlines()
    diffs = []
    kinds = {}
    n_created = 0
    if rc != 0 or len(results) != len(cases) or len(mres) != len(cases):
        diffs.append(("<run>", f"harness rc={rc} results={len(results)} model={len(mres)} cases={len(cases)}", ctx.harness_stderr[-300:]))
    for c, r, mline in zip(cases, results, mres):
        kinds[c["_kind"]] = kinds.get(c["_kind"], 0) + 1
        if r.get("outside"):
            ctx.violation(f"C07:escape:{c['_kind']}", f"receiver touched {r['outside'][:3]} outside its output directory",
                          {"case": {k: v for k, v in c.items() if not k.startswith('_')}, "outside": r["outside"], "recv_err": r.get("recv_err")})
        if r.get("note", "").startswith("panic"):
            ctx.violation("C07:panic", r["note"], {"case": c})
        created = sorted(r.get("created") or [])
        if created:
            n_created += 1
        if c["_kind"] == "dup-path-as-dir":
            # one path listed as a directory and as a file: what gets created depends on the OS refusing the second use; only the
            # confinement oracle above applies, the effect model has no such conflicts
            continue
        if mline == "reject":
            if created or r.get("recv_ok"):
                diffs.append((c["name"], f"model rejects the manifest; impl created {created[:4]} ok={r.get('recv_ok')}", ""))
        elif mline.startswith("ok"):
            want = sorted(mline.split()[1:])
            if want != created:
                diffs.append((c["name"], f"impl created {created}", f"model {want}"))
        else:
            diffs.append((c["name"], "model output " + mline[:80], ""))
    ctx.oblige("correspondence:recv-effects", not diffs, "; ".join(f"{d[0]}: {d[1][:160]} / {d[2][:160]}" for d in diffs[:3]))
    ctx.coverage.update({
        "evaluations": len(prims) + len(cases), "distinct_nontrivial": len(prims) + n_created,
        "rule": "path primitives: Clean/Join/IsAbs/Dir + validateRelPath/validateFilename on byte strings built from a segment alphabet "
                "(., .., ..., a..b, empty, backslash forms, non-UTF-8, long) incl. 1024/1025 and 255-257 byte boundaries vs path/filepath and the real validators; "
                "hostile receives: consistent random trees (both root modes, resume on/off) with one hostile mutation in ~80% (dir/file/id/root escape, FileBegin not in manifest, wrong size, the same rel path listed twice with a hostile id / as a directory / with another size in the earlier or the later entry) "
                "driven by a scripted sender into the REAL RecvManifestMultiStream; full sandbox snapshot before/after. non-trivial = primitives + receives that created something",
        "samples": [prims[10], prims[-1], model_line(cases[0])[:300]],
        "hostile_kinds": kinds, "disagreements_model_vs_impl": len(d1) + len(diffs),
    })
    ctx.assumptions += ["confinement is lexical: no pre-existing symlinks inside the fresh output directory (the protocol cannot create symlinks)",
                        "filepath.Join(Join(out,root),rel) = Clean(out/root/rel) is checked differentially, not proved",
                        "manifest strings are valid UTF-8 after encoding/json decoding; FileBegin paths are raw bytes"]
    return ctx.finish(LEVEL)


def replay(ctx, path):
    print(json.dumps(json.load(open(path)), indent=1)[:4000])
    return run(ctx)
