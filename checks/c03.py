"""C03 — completion between healthy peers. Theorems: Props/C03.lean (no stuck state + decreasing measure on the lazily
accepting liveness abstraction, for all n>=1 streams and all chunk counts; legal names accepted; stream budget bounds).
Ties: budget arithmetic and name validation differentials; the real endpoints on the grid files x chunks-per-file x
streams x connections x resume over netsim with QUIC stream visibility and over real loopback QUIC, under a watchdog."""
import json
from checks import e2egen as G

LEVEL = "proof"


def run(ctx):
    ctx.regen()
    ok, thms = ctx.lean_props()
    if ok:
        ctx.audit(thms)
    if ctx.tier == "thorough":
        ctx.leanchecker()
    ctx.build_driver()
    exe = ctx.build_harness("xfer")
    app = ctx.build_harness("app")
    pure = ctx.build_harness("pure")
    if not exe or not app or not pure:
        ctx.oblige("harness.build", False, getattr(ctx, "harness_err", "")[-400:])
        return ctx.finish(LEVEL)
    rng = ctx.rng
    # budget arithmetic: exhaustive small domain
    bcases = [f"budget {f} {r} {c}" for f in range(0, 12) for r in range(0, 12) for c in range(0, 6)]
    bcases += [f"budget {rng.range(0, 5000)} {rng.range(0, 300)} {rng.range(0, 300)}" for _ in range(300)]
    impl, model, d0 = ctx.differential("budget", bcases, app, timeout=120)
    for line, out in zip(bcases, impl):
        f = out.split()
        if len(f) == 3 and f[2].isdigit():
            _, files, req, conns = line.split()
            if not (1 <= int(f[2]) <= 8):
                ctx.violation("C03:budget:normalized-out-of-range", f"{line} -> {out}", {"case": line, "impl": out})
            if int(conns) > 1 and int(f[0]) < min(int(conns), 1) :
                ctx.violation("C03:budget:fewer-streams-than-connections", f"{line} -> {out}", {"case": line, "impl": out})
    # legal names
    names = []
    for nm in G.ODD_NAMES + ["a/b/c", "a..b/c..d", "...", "a/.../b", "x" * 1024, "d/" * 511 + "ab"]:
        names.append(nm.encode())
    for _ in range(300):
        segs = [rng.choice([b"a", b"b..", b"..c", b"d.e", b"...", b" ", b"f\\g", b"\xff\xfe", b"h"]) for _ in range(rng.range(1, 6))]
        names.append(b"/".join(segs))
    ncases = ["vrel " + (n.hex() or "-") for n in dict.fromkeys(names)]
    impl2, model2, d1 = ctx.differential("names", ncases, pure, timeout=120)
    for line, out in zip(ncases, impl2):
        p = bytes.fromhex(line.split()[1]) if line.split()[1] != "-" else b""
        legal = p != b"" and len(p) <= 1024 and not p.startswith(b"/") and b".." not in [s for part in p.split(b"/") for s in part.split(b"\\")]
        if legal and out != "ok":
            ctx.violation("C03:legal-name-rejected", f"validateRelPath rejects the legal name {p[:60]!r}", {"name_hex": p.hex(), "impl": out})
    # the grid
    cases = []
    files_opts = [0, 1, 2, 5]
    cpf_opts = [0, 1, 2, 5]
    streams_opts = [1, 2, 4, 8]
    conns_opts = [1, 2, 4]
    k = 0
    full = ctx.tier == "thorough"
    for nf in files_opts:
        for cpf in cpf_opts:
            for st in streams_opts:
                for cn in conns_opts:
                    for resume in ("off", "on", "partial"):
                        if not full and rng.chance(2, 3):
                            continue
                        k += 1
                        chunk = 64
                        files = [{"p": f"g{i}", "n": max(0, cpf * chunk - (i % 2)), "s": 7 * k + i} for i in range(nf)]
                        c = {"name": f"grid-{nf}f-{cpf}c-{st}s-{cn}n-{resume}", "files": files, "dirs": ["onlydir"] if nf == 0 and cpf else [],
                             "chunk": chunk, "streams": st, "conns": cn, "transport": "netsim", "noroot": True, "resume": resume != "off", "timeout_ms": 6000}
                        if resume == "partial" and nf and cpf >= 2:
                            c["prior"] = [{"file": "g0", "chunks": [0], "damage": [0] if rng.chance(1, 3) else []}]
                        cases.append(c)
    nq = 30 if ctx.tier == "quick" else 200
    for i in range(nq):
        nf, cpf, st, cn = rng.choice(files_opts), rng.choice(cpf_opts), rng.choice(streams_opts), rng.choice(conns_opts)
        files = [{"p": f"q{j}", "n": max(0, cpf * 64 - (j % 2)), "s": 99 * i + j} for j in range(nf)]
        cases.append({"name": f"quic-{nf}f-{cpf}c-{st}s-{cn}n-{i}", "files": files, "chunk": 64, "streams": st, "conns": cn, "transport": "quic",
                      "noroot": True, "resume": rng.chance(1, 2), "timeout_ms": 8000})
    for i in range(20 if ctx.tier == "quick" else 100):
        c = G.healthy_case(rng, 20000 + i, ["netsim"], odd=True)
        cases.append(c)
    # lost wake-up window: a data reader that found no state for its chunk's file is held between its look-up and its wait registration
    # while the control reader handles FileBegin (chunk frames travel on other streams than FileBegin and may arrive first)
    for i, (nf, cpf, st, cn) in enumerate([(1, 1, 1, 1), (1, 3, 2, 1), (3, 2, 4, 1), (2, 2, 2, 2), (5, 1, 8, 4), (4, 5, 4, 2)] + ([(rng.range(1, 5), rng.range(1, 5), rng.choice(streams_opts), rng.choice(conns_opts)) for _ in range(12)] if full else [])):
        for tr in ("netsim", "quic") if (full or i < 3) else ("netsim",):
            files = [{"p": f"w{j}", "n": max(1, cpf * 64 - (j % 2)), "s": 1234 * i + j} for j in range(nf)]
            cases.append({"name": f"wakeup-{nf}f-{cpf}c-{st}s-{cn}n-{tr}", "files": files, "chunk": 64, "streams": st, "conns": cn, "transport": tr, "noroot": True,
                          "resume": i % 2 == 1, "timeout_ms": 12000, "delays": {"recv.file_begin.enter": 450 if i % 2 == 1 else 40, "recv.reader.before_wait": 700 if i % 2 == 1 else 150}})
    # several readers parked for one file: FileBegin handled after the sender's resume grace, readers not held, so that chunk frames of
    # one file arrive on more than one data stream first and every parked reader has to be woken
    for i, (nf, cpf, st, tr) in enumerate([(1, 64, 4, "netsim"), (1, 96, 4, "quic"), (2, 48, 3, "netsim"), (1, 128, 8, "netsim")] + ([(rng.range(1, 4), rng.range(32, 129), rng.range(2, 9), rng.choice(["netsim", "quic"])) for _ in range(6)] if full else [])):
        files = [{"p": f"k{j}", "n": cpf * 64 - (j % 2), "s": 777 * i + j} for j in range(nf)]
        cases.append({"name": f"parked-{nf}f-{cpf}c-{st}s-{tr}", "files": files, "chunk": 64, "streams": st, "conns": 1, "transport": tr, "noroot": True,
                      "resume": True, "timeout_ms": 12000, "count_hits": True, "delays": {"recv.file_begin.enter": 450}})
    # chunk sizes that are not powers of two (every party must count the same number of chunks), sizes around their multiples
    for i, (ch, sizes) in enumerate([(7, [8, 14, 15, 6]), (1000, [1032, 2000, 999, 3016]), (48, [49, 96, 100]), (3, [1, 4, 9])]):
        for resume in (False, True):
            files = [{"p": f"o{j}", "n": n, "s": 99 * i + j} for j, n in enumerate(sizes)]
            cases.append({"name": f"oddchunk-{ch}-{'resume' if resume else 'fresh'}", "files": files, "chunk": ch, "streams": 2, "conns": 1, "transport": "netsim", "noroot": True,
                          "resume": resume, "timeout_ms": 8000})
    # several connections with different latencies: the first connection (which carries the control stream) slower than the others by
    # less and by more than the sender's 300 ms resume grace, and the other way round
    for i, (nf, cpf, st, delays) in enumerate([(1, 3, 2, [120, 0]), (2, 2, 4, [450, 0]), (3, 1, 3, [450, 0, 30]), (1, 5, 4, [0, 200]), (2, 3, 6, [60, 0, 0, 250])]
                                              + ([(rng.range(1, 4), rng.range(1, 5), rng.range(2, 8), [rng.choice([0, 30, 120, 450]) for _ in range(rng.range(2, 4))]) for _ in range(8)] if full else [])):
        for resume in (False, True):
            files = [{"p": f"m{j}", "n": max(1, cpf * 64 - j), "s": 4321 * i + j} for j in range(nf)]
            cases.append({"name": f"skew-{nf}f-{cpf}c-{st}s-{'-'.join(map(str, delays))}-{'resume' if resume else 'fresh'}", "files": files, "chunk": 64, "streams": st,
                          "conns": len(delays), "conn_delays_ms": delays, "transport": "netsim", "noroot": True, "resume": resume, "timeout_ms": 12000})
    # an earlier, interrupted attempt at the same file with another chunk size left its record behind
    for i, (size, ch, och, marked) in enumerate([(512, 64, 128, [0, 1]), (512, 32, 128, [0, 1]), (300, 64, 32, [0, 3, 8]), (200, 32, 64, [0, 1, 2, 3])]):
        cases.append({"name": f"prior-other-chunk-size-{i}", "files": [{"p": "file.bin", "n": size, "s": 600 + i}, {"p": "other.bin", "n": 40, "s": 700 + i}], "chunk": ch,
                      "streams": 2, "conns": 1, "transport": "netsim", "noroot": True, "resume": True, "timeout_ms": 6000,
                      "prior": [{"file": "file.bin", "chunks": marked, "foreign_chunk": och}]})
    # legal file names that are not valid UTF-8 (the manifest travels as JSON: see the C18 finding with the same root cause)
    for i, nm in enumerate((b"caf\xe9.txt", b"d/a\xff")):
        cases.append({"name": f"nonutf8-name-{i}", "files": [{"p": nm.hex(), "x": True, "n": 100, "s": 70 + i}, {"p": "ok.bin", "n": 50, "s": 80 + i}], "chunk": 64, "streams": 2,
                      "conns": 1, "transport": "netsim", "noroot": True, "resume": bool(i), "timeout_ms": 6000, "_sig": "non-utf8-name"})
    rc, results = G.run_xfer(ctx, exe, "grid", cases, timeout=1700)
    if rc != 0 or len(results) != len(cases):
        ctx.oblige("harness:run", False, f"rc={rc} results={len(results)}/{len(cases)} {ctx.harness_stderr[-300:]}")
    completed = 0
    slow = 0
    parked = {}
    for c, r in zip(cases, results):
        rep = {"case": G.strip(c), "result": r}
        if c["name"].startswith("parked-"):
            k = (r.get("hits") or {}).get("recv.reader.before_wait", 0)
            parked[str(min(k, 4)) + ("+" if k >= 4 else "")] = parked.get(str(min(k, 4)) + ("+" if k >= 4 else ""), 0) + 1
        if r.get("note"):
            ctx.oblige(f"run:{c['name']}", False, r["note"][:200])
            continue
        if r.get("hang"):
            ctx.violation("C03:hang:" + c["transport"], f"healthy transfer {c['name']} did not finish within the watchdog: {r['hang']}; stuck at {r.get('stuck', [])[:4]}", rep)
        elif not (r.get("sender_ok") and r.get("recv_ok")):
            ctx.violation("C03:failed:" + c.get("_sig", c["transport"]), f"healthy transfer {c['name']} failed: sender={r.get('sender_err')!r} receiver={r.get('recv_err')!r}", rep)
        else:
            completed += 1
            if r.get("elapsed_ms", 0) > 3000:
                slow += 1
    # the FileBegin wake-up registry itself, free-running (Model/FileWait)
    fw = [{"mode": "fwstorm", "name": f"fw-{r}r", "readers": r, "rounds": 3000 if full else 800, "seed": ctx.seed * 131 + r} for r in (1, 2, 3, 5, 8)]
    rcf, fres = G.run_xfer(ctx, exe, "fwstorm", fw, timeout=600)
    ctx.oblige("harness:fwstorm", rcf == 0 and len(fres) == len(fw), ctx.harness_stderr[-300:])
    fw_parked = fw_rounds = 0
    for c, r in zip(fw, fres):
        fw_parked += r.get("parked", 0)
        fw_rounds += r.get("rounds", 0)
        if r.get("lost"):
            ctx.violation("C03:lost-wakeup:registry", f"{r['lost']} of {c['readers']} data readers never came back from the FileBegin wait (round {r.get('lost_at_round')} of a free-running storm "
                          f"on the real registry): a healthy transfer would wait forever", {"case": c, "result": r})
    # the file scheduler: it may decline only when nothing may be started (C03_scheduler_no_starvation), whatever the clock says
    from checks import c17
    sched, smodel, sbad = c17.sched_differential(ctx, pure, "C03")
    ctx.coverage.update({
        "scheduler_histories": len(sched), "scheduler_disagreements": len(sbad), "wakeup_storm_rounds": fw_rounds, "wakeup_storm_parked_readers": fw_parked,
        "evaluations": len(bcases) + len(ncases) + len(cases) + len(sched), "distinct_nontrivial": completed,
        "rule": "grid files {0,1,2,5} x chunks-per-file {0,1,2,5} x streams {1,2,4,8} x connections {1,2,4} x resume {off,on,on-after-partial} over netsim with QUIC stream-visibility semantics "
                "(quick: one third sampled; thorough: complete), seeded points of the same grid over real loopback QUIC, trees with unusual legal names; the same with FileBegin handling delayed by 40 ms / 450 ms (beyond the sender's 300 ms resume grace: chunk frames overtake it) and every data reader held for 150 ms / 700 ms between its state look-up and its wait for FileBegin (lost wake-up window); files of 32-128 chunks with FileBegin held 450 ms and readers not held (several readers parked for one file, all must be woken); 2-4 connections with one-way latencies 0-450 ms each (the control connection slower or faster than the others, resume on and off); every run must end with both endpoints nil inside the watchdog. "
                "budget arithmetic exhaustive on files<12, requested<12, connections<6 plus random; validateRelPath on legal odd names. non-trivial = completed end-to-end runs",
        "samples": [cases[0]["name"], cases[len(cases) // 2]["name"], bcases[17], ncases[0]],
        "completed": completed, "slower_than_3s": slow, "parked_readers_per_case": parked, "disagreements_model_vs_impl": len(d0) + len(d1),
    })
    ctx.assumptions += ["'bounded time' is a watchdog (6-8 s) on the implementation and absence of stuck states + a decreasing measure in the model; timers and polling are not steps",
                        "the liveness abstractions cover one connection (one file, and k files over n streams); multi-connection interplay is covered by the grid runs only"]
    return ctx.finish(LEVEL)


def replay(ctx, path):
    print(json.dumps(json.load(open(path)), indent=1)[:4000])
    return run(ctx)
