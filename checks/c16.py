"""C16 — clients against every documented server configuration. Theorems: Props/C16.lean (escape/unescape round trip for all byte
strings; the server's Query().Get returns exactly the join code / peer id / role the client's buildWebSocketURL encoded; the client's
TURN URL parse returns the scheme, user, secret and endpoint the server's injectTurnCredentials encoded; /session response decoding
for every session-timeout). Tie: the model's escape/unescape/query/inject/parse run against net/url, the real buildWebSocketURL,
the real injectTurnCredentials (inside the thruserv binary) and the real parseTurnServer on generated strings; whole system: the real
thruserv binary started on a grid of flag values and the real CreateSession / buildWebSocketURL / wsclient / parseTurnServer."""
import json
import os
import subprocess

LEVEL = "proof"

SIG = [b"&", b"=", b";", b"%", b"+", b" ", b"#", b"?", b"/", b":", b"@", b"$", b",", b"~", b"-", b"_", b".", b"!", b"*", b"'", b"(", b")", b"\"", b"<", b"\\", b"\xc3\xa9", b"\xff", b"\x00", b"\n", b"%41", b"%zz", b"%4"]
WORDS = [b"a", b"Z9", b"peer", b"1790000000", b"join_code", b"role", b"x" * 40]


def hx(b):
    return b.hex() if b else "-"


def rnd_str(rng, maxn=6):
    n = rng.range(0, maxn)
    return b"".join(rng.choice(SIG if rng.chance(2, 3) else WORDS) for _ in range(n))


FLAGS = {
    "--max-sessions": ["1", "0"], "--max-receivers-per-sender": ["1", "0"], "--max-message-bytes": ["2048", "0"],
    "--ws-connects-per-min": ["120", "0"], "--ws-connects-burst": ["3", "0"], "--ws-msgs-per-sec": ["5", "0"], "--ws-msgs-burst": ["5", "0"],
    "--session-creates-per-min": ["60", "0"], "--session-creates-burst": ["1", "0"], "--max-ws-connections": ["2", "0"],
    "--ws-idle-timeout": ["5s", "0"], "--session-timeout": ["5s", "0"],
}
TURN_SPELLINGS = [  # (flag value, tls, host:port)
    ("turn:relay.example.org:3478", False, "relay.example.org:3478"), ("turn://relay.example.org:3478", False, "relay.example.org:3478"),
    ("turns:relay.example.org:5349", True, "relay.example.org:5349"), ("turns://relay.example.org:5349", True, "relay.example.org:5349"),
    ("relay.example.org:3478", False, "relay.example.org:3478"), ("turn:10.0.0.7:3478?transport=tcp", False, "10.0.0.7:3478"),
    ("turns:relay.example.org:5349?servername=relay.example.org", True, "relay.example.org:5349"), ("turn:[2001:db8::1]:3478", False, "[2001:db8::1]:3478"),
    ("turns:relay.example.org:443?transport=tcp&sni=alt.example.org&insecure=1&realm=r", True, "relay.example.org:443"),
]
PEERS = ["host-1", "recv-1", "a b", "x&y=z", "p/q?r#s", "me@home:8080", "100%", "é-ü", "semi;colon", "plus+plus", "q=1&join_code=HACK", "%2F%41", "left,right", "c,d:e@f,g"]


def run(ctx):
    ctx.regen()
    ok, thms = ctx.lean_props()
    if ok:
        ctx.audit(thms)
    if ctx.tier == "thorough":
        ctx.leanchecker()
    ctx.build_driver()
    exe = ctx.build_harness("serv")
    srv = ctx.build_thruserv() if exe else None
    if not exe or not srv:
        ctx.oblige("harness.build", False, getattr(ctx, "harness_err", "")[-400:])
        return ctx.finish(LEVEL)
    rng = ctx.rng
    thorough = ctx.tier == "thorough"
    n = 1500 if thorough else 400
    # --- 1. net/url subset vs the model
    cases = []
    strs = [b"", b" ", b"+", b"%", b"a b+c%20d", b"&=;#?/:@"] + [rnd_str(rng) for _ in range(n)]
    for s in strs:
        cases.append(f"url qesc {hx(s)}")
        cases.append(f"url uesc {hx(s)}")
        cases.append(f"url qunesc {hx(s)}")
    for _ in range(n):
        cases.append(f"url wsq {hx(rnd_str(rng))} {hx(rnd_str(rng))} {hx(rng.choice([b'sender', b'receiver', rnd_str(rng, 2)]))} {rng.choice([0, 0, 1, 7, 100])}")
        parts = []
        for _ in range(rng.range(0, 5)):
            k = rng.choice([b"join_code", b"peer_id", b"role", b"k", b"", rnd_str(rng, 2)])
            parts.append(k + rng.choice([b"=", b"=", b"", b"=="]) + rnd_str(rng, 3))
        q = b"&".join(parts)
        cases.append(f"url qget {hx(q)} {hx(rng.choice([b'join_code', b'peer_id', b'role', b'k', b'']))}")
    cases = [c for c in dict.fromkeys(cases)]
    ctx.differential("url", cases, exe, timeout=600)
    # userinfo unescape: on escaped strings (the real parser additionally rejects characters that escaping never produces)
    ucases = []
    for s in strs[:n]:
        ucases.append(("esc", s))
    um = os.path.join(ctx.workdir, "uesc.cases")
    open(um, "w").write("\n".join(f"url uesc {hx(s)}" for _, s in ucases) + "\n")
    uo = os.path.join(ctx.workdir, "uesc.out")
    ctx.driver(um, uo)
    escd = open(uo).read().splitlines()
    ctx.differential("url-userinfo-unescape", [f"url uunesc {e}" for e in dict.fromkeys(escd)], exe, timeout=600)
    # --- 2. TURN: model inject == real injectTurnCredentials on every spelling; model parse == real parseTurnServer; round trip
    inj_model, inj_real, meta = [], [], []
    users = [b"1790000000:" + p.encode() for p in PEERS] + [rnd_str(rng) for _ in range(60 if not thorough else 300)]
    for (flag, tls, hp) in TURN_SPELLINGS:
        q = flag.split("?", 1)[1].encode() if "?" in flag else b""
        for u in users:
            pw = rng.choice([b"zZ+tjnZgciMj6Ulq7UUibYZKoMQ=", b"p/w=", rnd_str(rng, 3), b""])
            inj_model.append(f"url inject {1 if tls else 0} {hx(hp.encode())} {hx(q)} {hx(u)} {hx(pw)}")
            inj_real.append(f"inject {hx(flag.encode())} {hx(u)} {hx(pw)}")
            meta.append((flag, tls, hp, q, u, pw))
    mp = os.path.join(ctx.workdir, "inj.model.cases")
    open(mp, "w").write("\n".join(inj_model) + "\n")
    mo = os.path.join(ctx.workdir, "inj.model.out")
    ctx.driver(mp, mo)
    model_urls = open(mo).read().splitlines()
    p = subprocess.run([srv], input=("\n".join(inj_real) + "\n").encode(), stdout=subprocess.PIPE, stderr=subprocess.PIPE, timeout=300, env=dict(os.environ, THRUSERV_VERIF="1"))
    real_urls = p.stdout.decode().splitlines()
    bad = [(m[0], m[4], r, mm) for m, r, mm in zip(meta, real_urls, model_urls) if r != mm]
    ctx.oblige("correspondence:injectTurnCredentials", not bad and len(real_urls) == len(model_urls) == len(meta),
               "; ".join(f"{b[0]} user {b[1]!r}: impl {b[2][:80]} model {b[3][:80]}" for b in bad[:3]) + f" ({len(real_urls)}/{len(model_urls)}/{len(meta)})")
    pt = [f"url pturn {u}" for u in real_urls if u not in ("err",)]
    impl, model, diffs = ctx.differential("parseTurnServer", pt, exe, canon=lambda l: " ".join(l.split()[:4]), timeout=600)
    for m, u, got in zip(meta, real_urls, impl):
        flag, tls, hp, q, user, pw = m
        want = f"{hx(b'turns' if tls else b'turn')} {hx(user)} {hx(pw)} {hx(hp.encode())}"
        if got != want:
            ctx.violation("C16:turn-credentials-not-recovered:" + flag.split(":")[0],
                          f"server entry {flag!r}, user {user!r}: the client parses {got} from the minted URL, the server intended {want}", {"flag": flag, "user": user.hex(), "pass": pw.hex(), "minted": u, "client": got, "intended": want})
    # --- 3. the real binary on the flag grid
    grid = []

    def g(flags, label, **kw):
        d = {"flags": flags, "host_peer": kw.get("hp", "host-1"), "recv_peer": kw.get("rp", "recv-1"), "max_receivers": kw.get("mr", 0), "label": label}
        d.update({k: v for k, v in kw.items() if k in ("turn_secret", "turn_ttl_s")})
        # a connect burst of 0 is treated as 1 by the server: the two peers (same IP here) must respect the configured connect rate
        fl = dict(zip(flags[::2], flags[1::2]))
        if "mr" not in kw:
            # the real host always asks for a receiver limit (default 4); keep it within what the server allows (0 = no server limit)
            lim = int(fl.get("--max-receivers-per-sender", "10"))
            d["max_receivers"] = 4 if lim == 0 or lim >= 4 else lim
        if fl.get("--ws-connects-burst") in ("0", "1") and fl.get("--ws-connects-per-min", "30") != "0":
            d["pace_ms"] = int(60000 / int(fl.get("--ws-connects-per-min", "30"))) + 150
        grid.append(d)

    g([], "defaults")
    for f, vals in FLAGS.items():
        for v in vals:
            g([f, v], f"{f}={v}")
    g(sum(([f, "0"] for f in FLAGS), []), "all=0")
    # no server-side receiver limit: any limit the host asks for is fine
    for mr in (1, 100, 65535):
        g(["--max-receivers-per-sender", "0"], f"--max-receivers-per-sender=0 host asks {mr}", mr=mr)
    g(sum(([f, vals[0]] for f, vals in FLAGS.items()), []), "all=small", mr=1)
    for _ in range(6 if not thorough else 40):
        fl = []
        for f, vals in FLAGS.items():
            r = rng.below(3)
            if r < 2:
                fl += [f, vals[r]]
        g(fl, "combo:" + " ".join(fl), mr=rng.choice([0, 1]) if dict(zip(fl[::2], fl[1::2])).get("--max-receivers-per-sender") != "0" else rng.choice([0, 1, 4, 50]))
    for i, (flag, tls, hp) in enumerate(TURN_SPELLINGS):
        ttl = rng.choice([3600, 60, 7200])
        hpn, rpn = PEERS[(2 * i) % len(PEERS)], PEERS[(2 * i + 1) % len(PEERS)]
        g(["--turn-server", flag, "--turn-static-auth-secret", "s3cr3t/+=", "--turn-cred-ttl", f"{ttl}s"] + (["--session-timeout", "0"] if i % 3 == 0 else []),
          f"turn:{flag}", hp=hpn, rp=rpn, turn_secret="s3cr3t/+=", turn_ttl_s=ttl)
    # peer ids with characters the minted URL carries unescaped in its userinfo (sub-delimiters such as ',' ';' '$' '!'), per scheme
    for j, pid in enumerate(["left,right", "c,d:e@f,g", "semi;colon", "$!*'()"]):
        flag, tls, hp = TURN_SPELLINGS[(3 * j) % len(TURN_SPELLINGS)] if j else TURN_SPELLINGS[1]
        g(["--turn-server", flag, "--turn-static-auth-secret", "k,e;y", "--turn-cred-ttl", "600s"], f"turn:{flag}", hp=pid, rp=pid + ",2", turn_secret="k,e;y", turn_ttl_s=600)
    g(["--turn-server", "turn:a.example:3478,turns:b.example:5349"], "turn-without-secret")
    for pid in PEERS:
        g([], "peer-id:" + pid, hp=pid, rp=pid + "'")
    cpath = os.path.join(ctx.workdir, "grid.cases")
    with open(cpath, "w") as f:
        for d in grid:
            f.write("grid " + json.dumps(d).encode().hex() + "\n")
    opath = os.path.join(ctx.workdir, "grid.out")
    rc = ctx.run_harness(exe, cpath, opath, timeout=1500, env={"THRUSERV_BIN": srv})
    outs = open(opath).read().splitlines()
    if rc != 0 or len(outs) != len(grid):
        ctx.oblige("harness:grid", False, f"rc={rc} {len(outs)}/{len(grid)} {ctx.harness_stderr[-300:]}")
    okc = 0
    for d, o in zip(grid, outs):
        try:
            r = json.loads(o)
        except Exception:
            r = {"server_err": o[:200]}
        rep = {"config": d, "result": r}
        lab = d["label"]
        fam = lab.split(":")[0] if lab.startswith(("combo", "peer-id", "turn:")) else lab
        if "server_err" in r:
            ctx.oblige("harness:server-start", False, r["server_err"] + " " + lab)
            continue
        problems = []
        if "create_err" in r:
            problems.append(("create-session-fails", r["create_err"]))
        for k in ("host_url_err", "host_dial_err", "recv_url_err", "recv_dial_err", "host_err", "recv_err", "msg_err", "msg_err2", "host_turn_err", "recv_turn_err"):
            if k in r:
                problems.append((k.replace("_err", "").replace("_", "-") + "-fails", r[k]))
        want_turn = bool(d.get("turn_secret"))
        for who, peer in (("host", d["host_peer"]), ("recv", d["recv_peer"])):
            if r.get(who + "_turn_unexpected"):
                problems.append(("turn-credentials-without-issuer", who))
            if want_turn and who + "_turn_issued" in r and len(r.get(who + "_turn") or []) != r[who + "_turn_issued"]:
                problems.append(("turn-server-count-differs", f"{who}: server issued {r[who + '_turn_issued']} URL(s), the client's envelope handler keeps {[t.get('url') for t in r.get(who + '_turn') or []]}"))
            for t in r.get(who + "_turn") or []:
                if "err" in t:
                    problems.append(("turn-url-unparsable", f"{t['url']}: {t['err']}"))
                elif not (t.get("user_ok") and t.get("pass_ok")):
                    problems.append(("turn-credentials-differ", f"{who}: user {t.get('user')!r} ok={t.get('user_ok')} pass ok={t.get('pass_ok')} from {t['url']}"))
                else:
                    spell = next((s for s in TURN_SPELLINGS if "turn:" + s[0] == lab), None)
                    if spell and (t.get("addr") != spell[2] or t.get("tls") != spell[1]):
                        problems.append(("turn-endpoint-differs", f"{t.get('addr')} tls={t.get('tls')} vs configured {spell[2]} tls={spell[1]}"))
        if r.get("ok") and d["label"].startswith("--session-timeout=0") and not r.get("expires_zero"):
            problems.append(("expiry-reported-without-timeout", ""))
        if r.get("ok") and not problems:
            exp_ids = sorted([d["host_peer"] + "/sender", d["recv_peer"] + "/receiver"])
            if sorted(r.get("recv_peer_list") or []) != exp_ids:
                problems.append(("peer-ids-differ", f"receiver's peer list {r.get('recv_peer_list')} vs connected {exp_ids}"))
        for kind, what in problems:
            ctx.violation(f"C16:{kind}:{fam}", f"server flags [{' '.join(d['flags'])}] ({lab}): {kind}: {what}", rep)
        if not problems:
            okc += 1
    ctx.coverage.update({
        "evaluations": len(cases) + len(inj_model) + len(grid), "distinct_nontrivial": okc + len(inj_model),
        "grid_configurations": len(grid), "grid_ok": okc,
        "rule": "net/url subset: strings over URL-significant characters (& = ; % + space # ? / : @ ...), unicode, invalid UTF-8, malformed percent sequences; query strings with repeated/empty/malformed pairs; "
                "TURN: 9 spellings (turn:/turns:/with and without //, bare host:port, IPv6, query options) x users 'expiry:peerID' with URL-significant peer ids and random users x secrets; "
                "grid: defaults, each of 12 flags at a small value and at 0, all at 0, all small, random combinations, TURN issuing per spelling (with/without session timeout), TURN servers without secret, 12 peer ids with URL-significant characters; "
                "per configuration the real CreateSession, buildWebSocketURL + wsclient for host and receiver, peer_list / peer_joined contents, turn_credentials envelope handed to the real sender / receiver handleEnvelope, the servers it keeps parsed by the real parseTurnServer and compared with an independent HMAC-SHA1 oracle, one addressed message each way",
        "samples": [cases[0], json.dumps(grid[1])[:200]],
    })
    ctx.assumptions += ["encoding/json, time.Format/Parse(RFC3339), gorilla/websocket and net/http are exercised, not modelled; url.Parse is modelled only for URLs of the shape the server mints",
                        "a TURN entry without a port is accepted by the server and rejected by the client ('missing TURN port'); such entries are outside the documented spellings and not generated"]
    return ctx.finish(LEVEL)


def replay(ctx, path):
    print(json.dumps(json.load(open(path)), indent=1)[:4000])
    return run(ctx)
