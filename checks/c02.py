"""C02 — no false success under faults. Theorems: Props/C02.lean (return decisions report success only with every file
finalised ok / confirmed; per-file: corruption => failed, verdicts final, ok => identical). Tie (b): netsim injects each
fault kind at byte positions of every stream and direction of small transfers (graceful close by either side, abrupt loss,
payload/CRC bit flips), plus cancellation of either endpoint at various moments, source shrink/removal, obstructed output
path; both return values and the tree are recorded under a watchdog."""
import json
from checks import e2egen as G

LEVEL = "proof"


def run(ctx):
    ctx.regen()
    ok, thms = ctx.lean_props()
    if ok:
        ctx.audit(thms)
    if ctx.tier == "thorough":
        ctx.leanchecker()
    exe = ctx.build_harness("xfer")
    if not exe:
        ctx.oblige("harness.build", False, getattr(ctx, "harness_err", "")[-400:])
        return ctx.finish(LEVEL)
    rng = ctx.rng
    cases = []
    chunk = 32
    base_files = [{"p": "a.bin", "n": 3 * chunk - 5, "s": 11}, {"p": "d/b.bin", "n": 2 * chunk, "s": 12}]

    def base(name, **kw):
        c = {"name": name, "files": [dict(f) for f in base_files], "chunk": chunk, "streams": 2, "conns": 1, "transport": "netsim",
             "noroot": True, "resume": rng.chance(1, 2), "timeout_ms": 5000, "close_like_app": True}
        c.update(kw)
        return c

    stride = 1 if ctx.tier == "thorough" else 7
    # connection-level faults at byte positions of every stream, both directions
    for kind in ("close0-by-writer", "close0-by-reader", "abrupt"):
        for stream, upto, a_to_b in ((0, 520, True), (0, 160, False), (1, 230, True), (2, 230, True)):
            for at in range(rng.below(stride), upto, stride):
                cases.append(base(f"{kind}-s{stream}-{'ab' if a_to_b else 'ba'}-{at}",
                                  faults=[{"from_a": True, "stream": stream, "a_to_b": a_to_b, "at": at, "kind": kind, "conn": 0}], _kind=kind))
    # payload / checksum bit flips (bytes 16.. of each 20+len frame), single data stream so that the layout is known
    one = [{"p": "a.bin", "n": 4 * chunk - 3, "s": 21}]
    frame = 20 + chunk
    for at in range(0, 4 * frame, 1 if ctx.tier == "thorough" else 3):
        if at % frame >= 16:
            cases.append(base(f"flip-{at}", files=[dict(one[0])], streams=1,
                              faults=[{"from_a": True, "stream": 1, "a_to_b": True, "at": at, "kind": "flip", "conn": 0}], _kind="flip"))
            # the same with the failing reader held right after it finalised the file: the sender's reaction
            # (FileDone(false) -> error -> connection closed with code 0) then competes with the reader's own error
            cases.append(base(f"flip-{at}-race", files=[dict(one[0])], streams=1, delay_point="recv.after_finalize", delay_ms=25, delay_arg=0,
                              faults=[{"from_a": True, "stream": 1, "a_to_b": True, "at": at, "kind": "flip", "conn": 0}], _kind="flip-race"))
    # the receiver rejects the last outstanding file and the sender's completion callback is slow (the CLI installs one): the sender's
    # workers poll every 200 ms for "all files done" while the rejection is still being handled
    for at in range(16, 4 * frame, frame if ctx.tier == "quick" else 7):
        if at % frame >= 16:
            for close_like in (True, False):
                cases.append(base(f"flip-{at}-slow-done-cb-{'close' if close_like else 'open'}", files=[dict(one[0])], streams=1, sender_done_delay_ms=900, close_like_app=close_like,
                                  delay_point="recv.after_finalize", delay_ms=60, delay_arg=0,
                                  faults=[{"from_a": True, "stream": 1, "a_to_b": True, "at": at, "kind": "flip", "conn": 0}], _kind="flip-slow-callback"))
    # the same flips under the other file-hash settings (the frame checksum must not depend on them)
    for alg in ("none", "xxhash64"):
        for at in range(0, 4 * frame, 1 if ctx.tier == "thorough" else 5):
            if at % frame >= 16:
                cases.append(base(f"flip-{at}-{alg}", files=[dict(one[0])], streams=1, hash_alg=alg,
                                  faults=[{"from_a": True, "stream": 1, "a_to_b": True, "at": at, "kind": "flip", "conn": 0}], _kind="flip-" + alg))
    # cancellation of either endpoint at various moments of a longer transfer
    big = [{"p": "big.bin", "n": 600000, "s": 31}, {"p": "z.bin", "n": 70000, "s": 32}]
    for ms in ([1, 2, 3, 5, 8, 13] if ctx.tier == "quick" else list(range(1, 40, 2))):
        for side in ("sender", "receiver"):
            for tr in ("mock", "netsim"):
                c = base(f"cancel-{side}-{tr}-{ms}ms", files=[dict(f) for f in big], chunk=1024, transport=tr, _kind="cancel-" + side)
                c["cancel_" + side + "_ms"] = ms
                cases.append(c)
    # cancellation while idle (resume grace period, acknowledgement stalled)
    for ms in (50, 150, 400):
        cases.append(base(f"cancel-sender-idle-{ms}ms", resume=True, cancel_sender_ms=ms,
                          faults=[{"from_a": True, "stream": 0, "a_to_b": False, "at": 0, "kind": "stall", "conn": 0}], _kind="cancel-sender"))
    # source file shrinks / vanishes after the scan; output path obstructed
    for tr in ("netsim", "mock"):
        cases.append(base(f"shrink-{tr}", transport=tr, shrink="a.bin", _kind="shrink"))
        # a.bin is 3*chunk-5 bytes: cut off 1 byte, part of the last chunk, exactly the last chunk, a chunk and a bit, everything
        for by in (1, 7, chunk - 6, chunk - 5, chunk - 4, chunk + 3, 2 * chunk, 3 * chunk):
            cases.append(base(f"shrink-by-{by}-{tr}", transport=tr, shrink="a.bin", shrink_by=by, _kind="shrink"))
            cases.append(base(f"shrink-by-{by}-{tr}-1stream", transport=tr, streams=1, resume=False, shrink="d/b.bin", shrink_by=by, _kind="shrink"))
        cases.append(base(f"vanish-{tr}", transport=tr, vanish="d/b.bin", _kind="vanish"))
        cases.append(base(f"obstruct-file-{tr}", transport=tr, obstruct="a.bin", _kind="obstruct"))
        # a regular file stands where the tree has a directory: one that holds files, an empty one, a nested empty one
        cases.append(base(f"obstruct-by-file-parent-{tr}", transport=tr, obstruct_file="d", _kind="obstruct"))
        for ed in ("spool", "d/empty", "x/y/z"):
            cases.append(base(f"obstruct-by-file-emptydir-{ed.replace('/', '_')}-{tr}", transport=tr, dirs=[ed], obstruct_file=ed, _kind="obstruct"))
        cases.append(base(f"obstruct-dir-{tr}", transport=tr, files=[{"p": "d", "n": 10, "s": 1}, {"p": "e.bin", "n": 40, "s": 2}], obstruct="d/sub", _kind="obstruct"))
    rc, results = G.run_xfer(ctx, exe, "faults", cases, timeout=1700)
    if rc != 0 or len(results) != len(cases):
        ctx.oblige("harness:run", False, f"rc={rc} results={len(results)}/{len(cases)} {ctx.harness_stderr[-300:]}")
    kinds, outcomes = {}, {}
    effective = 0
    for c, r in zip(cases, results):
        k = c["_kind"]
        kinds[k] = kinds.get(k, 0) + 1
        rep = {"case": G.strip(c), "result": r}
        if r.get("note"):
            if r["note"].startswith("panic"):
                ctx.violation(f"C02:panic:{k}", r["note"][:200], rep)
            else:
                ctx.oblige(f"run:{c['name']}", False, r["note"][:200])
            continue
        oc = ("S" if r.get("sender_ok") else "s") + ("R" if r.get("recv_ok") else "r") + ("=" if r.get("equal") else "!")
        outcomes[k + ":" + oc] = outcomes.get(k + ":" + oc, 0) + 1
        if not (r.get("sender_ok") and r.get("recv_ok")):
            effective += 1
        if r.get("hang"):
            ctx.violation(f"C02:hang:{k}", f"after the fault of {c['name']} an endpoint did not stop: {r['hang']}; stuck at {r.get('stuck', [])[:4]}", rep)
            continue
        if r.get("recv_ok") and not r.get("equal"):
            ctx.violation(f"C02:false-success:receiver:{k}", f"{c['name']}: the receiver reported success but its tree differs: {r.get('diff')}", rep)
        if r.get("sender_ok") and not r.get("equal"):
            ctx.violation(f"C02:false-success:sender:{k}", f"{c['name']}: the sender reported success but the receiver's tree is not complete: {r.get('diff')} (receiver: {r.get('recv_err')!r})", rep)
    ctx.coverage.update({
        "evaluations": len(cases), "distinct_nontrivial": effective,
        "rule": "2 files / 5 chunks over netsim with 2 data streams: graceful close by the writer or by the reader and abrupt loss at byte positions (stride 7 quick / every byte thorough) of the control stream (both directions) "
                "and of each data stream; bit flips in every CRC/payload byte position (stride 3 / 1) of a 4-chunk single-stream transfer; cancellation of sender or receiver at 1..13 ms (quick) of a 670 KB transfer over mock and netsim, "
                "and while idle (resume grace, stalled acknowledgements); source file halved / deleted after the scan; output path obstructed by a directory / a directory of the tree (with files, empty, nested empty) obstructed by a regular file. Each side closes its connection with code 0 when its function returns, as the app does. "
                "Oracle: no hang; receiver ok => tree identical; sender ok => tree identical. non-trivial = runs in which the fault made at least one endpoint fail",
        "samples": [cases[0]["name"], cases[len(cases) // 2]["name"], cases[-1]["name"]],
        "kinds": kinds, "outcomes": outcomes,
    })
    ctx.assumptions += ["'bounded time' = a 5 s watchdog on the implementation; the 10-minute streamIOTimeout paths are out of reach of these runs",
                        "corruption is injected in payload/CRC bytes only (the frame header is not covered by the CRC; QUIC/TLS integrity is the real protection)",
                        "netsim reproduces the quic-go error texts for local/remote application close and idle timeout"]
    return ctx.finish(LEVEL)


def replay(ctx, path):
    print(json.dumps(json.load(open(path)), indent=1)[:4000])
    return run(ctx)
