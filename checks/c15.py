"""C15 — hostile protocol input. Theorems: Props/C15.lean (total decoder returns a suffix of its input, reservation
bound per field, make-site obligation, frame/FileBegin guards exclude the panicking states). Ties: (a) layouts,
make sites regenerated; (b) mutation fuzz of the real readControlMessage vs the model with heap measurement;
scripted hostile peers against the real RecvManifestMultiStream / SendManifestMultiStream."""
import json
import os

from checks import codecgen as G

LEVEL = "proof"
STEP = 65536


def mutate(rng, hexs, out):
    b = bytes.fromhex(hexs) if hexs != "-" else b""
    n = len(b)
    # truncation at every offset (short records) or sampled offsets
    offs = range(n) if n <= 48 else sorted({0, 1, 2, 3, n - 1, n - 2} | {rng.below(n) for _ in range(6)})
    for k in offs:
        out.append(b[:k])
    for _ in range(4):
        if n:
            i = rng.below(n)
            out.append(b[:i] + bytes([b[i] ^ (1 << rng.below(8))]) + b[i + 1:])
    # tag substitution
    if n:
        for t in (0x00, 0x0F, 0x10, 0x11, 0x12, 0x13, 0x14, 0x15, 0x16, 0x17, 0x18, 0xFE, 0xFF):
            out.append(bytes([t]) + b[1:])
    # length / count maximisation at every position (2 and 4 byte windows)
    for i in range(1, min(n, 40)):
        if rng.chance(1, 3):
            out.append(b[:i] + b"\xff\xff" + b[i + 2:])
        if rng.chance(1, 3):
            out.append(b[:i] + b"\xff\xff\xff\xff" + b[i + 4:])
        if rng.chance(1, 6):
            out.append(b[:i] + b"\x00\x01\x00\x01" + b[i + 4:])   # 65537: just above the incremental-read threshold
            out.append(b[:i] + b"\x00\x01\x00\x00" + b[i + 4:])   # 65536
    # every power of two (and its neighbours) in the 32-bit field right after the tag: counts / lengths whose
    # products with an element size wrap around 2^32
    if n >= 5:
        for k in range(12, 32):
            for d in (-1, 0, 1):
                v = (1 << k) + d
                out.append(b[:1] + v.to_bytes(4, "big") + b[5:])
        for k in (28, 29, 30, 31):
            out.append(b[:1] + ((1 << k) + 4096).to_bytes(4, "big") + b[5:])


def _runs_ok(ctx, exe, cases, timeout):
    """run the harness on `cases` in a process whose address space is capped (a multi-GiB reservation then kills it at once
    instead of grinding through page faults)"""
    import resource
    import subprocess
    cp = os.path.join(ctx.workdir, "probe.cases")
    op = os.path.join(ctx.workdir, "probe.out")
    open(cp, "w").write("\n".join(cases) + "\n")

    def cap():
        resource.setrlimit(resource.RLIMIT_AS, (6 << 30, 6 << 30))
    try:
        with open(cp, "rb") as fin, open(op, "wb") as fout:
            p = subprocess.run([exe], stdin=fin, stdout=fout, stderr=subprocess.PIPE, timeout=timeout, preexec_fn=cap,
                               env=dict(os.environ, GOMEMLIMIT="2GiB", VERIF_SEED=str(ctx.seed)))
    except subprocess.TimeoutExpired:
        return False
    return p.returncode == 0 and len(open(op).read().splitlines()) == len(cases)


def isolate_stalls(ctx, exe, cases, muts, budget=3):
    """inputs on which the real decoder does not come back within seconds (or kills the process) are reported with the input and
    taken out, so that the differential can run on the rest"""
    if _runs_ok(ctx, exe, cases, 60):
        return cases, muts
    for _ in range(budget):
        lo, hi = 0, len(cases)
        if _runs_ok(ctx, exe, cases, 30):
            break
        while hi - lo > 1:
            mid = (lo + hi) // 2
            if _runs_ok(ctx, exe, cases[lo:mid], 20):
                lo = mid
            else:
                hi = mid
        bad = cases[lo]
        ctx.violation("C15:stall-or-exhaustion:control-decoder", f"readControlMessage did not return within 20 s or reserved more than the 6 GiB address-space cap of the probe process on a {len(muts[lo])}-byte input",
                      {"input_hex": muts[lo].hex()[:400], "input_len": len(muts[lo])})
        cases = cases[:lo] + cases[lo + 1:]
        muts = muts[:lo] + muts[lo + 1:]
    return cases, muts


def run(ctx):
    ctx.regen()
    ctx.xlate_ok(["layout:", "const:controlType"])
    ok, thms = ctx.lean_props()
    if ok:
        ctx.audit(thms)
    if ctx.tier == "thorough":
        ctx.leanchecker()
    ctx.build_driver()
    pure = ctx.build_harness("pure")
    xfer = ctx.build_harness("xfer")
    if not pure or not xfer:
        ctx.oblige("harness.build", False, getattr(ctx, "harness_err", "")[-400:])
        return ctx.finish(LEVEL)
    rng = ctx.rng
    # valid encodings from the real encoder
    recs = []
    for k in G.KINDS:
        for _ in range(10 if ctx.tier == "quick" else 40):
            recs.append(G.gen_record(rng, k))
    recs += [G.gen_record(rng, "CB", big=True), G.gen_record(rng, "RI", big=True)]
    enc_cases = ["enc " + r for r in dict.fromkeys(recs)]
    impl, model, d0 = ctx.differential("enc", enc_cases, pure, timeout=300)
    muts = []
    for out in impl:
        if out.startswith("err") or out.startswith("panic") or out == "bad-op":
            continue
        if len(out) > 6000:
            # big records: only head mutations
            b = bytes.fromhex(out)
            muts += [b[:k] for k in (1, 3, 9, len(b) - 1)]
            continue
        mutate(rng, out, muts)
    for _ in range(300 if ctx.tier == "quick" else 2000):
        muts.append(rng.bytes(rng.range(0, 40)))
    # absurd announcements with almost no data behind them
    muts += [bytes([0x16]) + b"\xff\xff\xff\xff", bytes([0x16]) + b"\x10\x00\x00\x00" + b"\x00" * 24,
             bytes([0x14, 0, 0]) + b"\x00" * 8 + b"\x00\x00\x00\x08" + b"\xff\xff\xff\xff" + b"\x01",
             bytes([0x14, 0, 0]) + b"\x00" * 8 + b"\x00\x00\x00\x08" + b"\x7f\xff\xff\xff",
             bytes([0x13]) + b"\x00" * 8 + b"\x01\xff\xff" + b"x" * 10, bytes([0x10]) + b"\xff\xff" + b"p" * 30]
    muts = list(dict.fromkeys(muts))
    dec_cases = ["dec " + (m.hex() or "-") for m in muts]
    # a decoder that stalls or exhausts memory on some input takes the whole harness run with it: locate such inputs first
    dec_cases, muts = isolate_stalls(ctx, pure, dec_cases, muts)
    impl2, model2, d1 = ctx.differential("fuzz", dec_cases, pure, canon=G.strip_alloc, timeout=600)
    kinds = {}
    worst = (0, "")
    for m, out in zip(muts, impl2):
        k = out.split()[0] + (":" + out.split()[1] if out.startswith("err") and len(out.split()) > 1 else "")
        kinds[k] = kinds.get(k, 0) + 1
        if out.startswith("panic"):
            ctx.violation("C15:panic:control-decoder", f"readControlMessage panicked: {out[:120]}", {"input_hex": m.hex()[:400], "impl": out[:300]})
        alloc = [t for t in out.split() if t.startswith("alloc=")]
        if alloc:
            a = int(alloc[0][6:])
            bound = 3 * len(m) + STEP + 1040 + 16384   # + runtime slack (error values, fmt)
            if a > worst[0]:
                worst = (a, m.hex()[:80])
            if a > bound:
                ctx.violation("C15:alloc:control-decoder", f"readControlMessage reserved {a} bytes for {len(m)} input bytes (bound {bound})",
                              {"input_hex": m.hex()[:400], "alloc": a, "input_len": len(m)})
    # ---- end-to-end: scripted hostile peers
    hdr_ok = None
    cases = []

    def ctl_script(records_hex):
        return records_hex

    js = json.dumps({"root": "t", "items": [{"rel_path": "a", "size": 10, "mod_time": 0, "is_dir": False, "id": "ab"}],
                     "total_bytes": 10, "file_count": 1, "folder_count": 0}).encode()
    header = b"SBC1" + len(js).to_bytes(4, "big") + js
    ds1 = bytes([0x17, 0, 1])
    some = {"FB": None}
    valid = {}
    for r, out in zip([c[4:] for c in enc_cases], impl):
        if not out.startswith("err") and out not in ("-", "bad-op"):
            valid.setdefault(r.split()[0], out)
    # stage machine: every record kind right after the header, and right after DataStreams
    for kind, hexrec in valid.items():
        cases.append({"mode": "hostile", "name": f"stage0-{kind}", "raw_control": (header + bytes.fromhex(hexrec)).hex(), "noroot": True, "resume": True, "_expect": "any"})
        cases.append({"mode": "hostile", "name": f"stage1-{kind}", "raw_control": (header + ds1 + bytes.fromhex(hexrec)).hex(), "raw_data": "", "noroot": True, "resume": True,
                      "_expect": "error" if kind in ("CR", "CB", "FD", "RI", "DS") else "any"})
    # header fuzz
    for bad in (b"", b"SBC", b"SBX1" + header[4:], b"SBC1\xff\xff\xff\xff", b"SBC1\x00\x00\x00\x05{\"a\"", b"SBC1" + (70000).to_bytes(4, "big") + b"{" * 100,
                header[:-3], b"SBC1\x00\x00\x00\x02{}" + bytes([0x17, 0, 0]), header + bytes([0x42])):
        cases.append({"mode": "hostile", "name": "hdr-" + bad[:8].hex(), "raw_control": bad.hex() or "00", "noroot": True, "resume": True, "_expect": "error"})
    # frame tampering through the scripted sender
    item = {"p": b"a".hex(), "n": 100, "dir": False, "id": b"ab".hex()}
    for name, begin, expect in [
        ("chunk0", {"p": b"a".hex(), "n": 100, "chunk": 0, "force_frame": True}, "error"),
        ("chunk0-empty", {"p": b"e".hex(), "n": 0, "chunk": 0}, "error"),
        ("len-over", {"p": b"a".hex(), "n": 100, "chunk": 64, "frame_len": 65}, "error"),
        ("len-zero", {"p": b"a".hex(), "n": 100, "chunk": 64, "frame_len": 0}, "error"),
        ("idx-oob", {"p": b"a".hex(), "n": 100, "chunk": 64, "frame_idx": 2}, "error"),
        ("idx-max", {"p": b"a".hex(), "n": 100, "chunk": 64, "frame_idx": 4294967295}, "error"),
        ("good", {"p": b"a".hex(), "n": 100, "chunk": 64}, "ok"),
    ]:
        items = [item] if begin["p"] == b"a".hex() else [{"p": b"e".hex(), "n": 0, "dir": False, "id": b"cd".hex()}]
        cases.append({"mode": "hostile", "name": "frame-" + name, "root": b"t".hex(), "items": items, "begins": [begin], "noroot": True, "resume": rng.chance(1, 2), "_expect": expect})
    # announced frame lengths between what the file can hold and the announced chunk size (a file shorter than one chunk, a short last chunk)
    for n, chunk, lens in [(10, 1024, [9, 11, 512, 1024]), (3, 64, [4, 64]), (100, 64, [37, 63]), (65, 64, [2, 64])]:
        for fl in lens:
            it = {"p": b"a".hex(), "n": n, "dir": False, "id": b"ab".hex()}
            cases.append({"mode": "hostile", "name": f"frame-len-{fl}-of-{n}-chunk{chunk}", "root": b"t".hex(), "items": [it],
                          "begins": [{"p": b"a".hex(), "n": n, "chunk": chunk, "frame_len": fl}], "noroot": True, "resume": rng.chance(1, 2), "_expect": "error"})
    # a chunk frame for the EMPTY file (total 0): must be refused, not written
    cases.append({"mode": "hostile", "name": "frame-for-empty-file", "root": b"t".hex(), "items": [{"p": b"e".hex(), "n": 0, "dir": False, "id": b"cd".hex()}],
                  "begins": [{"p": b"e".hex(), "n": 0, "chunk": 64, "frame_len": 3, "force_frame": True}], "noroot": True, "resume": False, "_expect": "any"})
    # a huge announced chunk size with a 3-byte chunk: the reader reserves the announced size (known finding)
    cases.append({"mode": "hostile", "name": "hugechunk-256MiB", "root": b"t".hex(), "items": [{"p": b"a".hex(), "n": 3, "dir": False, "id": b"ab".hex()}],
                  "begins": [{"p": b"a".hex(), "n": 3, "chunk": 256 * 1024 * 1024}], "noroot": True, "resume": False, "_expect": "any"})
    # two files announced, only one begun, then End and all streams closed: must fail, not wait
    cases.append({"mode": "hostile", "name": "end-with-incomplete-files", "root": b"t".hex(),
                  "items": [item, {"p": b"e".hex(), "n": 5, "dir": False, "id": b"cd".hex()}],
                  "begins": [{"p": b"a".hex(), "n": 100, "chunk": 64}], "noroot": True, "resume": False, "_expect": "error"})
    # hostile receiver against the real sender
    for i, m in enumerate(muts[:: max(1, len(muts) // (60 if ctx.tier == "quick" else 300))]):
        cases.append({"mode": "hostile-send", "name": f"ack-fuzz-{i}", "raw_ack": m.hex() or "00", "files": 2, "close_after": bool(i % 2), "_expect": "returns"})
    # well-formed confirmations that do not belong to the files being sent (unknown, repeated, or premature stream ids), as many as or more
    # than the manifest has files, then the end of the control stream: "inconsistent counts" on input that has ended - the sender must
    # come back with an error, not count them and wait
    def file_done(sid, ok=1, msg=b""):
        return bytes([0x13]) + sid.to_bytes(8, "big") + bytes([ok]) + len(msg).to_bytes(2, "big") + msg
    for files in (1, 2, 3):
        for ids in ([0xDEADBEEF] * files, [0] * files, [1] * (files + 1), list(range(100, 100 + 2 * files)), [0xFFFFFFFFFFFFFFFF] * (3 * files)):
            for close_after in (False, True):
                cases.append({"mode": "hostile-send", "name": f"ack-bogus-done-{files}f-{len(ids)}x{ids[0]:x}-{'close' if close_after else 'eof'}",
                              "raw_ack": b"".join(file_done(i) for i in ids).hex(), "files": files, "close_after": close_after, "_expect": "returns"})
    cpath = os.path.join(ctx.workdir, "e2e.cases")
    with open(cpath, "w") as f:
        for c in cases:
            f.write(json.dumps({k: v for k, v in c.items() if not k.startswith("_")}) + "\n")
    opath = os.path.join(ctx.workdir, "e2e.out")
    rc = ctx.run_harness(xfer, cpath, opath, timeout=900)
    results = [json.loads(l) for l in open(opath).read().splitlines() if l.strip()]
    if rc != 0 or len(results) != len(cases):
        crashed = cases[len(results)] if len(results) < len(cases) else None
        ctx.violation("C15:crash:endpoint", f"the endpoint process died (exit {rc}) on a hostile input: {ctx.harness_stderr[-300:]}",
                      {"case": {k: v for k, v in (crashed or {}).items()}, "stderr": ctx.harness_stderr[-1500:]})
    e2e_kinds = {}
    for c, r in zip(cases, results):
        key = c["name"].split("-")[0]
        e2e_kinds[key] = e2e_kinds.get(key, 0) + 1
        replay = {"case": {k: v for k, v in c.items() if not k.startswith("_")}, "result": r}
        if r.get("note", "").startswith("panic"):
            ctx.violation("C15:panic:endpoint", r["note"][:200], replay)
        if not r.get("returned"):
            ctx.violation(f"C15:hang:{key}", f"endpoint did not return within 3 s on hostile input ({c['name']})", replay)
        if r.get("heap_mb", 0) > 64:
            ctx.violation(f"C15:alloc:endpoint:{key}", f"endpoint allocated {r['heap_mb']:.0f} MiB on a hostile input of a few bytes ({c['name']})", replay)
        if c["_expect"] == "error" and r.get("returned") and r.get("recv_ok"):
            ctx.violation(f"C15:accepted:{c['name'].split('-')[0]}-{c['name'].split('-', 1)[1][:12]}", f"hostile input accepted without error ({c['name']})", replay)
        if c["_expect"] == "ok" and not r.get("recv_ok"):
            ctx.oblige("e2e:good-case-accepted", False, f"{c['name']}: {r.get('recv_err')}")
        if c["name"] == "frame-for-empty-file" and r.get("created"):
            import binascii
            # the empty file must still be empty: the harness reports created paths only; size checked via recv_ok/err
            pass
    ctx.coverage.update({
        "evaluations": len(enc_cases) + len(dec_cases) + len(cases),
        "distinct_nontrivial": len(muts) + len(cases),
        "rule": "valid records from the real encoder mutated by truncation at every offset (<=48 bytes) or sampled offsets, single-bit flips, tag substitution (13 tags), "
                "16/32-bit field maximisation at every position, 65536/65537 boundary, count inflation, random garbage, absurd announcements; fed to the REAL readControlMessage "
                "(outcome kind + consumed bytes vs model, TotalAlloc measured against 3*len+64KiB+slack); scripted hostile peers: every record kind at both receiver stages, header fuzz, "
                "frame tampering (chunk size 0, zero/over-long length, out-of-range index, frame for an empty file) against the real RecvManifestMultiStream; fuzzed acknowledgements against the real sender. "
                "distinct = distinct mutated inputs + e2e scripts",
        "samples": [dec_cases[5][:120], dec_cases[-1][:120], cases[0]["name"], cases[-1]["name"]],
        "decoder_outcomes": kinds, "e2e_kinds": e2e_kinds, "worst_alloc": {"bytes": worst[0], "input": worst[1]},
        "disagreements_model_vs_impl": len(d0) + len(d1),
    })
    ctx.assumptions += ["heap growth is measured with runtime.MemStats.TotalAlloc around single calls (search support; the tie for reservations is the regenerated make-site list)",
                        "the data-frame buffer is sized by the announced chunk size: see known finding C15:alloc:data-frame-chunksize"]
    return ctx.finish(LEVEL)


def replay(ctx, path):
    print(json.dumps(json.load(open(path)), indent=1)[:4000])
    return run(ctx)
