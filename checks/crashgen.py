"""crash-point case generation shared by C05 and C04"""
import json
import os

POINTS = ["recv.before_write", "recv.after_write", "recv.after_mark", "sidecar.between_tmp_and_rename", "sidecar.after_rename", "recv.before_finalize"]


def workloads(rng, n):
    out = []
    fixed = [
        {"files": [{"p": "a.bin", "n": 200, "s": 1}, {"p": "d/b.bin", "n": 100, "s": 2}], "chunk": 32, "streams": 2},
        {"files": [{"p": "one.bin", "n": 64 * 5, "s": 3}], "chunk": 64, "streams": 3},
        {"files": [{"p": "x", "n": 33, "s": 4}, {"p": "y", "n": 0, "s": 5}, {"p": "z/z", "n": 1, "s": 6}], "chunk": 16, "streams": 1},
    ]
    for w in fixed[:n]:
        out.append(w)
    while len(out) < n:
        nf = rng.range(1, 4)
        chunk = rng.choice([8, 16, 32, 100])
        files = [{"p": f"f{i}.bin" if rng.chance(1, 2) else f"sub/f{i}", "n": rng.choice([0, 1, chunk - 1, chunk, chunk + 1, 3 * chunk, rng.range(1, 6 * chunk)]), "s": rng.below(10 ** 6)} for i in range(nf)]
        out.append({"files": files, "chunk": chunk, "streams": rng.range(1, 4)})
    for w in out:
        w.setdefault("transport", "netsim")
        w["noroot"] = rng.chance(1, 2)
    return out


def run_cases(ctx, exe, name, cases, timeout=1500):
    cpath = os.path.join(ctx.workdir, name + ".cases")
    with open(cpath, "w") as f:
        for c in cases:
            f.write(json.dumps(c) + "\n")
    opath = os.path.join(ctx.workdir, name + ".out")
    rc = ctx.run_harness(exe, cpath, opath, timeout=timeout)
    res = [json.loads(l) for l in open(opath).read().splitlines() if l.strip()]
    return rc, res
