"""C06 — stale/foreign/damaged resume state. Theorems: Props/C06.lean (LoadSidecar accepts only well-formed
sidecars, Flush/Load round trip, identity rule). Ties: parse/serialise/loadValid vs the real LoadSidecar /
CreateSidecar+Flush / LoadOrCreateSidecarWithFallback on every single-bit flip and truncation of generated
sidecars and on garbage; resumed end-to-end transfers from every tampered state with tree comparison."""
import json
import os
from checks import resumegen

LEVEL = "proof"


def hx(b):
    return b.hex() if b else "-"


def run(ctx):
    ctx.regen()
    ctx.xlate_ok(["const:sidecar", "CreateSidecar"])
    ok, thms = ctx.lean_props()
    if ok:
        ctx.audit(thms)
    if ctx.tier == "thorough":
        ctx.leanchecker()
    ctx.build_driver()
    pure = ctx.build_harness("pure")
    xfer = ctx.build_harness("xfer")
    if not pure or not xfer:
        ctx.oblige("harness.build", False, getattr(ctx, "harness_err", "")[-400:])
        return ctx.finish(LEVEL)
    rng = ctx.rng
    # 1. serialise: real CreateSidecar+marks+Flush vs model
    specs = []
    for _ in range(60 if ctx.tier == "quick" else 300):
        cs = rng.choice([1, 7, 32, 64, 4096])
        total = rng.choice([0, 1, 2, 7, 8, 9, 15, 16, 17, rng.range(0, 70)])
        size = 0 if total == 0 else (total - 1) * cs + rng.range(1, cs)
        fid = rng.choice([b"", b"a", b"0123456789abcdef", rng.bytes(rng.range(1, 40))])
        bits = [rng.chance(1, 2) for _ in range(total)]
        bm = bytearray((total + 7) // 8)
        for i, b in enumerate(bits):
            if b:
                bm[i // 8] |= 1 << (i % 8)
        specs.append((fid, size, cs, bytes(bm)))
    ser_cases = [f"scser {hx(f)} {s} {c} {hx(b)}" for f, s, c, b in specs]
    impl, model, d0 = ctx.differential("scser", ser_cases, pure, timeout=300)
    # 2. parse: every single-bit flip and truncation of (smaller) valid sidecars, garbage, crafted stray bits
    parse_in = []
    valid = [bytes.fromhex(o) for o in impl if o not in ("-", "bad-op") and not o.startswith("err") and not o.startswith("panic")]
    n_full = 0
    for v in valid:
        parse_in.append(v)
        if len(v) <= 48 and n_full < (12 if ctx.tier == "quick" else 80):
            n_full += 1
            for bit in range(len(v) * 8):
                parse_in.append(v[:bit // 8] + bytes([v[bit // 8] ^ (1 << (bit % 8))]) + v[bit // 8 + 1:])
            for k in range(len(v)):
                parse_in.append(v[:k])
        else:
            for _ in range(6):
                bit = rng.below(len(v) * 8)
                parse_in.append(v[:bit // 8] + bytes([v[bit // 8] ^ (1 << (bit % 8))]) + v[bit // 8 + 1:])
                parse_in.append(v[:rng.below(len(v))])
        parse_in.append(v + b"\x00")
        parse_in.append(v + rng.bytes(4))
    for _ in range(200):
        parse_in.append(rng.bytes(rng.range(0, 60)))
        parse_in.append(b"SBM2\x00\x01" + rng.bytes(rng.range(0, 40)))
    parse_in = list(dict.fromkeys(parse_in))
    parse_cases = ["scparse " + hx(p) for p in parse_in]
    impl2, model2, d1 = ctx.differential("scparse", parse_cases, pure, timeout=600)
    accepted = 0
    for p, out in zip(parse_in, impl2):
        if out.startswith("ok"):
            accepted += 1
            f = out.split()
            total = int(f[4])
            bm = bytes.fromhex(f[5]) if f[5] != "-" else b""
            nset = sum(bin(x).count("1") for x in bm)
            if len(bm) != (total + 7) // 8 or nset > total:
                ctx.violation("C06:malformed-sidecar-accepted", f"LoadSidecar accepted a bitmap of {len(bm)} bytes / {nset} set bits for {total} chunks", {"sidecar_hex": p.hex(), "impl": out})
            if p not in valid:
                # an altered sidecar that still parses: only harmless when it is byte-identical in meaning
                pass
    # 3. identity rule
    load_cases = []
    for v, (fid, size, cs, bm) in zip(valid, specs):
        if cs == 0:
            continue
        load_cases.append(f"scload {hx(v)} {hx(fid)} {size} {cs}")
        load_cases.append(f"scload {hx(v)} {hx(fid + b'x')} {size} {cs}")
        load_cases.append(f"scload {hx(v)} {hx(fid)} {size + 1} {cs}")
        load_cases.append(f"scload {hx(v)} {hx(fid)} {size} {cs + 1}")
        load_cases.append(f"scload none {hx(fid)} {size} {cs}")
        load_cases.append(f"scload {hx(v[:-1])} {hx(fid)} {size} {cs}")
    impl3, model3, d2 = ctx.differential("scload", load_cases, pure, timeout=600)
    for line, out in zip(load_cases, impl3):
        f = line.split()
        if out.startswith("use") and len(load_cases) and not line.endswith(f" {f[3]} {f[4]}"):
            pass
    # 4. resumed transfers from tampered states
    cases = []
    k = 0

    def add(prior, name, chunk=32, size=None, streams=None, transport=None):
        nonlocal k
        k += 1
        size = size if size is not None else rng.choice([74, 96, 200, 33])
        cases.append({"name": f"t{k}-{name}", "files": [{"p": "file.bin", "n": size, "s": k}, {"p": "other.bin", "n": 50, "s": 1000 + k}],
                      "chunk": chunk, "streams": streams or rng.choice([1, 2, 3]), "transport": transport or rng.choice(["netsim", "netsim", "mock"]),
                      "noroot": rng.chance(1, 2), "resume": True, "prior": [dict(prior, file="file.bin")], "timeout_ms": 4000, "_kind": name})

    reps = 2 if ctx.tier == "quick" else 8
    for _ in range(reps):
        for size in (74, 96, 32, 200, 250):
            total = (size + 31) // 32
            allc = list(range(total))
            some = sorted({rng.below(total) for _ in range(rng.range(1, total))})
            add({"chunks": some}, "legit-partial", size=size)
            add({"chunks": some, "damage": [max(some)]}, "highest-damaged", size=size)
            add({"chunks": allc, "damage": [total - 1]}, "all-complete-last-damaged", size=size)
            add({"chunks": allc}, "all-complete", size=size)
            add({"chunks": some, "nodata": True}, "data-file-deleted", size=size)
            # a complete temp sidecar left by a kill inside a later flush, next to the sidecar
            add({"chunks": some, "tmp_chunks": allc, "nodata": True}, "data-file-deleted-tmp-left", size=size)
            add({"chunks": some, "tmp_chunks": allc}, "legit-partial-tmp-left", size=size)
            add({"chunks": allc, "short": max(1, size // 2)}, "data-file-shortened", size=size)
            if total >= 4:
                # recorded chunks on both sides of a gap, the file cut inside the gap: as many bytes are left as are recorded, but not those
                gap = [0, 1] + list(range(total - 2, total))
                for cut in (len(gap) * 32, len(gap) * 32 + 5, 2 * 32):
                    if cut < size:
                        add({"chunks": gap, "short": cut}, "data-file-shortened-inside-gap", size=size)
            add({"chunks": allc, "garbage": True, "foreign_chunk": 16}, "foreign-chunk-size", size=size)
            # another chunk size that happens to give the same number of chunks for this file
            same = [c for c in (31, 33, 30, 34, 29, 36, 28, 40, 27) if (size + c - 1) // c == total]
            if same:
                add({"chunks": allc, "garbage": True, "foreign_chunk": same[0]}, "foreign-chunk-size-same-count", size=size)
                add({"chunks": some, "garbage": True, "foreign_chunk": same[-1]}, "foreign-chunk-size-same-count", size=size)
            add({"chunks": allc, "garbage": True, "foreign_size": size + 1}, "foreign-file-size", size=size)
            add({"chunks": allc, "garbage": True, "foreign_id": "someone-else"}, "foreign-id", size=size)
            add({"chunks": allc, "garbage": True, "flip_bit": 1 + rng.below(8 * 30)}, "sidecar-bit-flip", size=size)
            add({"chunks": allc, "garbage": True, "trunc_sidecar": 1 + rng.below(40)}, "sidecar-truncated", size=size)
    # resume metadata of an interrupted run that wrote into <out>/<root> (its out dir was that directory) while this run writes into <out>,
    # where a file of the same name and length already stands: that metadata describes another data file
    for size in (74, 96, 200):
        total = (size + 31) // 32
        for chunks in (list(range(total)), [0], sorted({0, total - 1})):
            add({"chunks": chunks, "elsewhere": True}, "state-of-another-directory", size=size)
            cases[-1]["noroot"] = True
    # frames that overtake their FileBegin (the receiver handles it later than the sender's resume grace) for a file whose chunks are all
    # recorded and whose last chunk is torn, with a display callback that takes time (the CLI installs one): the readers parked on those
    # frames must not find the file complete
    for size in (200, 96, 74):
        total = (size + 31) // 32
        for st in (1, 2):
            cases.append({"name": f"overtaken-{size}-{st}s", "files": [{"p": "file.bin", "n": size, "s": 31 + size}], "chunk": 32, "streams": st, "conns": 1, "transport": "netsim",
                          "noroot": True, "resume": True, "timeout_ms": 8000, "recv_stats_delay_ms": 60, "prior": [{"file": "file.bin", "chunks": list(range(total)), "damage": [total - 1]}],
                          "delays": {"recv.file_begin.enter": 450}, "_kind": "all-complete-last-damaged-frames-first"})
    cpath = os.path.join(ctx.workdir, "tamper.cases")
    with open(cpath, "w") as f:
        for c in cases:
            f.write(json.dumps({a: b for a, b in c.items() if not a.startswith("_")}) + "\n")
    opath = os.path.join(ctx.workdir, "tamper.out")
    rc = ctx.run_harness(xfer, cpath, opath, timeout=1200)
    results = [json.loads(l) for l in open(opath).read().splitlines() if l.strip()]
    if rc != 0 or len(results) != len(cases):
        ctx.oblige("harness:tamper-run", False, f"rc={rc} results={len(results)}/{len(cases)} {ctx.harness_stderr[-300:]}")
    kinds = {}
    n_ok = 0
    for c, r in zip(cases, results):
        kinds[c["_kind"]] = kinds.get(c["_kind"], 0) + 1
        rep = {"case": {a: b for a, b in c.items() if not a.startswith("_")}, "result": r}
        if r.get("note", "").startswith("panic"):
            ctx.violation("C06:panic", r["note"][:200], rep)
        if r.get("hang"):
            ctx.violation(f"C06:hang:{c['_kind']}", f"resumed transfer from state '{c['_kind']}' did not terminate: {r.get('hang')}", rep)
        elif r.get("sender_ok") and r.get("recv_ok"):
            n_ok += 1
            if not r.get("equal"):
                ctx.violation(f"C06:wrong-tree:{c['_kind']}", f"resumed transfer from state '{c['_kind']}' reported success on both sides but the tree differs: {r.get('diff')}", rep)
        else:
            # a loud failure is allowed by the property, but not for states the code is meant to handle
            ctx.oblige(f"tamper:{c['name']}:completes", False, f"sender_err={r.get('sender_err')} recv_err={r.get('recv_err')}")
    # 4b. sparse files above 4 GiB whose highest recorded chunk lies beyond 2^32 bytes and is torn: found by hash, repaired
    from checks import e2egen as G2
    bigs = [b for b in G2.big_cases(rng, ctx.tier == "thorough") if b.get("damage")]
    rcb, bres = G2.run_xfer(ctx, xfer, "big", bigs, timeout=600)
    ctx.oblige("harness:big", rcb == 0 and len(bres) == len(bigs), ctx.harness_stderr[-300:])
    nbig = G2.judge_big(ctx, "C06", bigs, bres)
    # 5. the resume negotiation itself: generated reports answered by a scripted receiver, chunks that travel vs Model/Resume
    n_plan, d_plan, plan_stats = resumegen.run(ctx, xfer, "C06")
    ctx.coverage.update({
        "resume_reports": n_plan, "big_sparse_files_with_torn_chunk_above_4GiB": nbig, "resume_report_outcomes": plan_stats,
        "evaluations": len(ser_cases) + len(parse_cases) + len(load_cases) + len(cases) + n_plan,
        "distinct_nontrivial": len(parse_in) + len(cases),
        "rule": "sidecars from the real CreateSidecar/Flush over (chunk in {1,7,32,64,4096}) x (total 0..70, byte-boundary totals) x random bitmaps and ids; EVERY single-bit flip and EVERY truncation of the small ones, "
                "sampled flips/truncations of the others, trailing bytes, random garbage, magic+version prefixes -> LoadSidecar vs model; identity rule with each field changed; "
                "resumed end-to-end transfers (netsim and mock, 1-3 streams, both root modes) from: legit partial, highest chunk damaged, all complete + last damaged, data file deleted / shortened, "
                "foreign chunk size (also one giving the same chunk count) / file size / id, metadata of a run into <out>/<root> next to an unrelated same-length file at <out>/<file>, bit-flipped and truncated sidecar (data file full of garbage so that any trusted bit shows), a complete temp sidecar left behind by a kill inside a flush (with the data file deleted / intact); "
                "resume reports (every bitmap shape on 1-8 chunks x hash good/bad/unknown in the CLI configuration; random bitmaps on 1-33 chunks x tail 0..total+2 x verify modes x hash algorithms x "
                "reported last-verified chunk (true or arbitrary) x hash good/bad/unknown/zero) answered by a scripted receiver to the real sender: multiset of chunk frames that travel and planned-skip count vs Model/Resume",
        "samples": [ser_cases[0], parse_cases[3][:100], load_cases[1][:120], cases[0]["name"]],
        "accepted_sidecars": accepted, "tamper_kinds": kinds, "tamper_runs_mutual_success": n_ok,
        "disagreements_model_vs_impl": len(d0) + len(d1) + len(d2) + d_plan,
    })
    ctx.assumptions += ["CRC32C is executed, not reasoned about: rejection of flipped/truncated sidecars is checked exhaustively per generated sidecar, not proved",
                        "power loss is not modelled (no fsync in the code); 'torn last chunk' is a damaged highest chunk with intact metadata"]
    return ctx.finish(LEVEL)


def replay(ctx, path):
    print(json.dumps(json.load(open(path)), indent=1)[:4000])
    return run(ctx)
