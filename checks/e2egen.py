"""End-to-end case generation and result handling shared by C01-C04."""
import json
import os

ODD_NAMES = ["a..b", "dir/file..txt", "sp ace", "back\\slash", "unié日", "x" * 200, ".hidden", "tr.ail.", "q?&=#%", "-dash", "~tilde", "semi;colon"]


def tree(rng, chunk, max_files=12, odd=False):
    nfiles = rng.choice([0, 1, 1, 2, 3, 5, rng.range(0, max_files)])
    files, dirs = [], []
    used = set()
    for i in range(nfiles):
        depth = rng.choice([0, 0, 1, 2])
        parts = [rng.choice(["d1", "d2", "deep", "x"]) for _ in range(depth)]
        name = (rng.choice(ODD_NAMES) if odd and rng.chance(1, 2) else f"f{i}") + (f"_{i}" if rng.chance(1, 2) else "")
        p = "/".join(parts + [name])
        if p in used or any(u.startswith(p + "/") or p.startswith(u + "/") for u in used):
            continue
        used.add(p)
        k = rng.range(0, 5)
        size = rng.choice([0, 1, chunk - 1, chunk, chunk + 1, k * chunk, k * chunk + 1, max(0, k * chunk - 1), rng.range(0, 6 * chunk)])
        files.append({"p": p, "n": max(0, size), "s": rng.below(10 ** 9)})
    for _ in range(rng.choice([0, 0, 1, 2])):
        d = "/".join(rng.choice(["e1", "e2", "empty"]) for _ in range(rng.range(1, 2)))
        if d not in used and not any(u.startswith(d + "/") or d.startswith(u + "/") for u in used):
            used.add(d)
            dirs.append(d)
    return files, dirs


def healthy_case(rng, k, transports, odd=False):
    chunk = rng.choice([1, 7, 64, 64, 4096, 1 << 20]) if not odd else 64
    if chunk <= 7:
        files, dirs = tree(rng, chunk, max_files=4, odd=odd)
        files = [dict(f, n=min(f["n"], 40)) for f in files]
    else:
        files, dirs = tree(rng, chunk, odd=odd)
    if chunk >= 1 << 20:
        files = files[:2]
    return {"name": f"h{k}", "files": files, "dirs": dirs, "chunk": chunk, "streams": rng.choice([1, 2, 3, 4, 8]),
            "conns": rng.choice([1, 1, 2, 4]), "transport": rng.choice(transports), "noroot": rng.chance(1, 2),
            "resume": rng.chance(2, 3), "scan": rng.choice(["dir", "dir", "paths"]), "timeout_ms": 8000}


def run_xfer(ctx, exe, name, cases, timeout=1500):
    cpath = os.path.join(ctx.workdir, name + ".cases")
    with open(cpath, "w") as f:
        for c in cases:
            f.write(json.dumps({a: b for a, b in c.items() if not a.startswith("_")}) + "\n")
    opath = os.path.join(ctx.workdir, name + ".out")
    rc = ctx.run_harness(exe, cpath, opath, timeout=timeout)
    res = [json.loads(l) for l in open(opath).read().splitlines() if l.strip()]
    return rc, res


def strip(c):
    return {a: b for a, b in c.items() if not a.startswith("_")}
