"""End-to-end case generation and result handling shared by C01-C04."""
import json
import os

ODD_NAMES = ["a..b", "dir/file..txt", "sp ace", "back\\slash", "unié日", "x" * 200, ".hidden", "tr.ail.", "q?&=#%", "-dash", "~tilde", "semi;colon"]


def tree(rng, chunk, max_files=12, odd=False):
    nfiles = rng.choice([0, 1, 1, 2, 3, 5, rng.range(0, max_files)])
    files, dirs = [], []
    used = set()
    for i in range(nfiles):
        depth = rng.choice([0, 0, 1, 2])
        parts = [rng.choice(["d1", "d2", "deep", "x"]) for _ in range(depth)]
        name = (rng.choice(ODD_NAMES) if odd and rng.chance(1, 2) else f"f{i}") + (f"_{i}" if rng.chance(1, 2) else "")
        p = "/".join(parts + [name])
        if p in used or any(u.startswith(p + "/") or p.startswith(u + "/") for u in used):
            continue
        used.add(p)
        k = rng.range(0, 5)
        size = rng.choice([0, 1, chunk - 1, chunk, chunk + 1, k * chunk, k * chunk + 1, max(0, k * chunk - 1), rng.range(0, 6 * chunk)])
        files.append({"p": p, "n": max(0, size), "s": rng.below(10 ** 9)})
    for _ in range(rng.choice([0, 0, 1, 2])):
        d = "/".join(rng.choice(["e1", "e2", "empty"]) for _ in range(rng.range(1, 2)))
        if d not in used and not any(u.startswith(d + "/") or d.startswith(u + "/") for u in used):
            used.add(d)
            dirs.append(d)
    return files, dirs


def healthy_case(rng, k, transports, odd=False):
    chunk = rng.choice([1, 7, 64, 64, 4096, 1 << 20]) if not odd else 64
    if chunk <= 7:
        files, dirs = tree(rng, chunk, max_files=4, odd=odd)
        files = [dict(f, n=min(f["n"], 40)) for f in files]
    else:
        files, dirs = tree(rng, chunk, odd=odd)
    if chunk >= 1 << 20:
        files = files[:2]
    return {"name": f"h{k}", "files": files, "dirs": dirs, "chunk": chunk, "streams": rng.choice([1, 2, 3, 4, 8]),
            "conns": rng.choice([1, 1, 2, 4]), "transport": rng.choice(transports), "noroot": rng.chance(1, 2),
            "resume": rng.chance(2, 3), "scan": rng.choice(["dir", "dir", "paths"]), "timeout_ms": 8000}


def sibling_cases(rng):
    """trees in which one entry's name is a plain string prefix of its neighbour in sorted order: an empty directory next to a file or
    directory named like it plus a suffix (`docs/`, `docs.txt`; `data/logs/`, `data/logs-old/x`), a file next to such a directory"""
    out = []
    shapes = [
        ([{"p": "docs.txt", "n": 10}, {"p": "readme", "n": 3}], ["docs", "zz"]),
        ([{"p": "data/logs-old/x.log", "n": 70}, {"p": "data/a", "n": 1}], ["data/logs"]),
        ([{"p": "lib.go", "n": 65}, {"p": "lib/a.txt", "n": 5}], ["lib-old", "li"]),
        ([{"p": "a/b0", "n": 0}, {"p": "a/b.c", "n": 64}], ["a/b", "a/b-"]),
        ([{"p": "x", "n": 2}], ["x1", "x1/y", "x1/y2"]),
    ]
    for i, (files, dirs) in enumerate(shapes):
        for noroot in (True, False):
            out.append({"name": f"sib{i}-{'noroot' if noroot else 'root'}", "files": [dict(f, s=100 + i) for f in files], "dirs": dirs, "chunk": 64,
                        "streams": rng.choice([1, 2, 3]), "conns": 1, "transport": rng.choice(["netsim", "mock"]), "noroot": noroot,
                        "resume": rng.chance(1, 2), "scan": "dir", "timeout_ms": 8000})
    return out


def run_xfer(ctx, exe, name, cases, timeout=1500):
    cpath = os.path.join(ctx.workdir, name + ".cases")
    with open(cpath, "w") as f:
        for c in cases:
            f.write(json.dumps({a: b for a, b in c.items() if not a.startswith("_")}) + "\n")
    opath = os.path.join(ctx.workdir, name + ".out")
    rc = ctx.run_harness(exe, cpath, opath, timeout=timeout)
    res = [json.loads(l) for l in open(opath).read().splitlines() if l.strip()]
    return rc, res


def strip(c):
    return {a: b for a, b in c.items() if not a.startswith("_")}


def big_cases(rng, thorough=False):
    """sparse files above 4 GiB, resumed so that only chunks whose indices / offsets lie beyond 2^32 bytes travel"""
    G4 = 1 << 32
    M = 1 << 20
    cases = [
        {"mode": "big", "name": "big-4GiB+-8MiB", "size": G4 + 4 * M + 5, "chunk": 8 * M, "data": [0, 255, 511, 512], "need": [511, 512], "streams": 2},
        {"mode": "big", "name": "big-4GiB+-1MiB", "size": G4 + 3 * M + 1, "chunk": M, "data": [0, 1, 4095, 4096, 4098], "need": [4095, 4096, 4098], "streams": 4},
    ]
    # everything recorded, the last recorded chunk (beyond 4 GiB) torn: the hash comparison has to find and repair it
    cases.append({"mode": "big", "name": "big-all-recorded-last-torn", "size": G4 + 2 * M + 77, "chunk": M, "data": [0, 4095, 4096, 4098], "need": [], "damage": [4098], "streams": 2})
    cases.append({"mode": "big", "name": "big-highest-torn-hole-before", "size": G4 + 5 * M, "chunk": 2 * M, "data": [0, 2047, 2048, 2050], "need": [2049], "damage": [2050], "streams": 1})
    for i in range(6 if thorough else 1):
        chunk = rng.choice([M, 2 * M, 4 * M, 16 * M])
        size = G4 * rng.range(1, 3) + rng.range(1, 64) * M + rng.range(0, 999)
        total = (size + chunk - 1) // chunk
        first_hi = (G4 + chunk - 1) // chunk
        need = sorted({total - 1, first_hi, rng.range(first_hi, total - 1), rng.range(0, first_hi - 1)})
        data = sorted(set(need) | {0, rng.range(0, total - 1)})
        cases.append({"mode": "big", "name": f"big-rand-{i}", "size": size, "chunk": chunk, "data": data, "need": need, "streams": rng.range(1, 4)})
    return cases


def judge_big(ctx, prop, cases, results):
    """shared by C01 (tree), C05 (sidecar claims), C19 (offsets beyond 2^32 on both sides)"""
    n = 0
    for c, r in zip(cases, results):
        rep = {"case": c, "result": r}
        if r.get("note"):
            ctx.oblige(f"run:{c['name']}", False, r["note"][:200])
            continue
        n += 1
        diff = r.get("diff") or []
        claims = [d for d in diff if d.startswith("sidecar-claims-bad-chunk")]
        bytes_ = [d for d in diff if not d.startswith("sidecar-claims-bad-chunk")]
        if prop == "C05" and claims:
            ctx.violation("C05:unsound-sidecar:above-4GiB", f"{c['name']} ({c['size']} bytes, chunk {c['chunk']}): the on-disk resume metadata claims chunks whose bytes differ from the source: {claims[:4]}", rep)
        if prop == "C19" and bytes_ and r.get("sender_ok") and r.get("recv_ok"):
            ctx.violation("C19:offset-above-4GiB", f"{c['name']} ({c['size']} bytes, chunk {c['chunk']}): chunks beyond 2^32 bytes were not written where the sender read them: {bytes_[:4]}", rep)
        if prop == "C01" and bytes_ and r.get("sender_ok") and r.get("recv_ok"):
            ctx.violation("C01:tree-differs:above-4GiB", f"{c['name']}: both endpoints reported success but the file differs: {bytes_[:4]}", rep)
        if prop == "C06" and bytes_ and r.get("sender_ok") and r.get("recv_ok"):
            ctx.violation("C06:wrong-tree:torn-chunk-above-4GiB", f"{c['name']}: the torn chunk {c.get('damage')} recorded as complete was not repaired by the resumed run, which reported success: {bytes_[:4]}", rep)
        if prop in ("C01", "C19") and (r.get("hang") or not (r.get("sender_ok") and r.get("recv_ok"))):
            ctx.violation(f"{prop}:big-file-fails", f"{c['name']}: resumed transfer of a {c['size']}-byte file failed: sender={r.get('sender_err')!r} receiver={r.get('recv_err')!r} {r.get('hang', '')}", rep)
    return n
