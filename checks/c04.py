"""C04 — resume after interruption at any point. Theorems: Props/C04.lean (resumed run from any sound on-disk state is
faithful; chains of interrupted runs; link to C05_inv). Tie (b): chains of 1-3 SIGKILLs of the real transfer at hook
points (receiver write/mark/flush/finalize points, sender chunk/FileEnd points), then an uninterrupted resumed run into
the same directory: it must succeed with an identical tree, and must not re-send chunks the on-disk metadata marked."""
import json
from checks import crashgen as G

LEVEL = "proof"
POINTS = G.POINTS + ["send.before_chunk", "send.before_file_end"]


def run(ctx):
    ctx.regen()
    ok, thms = ctx.lean_props()
    if ok:
        ctx.audit(thms)
    if ctx.tier == "thorough":
        ctx.leanchecker()
    exe = ctx.build_harness("xfer")
    if not exe:
        ctx.oblige("harness.build", False, getattr(ctx, "harness_err", "")[-400:])
        return ctx.finish(LEVEL)
    rng = ctx.rng
    wl = G.workloads(rng, 3 if ctx.tier == "quick" else 8)
    rc, counts = G.run_cases(ctx, exe, "count", [{"mode": "crash", "name": f"count{i}", "base": w, "kills": [], "resume": False} for i, w in enumerate(wl)], timeout=300)
    cases = []
    n_chain = 14 if ctx.tier == "quick" else 80
    for i, (w, cr) in enumerate(zip(wl, counts)):
        hits = cr.get("hits") or {}
        if not hits:
            ctx.oblige(f"hooks:workload{i}", False, "no hook hits reported")
            continue
        for j in range(n_chain):
            kills = []
            for _ in range(rng.choice([1, 1, 2, 3])):
                p = rng.choice([q for q in POINTS if hits.get(q, 0) > 0])
                kills.append({"point": p, "at": rng.range(1, hits[p]), "flush_first": rng.chance(1, 2)})
            cases.append({"mode": "crash", "name": f"w{i}-chain{j}-" + "+".join(f"{k['point']}@{k['at']}" for k in kills), "base": w, "kills": kills, "resume": True})
    for c in cases:
        c["base"] = dict(c["base"], tail=rng.choice([0, 0, 1, 2]), verify=rng.choice(["", "last", "all"]))
    # hand-made partial states: every subset of marked chunks of a 6-chunk file (non-prefix shapes, one hole, only last missing ...)
    from checks import e2egen as E
    prior_cases = []
    for mask in range(1, 64):
        marked = [i for i in range(6) if mask >> i & 1]
        if ctx.tier == "quick" and rng.chance(1, 2):
            continue
        for tail in (0, 1, 2):
            prior_cases.append({"name": f"prior-{mask:06b}-tail{tail}", "files": [{"p": "six.bin", "n": 6 * 32 - 3, "s": mask}, {"p": "o.bin", "n": 40, "s": 1}], "chunk": 32,
                                "streams": rng.choice([1, 2, 3]), "transport": rng.choice(["netsim", "mock"]), "noroot": True, "resume": True, "tail": tail,
                                "prior": [{"file": "six.bin", "chunks": marked}], "timeout_ms": 5000})
    prc, pres = E.run_xfer(ctx, exe, "priors", prior_cases, timeout=900)
    for c, r in zip(prior_cases, pres):
        rep = {"case": c, "result": r}
        if r.get("hang"):
            ctx.violation("C04:resume-hangs", f"resume from marked chunks {c['prior'][0]['chunks']} (tail {c['tail']}) did not terminate: {r['hang']}", rep)
        elif not (r.get("sender_ok") and r.get("recv_ok")):
            ctx.violation("C04:resume-fails", f"resume from marked chunks {c['prior'][0]['chunks']} (tail {c['tail']}) failed: {r.get('sender_err')!r} / {r.get('recv_err')!r}", rep)
        elif not r.get("equal"):
            ctx.violation("C04:resume-wrong-tree", f"resume from marked chunks {c['prior'][0]['chunks']} (tail {c['tail']}) succeeded with a wrong tree: {r.get('diff')}", rep)
    rc, results = G.run_cases(ctx, exe, "chains", cases, timeout=1700)
    if rc != 0 or len(results) != len(cases):
        ctx.oblige("harness:chain-run", False, f"rc={rc} results={len(results)}/{len(cases)} {ctx.harness_stderr[-300:]}")
    resumed = saved = 0
    for c, r in zip(cases, results):
        rep = {"case": c, "result": r}
        if r.get("unsound"):
            ctx.violation("C04:unsound-sidecar-in-chain", f"{c['name']}: {r['unsound'][:2]}", rep)
        fin = r.get("final")
        if not fin:
            ctx.violation("C04:resume-crashed", f"the resumed run of {c['name']} did not produce a result: {r.get('note')}", rep)
            continue
        if fin.get("hang"):
            ctx.violation("C04:resume-hangs", f"the resumed run of {c['name']} did not terminate: {fin.get('hang')} stuck={fin.get('stuck', [])[:3]}", rep)
        elif not (fin.get("sender_ok") and fin.get("recv_ok")):
            ctx.violation("C04:resume-fails", f"the resumed run of {c['name']} failed: sender={fin.get('sender_err')!r} receiver={fin.get('recv_err')!r}", rep)
        elif not fin.get("equal"):
            ctx.violation("C04:resume-wrong-tree", f"the resumed run of {c['name']} succeeded but the tree differs: {fin.get('diff')}", rep)
        else:
            resumed += 1
            sent = (fin.get("hits") or {}).get("send.before_chunk", 0)
            marked = r.get("last_marked", 0)
            allc = r.get("all_chunks", 0)
            nfiles = len(c["base"]["files"])
            if marked > 0:
                saved += 1
            # finished work is not requested again: frames sent <= chunks not marked (+ per file at most one verification re-send and the `tail` last marked chunks the sender is configured to re-send)
            if sent > allc - marked + nfiles * (1 + c['base'].get('tail', 0)):
                ctx.violation("C04:finished-work-resent", f"{c['name']}: {marked} of {allc} chunks were marked on disk but the resumed run sent {sent} frames", rep)
    # the negotiation itself: which chunks travel for a given report (Model/Resume) - finished work is not requested again
    from checks import resumegen
    n_plan, d_plan, plan_stats = resumegen.run(ctx, exe, "C04")
    ctx.coverage.update({
        "resume_reports": n_plan, "resume_report_outcomes": plan_stats, "disagreements_model_vs_impl": d_plan,
        "evaluations": len(cases) + len(wl) + len(prior_cases) + n_plan, "distinct_nontrivial": resumed + sum(1 for r in pres if r.get("equal")),
        "prior_state_resumes": len(prior_cases),
        "rule": "resumes from hand-made on-disk states: every (quick: half of all) subset of marked chunks of a 6-chunk file x sender tail {0,1,2}; workloads as in C05; per workload seeded chains of 1-3 kills at random hits of 8 hook points (receiver before/after write, after mark, between temp write and rename, after rename, before finalize; "
                "sender before chunk, before FileEnd), half of them with the flusher firing at the kill instant; after the chain an uninterrupted resumed run into the same directory must return nil on both sides with an "
                "identical tree and send at most (unmarked chunks + one re-send per file) frames. non-trivial = chains whose resumed run succeeded",
        "samples": [cases[0]["name"], cases[-1]["name"]],
        "resumed_ok": resumed, "chains_with_saved_work": saved,
    })
    ctx.assumptions += ["sender and receiver run in one child process and are killed together (the receiver's disk state is what matters); separate sender kills are represented by the sender-side kill points",
                        "connection drops and cancellation as interruption are covered by C02's fault runs followed by the same resume path"]
    return ctx.finish(LEVEL)


def replay(ctx, path):
    print(json.dumps(json.load(open(path)), indent=1)[:4000])
    return run(ctx)
