"""C10 — signaling messages stay inside their session and carry the true sender. Theorems: Props/C10.lean over Model/Routing
(inductive invariants `Inv` and `Fifo` over every interleaving of joins, leaves, reconnects with duplicate peer ids, session closes,
server broadcasts, client messages of any content, per-target broadcast steps and writer deliveries). Tie: (1) sequential
histories on the REAL thruserv binary with WebSocket clients (each act fenced) compared with the model's transcript, connection by
connection, envelope by envelope; (2) concurrent swarms on the real binary (several sessions, duplicate peer ids, spoofed from /
session_id, malformed envelopes, unknown addressees, optional join/leave churn) whose complete receive logs are judged by a
model-independent statement of C10."""
import json
import os

from checks.c14 import run_parallel

LEVEL = "proof"


def gen_route(ctx, n):
    rng = ctx.rng
    cases = []
    for _ in range(n):
        nsess = rng.range(2, 3)
        acts = []
        conns = {}        # idx -> (sid, peer)
        nconn = 0
        body = 0
        pool = ["10", "20", "30", "40"]
        for _ in range(rng.range(5, 26)):
            r = rng.below(20)
            if r < 6 or len(conns) < 2:
                nconn += 1
                sid = rng.range(1, nsess)
                p = rng.choice(pool)
                acts.append(f"j:{sid}:{nconn}:{p}")
                conns[nconn] = (sid, p)
            elif r < 8:
                c = rng.choice(sorted(conns))
                acts.append(f"l:{c}")
                del conns[c]
            else:
                c = rng.choice(sorted(conns))
                sid, p = conns[c]
                others = [q for q in pool if q != p]
                to = rng.choice(["0", "0", "0"] + others + others + ["77"])
                claimed = rng.choice(["0", "0", p] + others + ["99"])
                kind = rng.choice(["ok"] * 8 + ["badver", "notype", "noid", "garbage"])
                sc = rng.choice(["0", "0", "0", str(rng.range(1, nsess)), "9"])
                body += 1
                acts.append(f"m:{c}:{to}:{claimed}:{body}:{kind}:{sc}")
        cases.append({"sessions": nsess, "acts": acts})
    aimed = [
        # same peer id in two sessions; addressed + broadcast + spoofed from + foreign session id
        (2, ["j:1:1:10", "j:1:2:20", "j:2:3:10", "j:2:4:20", "m:1:20:0:1:ok:2", "m:1:0:20:2:ok:2", "m:3:20:10:3:ok:1", "m:4:0:0:4:ok:0", "m:2:10:99:5:ok:9"]),
        # reconnect with the same peer id: the old socket keeps sending, the new one receives
        (2, ["j:1:1:10", "j:1:2:20", "j:1:3:20", "m:1:20:0:1:ok:0", "m:2:0:0:2:ok:0", "m:2:10:0:3:ok:0", "m:3:0:0:4:ok:0", "l:3", "m:1:20:0:5:ok:0", "m:2:10:0:6:ok:0", "l:2", "m:1:0:0:7:ok:0"]),
        # unknown addressee: the peer exists only in the other session
        (2, ["j:1:1:10", "j:2:2:30", "j:2:3:40", "m:1:30:0:1:ok:0", "m:1:30:0:2:ok:2", "m:2:10:0:3:ok:1", "m:3:30:0:4:ok:0"]),
        (3, ["j:1:1:10", "j:2:2:10", "j:3:3:10", "j:1:4:20", "j:2:5:20", "j:3:6:20", "m:1:0:0:1:ok:2", "m:2:0:0:2:ok:3", "m:3:0:0:3:ok:1", "m:4:10:0:4:ok:3", "m:5:10:0:5:ok:1", "m:6:10:0:6:ok:2"]),
    ]
    for ns, acts in aimed:
        cases.append({"sessions": ns, "acts": acts})
    return cases


def gen_swarm(ctx, n, thorough):
    rng = ctx.rng
    cases = []
    for k in range(n):
        nsess = rng.range(2, 3)
        peers = []
        pool = ["a", "b", "c", "d", "e"]
        for _ in range(nsess):
            ps = [rng.choice(pool) for _ in range(rng.range(2, 6))]
            peers.append(ps)
        msgs = []
        for si, ps in enumerate(peers):
            for p in ps:
                ms = []
                for _ in range(rng.range(5, 25 if not thorough else 30)):
                    others = [q for q in pool if q != p]
                    to = rng.choice(["0", "0"] + others + ["zz"])
                    claimed = rng.choice(["0", "0"] + others + ["server"])
                    kind = rng.choice(["ok"] * 10 + ["badver", "noid", "garbage"])
                    sc = rng.choice(["0", "0", str(rng.range(1, nsess))])
                    ms.append(f"{to}:{claimed}:{kind}:{sc}")
                msgs.append(ms)
        cases.append({"sessions": nsess, "peers": peers, "msgs": msgs, "churn": 0 if k % 3 else 2})
    return cases


def judge_swarm(ctx, case, o):
    """C10 stated directly on the receive logs (no model involved)."""
    infos = o["conns"]
    by_conn = {i["Conn"]: i for i in infos}
    reg = {}
    for i in infos:
        reg[(i["Sid"], i["Peer"])] = i["Conn"]          # the latest connection of a (session, peer id) is the registered one
    registered = set(reg.values())
    sids = {int(k): v for k, v in o["sids"].items()}
    churn = case.get("churn", 0)
    rep = {"sessions": case["sessions"], "peers": case["peers"], "churn": churn}
    # expectations
    exp = {c: [] for c in by_conn}        # recipient -> [(from peer, to, body)]
    exp_err = {c: [] for c in by_conn}
    for ci, ms in enumerate(case["msgs"]):
        a = by_conn[ci + 1]
        for k, m in enumerate(ms):
            to, claimed, kind, sc = m.split(":")
            if kind != "ok":
                continue
            body = a["Conn"] * 1000 + k
            if to != "0":
                tgt = reg.get((a["Sid"], to))
                if tgt is None:
                    exp_err[a["Conn"]].append(to)
                else:
                    exp[tgt].append((a["Peer"], to, body))
            else:
                excl = reg.get((a["Sid"], a["Peer"]))
                for r in registered:
                    if by_conn[r]["Sid"] == a["Sid"] and r != excl:
                        exp[r].append((a["Peer"], "", body))
    nmsg = 0
    for rs, log in o["logs"].items():
        r = by_conn[int(rs)]
        got = []
        errs = []
        last = {}
        for e in (log or []):
            if e["type"] == "error":
                msg = e.get("msg") or ""
                tgt = msg.split("peer-")[-1] if "peer-" in msg else msg
                if tgt != r["Peer"]:          # a reply naming the own peer id answers a fence of an unregistered connection
                    errs.append(tgt)
                if e["from"] != "server" or e["to"] != "peer-" + r["Peer"]:
                    ctx.violation("C10:error-reply-misrouted", f"error envelope from {e['from']!r} to {e['to']!r} seen by {r}", dict(rep, envelope=e, recipient=r))
                continue
            body = int(e["body"])
            nmsg += 1
            frm = e["from"][5:] if e["from"].startswith("peer-") else e["from"]
            to = e["to"][5:] if e["to"].startswith("peer-") else e["to"]
            if body >= 900000:
                if frm != f"churn{body - 900000}":
                    ctx.violation("C10:from-not-author", f"recipient {r} sees from={e['from']!r} on a message written by churn client {body - 900000}", dict(rep, envelope=e, recipient=r))
                continue
            a = by_conn.get(body // 1000)
            if a is None:
                ctx.violation("C10:unknown-message", f"recipient {r} got an envelope nobody sent: {e}", dict(rep, envelope=e))
                continue
            if a["Sid"] != r["Sid"]:
                ctx.violation("C10:cross-session-delivery", f"connection {r['Conn']} of session {r['Sid']} received a message written by connection {a['Conn']} of session {a['Sid']}",
                              dict(rep, envelope=e, author=a, recipient=r, author_message=case["msgs"][a["Conn"] - 1][body % 1000]))
            if frm != a["Peer"]:
                ctx.violation("C10:from-not-author", f"recipient sees from={e['from']!r}, the author connected as peer-{a['Peer']}",
                              dict(rep, envelope=e, author=a, recipient=r, author_message=case["msgs"][a["Conn"] - 1][body % 1000]))
            if to and to != r["Peer"]:
                ctx.violation("C10:addressed-to-someone-else", f"message addressed to peer-{to} delivered to peer-{r['Peer']}", dict(rep, envelope=e, author=a, recipient=r))
            if not to and a["Peer"] == r["Peer"] and a["Sid"] == r["Sid"]:
                ctx.violation("C10:broadcast-returned-to-author", f"unaddressed message of peer-{a['Peer']} delivered to its own peer id", dict(rep, envelope=e, author=a, recipient=r))
            key = a["Conn"]
            if key in last and body <= last[key]:
                ctx.violation("C10:reordered-or-duplicated", f"recipient {r['Conn']} got message {body} of connection {key} after {last[key]}", dict(rep, author=a, recipient=r))
            last[key] = max(last.get(key, -1), body)
            got.append((frm, to, body))
        want = exp[int(rs)]
        if sorted(got) != sorted(want) and a is not None:
            missing = sorted(set(want) - set(got))
            extra = sorted(set(got) - set(want))
            dup = len(got) - len(set(got))
            kind = "lost" if missing and not extra else ("unexpected-delivery" if extra else "duplicated")
            ctx.violation(f"C10:{kind}", f"connection {r['Conn']} (session {r['Sid']}, peer-{r['Peer']}, {'registered' if int(rs) in registered else 'replaced'}): "
                          f"missing {missing[:4]} extra {extra[:4]} duplicates {dup}", dict(rep, recipient=r, missing=missing[:10], extra=extra[:10]))
        if errs != exp_err[int(rs)]:
            ctx.violation("C10:unknown-addressee-report", f"connection {r['Conn']} got peer_not_found for {errs[:6]}, expected {exp_err[int(rs)][:6]}", dict(rep, recipient=r, got=errs, expected=exp_err[int(rs)]))
    return nmsg


def run(ctx):
    ctx.regen()
    ok, thms = ctx.lean_props()
    if ok:
        ctx.audit(thms)
    if ctx.tier == "thorough":
        ctx.leanchecker()
    ctx.build_driver()
    exe = ctx.build_harness("serv")
    srv = ctx.build_thruserv() if exe else None
    if not exe or not srv:
        ctx.oblige("harness.build", False, getattr(ctx, "harness_err", "")[-400:])
        return ctx.finish(LEVEL)
    thorough = ctx.tier == "thorough"
    # ---- 1. sequential histories: the model's transcript vs the real binary's
    rcases = gen_route(ctx, 1500 if thorough else 60)
    lines = ["route " + json.dumps(c).encode().hex() for c in rcases]
    res, errs = run_parallel(ctx, exe, "route", lines, {"THRUSERV_BIN": srv}, workers=12)
    ctx.oblige("harness:route", not errs and all(r is not None for r in res), "; ".join(errs)[:300])
    # a history that did not settle (a fence not back within 3 s) is run once more on its own: a lost envelope reproduces, a stall of the
    # loaded machine does not
    retried = 0
    for i, r in enumerate(res):
        if r is not None and r.startswith(("harness-err", "server-err", "setup-err")):
            r2, _ = run_parallel(ctx, exe, "route-retry", [lines[i]], {"THRUSERV_BIN": srv}, workers=1)
            retried += 1
            if r2 and r2[0] is not None:
                res[i] = r2[0]
    mcases = ["route 256 " + " ".join(c["acts"]) for c in rcases]
    mp = os.path.join(ctx.workdir, "route.model.cases")
    open(mp, "w").write("\n".join(mcases) + "\n")
    mo = os.path.join(ctx.workdir, "route.model.out")
    ctx.driver(mp, mo)
    mod = open(mo).read().splitlines()
    diffs = []
    nontrivial = 0
    for c, r, m in zip(rcases, res, mod):
        if r is None:
            continue
        if r.startswith(("harness-err", "server-err", "setup-err")):
            # a fence that never comes back is a lost message: report with the history
            ctx.violation("C10:lost-or-stalled", f"history did not settle: {r[:160]}", {"sessions": c["sessions"], "acts": c["acts"], "harness": r})
            continue
        body, _, tail = r.partition(" | ")
        info = dict(x.split("=") for x in tail.split() if "=" in x)
        if info.get("alive") != "true":
            ctx.violation("C10:server-died", "the server stopped answering during a history", {"acts": c["acts"]})
        if info.get("foreign_server_msgs", "0") != "0":
            ctx.violation("C10:cross-session-delivery", "a server-originated envelope carried another session's id or a peer-written error envelope arrived", {"acts": c["acts"], "impl": body})
        if body != m:
            diffs.append((c, body, m))
            # locate the connection whose transcript differs and state what is wrong with it in terms of the property
            bi = dict(x.split("=", 1) for x in body.split() if x.startswith("c"))
            mi = dict(x.split("=", 1) for x in m.split() if x.startswith("c"))
            joined = {a.split(":")[2]: a.split(":")[1] for a in c["acts"] if a.startswith("j:")}
            for k in sorted(set(bi) | set(mi)):
                if bi.get(k) != mi.get(k):
                    ctx.violation("C10:transcript-differs", f"connection {k} (session {joined.get(k[1:])}) received {bi.get(k)}; routing by session and peer id gives {mi.get(k)}",
                                  {"sessions": c["sessions"], "acts": c["acts"], "impl": body, "model": m})
                    break
        if "]e[" in body and any(x.split("=")[1][:2] != "[]" for x in body.split() if x.startswith("c")):
            nontrivial += 1
    ctx.oblige("correspondence:thruserv-routing", not diffs,
               "; ".join(f"acts {' '.join(d[0]['acts'])}: impl `{d[1]}` model `{d[2]}`" for d in diffs[:2])[:900])
    # ---- 2. concurrent swarms judged against the property itself
    scases = gen_swarm(ctx, 150 if thorough else 10, thorough)
    lines = ["swarm " + json.dumps(c).encode().hex() for c in scases]
    res, errs = run_parallel(ctx, exe, "swarm", lines, {"THRUSERV_BIN": srv}, workers=5)
    ctx.oblige("harness:swarm", not errs and all(r is not None for r in res), "; ".join(errs)[:300])
    delivered = 0
    for c, r in zip(scases, res):
        if r is None:
            continue
        o = json.loads(r)
        if "server_err" in o or "setup_err" in o:
            ctx.oblige("harness:swarm-setup", False, json.dumps(o)[:200])
            continue
        if "fence_err" in o:
            ctx.violation("C10:lost-or-stalled", f"swarm did not settle: {o['fence_err']}", {"case": {k: c[k] for k in ('sessions', 'peers', 'churn')}})
        if not o.get("alive", True) or o.get("panic_in_server_output"):
            ctx.violation("C10:server-died", "the server panicked or stopped answering during a swarm", {"case": {k: c[k] for k in ('sessions', 'peers', 'churn')}})
        delivered += judge_swarm(ctx, c, o)
    ctx.coverage.update({
        "evaluations": len(rcases) + len(scases), "distinct_nontrivial": nontrivial + len(scases),
        "route_histories": len(rcases), "route_histories_rerun_after_stall": retried, "swarms": len(scases), "envelopes_judged_in_swarms": delivered,
        "disagreements_model_vs_impl": len(diffs),
        "rule": "histories: 2-3 sessions, peer ids from a pool of 4 shared across sessions (duplicates within a session = reconnects), joins, leaves, messages addressed to peers of the own session / of another session only / unknown, "
                "unaddressed, with spoofed from (other peer, own, unknown), foreign or bogus session_id, wrong version / missing type / missing id / truncated JSON; every act fenced, transcript per connection compared with the model. "
                "swarms: 4-18 connections in 2-3 sessions sending 5-30 messages each concurrently (every third swarm with two extra clients joining, broadcasting and leaving in a loop); logs judged for isolation, true from, addressee, "
                "per-pair order, no duplicate, no loss, exact peer_not_found reports. non-trivial = histories in which at least one client envelope was delivered",
        "samples": [mcases[0][:300], mcases[-1][:300]],
    })
    ctx.assumptions += ["one model step = one lock-protected region of hub.go (C11 proves the hub's tables describe exactly the registered connections); gorilla/websocket, encoding/json and TCP are exercised, not modelled",
                        "'not lost while the recipient keeps reading' is the model's queue-capacity condition; the harness keeps every recipient below 256 undelivered envelopes",
                        "expiry-driven CloseSession is a model step (covered by the theorems) but not part of the real-binary histories here (C14 runs it)"]
    return ctx.finish(LEVEL)


def replay(ctx, path):
    print(json.dumps(json.load(open(path)), indent=1)[:4000])
    return run(ctx)
