"""Resume negotiation differential (C04 / C06): the real SendManifestMultiStream against a scripted receiver that answers the
ResumeRequest with a generated report; the chunk frames that then travel (and the sender's planned-skip count) are compared with
Model/Resume (`plan`, `skipped`, `resend`) run by tvdriver on the same report."""
import json
import os


def gen(rng, full):
    cases = []
    k = 0

    def add(total, tail, verify, alg, bits, last, hsh, streams):
        nonlocal k
        k += 1
        cases.append({"mode": "plan", "name": f"p{k}", "chunks": total, "tail": tail, "verify": verify, "hash_alg": alg, "bits": bits,
                      "last": last, "hash": hsh, "streams": streams})

    def highest(bits):
        return max((i for i, c in enumerate(bits) if c == "1"), default=len(bits))

    # aimed: the live configuration (thru host: verify "last", crc32c, no verify tail) and tail 1 over every shape of bitmap on small files
    for total in (1, 2, 3, 5, 8):
        shapes = {"1" * total, "0" * total, "1" * (total // 2) + "0" * (total - total // 2), "0" * (total // 2) + "1" * (total - total // 2),
                  "".join("1" if i % 2 == 0 else "0" for i in range(total)), "".join("1" if i % 3 == 1 else "0" for i in range(total))}
        for bits in sorted(shapes):
            for hsh in ("good", "bad", "unknown"):
                for tail in (0, 1):
                    add(total, tail, "last", "crc32c", bits, highest(bits), hsh, 1 + (k % 3))
    # a receiver that answers only after the sender's grace period (it handled FileBegin late): the sender has by then sent every chunk and
    # the end record without a plan - the report must not make anything follow the end record
    for total, streams in ((1, 1), (2, 1), (3, 2)) + (((5, 3), (2, 2)) if full else ()):
        for hsh in ("bad", "good", "unknown"):
            bits = "1" * total
            add(total, 0, "last", "crc32c", bits, total - 1, hsh, streams)
            cases[-1].update({"report_delay_ms": 420, "done_delay_ms": 350})
    # a report that arrives in the middle of the regular pass (after the grace period, before the end record) while the display callbacks
    # take their time: the chunk offered for verification must still be decided before the end record, and re-sent when it does not match
    for total, streams in ((8, 1), (8, 2), (6, 1)) + (((12, 3), (10, 2)) if full else ()):
        for hsh in ("bad", "good"):
            add(total, 0, "last", "crc32c", "1" * total, total - 1, hsh, streams)
            cases[-1].update({"report_delay_ms": 300 + 45 * 2, "progress_delay_ms": 45, "stats_delay_ms": 150, "done_delay_ms": 100, "midflight": True})
    n = 260 if full else 70
    for _ in range(n):
        total = rng.choice([1, 2, 3, 4, 7, 8, 9, 12, 16, 17, 33])
        dens = rng.choice([0, 1, 2, 3, 4])
        bits = "".join("1" if rng.below(4) < dens else "0" for _ in range(total))
        if rng.chance(1, 6):
            bits = "1" * total
        last = highest(bits)
        if rng.chance(1, 5):   # a receiver that reports something else
            last = rng.choice([0, total - 1, total, total + 1, rng.below(total + 1)])
        add(total, rng.choice([0, 1, 1, 2, 3, total, total + 2]), rng.choice(["last", "last", "", "none", "all"]), rng.choice(["crc32c", "crc32c", "xxhash64", "none"]),
            bits, last, rng.choice(["good", "bad", "bad", "unknown", "zero"]), rng.choice([1, 2, 3]))
    return cases


def model_line(c):
    return (f"plan {c['chunks']} {c['tail']} {0 if c['verify'] == 'none' else 1} {0 if c['hash_alg'] == 'none' else 1} "
            f"{c['bits']} {c['last']} {c['hash']}")


def run(ctx, exe, prop):
    """returns (number of cases, number of disagreements, stats)"""
    cases = gen(ctx.rng, ctx.tier == "thorough")
    cpath = os.path.join(ctx.workdir, "plan.cases")
    with open(cpath, "w") as f:
        for c in cases:
            f.write(json.dumps(c) + "\n")
    opath = os.path.join(ctx.workdir, "plan.out")
    rc = ctx.run_harness(exe, cpath, opath, timeout=900)
    res = [json.loads(l) for l in open(opath).read().splitlines() if l.strip()]
    mp = os.path.join(ctx.workdir, "plan.model.cases")
    open(mp, "w").write("\n".join(model_line(c) for c in cases) + "\n")
    mo = os.path.join(ctx.workdir, "plan.model.out")
    okm = ctx.driver(mp, mo)
    mod = open(mo).read().splitlines()
    ctx.oblige("harness:plan", rc == 0 and len(res) == len(cases) and okm and len(mod) == len(cases),
               f"rc={rc} impl={len(res)} model={len(mod)} cases={len(cases)} {ctx.harness_stderr[-200:]}")
    diffs = []
    stats = {"resend": 0, "nothing_sent": 0, "all_sent": 0, "some_skipped": 0, "hash_unknown": 0}
    for c, r, m in zip(cases, res, mod):
        if r.get("note") or not r.get("sender_ok"):
            diffs.append((c, r, m, f"the sender did not complete against the scripted receiver: {r.get('note') or r.get('sender_err')}"))
            continue
        if c.get("midflight"):
            # the report meets a pass that is under way: how many chunks had gone out is timing; the generic oracles below apply
            # (an unverifiable last chunk travels after all, the end record counts every frame and nothing follows it)
            stats["midflight_report"] = stats.get("midflight_report", 0) + 1
            if prop == "C17" and r.get("frames_after_end"):
                ctx.violation("C17:chunk-after-end:late-report", f"frames {r['frames_after_end']} travelled after the end record (report delivered mid-pass, hash {c['hash']})", {"case": c, "result": r})
            continue
        if c.get("report_delay_ms"):
            # no plan was in force when the chunks were dispatched: every chunk travels once, the end record announces them all and is the
            # last thing sent for the file (model: SendFile.C17_nothing_after_end; the `plan` line of Model/Resume does not apply)
            stats["late_report"] = stats.get("late_report", 0) + 1
            sent = r.get("sent") or []
            if prop == "C17" and r.get("frames_after_end"):
                ctx.violation("C17:chunk-after-end:late-report", f"resume report (hash {c['hash']}) delivered {c['report_delay_ms']} ms after the request, i.e. after the sender had sent all "
                              f"{c['chunks']} chunks and FileEnd (announcing {r.get('file_end_count')} frames): frames {sent} travelled, {r.get('frames_after_end')} of them after the end record",
                              {"case": c, "result": r})
            continue
        impl = "sent=" + json.dumps(r.get("sent") or [])
        want_sent = m.split(" skipped=")[0]
        if impl != want_sent:
            diffs.append((c, r, m, f"chunks that travelled {impl} vs model {want_sent}"))
            continue
        if r.get("stats"):
            ms = int(m.split(" skipped=")[1].split()[0])
            if r["planned_skipped"] != ms:
                diffs.append((c, r, m, f"planned skip count {r['planned_skipped']} vs model {ms}"))
                continue
        sent = r.get("sent") or []
        stats["resend"] += len(sent) != len(set(sent)) or (c["hash"] == "bad" and c["last"] in sent and c["bits"][c["last"]:c["last"] + 1] == "1")
        stats["nothing_sent"] += not sent
        stats["all_sent"] += len(set(sent)) == c["chunks"]
        stats["some_skipped"] += 0 < len(set(sent)) < c["chunks"]
        stats["hash_unknown"] += c["hash"] == "unknown"
    # model-independent oracle: with verification on, a last recorded chunk whose hash differs from the source's or could not be computed
    # must travel (C06: "detects it by hash and repairs it")
    for c, r in zip(cases, res):
        if (r.get("sender_ok") and c["verify"] != "none" and c["hash_alg"] != "none" and c["hash"] in ("bad", "unknown", "zero")
                and c["last"] < c["chunks"] and c["bits"][c["last"]:c["last"] + 1] == "1" and c["last"] not in (r.get("sent") or [])):
            ctx.violation(f"{prop}:unverified-chunk-trusted", f"the last recorded chunk {c['last']} (hash {c['hash']}) did not travel although it could not be verified "
                          f"(report bits {c['bits']}, tail {c['tail']}, verify {c['verify']!r}); the sender reported success", {"case": c, "result": r})
    # FileEnd announces the number of chunk frames that were written for the file (a resuming receiver waits for that many)
    for c, r in zip(cases, res):
        if r.get("sender_ok") and r.get("file_end_count", -1) >= 0 and r["file_end_count"] != len(r.get("sent") or []):
            ctx.violation(f"{prop}:file-end-count", f"FileEnd announced {r['file_end_count']} chunk frames but {len(r.get('sent') or [])} were written "
                          f"({c['streams']} streams, report bits {c['bits']})", {"case": c, "result": r})
            break
    ctx.oblige("correspondence:resume-plan", not diffs, "; ".join(f"{d[0]['name']}: {d[3]}" for d in diffs[:3]))
    for c, r, m, why in diffs[:5]:
        # a disagreement where a chunk the report does not mark travels nowhere is the property's failure itself
        sent = set(r.get("sent") or [])
        missing = [i for i in range(c["chunks"]) if c["bits"][i:i + 1] != "1" and i not in sent]
        if r.get("sender_ok") and missing:
            ctx.violation(f"{prop}:unrecorded-chunk-skipped", f"the sender reported success although chunks {missing[:5]} that the receiver's report does not mark never travelled "
                          f"(report bits {c['bits']}, last verified {c['last']}, hash {c['hash']}, tail {c['tail']})", {"case": c, "result": r, "model": m})
        elif not r.get("sender_ok"):
            ctx.violation(f"{prop}:resume-does-not-complete", f"resumed send from report bits {c['bits']} (last verified {c['last']}, hash {c['hash']}, tail {c['tail']}, verify {c['verify']!r}) "
                          f"does not complete: {why}", {"case": c, "result": r, "model": m})
    return len(cases), len(diffs), stats
