"""C13 — manifest scan. Theorems: Props/C13.lean (top-level names pairwise distinct for every list of base names,
sortedness, counts, only plain files/directories listed, resolver). Tie (b): seeded trees are materialised (duplicate
base names, names shaped like the tool's ordinal prefixes, overlapping and repeated selections, '.', trailing slashes,
unicode / non-UTF-8 names, empty dirs, single files, symlinks to file/dir/nothing, FIFOs, sub-directories next to siblings whose names extend theirs by a byte below '/'); the real ScanPaths (twice) and
the real resolver run on them; the whole manifest incl. ids is compared with the model, every listed file is read."""
import json

LEVEL = "proof"

NAMES = ["x", "1_x", "2_x", "1_1_x", "y", "data", "a b", "ünï", "x.txt", "10_x"]


def gen_case(rng):
    entries = []
    tops = []
    ndirs = rng.range(1, 4)
    used = set()
    for d in range(ndirs):
        parent = f"p{d}"
        entries.append({"p": parent, "kind": "dir"})
        for _ in range(rng.range(1, 3)):
            name = rng.choice(NAMES)
            p = f"{parent}/{name}"
            if p in used:
                continue
            used.add(p)
            kind = rng.choice(["dir", "dir", "file"])
            if kind == "file":
                entries.append({"p": p, "kind": "file", "n": rng.choice([0, 1, 5, 100])})
            else:
                entries.append({"p": p, "kind": "dir"})
                for j in range(rng.range(0, 4)):
                    r = rng.below(10)
                    q = f"{p}/{rng.choice(['f', 'g', 'sub', 'z.z', 'é'])}{j}"
                    if r < 5:
                        entries.append({"p": q, "kind": "file", "n": rng.choice([0, 3, 77, 1000])})
                    elif r < 7:
                        entries.append({"p": q, "kind": "dir"})
                        if rng.chance(1, 2):
                            entries.append({"p": q + "/deep", "kind": "file", "n": 9})
                    elif r == 7:
                        entries.append({"p": q, "kind": "symlink", "target": rng.choice(["../" + name, "/nonexistent", "f0", "."])})
                    elif r == 8:
                        entries.append({"p": q, "kind": "fifo"})
                    else:
                        entries.append({"p": q, "kind": "symlink", "target": "g1"})
                # names with a backslash (an ordinary character in a file name here) next to a directory / file pair that the same
                # name would denote if the backslash were a separator
                if rng.chance(1, 3):
                    entries.append({"p": f"{p}/a", "kind": "dir"})
                    entries.append({"p": f"{p}/a/b", "kind": "file", "n": 3})
                    entries.append({"p": f"{p}/a\\b", "kind": "file", "n": 10})
                    if rng.chance(1, 2):
                        entries.append({"p": f"{p}/notes\\2024.txt", "kind": "file", "n": 7})
                # a sub-directory next to siblings whose names continue its name with a byte below '/': walking order and sorted
                # order of the full paths differ there
                if rng.chance(1, 2):
                    base = rng.choice(["lib", "src", "é"])
                    entries.append({"p": f"{p}/{base}", "kind": "dir"})
                    entries.append({"p": f"{p}/{base}/inner.txt", "kind": "file", "n": 3})
                    if rng.chance(1, 2):
                        entries.append({"p": f"{p}/{base}/z", "kind": "dir"})
                    for suf in rng.choice([[".go"], ["-old", ".go"], [" copy"], ["!", "+1", "."], ["-"]]):
                        if rng.chance(1, 2):
                            entries.append({"p": f"{p}/{base}{suf}", "kind": "file", "n": 5})
                        else:
                            entries.append({"p": f"{p}/{base}{suf}", "kind": "dir"})
                            entries.append({"p": f"{p}/{base}{suf}/k", "kind": "file", "n": 1})
            tops.append(p)
    # selections: some of the created tops, possibly repeated, with '.', trailing slash, a top-level symlink
    sel = []
    for _ in range(rng.choice([1, 1, 2, 3, 4])):
        t = rng.choice(tops)
        r = rng.below(10)
        if r == 0:
            t = t + "/"
        elif r == 1:
            t = t + "/."
        sel.append(t)
    if rng.chance(1, 6) and tops:
        entries.append({"p": "lnk/1_x", "kind": "symlink", "target": "../" + rng.choice(tops)})
        entries.append({"p": "lnk", "kind": "dir"})
        sel.append("lnk/1_x")
    if rng.chance(1, 10):
        sel.append("p0/missing")
    if rng.chance(1, 8):
        entries.append({"p": "nonutf", "kind": "dir"})
        entries.append({"p": (b"nonutf/" + b"\xff\xfeq").hex(), "x": True, "kind": "file", "n": 4})
        sel.append("nonutf")
    return {"entries": entries, "paths": sel}


def run(ctx):
    ctx.regen()
    ok, thms = ctx.lean_props()
    if ok:
        ctx.audit(thms)
    if ctx.tier == "thorough":
        ctx.leanchecker()
    ctx.build_driver()
    exe = ctx.build_harness("app")
    if not exe:
        ctx.oblige("harness.build", False, getattr(ctx, "harness_err", "")[-400:])
        return ctx.finish(LEVEL)
    rng = ctx.rng
    specs = [
        {"entries": [{"p": "a/x", "kind": "dir"}, {"p": "a/x/f", "kind": "file", "n": 3}, {"p": "b/x", "kind": "dir"}, {"p": "b/x/g", "kind": "file", "n": 4},
                     {"p": "c/1_x", "kind": "dir"}, {"p": "c/1_x/h", "kind": "file", "n": 5}], "paths": ["a/x", "b/x", "c/1_x"]},
        {"entries": [{"p": "t/big", "kind": "file", "n": 1000}, {"p": "t/link", "kind": "symlink", "target": "big"}, {"p": "t/dangling", "kind": "symlink", "target": "nowhere"},
                     {"p": "t/pipe", "kind": "fifo"}], "paths": ["t"]},
        {"entries": [{"p": "s/one", "kind": "file", "n": 7}], "paths": ["s/one", "s/one", "s"]},
    ]
    n = 120 if ctx.tier == "quick" else 700
    for _ in range(n):
        specs.append(gen_case(rng))
    import os
    cpath = os.path.join(ctx.workdir, "scan.cases")
    with open(cpath, "w") as f:
        for s in specs:
            f.write("scan " + json.dumps(s).encode().hex() + "\n")
    opath = os.path.join(ctx.workdir, "scan.impl.out")
    rc = ctx.run_harness(exe, cpath, opath, timeout=900)
    outs = open(opath).read().splitlines()
    if rc != 0 or len(outs) != len(specs):
        ctx.oblige("harness:run", False, f"rc={rc} {len(outs)}/{len(specs)} {ctx.harness_stderr[-300:]}")
    results = []
    for o in outs:
        try:
            results.append(json.loads(o))
        except Exception:
            results.append({"problems": ["unparsable harness output: " + o[:200]], "model_line": "scan", "impl_line": ""})
    mpath = os.path.join(ctx.workdir, "scan.model.cases")
    open(mpath, "w").write("\n".join(r["model_line"] for r in results) + "\n")
    mout = os.path.join(ctx.workdir, "scan.model.out")
    ctx.driver(mpath, mout)
    mres = open(mout).read().splitlines()
    diffs = []
    listed = 0
    for s, r, m in zip(specs, results, mres):
        rep = {"case": s, "impl": r.get("impl_line", "")[:1500], "model": m[:1500], "scan_err": r.get("scan_err")}
        for p in r.get("problems") or []:
            kind = p.split()[0]
            if p.startswith("size of"):
                kind = "size-differs-from-readable"
            ctx.violation("C13:" + kind, p[:300], rep)
        if not r.get("deterministic", True):
            ctx.violation("C13:nondeterministic", "two scans of the same unchanged paths differ", rep)
        if r.get("impl_line") != m:
            diffs.append((json.dumps(s)[:200], r.get("impl_line", "")[:300], m[:300]))
        if "items=" in r.get("impl_line", "") and r["impl_line"].split()[0] != "items=":
            listed += 1
    ctx.oblige("correspondence:scan", not diffs and len(mres) == len(specs), "; ".join(f"case {d[0]} impl {d[1]} model {d[2]}" for d in diffs[:2]))
    ctx.coverage.update({
        "evaluations": len(specs), "distinct_nontrivial": listed,
        "rule": "trees materialised on disk: 1-3 parents each holding 1-2 selected entries whose names are drawn from {x,1_x,2_x,1_1_x,10_x,y,data,'a b',unicode,x.txt} (so equal base names and prefix look-alikes collide), "
                "entries are files (sizes 0..1000), directories with files/sub-directories, symlinks to files / directories / nothing / '.', FIFOs; selections repeat, overlap, end in '/' or '/.', include a top-level symlink, "
                "a missing path, a non-UTF-8 name. Real ScanPaths twice + real buildPathResolver; every listed file is resolved and read; the whole manifest (paths, sizes, dir flags, FNV ids, counts) is compared with the model. "
                "non-trivial = cases with at least one listed item",
        "samples": [json.dumps(specs[0])[:300], json.dumps(specs[-1])[:300]],
        "disagreements_model_vs_impl": len(diffs),
    })
    ctx.assumptions += ["the model is given the physical facts (lstat kinds, sizes, mtimes, os.Stat of each selection) read back from disk by the harness; symlink resolution itself is the OS's",
                        "sort.Slice on distinct keys = insertion sort; FNV-1a and the id formatting are executed, not reasoned about"]
    return ctx.finish(LEVEL)


def replay(ctx, path):
    print(json.dumps(json.load(open(path)), indent=1)[:4000])
    return run(ctx)
