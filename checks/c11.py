"""C11 — the signaling hub under any interleaving. Theorems: Props/C11.lean over Model/Hub (every step of the model is the
stretch of hub.go between two park places). Tie (b), schedule replay: thread programs over {Add, remove, CloseSession,
List, SendTo, Broadcast, BroadcastExcept} are run as goroutines on the REAL Hub, parked by a controller before every
operation and at every verifhook.Point of hub.go; a schedule names which thread runs to its next park. After every step
the position reached, the state of h.mu (TryLock probe) and — for loops — the connection Go's map iteration chose are
recorded; the model is then run on the executed schedule with those picks and must reach the same positions, the same
lock states, the same results of every List/SendTo and the same final tables, closed channels and per-connection
receive logs. Independently of the model the property's clauses are evaluated on the implementation's own output."""
import itertools
import json
import os
import re

from checks.hubgen import gen_cases, spec_check

LEVEL = "proof"


def run_cases(ctx, name, cases, exe, timeout=1200):
    """harness first (it records the loop picks), then the model on the executed schedule"""
    cpath = os.path.join(ctx.workdir, f"{name}.cases")
    ipath = os.path.join(ctx.workdir, f"{name}.impl.out")
    with open(cpath, "w") as f:
        f.write("\n".join(cases) + "\n")
    rc = ctx.run_harness(exe, cpath, ipath, timeout=timeout)
    impl = open(ipath).read().splitlines()
    # a thread that did not reach its next park place within 3 s: run that case once more on its own (a real stall reproduces,
    # a starved goroutine on a loaded machine does not)
    hung = [i for i, o in enumerate(impl) if " hang" in o or "hang " in o or o.endswith("hang")][:20]
    for i in hung:
        rp = os.path.join(ctx.workdir, f"{name}.retry.cases")
        ro = os.path.join(ctx.workdir, f"{name}.retry.out")
        open(rp, "w").write(cases[i] + "\n")
        if ctx.run_harness(exe, rp, ro, timeout=120) == 0:
            lines = open(ro).read().splitlines()
            if lines:
                impl[i] = lines[0]
    if hung:
        ctx.notes.append(f"{len(hung)} hub schedule(s) re-run alone after a park time-out")
    mcases, iobs = [], []
    for line, out in zip(cases, impl):
        prog = line.split()[1]
        if " # " in out:
            ex, rest = out.split(" # ", 1)
            mcases.append(f"hub {prog} | {ex}".rstrip())
            iobs.append(rest)
        else:
            mcases.append(f"hub {prog} |")
            iobs.append("<" + out[:200] + ">")
    mpath = os.path.join(ctx.workdir, f"{name}.mcases")
    opath = os.path.join(ctx.workdir, f"{name}.model.out")
    with open(mpath, "w") as f:
        f.write("\n".join(mcases) + "\n")
    okm = ctx.driver(mpath, opath, timeout=timeout)
    model = open(opath).read().splitlines()
    diffs = []
    if rc != 0 or len(impl) != len(cases):
        diffs.append((-1, "<harness>", f"exit {rc}, {len(impl)}/{len(cases)} lines: {ctx.harness_stderr[-300:]}", ""))
    if not okm or len(model) != len(mcases):
        diffs.append((-1, "<driver>", "", f"driver failed or {len(model)}/{len(mcases)} lines"))
    for i in range(min(len(iobs), len(model))):
        if iobs[i] != model[i]:
            diffs.append((i, mcases[i], iobs[i], model[i]))
    ctx.oblige(f"correspondence:{name}", not diffs,
               "; ".join(f"case `{d[1][:120]}` impl `{d[2][:160]}` model `{d[3][:160]}`" for d in diffs[:3]))
    return impl, mcases, iobs, model, diffs


def search(ctx, cases, impl):
    """the property's clauses on the implementation's own output (no model involved)"""
    stats = {"nontrivial": 0, "interleaved": 0, "results": 0}
    for line, out in zip(cases, impl):
        for sig, what in spec_check(line, out, stats):
            ctx.violation(sig, what, {"case": line, "impl": out[:3000]})
    return stats


def run(ctx):
    ctx.regen()
    ok, thms = ctx.lean_props()
    if ok:
        ctx.audit(thms)
    if ctx.tier == "thorough":
        ctx.leanchecker()
    ctx.build_driver()
    exe = ctx.build_harness("hub")
    if not exe:
        ctx.oblige("harness.build", False, getattr(ctx, "harness_err", "")[-400:])
        return ctx.finish(LEVEL)
    cases, dist = gen_cases(ctx.rng, ctx.tier)
    impl, mcases, iobs, model, diffs = run_cases(ctx, "hub", cases, exe)
    stats = search(ctx, cases, impl)
    # free-running storm on the real Hub: stalls / panics below the granularity of the parked schedules
    storms = []
    for k in range(8 if ctx.tier == "thorough" else 3):
        storms.append({"relays": ctx.rng.range(2, 6), "churners": ctx.rng.range(2, 5), "closers": ctx.rng.range(0, 2), "sessions": ctx.rng.range(1, 3),
                       "millis": 2500 if ctx.tier == "thorough" else 1200, "stall_ms": 1000, "slow_sends": ctx.rng.choice([0, 0, 40]),
                       "stalled": ctx.rng.choice([0, 1, 2])})
    storms[0]["stalled"] = 2
    for sp in storms[1:]:
        sp["failing"] = ctx.rng.range(1, 3)
    for sp in storms:
        sp["checkers"] = 2
    spath = os.path.join(ctx.workdir, "storm.cases")
    open(spath, "w").write("\n".join("storm " + json.dumps(sp).encode().hex() for sp in storms) + "\n")
    rc = ctx.run_harness(exe, spath, os.path.join(ctx.workdir, "storm.out"), timeout=300)
    souts = open(os.path.join(ctx.workdir, "storm.out")).read().splitlines()
    ctx.oblige("harness:storm", rc == 0 and len(souts) == len(storms), ctx.harness_stderr[-300:])
    storm_ops = 0
    for sp, so in zip(storms, souts):
        try:
            o = json.loads(so)
        except Exception:
            ctx.violation("C11:panic", f"the hub harness died in a free-running storm: {so[:200]}", {"storm": sp, "output": so[:2000]})
            continue
        storm_ops += o.get("ops", 0)
        if o.get("stalled"):
            ctx.violation("C11:hub-stalls", f"no hub operation completed for {sp['stall_ms']} ms while relays, joins, leaves and session closes ran concurrently; goroutines blocked on the hub lock in {sorted(set(o.get('blocked_in') or []))[:6]}",
                          {"storm": sp, "result": o})
        if o.get("lost_registrations"):
            ctx.violation("C11:registration-lost", f"{o['lost_registrations']} times a peer for which Add had returned was not listed or not routable although it had not left "
                          f"(a session whose map keeps being garbage-collected by its last leaver): {o.get('lost_registration_example')}", {"storm": sp, "result": o})
        if o.get("panics"):
            ctx.violation("C11:panic", f"panic in a hub operation during a free-running storm: {o['panics'][:2]}", {"storm": sp, "result": o})
    stats["storm_ops"] = storm_ops
    if ctx.tier == "thorough":
        rexe = ctx.build_harness("hub", race=True)
        if rexe:
            sub = cases[:: max(1, len(cases) // 1500)]
            cpath = os.path.join(ctx.workdir, "race.cases")
            open(cpath, "w").write("\n".join(sub) + "\n")
            rc = ctx.run_harness(rexe, cpath, os.path.join(ctx.workdir, "race.out"), timeout=1500)
            racy = "DATA RACE" in ctx.harness_stderr
            ctx.oblige("race-detector:hub", rc == 0 and not racy, ctx.harness_stderr[-600:] if (rc or racy) else "")
            if racy:
                ctx.violation("C11:data-race", "race detector report in a controlled schedule", {"stderr": ctx.harness_stderr[-3000:]})
            stats["race_cases"] = len(sub)
    ctx.coverage.update({
        "evaluations": len(cases), "distinct_nontrivial": stats["nontrivial"],
        "rule": "thread programs over {Add, remove, CloseSession, List, SendTo, Broadcast, BroadcastExcept} x schedules: every interleaving "
                "(all thread-id words) of the small programs that matter (broadcast || remove, replace || broadcast, remove || add || remove || add, "
                "CloseSession || BroadcastExcept ...) and seeded handler-shaped and free-form programs with 2-5 threads over 1-2 sessions and "
                "duplicate peer ids, run as goroutines on the REAL Hub parked at operation boundaries and hub.go's verifhook points. "
                "non-trivial = runs in which at least two threads were between operation boundaries (mid-operation) at the same time or a replacement / CloseSession happened",
        "samples": [cases[0], cases[len(cases) // 2], cases[-1]],
        "distribution": dist,
        "interleaved_runs": stats["interleaved"], "list_sendto_results_checked": stats["results"],
        "disagreements_model_vs_impl": len(diffs),
        "storms": len(storms), "storm_hub_operations": stats.get("storm_ops", 0),
    })
    ctx.assumptions += [
        "free-running storms (2-6 relays, 2-5 joiners/leavers with shared peer ids, 0-2 session closers, 0-2 members whose socket write is stalled and who are replaced by reconnects, 1-3 members whose socket write fails while others keep addressing them until their handler removes them, a watchdog on completed operations) sample schedules below the park granularity; they can show a stall or panic, not exclude one",
        "a model step = the real code between two park places; data races inside such a stretch are visible only to the -race run of the thorough tier",
        "connection ids passed to Add are pairwise distinct (the server draws them with protocol.NewMsgID) and a remove func is called only after its Add returned",
        "send functions of the schedule replay return at once; stalled socket writes (which must stall only that connection's writer goroutine and delay its remove by the 1 s wait) are exercised by the storms",
        "the 256-slot queue never fills in these runs (full-queue skipping is part of the model and of C10's FIFO theorem, exercised there)"]
    return ctx.finish(LEVEL)


def replay(ctx, path):
    data = json.load(open(path))
    print(json.dumps(data, indent=1)[:4000])
    case = (data.get("input") or {}).get("case")
    if not case:
        return run(ctx)
    ctx.build_driver()
    exe = ctx.build_harness("hub")
    if not exe:
        print("harness does not build")
        return 1
    impl, mcases, iobs, model, diffs = run_cases(ctx, "replay", [case], exe)
    print("impl :", impl[0] if impl else None)
    print("model:", model[0] if model else None)
    bad = list(spec_check(case, impl[0] if impl else "", {"nontrivial": 0, "interleaved": 0, "results": 0}))
    for sig, what in bad:
        print("VIOLATED:", sig, what)
    return 1 if (bad or diffs) else 0
