// xlate: regenerates the Lean side of the model/code tie from /repo's current source.
//
// Usage: xlate -repo /repo -out /verif/lean/ThruVerif/Gen
//
// Emits (deleting what was there before):
//
//	Consts.lean    protocol constants via go/types constant evaluation
//	Geometry.lean  chunk geometry: whole functions from go/ssa, embedded expressions from the AST
//	Layouts.lean   wire layout of every control record, read off the write*/read* bodies
//	Order.lean     "A dominates B" facts from SSA dominator trees, make() sites in decoders
//	Shapes.lean    source text of decision points of hand-modelled code (limit tests, routing arguments, overwrites)
//	pins.json      sha256 of the go/printer-normalised text of every hand-modelled function
//
// Anything outside the supported subset makes the target fail loudly: the generated file then
// contains `xlate_failed_<target>` markers that make the Lean obligations fail (never papered over).
package main

import (
	"bytes"
	"crypto/sha256"
	"encoding/hex"
	"encoding/json"
	"flag"
	"fmt"
	"go/ast"
	"go/constant"
	"go/printer"
	"go/token"
	"go/types"
	"os"
	"path/filepath"
	"sort"
	"strconv"
	"strings"

	"golang.org/x/tools/go/packages"
	"golang.org/x/tools/go/ssa"
	"golang.org/x/tools/go/ssa/ssautil"
)

var (
	repo   = flag.String("repo", "/repo", "repository root")
	outDir = flag.String("out", "", "output directory for Gen/*.lean")
)

type world struct {
	pkgs  map[string]*packages.Package
	spkgs map[string]*ssa.Package
	prog  *ssa.Program
	fset  *token.FileSet
	fails []string
}

func (w *world) fail(target string, format string, args ...any) {
	w.fails = append(w.fails, fmt.Sprintf("%s: %s", target, fmt.Sprintf(format, args...)))
}

func main() {
	flag.Parse()
	if *outDir == "" {
		fmt.Fprintln(os.Stderr, "need -out")
		os.Exit(2)
	}
	cfg := &packages.Config{Mode: packages.LoadAllSyntax, Dir: *repo, Tests: false}
	pats := []string{"./internal/transfer", "./internal/app", "./internal/peers", "./internal/session",
		"./internal/ice", "./internal/config", "./cmd/thruserv", "./pkg/manifest", "./internal/scheduler",
		"./internal/clienthttp", "./internal/transferquic", "./internal/bufpool"}
	pkgs, err := packages.Load(cfg, pats...)
	if err != nil {
		fmt.Fprintln(os.Stderr, "load:", err)
		os.Exit(2)
	}
	nerr := 0
	for _, p := range pkgs {
		for _, e := range p.Errors {
			fmt.Fprintln(os.Stderr, "pkg error:", e)
			nerr++
		}
	}
	if nerr > 0 {
		os.Exit(3) // the tree does not type-check: nothing to translate
	}
	prog, spkgs := ssautil.AllPackages(pkgs, ssa.BuilderMode(0))
	prog.Build()
	w := &world{pkgs: map[string]*packages.Package{}, spkgs: map[string]*ssa.Package{}, prog: prog, fails: []string{}}
	for i, p := range pkgs {
		key := strings.TrimPrefix(p.PkgPath, "github.com/sheerbytes/sheerbytes/")
		w.pkgs[key] = p
		w.spkgs[key] = spkgs[i]
		w.fset = p.Fset
	}
	os.MkdirAll(*outDir, 0o755)
	for _, f := range []string{"Consts.lean", "Geometry.lean", "Layouts.lean", "Order.lean", "Shapes.lean", "pins.json"} {
		os.Remove(filepath.Join(*outDir, f))
	}
	write := func(name, content string) {
		if err := os.WriteFile(filepath.Join(*outDir, name), []byte(content), 0o644); err != nil {
			fmt.Fprintln(os.Stderr, err)
			os.Exit(2)
		}
	}
	write("Consts.lean", w.genConsts())
	write("Geometry.lean", w.genGeometry())
	write("Layouts.lean", w.genLayouts())
	write("Order.lean", w.genOrder())
	write("Shapes.lean", w.genShapes())
	write("pins.json", w.genPins())
	rep := map[string]any{"failures": w.fails}
	b, _ := json.MarshalIndent(rep, "", " ")
	write("xlate_report.json", string(b))
	for _, f := range w.fails {
		fmt.Fprintln(os.Stderr, "XLATE-FAIL", f)
	}
}

// ---------------------------------------------------------------------------------------------
// constants

type constTarget struct{ pkg, name, lean string }

var constTargets = []constTarget{
	{"internal/transfer", "controlMagic", ""},
	{"internal/transfer", "controlTypeFileBegin", ""},
	{"internal/transfer", "controlTypeCredit", ""},
	{"internal/transfer", "controlTypeFileEnd", ""},
	{"internal/transfer", "controlTypeFileDone", ""},
	{"internal/transfer", "controlTypeFileResumeInfo", ""},
	{"internal/transfer", "controlTypeResumeRequest", ""},
	{"internal/transfer", "controlTypeCreditBatch", ""},
	{"internal/transfer", "controlTypeDataStreams", ""},
	{"internal/transfer", "controlTypeEnd", ""},
	{"internal/transfer", "dataChunkHeaderLen", ""},
	{"internal/transfer", "maxRelPathLength", ""},
	{"internal/transfer", "maxFilenameLength", ""},
	{"internal/transfer", "maxFileSize", ""},
	{"internal/transfer", "resumeHashUnknown", ""},
	{"internal/transfer", "sidecarMagic", ""},
	{"internal/transfer", "sidecarVersion", ""},
	{"internal/transfer", "sidecarSuffix", ""},
	{"internal/transfer", "sidecarDir", ""},
	{"internal/transfer", "virtualStreamIDShift", ""},
	{"internal/transfer", "virtualStreamIDMask", ""},
	{"internal/transfer", "DefaultChunkSize", ""},
	{"internal/transfer", "manifestMagicBytes", ""},
	{"internal/transfer", "magicBytes", ""},
	{"internal/transfer", "recordTypeDir", ""},
	{"internal/transfer", "recordTypeFile", ""},
	{"internal/transfer", "recordTypeEnd", ""},
	{"internal/transfer", "HashAlgNone", ""},
	{"internal/transfer", "HashAlgCRC32C", ""},
	{"internal/transfer", "HashAlgXXHash64", ""},
	{"internal/app", "authLabel", ""},
	{"internal/app", "authVersion", ""},
	{"internal/app", "authRoleSender", ""},
	{"internal/app", "authRoleReceive", ""},
	{"internal/app", "authNonceSize", ""},
	{"internal/app", "authMacSize", ""},
	{"internal/app", "authMsgSize", ""},
}

func leanStringBytes(s string) string {
	var parts []string
	for i := 0; i < len(s); i++ {
		parts = append(parts, fmt.Sprintf("%d", s[i]))
	}
	return "[" + strings.Join(parts, ", ") + "]"
}

func (w *world) genConsts() string {
	var b strings.Builder
	b.WriteString("-- generated by xlate from /repo (go/types constant evaluation); do not edit\nnamespace TV.Gen.Consts\n\n")
	for _, t := range constTargets {
		p := w.pkgs[t.pkg]
		if p == nil {
			w.fail("const:"+t.name, "package %s not loaded", t.pkg)
			continue
		}
		obj := p.Types.Scope().Lookup(t.name)
		c, ok := obj.(*types.Const)
		if !ok {
			w.fail("const:"+t.name, "not a constant in %s", t.pkg)
			fmt.Fprintf(&b, "-- MISSING %s\n", t.name)
			continue
		}
		name := t.name
		switch c.Val().Kind() {
		case constant.String:
			fmt.Fprintf(&b, "def %s : List UInt8 := %s  -- %q\n", name, leanStringBytes(constant.StringVal(c.Val())), constant.StringVal(c.Val()))
		case constant.Int:
			fmt.Fprintf(&b, "def %s : Nat := %s\n", name, c.Val().ExactString())
		default:
			w.fail("const:"+t.name, "unsupported kind")
		}
	}
	b.WriteString("\nend TV.Gen.Consts\n")
	return b.String()
}

// ---------------------------------------------------------------------------------------------
// Go integer types

type ity struct {
	bits   int
	signed bool
}

func intType(t types.Type) (ity, bool) {
	bt, ok := t.Underlying().(*types.Basic)
	if !ok {
		return ity{}, false
	}
	switch bt.Kind() {
	case types.Int, types.Int64:
		return ity{64, true}, true
	case types.Int32:
		return ity{32, true}, true
	case types.Int16:
		return ity{16, true}, true
	case types.Int8:
		return ity{8, true}, true
	case types.Uint, types.Uint64, types.Uintptr:
		return ity{64, false}, true
	case types.Uint32:
		return ity{32, false}, true
	case types.Uint16:
		return ity{16, false}, true
	case types.Uint8:
		return ity{8, false}, true
	case types.UntypedInt:
		return ity{0, true}, true // exact
	}
	return ity{}, false
}

func (t ity) wrap(e string) string {
	if t.bits == 0 {
		return e
	}
	if t.signed {
		return fmt.Sprintf("wrapS %d (%s)", t.bits, e)
	}
	return fmt.Sprintf("wrapU %d (%s)", t.bits, e)
}

// ---------------------------------------------------------------------------------------------
// SSA whole-function translation (acyclic integer code)

type ssaTr struct {
	w      *world
	target string
	names  map[ssa.Value]string
	n      int
	ok     bool
}

func (t *ssaTr) val(v ssa.Value) string {
	if c, isc := v.(*ssa.Const); isc {
		if c.Value == nil {
			t.ok = false
			t.w.fail(t.target, "nil const")
			return "0"
		}
		switch c.Value.Kind() {
		case constant.Int:
			return fmt.Sprintf("(%s : Int)", c.Value.ExactString())
		case constant.Bool:
			if constant.BoolVal(c.Value) {
				return "true"
			}
			return "false"
		}
		t.ok = false
		t.w.fail(t.target, "const kind %v", c.Value.Kind())
		return "0"
	}
	if n, ok := t.names[v]; ok {
		return n
	}
	t.ok = false
	t.w.fail(t.target, "unknown value %s (%T)", v.Name(), v)
	return "0"
}

func (t *ssaTr) fresh() string {
	s := fmt.Sprintf("t%d", t.n)
	t.n++
	return s
}

func (t *ssaTr) block(b *ssa.BasicBlock, pred *ssa.BasicBlock, ind string, depth int) string {
	if depth > 64 {
		t.ok = false
		t.w.fail(t.target, "CFG too deep or cyclic")
		return ind + "0\n"
	}
	var out strings.Builder
	for _, ins := range b.Instrs {
		switch x := ins.(type) {
		case *ssa.Phi:
			idx := -1
			for i, p := range b.Preds {
				if p == pred {
					idx = i
				}
			}
			if idx < 0 {
				t.ok = false
				t.w.fail(t.target, "phi without pred")
				continue
			}
			t.names[x] = t.val(x.Edges[idx])
		case *ssa.BinOp:
			a, c := t.val(x.X), t.val(x.Y)
			name := t.fresh()
			ty, isInt := intType(x.X.Type())
			var e string
			switch x.Op {
			case token.ADD:
				e = ty.wrap(fmt.Sprintf("%s + %s", a, c))
			case token.SUB:
				e = ty.wrap(fmt.Sprintf("%s - %s", a, c))
			case token.MUL:
				e = ty.wrap(fmt.Sprintf("%s * %s", a, c))
			case token.QUO:
				e = ty.wrap(fmt.Sprintf("Int.tdiv %s %s", a, c))
			case token.REM:
				e = ty.wrap(fmt.Sprintf("Int.tmod %s %s", a, c))
			case token.SHL:
				e = ty.wrap(fmt.Sprintf("goShl %s %s", a, c))
			case token.SHR:
				e = ty.wrap(fmt.Sprintf("goShr %s %s", a, c))
			case token.AND:
				e = fmt.Sprintf("goAnd %s %s", a, c)
			case token.OR:
				e = fmt.Sprintf("goOr %s %s", a, c)
			case token.EQL:
				e = fmt.Sprintf("decide (%s = %s)", a, c)
			case token.NEQ:
				e = fmt.Sprintf("decide (%s ≠ %s)", a, c)
			case token.LSS:
				e = fmt.Sprintf("decide (%s < %s)", a, c)
			case token.LEQ:
				e = fmt.Sprintf("decide (%s ≤ %s)", a, c)
			case token.GTR:
				e = fmt.Sprintf("decide (%s > %s)", a, c)
			case token.GEQ:
				e = fmt.Sprintf("decide (%s ≥ %s)", a, c)
			default:
				t.ok = false
				t.w.fail(t.target, "binop %v", x.Op)
				e = "0"
			}
			if !isInt {
				t.ok = false
				t.w.fail(t.target, "non-integer operand in %v", x)
			}
			fmt.Fprintf(&out, "%slet %s := %s\n", ind, name, e)
			t.names[x] = name
		case *ssa.Convert:
			ty, isInt := intType(x.Type())
			_, srcInt := intType(x.X.Type())
			if !isInt || !srcInt {
				t.ok = false
				t.w.fail(t.target, "conversion %v", x)
			}
			name := t.fresh()
			fmt.Fprintf(&out, "%slet %s := %s\n", ind, name, ty.wrap(t.val(x.X)))
			t.names[x] = name
		case *ssa.ChangeType:
			t.names[x] = t.val(x.X)
		case *ssa.If:
			c := t.val(x.Cond)
			fmt.Fprintf(&out, "%sif %s then\n", ind, c)
			out.WriteString(t.block(b.Succs[0], b, ind+"  ", depth+1))
			fmt.Fprintf(&out, "%selse\n", ind)
			out.WriteString(t.block(b.Succs[1], b, ind+"  ", depth+1))
			return out.String()
		case *ssa.Jump:
			out.WriteString(t.block(b.Succs[0], b, ind, depth+1))
			return out.String()
		case *ssa.Return:
			if len(x.Results) != 1 {
				t.ok = false
				t.w.fail(t.target, "multi-value return")
				fmt.Fprintf(&out, "%s0\n", ind)
				return out.String()
			}
			fmt.Fprintf(&out, "%s%s\n", ind, t.val(x.Results[0]))
			return out.String()
		case *ssa.DebugRef:
		default:
			t.ok = false
			t.w.fail(t.target, "unsupported instruction %T: %v", ins, ins)
		}
	}
	return out.String()
}

func (w *world) ssaFunc(pkg, fn, leanName string) string {
	target := pkg + "." + fn
	sp := w.spkgs[pkg]
	if sp == nil || sp.Func(fn) == nil {
		w.fail(target, "function not found")
		return fmt.Sprintf("def %s : Int := xlate_failed_%s\n\n", leanName, leanName)
	}
	f := sp.Func(fn)
	t := &ssaTr{w: w, target: target, names: map[ssa.Value]string{}, ok: true}
	var params []string
	for _, p := range f.Params {
		if _, ok := intType(p.Type()); !ok {
			w.fail(target, "non-integer parameter %s", p.Name())
			t.ok = false
		}
		t.names[p] = p.Name()
		params = append(params, fmt.Sprintf("(%s : Int)", p.Name()))
	}
	body := t.block(f.Blocks[0], nil, "  ", 0)
	if !t.ok {
		return fmt.Sprintf("def %s : Int := xlate_failed_%s\n\n", leanName, leanName)
	}
	return fmt.Sprintf("/-- go/ssa of %s.%s -/\ndef %s %s : Int :=\n%s\n", pkg, fn, leanName, strings.Join(params, " "), body)
}

// ---------------------------------------------------------------------------------------------
// AST expression translation for embedded expressions

type astTr struct {
	w      *world
	target string
	info   *types.Info
	vars   []string          // free variables in order of first appearance
	seen   map[string]string // source text -> lean name
	ok     bool
}

func sanitize(s string) string {
	var b strings.Builder
	for _, r := range s {
		if r == '.' {
			b.WriteRune('_')
		} else if (r >= 'a' && r <= 'z') || (r >= 'A' && r <= 'Z') || (r >= '0' && r <= '9') || r == '_' {
			b.WriteRune(r)
		}
	}
	return b.String()
}

func (t *astTr) freeVar(e ast.Expr) string {
	var buf bytes.Buffer
	printer.Fprint(&buf, t.w.fset, e)
	src := buf.String()
	if n, ok := t.seen[src]; ok {
		return n
	}
	n := sanitize(src)
	t.seen[src] = n
	t.vars = append(t.vars, n)
	return n
}

func (t *astTr) expr(e ast.Expr) string {
	tv, ok := t.info.Types[e]
	if ok && tv.Value != nil && tv.Value.Kind() == constant.Int {
		return fmt.Sprintf("(%s : Int)", tv.Value.ExactString())
	}
	switch x := e.(type) {
	case *ast.ParenExpr:
		return t.expr(x.X)
	case *ast.Ident, *ast.SelectorExpr:
		if _, isInt := intType(tv.Type); !isInt {
			t.ok = false
			t.w.fail(t.target, "non-integer variable")
		}
		return t.freeVar(e)
	case *ast.CallExpr:
		// type conversion only
		if ftv, ok := t.info.Types[x.Fun]; ok && ftv.IsType() && len(x.Args) == 1 {
			ty, isInt := intType(ftv.Type)
			if !isInt {
				t.ok = false
				t.w.fail(t.target, "conversion to non-integer")
			}
			return ty.wrap(t.expr(x.Args[0]))
		}
		t.ok = false
		t.w.fail(t.target, "call in expression")
		return "0"
	case *ast.BinaryExpr:
		a, b := t.expr(x.X), t.expr(x.Y)
		ty, _ := intType(tv.Type)
		switch x.Op {
		case token.ADD:
			return ty.wrap(fmt.Sprintf("(%s) + (%s)", a, b))
		case token.SUB:
			return ty.wrap(fmt.Sprintf("(%s) - (%s)", a, b))
		case token.MUL:
			return ty.wrap(fmt.Sprintf("(%s) * (%s)", a, b))
		case token.QUO:
			return ty.wrap(fmt.Sprintf("Int.tdiv (%s) (%s)", a, b))
		case token.REM:
			return ty.wrap(fmt.Sprintf("Int.tmod (%s) (%s)", a, b))
		}
		t.ok = false
		t.w.fail(t.target, "binary op %v", x.Op)
		return "0"
	}
	t.ok = false
	t.w.fail(t.target, "expression %T", e)
	return "0"
}

// findAssign finds, inside function fn of pkg (including its closures), the n-th assignment or
// definition whose single LHS prints as lhs, and returns its RHS.
func (w *world) findAssign(pkg, fn, lhs string, nth int) (ast.Expr, *types.Info) {
	p := w.pkgs[pkg]
	if p == nil {
		return nil, nil
	}
	var found ast.Expr
	count := 0
	for _, f := range p.Syntax {
		for _, d := range f.Decls {
			fd, ok := d.(*ast.FuncDecl)
			if !ok || fd.Name.Name != fn || fd.Body == nil {
				continue
			}
			ast.Inspect(fd.Body, func(n ast.Node) bool {
				switch s := n.(type) {
				case *ast.AssignStmt:
					if len(s.Lhs) == 1 && len(s.Rhs) == 1 {
						var buf bytes.Buffer
						printer.Fprint(&buf, w.fset, s.Lhs[0])
						if buf.String() == lhs {
							if count == nth && found == nil {
								found = s.Rhs[0]
							}
							count++
						}
					}
				case *ast.ValueSpec:
					if len(s.Names) == 1 && len(s.Values) == 1 && s.Names[0].Name == lhs {
						if count == nth && found == nil {
							found = s.Values[0]
						}
						count++
					}
				}
				return true
			})
		}
	}
	return found, p.TypesInfo
}

func (w *world) astExpr(pkg, fn, lhs string, nth int, leanName string, wantVars []string) string {
	target := fmt.Sprintf("%s.%s:%s#%d", pkg, fn, lhs, nth)
	e, info := w.findAssign(pkg, fn, lhs, nth)
	failDef := func() string {
		ps := ""
		for _, v := range wantVars {
			ps += fmt.Sprintf(" (%s : Int)", v)
		}
		return fmt.Sprintf("def %s%s : Int := xlate_failed_%s\n\n", leanName, ps, leanName)
	}
	if e == nil {
		w.fail(target, "assignment not found")
		return failDef()
	}
	t := &astTr{w: w, target: target, info: info, seen: map[string]string{}, ok: true}
	body := t.expr(e)
	if !t.ok {
		return failDef()
	}
	// free variables must be exactly the expected ones (order given by wantVars)
	got := append([]string(nil), t.vars...)
	sort.Strings(got)
	want := append([]string(nil), wantVars...)
	sort.Strings(want)
	if strings.Join(got, ",") != strings.Join(want, ",") {
		w.fail(target, "free variables %v, expected %v", t.vars, wantVars)
		return failDef()
	}
	var buf bytes.Buffer
	printer.Fprint(&buf, w.fset, e)
	ps := ""
	for _, v := range wantVars {
		ps += fmt.Sprintf(" (%s : Int)", v)
	}
	return fmt.Sprintf("/-- %s in %s.%s: `%s` -/\ndef %s%s : Int :=\n  %s\n\n", lhs, pkg, fn, buf.String(), leanName, ps, body)
}

func (w *world) genGeometry() string {
	var b strings.Builder
	b.WriteString("-- generated by xlate from /repo (go/ssa for whole functions, go/ast+go/types for embedded expressions); do not edit\n")
	b.WriteString("import ThruVerif.Basic.GoInt\nnamespace TV.Gen\nopen TV.GoInt\n\n")
	tr := "internal/transfer"
	b.WriteString(w.ssaFunc(tr, "chunkTotal", "chunkTotal"))
	b.WriteString(w.ssaFunc(tr, "chunkSizeForIndex", "chunkSizeForIndex"))
	b.WriteString(w.ssaFunc(tr, "makeVirtualStreamID", "makeVirtualStreamID"))
	// receiver: totalChunks in handleFileBegin (closure inside RecvManifestMultiStream), second assignment
	// (the first is the `totalChunks := uint32(0)` definition).
	b.WriteString(w.astExpr(tr, "RecvManifestMultiStream", "totalChunks", 1, "recvTotal", []string{"begin_FileSize", "begin_ChunkSize"}))
	// receiver write offset in the data reader and sender read offset in the worker
	b.WriteString(w.astExpr(tr, "RecvManifestMultiStream", "offset", 0, "recvOffset", []string{"chunkIndex", "state_chunkSize"}))
	b.WriteString(w.astExpr(tr, "SendManifestMultiStream", "offset", 0, "sendOffset", []string{"chunkIndex", "state_chunkSize"}))
	// resume metadata
	b.WriteString(w.astExpr(tr, "CreateSidecar", "totalChunks", 0, "sidecarTotalRaw", []string{"fileSize", "chunkSize"}))
	// number of assignments to totalChunks in CreateSidecar (a clamp or later adjustment shows up here)
	{
		n := 0
		for k := 0; k < 8; k++ {
			if e, _ := w.findAssign(tr, "CreateSidecar", "totalChunks", k); e != nil {
				n++
			}
		}
		fmt.Fprintf(&b, "def sidecarTotal_assignments : Nat := %d\n\n", n)
	}
	// hash offset
	b.WriteString(w.astExpr(tr, "hashFileChunk", "offset", 0, "hashOffset", []string{"chunkIndex", "chunkSize"}))
	b.WriteString("end TV.Gen\n")
	return b.String()
}

// ---------------------------------------------------------------------------------------------
// layouts of control records: flattened IO primitives of write*/read* bodies

type fld struct {
	Kind  string // tag | const | u | bytes | loop | endloop
	Width int
	Val   string // tag constant value / magic constant name / variable text
	Guard bool   // inside `if n > 0 { ... }`
}

func (w *world) exprText(e ast.Expr) string {
	var buf bytes.Buffer
	printer.Fprint(&buf, w.fset, e)
	return buf.String()
}

func typeWidth(t types.Type) int {
	if p, ok := t.(*types.Pointer); ok {
		t = p.Elem()
	}
	it, ok := intType(t)
	if !ok || it.bits == 0 {
		return 0
	}
	return it.bits / 8
}

// layoutOf walks a function body in source order and lists its IO primitives.
func (w *world) layoutOf(pkg, fn string) ([]fld, bool) {
	p := w.pkgs[pkg]
	var fd *ast.FuncDecl
	for _, f := range p.Syntax {
		for _, d := range f.Decls {
			if x, ok := d.(*ast.FuncDecl); ok && x.Name.Name == fn && x.Recv == nil {
				fd = x
			}
		}
	}
	if fd == nil || fd.Body == nil {
		w.fail("layout:"+fn, "function not found")
		return nil, false
	}
	info := p.TypesInfo
	var out []fld
	ok := true
	var walkStmts func(list []ast.Stmt, guard bool)
	handleCall := func(c *ast.CallExpr, guard bool) {
		name := ""
		switch f := c.Fun.(type) {
		case *ast.Ident:
			name = f.Name
		case *ast.SelectorExpr:
			name = w.exprText(f)
		}
		byteLit := func(e ast.Expr) (fld, bool) {
			// []byte{X} or []byte(CONST)
			if cl, isCl := e.(*ast.CompositeLit); isCl && len(cl.Elts) == 1 {
				tv := info.Types[cl.Elts[0]]
				if tv.Value != nil {
					if id, isId := cl.Elts[0].(*ast.Ident); isId && strings.HasPrefix(id.Name, "controlType") || strings.HasPrefix(w.exprText(cl.Elts[0]), "recordType") {
						v, _ := constant.Int64Val(tv.Value)
						return fld{Kind: "tag", Width: 1, Val: fmt.Sprintf("%d", v), Guard: guard}, true
					}
				}
				return fld{Kind: "u", Width: 1, Val: w.exprText(cl.Elts[0]), Guard: guard}, true
			}
			if ce, isCe := e.(*ast.CallExpr); isCe && len(ce.Args) == 1 {
				tv := info.Types[ce.Args[0]]
				if tv.Value != nil && tv.Value.Kind() == constant.String {
					return fld{Kind: "const", Width: len(constant.StringVal(tv.Value)), Val: w.exprText(ce.Args[0]), Guard: guard}, true
				}
				// []byte(msg.Field): raw bytes of that field
				return fld{Kind: "bytes", Val: w.exprText(ce.Args[0]), Guard: guard}, true
			}
			return fld{}, false
		}
		switch name {
		case "writeUint16Control", "readUint16Control":
			v := ""
			if strings.HasPrefix(name, "write") {
				v = w.exprText(c.Args[1])
			}
			out = append(out, fld{Kind: "u", Width: 2, Val: v, Guard: guard})
		case "writeUint32Control", "readUint32Control":
			v := ""
			if strings.HasPrefix(name, "write") {
				v = w.exprText(c.Args[1])
			}
			out = append(out, fld{Kind: "u", Width: 4, Val: v, Guard: guard})
		case "writeUint64Control", "readUint64Control":
			v := ""
			if strings.HasPrefix(name, "write") {
				v = w.exprText(c.Args[1])
			}
			out = append(out, fld{Kind: "u", Width: 8, Val: v, Guard: guard})
		case "binary.Write", "binary.Read":
			wd := typeWidth(info.Types[c.Args[2]].Type)
			if wd == 0 {
				ok = false
				w.fail("layout:"+fn, "binary.%s with non-integer operand %s", name, w.exprText(c.Args[2]))
			}
			out = append(out, fld{Kind: "u", Width: wd, Val: strings.TrimPrefix(w.exprText(c.Args[2]), "&"), Guard: guard})
		case "writeFullControl", "readFullControl":
			arg := c.Args[1]
			if f, isLit := byteLit(arg); isLit {
				out = append(out, f)
			} else {
				// a named buffer: width 1 if it was made with constant length 1 / len(const), else raw bytes
				out = append(out, fld{Kind: "bytes", Val: w.exprText(arg), Guard: guard})
			}
		case "s.Write":
			if f, isLit := byteLit(c.Args[0]); isLit {
				out = append(out, f)
			} else {
				out = append(out, fld{Kind: "bytes", Val: w.exprText(c.Args[0]), Guard: guard})
			}
		case "readBytesControl":
			out = append(out, fld{Kind: "bytes", Val: w.exprText(c.Args[1]), Guard: guard})
		case "readRelPathControl":
			out = append(out, fld{Kind: "relpath", Width: 2, Guard: guard})
		case "validateRelPath":
			out = append(out, fld{Kind: "validate", Guard: guard})
		case "io.ReadFull":
			out = append(out, fld{Kind: "bytes", Val: w.exprText(c.Args[1]), Guard: guard})
		}
	}
	var walkExprCalls func(n ast.Node, guard bool)
	walkExprCalls = func(n ast.Node, guard bool) {
		ast.Inspect(n, func(m ast.Node) bool {
			if _, isFn := m.(*ast.FuncLit); isFn {
				return false
			}
			if c, isCall := m.(*ast.CallExpr); isCall {
				handleCall(c, guard)
			}
			return true
		})
	}
	walkStmts = func(list []ast.Stmt, guard bool) {
		for _, s := range list {
			switch x := s.(type) {
			case *ast.IfStmt:
				if x.Init != nil {
					walkExprCalls(x.Init, guard)
					// error branch bodies contain no IO
					continue
				}
				cond := w.exprText(x.Cond)
				if strings.HasSuffix(cond, "> 0") {
					walkStmts(x.Body.List, true)
					continue
				}
				if strings.HasSuffix(cond, "== 0") {
					out = append(out, fld{Kind: "ifzero", Val: cond})
					continue
				}
				// `if err != nil {..}`, `if msg.OK {..}`, limit checks: note limit checks
				if strings.Contains(cond, ">") {
					// a bound that REJECTS (the body returns); clamps of local hints are not wire-level limits
					rejects := false
					ast.Inspect(x.Body, func(n ast.Node) bool {
						if _, ok := n.(*ast.ReturnStmt); ok {
							rejects = true
						}
						return true
					})
					if rejects {
						out = append(out, fld{Kind: "limit", Val: cond})
					}
				}
			case *ast.ForStmt:
				out = append(out, fld{Kind: "loop", Val: w.exprText(x.Cond)})
				walkStmts(x.Body.List, guard)
				out = append(out, fld{Kind: "endloop"})
			case *ast.RangeStmt:
				out = append(out, fld{Kind: "loop", Val: "range " + w.exprText(x.X)})
				walkStmts(x.Body.List, guard)
				out = append(out, fld{Kind: "endloop"})
			case *ast.SwitchStmt:
				// dispatcher: handled separately
			default:
				walkExprCalls(s, guard)
			}
		}
	}
	walkStmts(fd.Body.List, false)
	return out, ok
}

// widthOfBuffer resolves a `bytes` field that is a buffer of constant length into a fixed-width field.
func (w *world) constMakeLens(pkg, fn string) map[string]int {
	p := w.pkgs[pkg]
	res := map[string]int{}
	for _, f := range p.Syntax {
		for _, d := range f.Decls {
			fd, ok := d.(*ast.FuncDecl)
			if !ok || fd.Name.Name != fn || fd.Body == nil {
				continue
			}
			ast.Inspect(fd.Body, func(n ast.Node) bool {
				as, ok := n.(*ast.AssignStmt)
				if !ok || len(as.Lhs) != 1 || len(as.Rhs) != 1 {
					return true
				}
				c, ok := as.Rhs[0].(*ast.CallExpr)
				if !ok || w.exprText(c.Fun) != "make" || len(c.Args) < 2 {
					return true
				}
				tv := p.TypesInfo.Types[c.Args[1]]
				if tv.Value != nil {
					if v, exact := constant.Int64Val(tv.Value); exact {
						res[w.exprText(as.Lhs[0])] = int(v)
					}
				}
				return true
			})
		}
	}
	return res
}

var recordFns = []struct{ rec, wr, rd string }{
	{"Header", "writeControlHeader", "readControlHeader"},
	{"FileBegin", "writeFileBegin", "readFileBegin"},
	{"Credit", "writeCredit", "readCredit"},
	{"CreditBatch", "writeCreditBatch", "readCreditBatch"},
	{"FileEnd", "writeFileEnd", "readFileEnd"},
	{"FileDone", "writeFileDone", "readFileDone"},
	{"FileResumeInfo", "writeFileResumeInfo", "readFileResumeInfo"},
	{"ResumeRequest", "writeResumeRequest", "readResumeRequest"},
	{"DataStreams", "writeDataStreams", "readDataStreams"},
	{"End", "writeControlEnd", ""},
}

func leanFlds(fs []fld, lens map[string]int) string {
	var parts []string
	for _, f := range fs {
		switch f.Kind {
		case "tag":
			parts = append(parts, fmt.Sprintf(".tag %s", f.Val))
		case "const":
			parts = append(parts, fmt.Sprintf(".magic %d", f.Width))
		case "u":
			parts = append(parts, fmt.Sprintf(".u %d", f.Width))
		case "bytes":
			if n, ok := lens[f.Val]; ok {
				if n == 1 {
					parts = append(parts, ".u 1")
				} else {
					parts = append(parts, fmt.Sprintf(".magic %d", n))
				}
			} else {
				parts = append(parts, ".bytes")
			}
		case "relpath":
			parts = append(parts, ".u 2", ".limit", ".bytes")
		case "validate":
			parts = append(parts, ".validate")
		case "loop":
			parts = append(parts, ".loop")
		case "endloop":
			parts = append(parts, ".endloop")
		case "ifzero":
			parts = append(parts, ".ifzero")
		case "limit":
			parts = append(parts, ".limit")
		}
	}
	return "[" + strings.Join(parts, ", ") + "]"
}

func (w *world) genLayouts() string {
	var b strings.Builder
	b.WriteString("-- generated by xlate from /repo/internal/transfer/controlproto.go (IO primitives of each write*/read* body, in source order); do not edit\n")
	b.WriteString("namespace TV.Gen.Layouts\n\n")
	b.WriteString("inductive Tok\n  | tag (v : Nat) | magic (n : Nat) | u (w : Nat) | bytes | loop | endloop | ifzero | limit | validate\n  deriving Repr, DecidableEq\n\n")
	tr := "internal/transfer"
	for _, r := range recordFns {
		wl, ok1 := w.layoutOf(tr, r.wr)
		lensW := w.constMakeLens(tr, r.wr)
		if !ok1 {
			fmt.Fprintf(&b, "def write%s : List Tok := xlate_failed_write%s\n", r.rec, r.rec)
		} else {
			fmt.Fprintf(&b, "def write%s : List Tok := %s\n", r.rec, leanFlds(wl, lensW))
		}
		if r.rd == "" {
			continue
		}
		rl, ok2 := w.layoutOf(tr, r.rd)
		lensR := w.constMakeLens(tr, r.rd)
		if !ok2 {
			fmt.Fprintf(&b, "def read%s : List Tok := xlate_failed_read%s\n", r.rec, r.rec)
		} else {
			fmt.Fprintf(&b, "def read%s : List Tok := %s\n", r.rec, leanFlds(rl, lensR))
		}
	}
	// dispatcher table of readControlMessage: (case constant, tag written by the write* twin of the reader
	// called in that case, tag returned)
	tagOfReader := map[string]string{}
	for _, r := range recordFns {
		if wl, ok := w.layoutOf(tr, r.wr); ok {
			for _, f := range wl {
				if f.Kind == "tag" {
					key := r.rd
					tagOfReader[key] = f.Val
					break
				}
			}
		}
	}
	b.WriteString("\n/-- readControlMessage: (case tag, tag emitted by the writer paired with the reader called, tag returned) -/\n")
	b.WriteString("def dispatch : List (Nat × Nat × Nat) := [")
	p := w.pkgs[tr]
	var rows []string
	for _, f := range p.Syntax {
		for _, d := range f.Decls {
			fd, ok := d.(*ast.FuncDecl)
			if !ok || fd.Name.Name != "readControlMessage" {
				continue
			}
			ast.Inspect(fd.Body, func(n ast.Node) bool {
				cc, ok := n.(*ast.CaseClause)
				if !ok || len(cc.List) != 1 {
					return true
				}
				tv := p.TypesInfo.Types[cc.List[0]]
				if tv.Value == nil {
					return true
				}
				tag, _ := constant.Int64Val(tv.Value)
				reader := ""
				ret := int64(-1)
				for _, s := range cc.Body {
					ast.Inspect(s, func(m ast.Node) bool {
						if c, ok := m.(*ast.CallExpr); ok {
							if id, ok := c.Fun.(*ast.Ident); ok && strings.HasPrefix(id.Name, "read") {
								reader = id.Name
							}
						}
						if r, ok := m.(*ast.ReturnStmt); ok && len(r.Results) == 3 {
							if rv := p.TypesInfo.Types[r.Results[0]]; rv.Value != nil {
								ret, _ = constant.Int64Val(rv.Value)
							}
						}
						return true
					})
				}
				wt, okw := tagOfReader[reader]
				if !okw {
					wt = "999"
				}
				rows = append(rows, fmt.Sprintf("(%d, %s, %d)", tag, wt, ret))
				return true
			})
		}
	}
	b.WriteString(strings.Join(rows, ", "))
	b.WriteString("]\n\nend TV.Gen.Layouts\n")
	return b.String()
}

// ---------------------------------------------------------------------------------------------
// order facts: "call A dominates call B" inside function F (or one of its closures)

type orderTarget struct {
	pkg, fn    string
	first, snd string // callee names (method or function), matched on the SSA call's callee name
	leanName   string
}

var orderTargets = []orderTarget{
	{"internal/transfer", "RecvManifestMultiStream", "writeAtWithTimeout", "markChunkComplete", "recv_write_before_mark"},
	{"internal/transfer", "RecvManifestMultiStream", "writeAtWithTimeout", "@sidecarMark", "recv_write_before_any_mark"},
	{"internal/transfer", "RecvManifestMultiStream", "Checksum", "writeAtWithTimeout", "recv_crc_before_write"},
	{"internal/transfer", "RecvManifestMultiStream", "validateRelPath", "OpenFile", "recv_validate_before_open"},
	{"internal/transfer", "RecvManifestMultiStream", "validateRelPath", "MkdirAll#parent", "recv_validate_before_mkdir"},
	{"internal/transfer", "RecvManifestMultiStream", "ValidateManifest", "MkdirAll", "recv_manifest_validated_before_mkdir"},
	{"internal/transfer", "Flush", "WriteFile", "Rename", "flush_tmp_before_rename"},
	{"internal/transfer", "receiveFileChunksWindowed", "writeAtWithTimeout", "MarkComplete", "legacy_write_before_mark"},
	{"internal/app", "runICEQUICTransfer", "authenticateTransport", "SendManifestMultiStream", "sender_auth_before_send"},
	{"internal/app", "runICEQUICTransfer", "authenticateTransport", "NewMultiConn", "sender_auth_before_multiconn"},
	// the receiver uses a connection either after authenticating it itself (its own outgoing dial) or because it came
	// out of acceptAuthenticated (flag `authenticated`): "|flag" lets paths through the true edge of `if flag`
	{"internal/app", "runTransfer", "authenticateTransport#ok|authenticated", "NewMultiConn", "receiver_auth_before_multiconn"},
	// "#ok": the second site must lie on the err == nil branch of the test of the first call's result
	{"internal/app", "runICEQUICTransfer", "authenticateTransport#ok", "SendManifestMultiStream", "sender_auth_ok_before_send"},
	{"internal/app", "runICEQUICTransfer", "authenticateTransport#ok", "dialExtraConns", "sender_auth_ok_before_extra"},
	{"internal/app", "runTransfer", "authenticateTransport#ok|authenticated", "RecvManifestMultiStream", "receiver_auth_ok_before_recv"},
	{"internal/app", "runTransfer", "authenticateTransport#ok|authenticated", "acceptExtraConns", "receiver_auth_ok_before_extra"},
	{"internal/app", "dialExtraConns", "authenticateTransport#ok", "append", "sender_extra_auth_ok_before_keep"},
	// acceptAuthenticated hands a connection on (channel send) only on the err == nil branch of its authentication
	{"internal/app", "acceptAuthenticated", "authenticateTransport#ok", "@send", "receiver_accept_auth_ok_before_deliver"},
}

// okBranch: the block entered when the error returned by the call at x is nil (nil if the result is not tested
// by an `if err != nil` / `if err == nil` that ends x's block).
func okBranch(x callSite) *ssa.BasicBlock {
	call, ok := x.blk.Instrs[x.idx].(*ssa.Call)
	if !ok {
		return nil
	}
	last := x.blk.Instrs[len(x.blk.Instrs)-1]
	iff, ok := last.(*ssa.If)
	if !ok {
		return nil
	}
	bin, ok := iff.Cond.(*ssa.BinOp)
	if !ok {
		return nil
	}
	isNil := func(v ssa.Value) bool { c, ok := v.(*ssa.Const); return ok && c.IsNil() }
	var other ssa.Value
	if bin.X == ssa.Value(call) {
		other = bin.Y
	} else if bin.Y == ssa.Value(call) {
		other = bin.X
	}
	if other == nil || !isNil(other) {
		return nil
	}
	switch bin.Op {
	case token.NEQ:
		return x.blk.Succs[1]
	case token.EQL:
		return x.blk.Succs[0]
	}
	return nil
}

// resolveFn: the function a call value denotes, looking through a local variable that is assigned one closure once.
func resolveFn(v ssa.Value) *ssa.Function {
	switch f := v.(type) {
	case *ssa.Function:
		return f
	case *ssa.MakeClosure:
		fn, _ := f.Fn.(*ssa.Function)
		return fn
	case *ssa.UnOp:
		if f.Op != token.MUL {
			return nil
		}
		var cell ssa.Value = f.X
		var stores []*ssa.Store
		switch c := cell.(type) {
		case *ssa.Alloc:
			for _, r := range *c.Referrers() {
				if st, ok := r.(*ssa.Store); ok && st.Addr == cell {
					stores = append(stores, st)
				}
			}
		case *ssa.FreeVar:
			return nil
		}
		if len(stores) == 1 {
			return resolveFn(stores[0].Val)
		}
	}
	return nil
}

// noReturnAt: index of the first instruction of b after which control never continues (os.Exit, panic, log.Fatal*,
// or a call of a function all of whose returns come after such a call); -1 if none.
func noReturnAt(b *ssa.BasicBlock, depth int) int {
	for i, ins := range b.Instrs {
		switch x := ins.(type) {
		case *ssa.Panic:
			return i
		case *ssa.Call:
			if fn := resolveFn(x.Call.Value); fn != nil {
				if fn.Pkg != nil && fn.Pkg.Pkg.Path() == "os" && fn.Name() == "Exit" {
					return i
				}
				if fn.Pkg != nil && fn.Pkg.Pkg.Path() == "log" && strings.HasPrefix(fn.Name(), "Fatal") {
					return i
				}
				if depth < 2 && len(fn.Blocks) > 0 && neverReturns(fn, depth+1) {
					return i
				}
			}
		}
	}
	return -1
}

func neverReturns(fn *ssa.Function, depth int) bool {
	// forward reachability from the entry, stopping at no-return instructions; no Return may be reached
	seen := map[*ssa.BasicBlock]bool{}
	work := []*ssa.BasicBlock{fn.Blocks[0]}
	for len(work) > 0 {
		b := work[len(work)-1]
		work = work[:len(work)-1]
		if seen[b] {
			continue
		}
		seen[b] = true
		if noReturnAt(b, depth) >= 0 {
			continue
		}
		if _, ok := b.Instrs[len(b.Instrs)-1].(*ssa.Return); ok {
			return false
		}
		work = append(work, b.Succs...)
	}
	return true
}

// onlyViaOK: every path from the function entry to site y takes the err == nil edge out of x's block
// (paths ending in a no-return call are not paths to y).
func onlyViaOK(x, y callSite, flag string) bool {
	ok := okBranch(x)
	if ok == nil || x.fn != y.fn {
		return false
	}
	// flagTrue: b ends in `if <flag>` (the SSA value of the local variable named flag): its true successor
	flagTrue := func(b *ssa.BasicBlock) *ssa.BasicBlock {
		if flag == "" || len(b.Instrs) == 0 {
			return nil
		}
		iff, isIf := b.Instrs[len(b.Instrs)-1].(*ssa.If)
		if !isIf {
			return nil
		}
		if ph, isPhi := iff.Cond.(*ssa.Phi); isPhi && ph.Comment == flag {
			return b.Succs[0]
		}
		return nil
	}
	seen := map[*ssa.BasicBlock]bool{}
	work := []*ssa.BasicBlock{x.fn.Blocks[0]}
	for len(work) > 0 {
		b := work[len(work)-1]
		work = work[:len(work)-1]
		if seen[b] {
			continue
		}
		seen[b] = true
		nr := noReturnAt(b, 0)
		if b == y.blk && (nr < 0 || y.idx < nr) {
			if !(b == x.blk && false) {
				return false // reached y without the ok edge
			}
		}
		if nr >= 0 {
			continue
		}
		for _, sc := range b.Succs {
			if b == x.blk && sc == ok {
				continue // the ok edge is the one we leave out
			}
			if sc == flagTrue(b) {
				continue // so is the edge taken when the connection is already authenticated
			}
			work = append(work, sc)
		}
	}
	return true
}

func calleeName(c *ssa.CallCommon) string {
	if c.IsInvoke() {
		return c.Method.Name()
	}
	switch f := c.Value.(type) {
	case *ssa.Builtin:
		return f.Name()
	case *ssa.Function:
		return f.Name()
	case *ssa.MakeClosure:
		if fn, ok := f.Fn.(*ssa.Function); ok {
			return fn.Name()
		}
	}
	return ""
}

func allFuncsNamed(sp *ssa.Package, prog *ssa.Program, name string) []*ssa.Function {
	var res []*ssa.Function
	var addAnon func(f *ssa.Function)
	addAnon = func(f *ssa.Function) {
		res = append(res, f)
		for _, a := range f.AnonFuncs {
			addAnon(a)
		}
	}
	for _, m := range sp.Members {
		switch x := m.(type) {
		case *ssa.Function:
			if x.Name() == name {
				addAnon(x)
			}
		case *ssa.Type:
			for _, t := range []types.Type{x.Type(), types.NewPointer(x.Type())} {
				ms := prog.MethodSets.MethodSet(t)
				for i := 0; i < ms.Len(); i++ {
					fn := prog.MethodValue(ms.At(i))
					if fn != nil && fn.Name() == name && fn.Pkg == sp {
						dup := false
						for _, r := range res {
							if r == fn {
								dup = true
							}
						}
						if !dup {
							addAnon(fn)
						}
					}
				}
			}
		}
	}
	return res
}

// reachSet: functions of the package from which a call to one of the named methods is (statically) reachable
func reachSet(sp *ssa.Package, prog *ssa.Program, targets map[string]bool) map[*ssa.Function]bool {
	var all []*ssa.Function
	var addAnon func(f *ssa.Function)
	addAnon = func(f *ssa.Function) {
		all = append(all, f)
		for _, a := range f.AnonFuncs {
			addAnon(a)
		}
	}
	for _, m := range sp.Members {
		switch x := m.(type) {
		case *ssa.Function:
			addAnon(x)
		case *ssa.Type:
			for _, t := range []types.Type{x.Type(), types.NewPointer(x.Type())} {
				ms := prog.MethodSets.MethodSet(t)
				for i := 0; i < ms.Len(); i++ {
					if fn := prog.MethodValue(ms.At(i)); fn != nil && fn.Pkg == sp {
						addAnon(fn)
					}
				}
			}
		}
	}
	reach := map[*ssa.Function]bool{}
	for changed := true; changed; {
		changed = false
		for _, f := range all {
			if reach[f] {
				continue
			}
			for _, b := range f.Blocks {
				for _, ins := range b.Instrs {
					var cc *ssa.CallCommon
					switch x := ins.(type) {
					case *ssa.Call:
						cc = &x.Call
					case *ssa.Go:
						cc = &x.Call
					case *ssa.Defer:
						cc = &x.Call
					}
					if cc == nil {
						continue
					}
					if targets[calleeName(cc)] {
						reach[f] = true
						changed = true
					} else if g, ok := cc.Value.(*ssa.Function); ok && reach[g] {
						reach[f] = true
						changed = true
					}
				}
			}
		}
	}
	return reach
}

// findReachCalls: call sites (in fns) whose callee is a named target or reaches one
func findReachCalls(fns []*ssa.Function, targets map[string]bool, reach map[*ssa.Function]bool) []callSite {
	var res []callSite
	for _, f := range fns {
		for _, b := range f.Blocks {
			for i, ins := range b.Instrs {
				var cc *ssa.CallCommon
				switch x := ins.(type) {
				case *ssa.Call:
					cc = &x.Call
				case *ssa.Go:
					cc = &x.Call
				case *ssa.Defer:
					cc = &x.Call
				}
				if cc == nil {
					continue
				}
				if targets[calleeName(cc)] {
					res = append(res, callSite{f, b, i})
				} else if g, ok := cc.Value.(*ssa.Function); ok && reach[g] {
					res = append(res, callSite{f, b, i})
				}
			}
		}
	}
	return res
}

type callSite struct {
	fn  *ssa.Function
	blk *ssa.BasicBlock
	idx int
}

func findCalls(fns []*ssa.Function, name string) []callSite {
	var res []callSite
	for _, f := range fns {
		for _, b := range f.Blocks {
			for i, ins := range b.Instrs {
				var cc *ssa.CallCommon
				switch x := ins.(type) {
				case *ssa.Call:
					cc = &x.Call
				case *ssa.Go:
					cc = &x.Call
				case *ssa.Defer:
					cc = &x.Call
				}
				if cc != nil && calleeName(cc) == name {
					res = append(res, callSite{f, b, i})
				}
				if _, isSend := ins.(*ssa.Send); isSend && name == "@send" {
					res = append(res, callSite{f, b, i})
				}
				if sel, isSel := ins.(*ssa.Select); isSel && name == "@send" {
					for _, st := range sel.States {
						if st.Dir == types.SendOnly {
							res = append(res, callSite{f, b, i})
						}
					}
				}
			}
		}
	}
	return res
}

func dominates(a, b callSite) bool {
	if a.fn != b.fn {
		return false
	}
	if a.blk == b.blk {
		return a.idx < b.idx
	}
	return a.blk.Dominates(b.blk)
}

func (w *world) genOrder() string {
	var b strings.Builder
	b.WriteString("-- generated by xlate from /repo (go/ssa dominator trees); do not edit\nnamespace TV.Gen.Order\n\n")
	for _, t := range orderTargets {
		sp := w.spkgs[t.pkg]
		fns := allFuncsNamed(sp, w.prog, t.fn)
		snd := strings.SplitN(t.snd, "#", 2)[0]
		first := strings.SplitN(t.first, "#", 2)[0]
		flag := ""
		if i := strings.Index(t.first, "|"); i >= 0 {
			flag = t.first[i+1:]
		}
		needOK := strings.Contains(t.first, "#ok")
		as := findCalls(fns, first)
		bs := findCalls(fns, snd)
		if snd == "@sidecarMark" {
			tg := map[string]bool{"MarkCompleteIfUnset": true, "MarkComplete": true}
			bs = findReachCalls(fns, tg, reachSet(sp, w.prog, tg))
		}
		// every call of `snd` that shares a function with some call of `first` must be dominated by one;
		// calls of `snd` in functions without `first` count as undominated unless the closure is only
		// invoked from a dominated site (kept simple: require same function).
		total, dom := 0, 0
		for _, y := range bs {
			rel := false
			for _, x := range as {
				if x.fn == y.fn {
					rel = true
				}
			}
			if !rel && t.pkg == "internal/transfer" {
				continue // other uses of the callee in unrelated closures (e.g. MkdirAll of the base dir)
			}
			total++
			for _, x := range as {
				if needOK {
					if onlyViaOK(x, y, flag) {
						dom++
						break
					}
				} else if dominates(x, y) {
					dom++
					break
				}
			}
		}
		if needOK {
			fmt.Fprintf(&b, "/-- in %s.%s: every call of %s lies on the err == nil branch after a call of %s (sites found: %d first, %d second) -/\n", t.pkg, t.fn, snd, first, len(as), total)
			fmt.Fprintf(&b, "def %s : Nat × Nat × Nat := (%d, %d, %d)\n\n", t.leanName, len(as), total, dom)
			continue
		}
		fmt.Fprintf(&b, "/-- in %s.%s: every call of %s is dominated by a call of %s (sites found: %d first, %d second) -/\n", t.pkg, t.fn, snd, t.first, len(as), total)
		fmt.Fprintf(&b, "def %s : Nat × Nat × Nat := (%d, %d, %d)\n\n", t.leanName, len(as), total, dom)
	}
	// AST fact: in the receiver's runTransfer the flag `authenticated` is set only in select cases that received the
	// connection from a channel returned by acceptAuthenticated
	{
		p := w.pkgs["internal/app"]
		chans := map[string]bool{}
		sets, good := 0, 0
		for _, f := range p.Syntax {
			for _, d := range f.Decls {
				fd, ok := d.(*ast.FuncDecl)
				if !ok || fd.Name.Name != "runTransfer" || fd.Body == nil || fd.Recv == nil || !strings.Contains(w.exprText(fd.Recv.List[0].Type), "snapshotReceiver") {
					continue
				}
				ast.Inspect(fd.Body, func(n ast.Node) bool {
					if as, ok := n.(*ast.AssignStmt); ok && len(as.Lhs) == 1 && len(as.Rhs) == 1 {
						if c, ok := as.Rhs[0].(*ast.CallExpr); ok {
							if sel, ok := c.Fun.(*ast.SelectorExpr); ok && sel.Sel.Name == "acceptAuthenticated" {
								chans[w.exprText(as.Lhs[0])] = true
							}
						}
					}
					return true
				})
				var stack []ast.Node
				ast.Inspect(fd.Body, func(n ast.Node) bool {
					if n == nil {
						stack = stack[:len(stack)-1]
						return true
					}
					stack = append(stack, n)
					as, ok := n.(*ast.AssignStmt)
					if !ok || len(as.Lhs) != 1 || w.exprText(as.Lhs[0]) != "authenticated" || as.Tok != token.ASSIGN {
						return true
					}
					sets++
					if w.exprText(as.Rhs[0]) != "true" {
						return true
					}
					for i := len(stack) - 1; i >= 0; i-- {
						cc, ok := stack[i].(*ast.CommClause)
						if !ok {
							continue
						}
						var rx ast.Expr
						switch c := cc.Comm.(type) {
						case *ast.AssignStmt:
							rx = c.Rhs[0]
						case *ast.ExprStmt:
							rx = c.X
						}
						if u, ok := rx.(*ast.UnaryExpr); ok && u.Op == token.ARROW && chans[w.exprText(u.X)] {
							good++
						}
						break
					}
					return true
				})
			}
		}
		fmt.Fprintf(&b, "/-- in the receiver's runTransfer: (channels obtained from acceptAuthenticated, assignments to `authenticated`, of them `= true` inside a select case receiving from such a channel) -/\n")
		fmt.Fprintf(&b, "def receiver_flag_only_from_authenticated_accept : Nat × Nat × Nat := (%d, %d, %d)\n\n", len(chans), sets, good)
	}
	// make() sites in decoders: size expression text and whether it is a constant
	b.WriteString("/-- make([]T, n) sites in the control decoders: (function, size expression, element size, constant?) -/\n")
	b.WriteString("def makeSites : List (String × String × Nat × Bool) := [\n")
	p := w.pkgs["internal/transfer"]
	var rows []string
	decoders := map[string]bool{"readControlHeader": true, "readFileBegin": true, "readCredit": true, "readCreditBatch": true,
		"readFileEnd": true, "readFileDone": true, "readFileResumeInfo": true, "readResumeRequest": true, "readDataStreams": true, "readBytesControl": true,
		"readControlMessage": true, "readRelPathControl": true}
	for _, f := range p.Syntax {
		for _, d := range f.Decls {
			fd, ok := d.(*ast.FuncDecl)
			if !ok || !decoders[fd.Name.Name] || fd.Body == nil {
				continue
			}
			ast.Inspect(fd.Body, func(n ast.Node) bool {
				c, ok := n.(*ast.CallExpr)
				if !ok || w.exprText(c.Fun) != "make" || len(c.Args) < 2 {
					return true
				}
				tv := p.TypesInfo.Types[c.Args[1]]
				isConst := tv.Value != nil
				elem := 1
				if sl, ok := p.TypesInfo.Types[c.Args[0]].Type.Underlying().(*types.Slice); ok {
					elem = int(types.SizesFor("gc", "amd64").Sizeof(sl.Elem()))
				}
				rows = append(rows, fmt.Sprintf("  (%q, %q, %d, %v)", fd.Name.Name, w.exprText(c.Args[1]), elem, isConst))
				return true
			})
		}
	}
	sort.Strings(rows)
	b.WriteString(strings.Join(rows, ",\n"))
	b.WriteString("\n]\n\nend TV.Gen.Order\n")
	return b.String()
}

// ---------------------------------------------------------------------------------------------
// shapes: the printed source of decision points that hand-written models transcribe. They are emitted as Lean string
// lists; the property modules compare them (decide) with the text the model was written from.

type shapeTarget struct {
	pkg, fn, recv string // recv: substring of the receiver type ("" = any / plain function)
	sel           string // if-msg:<s> | if-ret-false | if-cond-has:<s> | assign:<lhs> | args:<callee>
	leanName      string
}

var shapeTargets = []shapeTarget{
	{"internal/session", "CreateLimited", "Store", "if-ret-false", "store_create_limit"},
	{"internal/session", "GetByJoinCode", "Store", "if-cond-has:ExpiresAt", "store_expiry_test"},
	{"cmd/thruserv", "main", "", "if-msg:session limit reached", "handler_session_limit"},
	{"cmd/thruserv", "main", "", "if-msg:max receivers exceeds server limit", "handler_post_maxrecv"},
	{"cmd/thruserv", "handleWebSocket", "", "if-msg:max receivers exceeds server limit", "handler_ws_maxrecv"},
	{"cmd/thruserv", "handleWebSocket", "", "if-msg:receiver limit reached", "handler_receiver_limit"},
	{"cmd/thruserv", "handleWebSocket", "", "if-msg:connection limit reached", "handler_conn_limit"},
	{"cmd/thruserv", "handleWebSocket", "", "if-msg:message too large", "handler_msg_size"},
	{"cmd/thruserv", "handleWebSocket", "", "if-msg:websocket message rate limit exceeded", "handler_msg_rate"},
	{"cmd/thruserv", "Acquire", "connLimiter", "if-ret-false", "connlimiter_acquire"},
	{"cmd/thruserv", "handleWebSocket", "", "seq:defer wsConnLimiter.Release()|wsConnLimiter.Release()", "handler_slot_release"},
	{"cmd/thruserv", "handleWebSocket", "", "if-cond-has:wsConnLimiter.Acquire", "handler_slot_acquire"},
	{"cmd/thruserv", "Allow", "tokenBucket", "if-ret-false", "bucket_allow"},
	{"cmd/thruserv", "handleWebSocket", "", "assign:env.From", "handler_from_overwrite"},
	{"cmd/thruserv", "handleWebSocket", "", "args:hub.SendTo", "handler_sendto_args"},
	{"cmd/thruserv", "handleWebSocket", "", "args:hub.BroadcastExcept", "handler_bcast_except_args"},
	{"cmd/thruserv", "handleWebSocket", "", "args:hub.Broadcast", "handler_bcast_args"},
	{"cmd/thruserv", "handleWebSocket", "", "args:store.GetByJoinCode", "handler_lookup_args"},
	{"internal/ice", "ProbeAndDial", "Prober", "if-cond-has:claimed", "probe_claim"},
	{"internal/ice", "ProbeAndDial", "Prober", "select-cases", "probe_selects"},
	{"internal/ice", "ProbeAndDial", "Prober", "closure-order:dialCandidate:claimed.CompareAndSwap(false, true)|resultCh <- conn|State: ProbeStateWon|conn.CloseWithError(0, \"race_lost\")", "probe_claim_order"},
	{"internal/ice", "ProbeAndDial", "Prober", "args:probeWithTransport", "probe_phases"},
	{"internal/ice", "ProbeAndDial", "Prober", "if-cond-has:directErr", "probe_phase_errs"},
	{"internal/ice", "ProbeAndDial", "Prober", "if-cond-has:directCandidates", "probe_direct_phase"},
	{"internal/ice", "ProbeAndDial", "Prober", "if-cond-has:turnCandidates", "probe_turn_phase"},
	// what the clients keep of a turn_credentials envelope: the issued list itself
	{"internal/app", "handleEnvelope", "SnapshotSender", "args:s.setTurnServersIfEmpty", "sender_turn_intake_args"},
	{"internal/app", "handleEnvelope", "snapshotReceiver", "args:r.setTurnServersIfEmpty", "receiver_turn_intake_args"},
	{"internal/app", "setTurnServersIfEmpty", "SnapshotSender", "assign:s.turnServers", "sender_turn_keep"},
	{"internal/app", "setTurnServersIfEmpty", "snapshotReceiver", "assign:r.turnServers", "receiver_turn_keep"},
	{"internal/app", "setTurnServersIfEmpty", "SnapshotSender", "assign:servers", "sender_turn_rewrite"},
	{"internal/app", "setTurnServersIfEmpty", "snapshotReceiver", "assign:servers", "receiver_turn_rewrite"},
	// the FileBegin wake-up protocol between the receiver's data readers and its control loop
	{"internal/transfer", "wait", "fileWaitRegistry", "body-stmts", "filewait_wait"},
	{"internal/transfer", "signal", "fileWaitRegistry", "body-stmts", "filewait_signal"},
	{"internal/transfer", "RecvManifestMultiStream", "", "args:fileReady.wait", "filewait_call_args"},
	{"internal/transfer", "RecvManifestMultiStream", "", "assign:registered", "filewait_ready_pred"},
	{"internal/transfer", "RecvManifestMultiStream", "", "args:fileReady.signal", "filewait_signal_args"},
	{"internal/transfer", "RecvManifestMultiStream", "", "seq:stateByKey[key] = state|fileReady.signal(key)|state := stateByKey[fileKey]|verifhook.Point(\"recv.reader.before_wait\", fileKey)", "filewait_order"},
	// chunk buffers and abandoned reads (Model/BufPool): what readAtWithPool does when its context ends after the job was queued
	{"internal/transfer", "readAtWithPool", "", "select-cases", "readpool_selects"},
	{"internal/transfer", "readAtWithPool", "", "seq:resultCh := make(chan readResult, 1)", "readpool_result_chan"},
	{"internal/transfer", "SendManifestMultiStream", "", "args:readAtWithPool", "send_read_args"},
	{"internal/transfer", "SendManifestMultiStream", "", "args:bufPool.Put", "send_buf_puts"},
	// the mailbox registries (Model/FileWait, namespace Mailbox): look-up-or-register / hand-over-or-leave in one critical section
	{"internal/transfer", "wait", "fileDoneRegistry", "body-head:5", "mailbox_done_wait"},
	{"internal/transfer", "deliver", "fileDoneRegistry", "body-stmts", "mailbox_done_deliver"},
	{"internal/transfer", "wait", "resumeInfoRegistry", "body-head:5", "mailbox_resume_wait"},
	{"internal/transfer", "deliver", "resumeInfoRegistry", "body-stmts", "mailbox_resume_deliver"},
	{"internal/transfer", "wait", "streamRegistry", "body-head:5", "mailbox_stream_wait"},
	// file scheduler: aging and the pending filters (Model/Sched has no clock)
	{"internal/scheduler", "effectiveClass", "HybridScheduler", "body-stmts", "sched_effective_class"},
	{"internal/scheduler", "pendingByClass", "HybridScheduler", "if-all", "sched_pending_small_ifs"},
	{"internal/scheduler", "pendingWeighted", "HybridScheduler", "if-all", "sched_pending_weighted_ifs"},
	// handleFileBegin: the resume report (which sets verifyAsked) is built before the file is registered for the readers (Model/Begin)
	{"internal/transfer", "RecvManifestMultiStream", "", "seq:info, err := buildResumeInfo(state)|stateByKey[key] = state|fileReady.signal(key)", "begin_order"},
	// which stored metadata a beginning file resumes from (Model/Entry)
	{"internal/transfer", "RecvManifestMultiStream", "", "if-cond-has:statErr", "entry_stat_test"},
	{"internal/transfer", "RecvManifestMultiStream", "", "args:os.Remove", "entry_removes"},
	{"internal/transfer", "LoadOrCreateSidecarWithFallback", "", "if-all", "entry_load_ifs"},
	{"internal/transfer", "RecvManifestMultiStream", "", "args:LoadOrCreateSidecarWithFallback", "entry_load_args"},
	{"internal/transfer", "RecvManifestMultiStream", "", "assign:primary", "entry_primary_path"},
	{"internal/transfer", "RecvManifestMultiStream", "", "assign:filePath", "entry_file_path"},
	// the sender's per-file confirmation goroutine (started by sendFileEnd): a rejected file returns before anything is counted
	{"internal/transfer", "SendManifestMultiStream", "", "closure-go:sendFileEnd", "send_confirm_goroutine"},
	// finalisation gate of the receiver (Model/Once)
	{"internal/transfer", "RecvManifestMultiStream", "", "closure-head:finalizeFile:4", "finalize_gate"},
	{"internal/transfer", "RecvManifestMultiStream", "", "seq:state.done = true|completedCount++|s.done = true", "finalize_done_sets"},
	// resume negotiation (Model/Resume): the sender's plan and the receiver's report
	{"internal/transfer", "SendManifestMultiStream", "", "assign:forceSendFrom", "plan_force_assigns"},
	{"internal/transfer", "SendManifestMultiStream", "", "if-cond-has:forceSendFrom", "plan_force_ifs"},
	{"internal/transfer", "SendManifestMultiStream", "", "assign:verifyNeeded", "plan_verify_needed"},
	{"internal/transfer", "SendManifestMultiStream", "", "assign:allComplete", "plan_all_complete"},
	{"internal/transfer", "SendManifestMultiStream", "", "assign:hashUnknown", "plan_hash_unknown"},
	{"internal/transfer", "SendManifestMultiStream", "", "assign:minForce", "plan_min_force"},
	{"internal/transfer", "SendManifestMultiStream", "", "assign:state.resendChunk", "plan_resend_chunk"},
	{"internal/transfer", "RecvManifestMultiStream", "", "assign:info.LastVerifiedChunk", "report_last_verified"},
	{"internal/transfer", "RecvManifestMultiStream", "", "assign:info.LastVerifiedHash", "report_hash"},
	{"internal/transfer", "RecvManifestMultiStream", "", "assign:info.Bitmap", "report_bitmap"},
	// Sidecar.Flush: mutex around marshal, temp write and rename (Model/Flushers)
	{"internal/transfer", "Flush", "Sidecar", "body-head:2", "sidecar_flush_head"},
	{"internal/transfer", "Flush", "Sidecar", "seq:temp := s.Path + \".tmp\"|verifhook.Point(\"sidecar.between_tmp_and_rename\")|verifhook.Point(\"sidecar.after_rename\")|s.dirty = false", "sidecar_flush_io"},
	{"internal/transfer", "Flush", "Sidecar", "args:os.WriteFile", "sidecar_flush_write_args"},
	{"internal/transfer", "Flush", "Sidecar", "args:os.Rename", "sidecar_flush_rename_args"},
	// multi-connection stream placement and acceptance (Model/ProtoLMC)
	{"internal/transfer", "OpenStream", "multiConn", "assign:idx", "multiconn_open_rr"},
	{"internal/transfer", "AcceptStream", "multiConn", "if-all", "multiconn_accept_ifs"},
	{"internal/transfer", "AcceptStream", "multiConn", "args:m.conns[0].AcceptStream", "multiconn_accept_control"},
	{"internal/transfer", "acceptLoop", "multiConn", "args:conn.AcceptStream", "multiconn_loop_accept"},
	{"internal/transfer", "startAcceptLoops", "multiConn", "args:m.acceptLoop", "multiconn_loops"},
	{"internal/transfer", "SendManifestMultiStream", "", "seq:controlStream, err := conn.OpenStream(ctx)|stream, err := conn.OpenStream(ctx)", "send_open_order"},
	// the frame checksum test of the receiver's data readers (enclosing conditions first)
	{"internal/transfer", "RecvManifestMultiStream", "", "if-cond-has:!= chunkCRC", "recv_frame_crc_test"},
	{"internal/transfer", "SendManifestMultiStream", "", "assign:chunkCRC", "send_frame_crc"},
	// whole decision structure (every `if` condition in source order, enclosing conditions first) of small functions that
	// hand-written models transcribe line by line
	{"internal/transfer", "nextChunkToSend", "sendFileState", "if-all", "sendfile_next_chunk"},
	{"internal/transfer", "markChunkDone", "sendFileState", "if-all", "sendfile_mark_done"},
	{"internal/transfer", "trySendEnd", "sendFileState", "if-all", "sendfile_try_end"},
	{"internal/transfer", "beginVerify", "sendFileState", "body-stmts", "sendfile_begin_verify"},
	{"internal/transfer", "SendManifestMultiStream", "", "if-cond-has:beginVerify", "send_begin_verify_call"},
	{"internal/transfer", "SendManifestMultiStream", "", "closure-order:applyResumeInfo:state.plan = plan|state.beginVerify()|opts.ResumeStatsFn(|go func(vChunk", "send_apply_order"},
	{"internal/transfer", "SendManifestMultiStream", "", "assign:state.verifyPending", "send_verify_pending_sets"},
	{"internal/app", "maybeStartTransfers", "SnapshotSender", "if-all", "admission_start"},
	{"internal/app", "runTransfer", "SnapshotSender", "assign:current", "admission_slot_identity"},
	{"internal/app", "handlePeerLeft", "SnapshotSender", "if-all", "admission_left"},
	{"internal/app", "cleanup", "SnapshotSender", "body-stmts", "admission_cleanup"},
	{"internal/peers", "Add", "Hub", "if-all", "hub_add_and_remove"},
	{"internal/peers", "Add", "Hub", "go-bodies", "hub_writer"},
	{"internal/peers", "SendTo", "Hub", "if-all", "hub_sendto"},
	{"internal/peers", "BroadcastExcept", "Hub", "if-all", "hub_bcast_except"},
	{"internal/peers", "CloseSession", "Hub", "if-all", "hub_close_session"},
	// the receiver's main loop: per case of its last for-select, the communication and every `if` condition inside it
	{"internal/transfer", "RecvManifestMultiStream", "", "last-for-select", "recv_main_loop"},
}

func (w *world) genShapes() string {
	var b strings.Builder
	b.WriteString("-- generated by xlate from /repo (go/ast, go/printer); do not edit\nnamespace TV.Gen.Shapes\n\n")
	for _, t := range shapeTargets {
		p := w.pkgs[t.pkg]
		var found []string
		nfn := 0
		if p != nil {
			for _, f := range p.Syntax {
				for _, d := range f.Decls {
					fd, ok := d.(*ast.FuncDecl)
					if !ok || fd.Name.Name != t.fn || fd.Body == nil {
						continue
					}
					if t.recv != "" && (fd.Recv == nil || !strings.Contains(w.exprText(fd.Recv.List[0].Type), t.recv)) {
						continue
					}
					nfn++
					found = append(found, w.shapesIn(fd.Body, t.sel)...)
				}
			}
		}
		if nfn == 0 {
			w.fail("shape:"+t.leanName, "function %s.%s not found", t.pkg, t.fn)
		}
		fmt.Fprintf(&b, "/-- %s.%s: %s -/\ndef %s : List String := [", t.pkg, t.fn, t.sel, t.leanName)
		for i, s := range found {
			if i > 0 {
				b.WriteString(", ")
			}
			b.WriteString(strconv.Quote(s))
		}
		b.WriteString("]\n\n")
	}
	b.WriteString("end TV.Gen.Shapes\n")
	return b.String()
}

func hasStringLit(n ast.Node, sub string) bool {
	hit := false
	ast.Inspect(n, func(x ast.Node) bool {
		if bl, ok := x.(*ast.BasicLit); ok && bl.Kind == token.STRING && strings.Contains(bl.Value, sub) {
			hit = true
		}
		return !hit
	})
	return hit
}

// shapesIn: for if-selectors, the conditions of all enclosing `if`s (outermost first, joined with " ; ") of each matching `if`
func (w *world) shapesIn(body *ast.BlockStmt, sel string) []string {
	var res []string
	if sel == "last-for-select" {
		var last *ast.SelectStmt
		ast.Inspect(body, func(n ast.Node) bool {
			if fs, ok := n.(*ast.ForStmt); ok && fs.Cond == nil && len(fs.Body.List) == 1 {
				if ss, ok := fs.Body.List[0].(*ast.SelectStmt); ok {
					last = ss
				}
			}
			return true
		})
		if last == nil {
			return nil
		}
		for _, st := range last.Body.List {
			cc := st.(*ast.CommClause)
			comm := "default"
			if cc.Comm != nil {
				var buf bytes.Buffer
				printer.Fprint(&buf, w.fset, cc.Comm)
				comm = buf.String()
			}
			blk := &ast.BlockStmt{List: cc.Body}
			res = append(res, comm+" :: "+strings.Join(w.shapesIn(blk, "if-all"), " | "))
		}
		return res
	}
	if sel == "body-stmts" || strings.HasPrefix(sel, "body-head:") {
		// every top-level statement of the body (or the first N), in order, as one line of source text each
		limit := len(body.List)
		if strings.HasPrefix(sel, "body-head:") {
			if n, err := strconv.Atoi(sel[10:]); err == nil && n < limit {
				limit = n
			}
		}
		for _, st := range body.List[:limit] {
			var buf bytes.Buffer
			printer.Fprint(&buf, w.fset, st)
			res = append(res, strings.Join(strings.Fields(buf.String()), " "))
		}
		return res
	}
	if sel == "select-cases" {
		// every case of every select statement that is not nested in another select: "communication => body", one line each
		var walk func(n ast.Node) bool
		walk = func(n ast.Node) bool {
			ss, ok := n.(*ast.SelectStmt)
			if !ok {
				return true
			}
			for _, st := range ss.Body.List {
				cc := st.(*ast.CommClause)
				comm := "default"
				if cc.Comm != nil {
					var buf bytes.Buffer
					printer.Fprint(&buf, w.fset, cc.Comm)
					comm = strings.Join(strings.Fields(buf.String()), " ")
				}
				var parts []string
				for _, b := range cc.Body {
					var buf bytes.Buffer
					printer.Fprint(&buf, w.fset, b)
					parts = append(parts, strings.Join(strings.Fields(buf.String()), " "))
				}
				res = append(res, comm+" => "+strings.Join(parts, "; "))
			}
			return false
		}
		ast.Inspect(body, walk)
		return res
	}
	if sel == "go-bodies" {
		// the body of every function literal started with `go` directly in this function (not inside nested literals), one line each
		ast.Inspect(body, func(n ast.Node) bool {
			if gs, ok := n.(*ast.GoStmt); ok {
				if fl, ok := gs.Call.Fun.(*ast.FuncLit); ok {
					var buf bytes.Buffer
					printer.Fprint(&buf, w.fset, fl.Body)
					res = append(res, strings.Join(strings.Fields(buf.String()), " "))
				}
				return false
			}
			if _, ok := n.(*ast.FuncLit); ok {
				return false
			}
			return true
		})
		return res
	}
	if strings.HasPrefix(sel, "closure-go:") {
		// statements of the goroutine started by the function literal assigned to the named variable
		name := sel[len("closure-go:"):]
		ast.Inspect(body, func(n ast.Node) bool {
			as, ok := n.(*ast.AssignStmt)
			if !ok || len(as.Lhs) != 1 || len(as.Rhs) != 1 || w.exprText(as.Lhs[0]) != name {
				return true
			}
			if fl, ok := as.Rhs[0].(*ast.FuncLit); ok {
				// the top-level statements of the first goroutine the closure starts, one line each
				ast.Inspect(fl.Body, func(m ast.Node) bool {
					if len(res) > 0 {
						return false
					}
					if gs, ok := m.(*ast.GoStmt); ok {
						if gl, ok := gs.Call.Fun.(*ast.FuncLit); ok {
							res = append(res, w.shapesIn(gl.Body, "body-stmts")...)
						}
						return false
					}
					return true
				})
				return false
			}
			return true
		})
		return res
	}
	if strings.HasPrefix(sel, "closure-order:") {
		// closure-order:<name>:<a>|<b>|...: the given pieces of source text in the order of their first occurrence inside the function
		// literal assigned to the named variable (a piece that does not occur is reported as "missing:<piece>")
		parts := strings.SplitN(sel, ":", 3)
		if len(parts) != 3 {
			return nil
		}
		ast.Inspect(body, func(n ast.Node) bool {
			as, ok := n.(*ast.AssignStmt)
			if !ok || len(as.Lhs) != 1 || len(as.Rhs) != 1 || w.exprText(as.Lhs[0]) != parts[1] || res != nil {
				return true
			}
			fl, ok := as.Rhs[0].(*ast.FuncLit)
			if !ok {
				return true
			}
			var buf bytes.Buffer
			printer.Fprint(&buf, w.fset, fl.Body)
			text := strings.Join(strings.Fields(buf.String()), " ")
			type hit struct {
				at int
				s  string
			}
			var hits []hit
			for _, needle := range strings.Split(parts[2], "|") {
				if i := strings.Index(text, needle); i >= 0 {
					hits = append(hits, hit{i, needle})
				} else {
					hits = append(hits, hit{1 << 30, "missing:" + needle})
				}
			}
			sort.SliceStable(hits, func(i, j int) bool { return hits[i].at < hits[j].at })
			for _, h := range hits {
				res = append(res, h.s)
			}
			return false
		})
		return res
	}
	if strings.HasPrefix(sel, "closure-head:") {
		// the first N statements of the function literal assigned to the named variable, one line of source text each
		parts := strings.Split(sel, ":")
		if len(parts) != 3 {
			return nil
		}
		limit, _ := strconv.Atoi(parts[2])
		ast.Inspect(body, func(n ast.Node) bool {
			as, ok := n.(*ast.AssignStmt)
			if !ok || len(as.Lhs) != 1 || len(as.Rhs) != 1 || w.exprText(as.Lhs[0]) != parts[1] {
				return true
			}
			fl, ok := as.Rhs[0].(*ast.FuncLit)
			if !ok {
				return true
			}
			for i, st := range fl.Body.List {
				if i >= limit {
					break
				}
				var buf bytes.Buffer
				printer.Fprint(&buf, w.fset, st)
				res = append(res, strings.Join(strings.Fields(buf.String()), " "))
			}
			return false
		})
		return res
	}
	var stack []ast.Node
	conds := func() string {
		var cs []string
		for _, n := range stack {
			if is, ok := n.(*ast.IfStmt); ok {
				cs = append(cs, w.exprText(is.Cond))
			}
		}
		return strings.Join(cs, " ; ")
	}
	ast.Inspect(body, func(n ast.Node) bool {
		if n == nil {
			stack = stack[:len(stack)-1]
			return true
		}
		stack = append(stack, n)
		switch {
		case strings.HasPrefix(sel, "if-msg:"):
			if is, ok := n.(*ast.IfStmt); ok {
				// the message must be in this if's own body, not in a nested if
				own := false
				for _, st := range is.Body.List {
					if _, nested := st.(*ast.IfStmt); !nested && hasStringLit(st, sel[7:]) {
						own = true
					}
				}
				if own {
					res = append(res, conds())
				}
			}
		case sel == "if-ret-false":
			if is, ok := n.(*ast.IfStmt); ok && len(is.Body.List) > 0 {
				if rs, ok := is.Body.List[len(is.Body.List)-1].(*ast.ReturnStmt); ok && len(rs.Results) > 0 && w.exprText(rs.Results[len(rs.Results)-1]) == "false" {
					res = append(res, conds())
				}
			}
		case sel == "if-all":
			if _, ok := n.(*ast.IfStmt); ok {
				res = append(res, conds())
			}
		case strings.HasPrefix(sel, "if-cond-has:"):
			if is, ok := n.(*ast.IfStmt); ok && strings.Contains(w.exprText(is.Cond), sel[12:]) {
				res = append(res, conds())
			}
		case strings.HasPrefix(sel, "assign:"):
			if as, ok := n.(*ast.AssignStmt); ok && len(as.Lhs) == 1 && w.exprText(as.Lhs[0]) == sel[7:] {
				res = append(res, w.exprText(as.Rhs[0]))
			}
		case strings.HasPrefix(sel, "seq:"):
			// simple statements whose text is one of the given ones, in source order
			switch n.(type) {
			case *ast.AssignStmt, *ast.ExprStmt, *ast.DeferStmt, *ast.IncDecStmt:
				var buf bytes.Buffer
				printer.Fprint(&buf, w.fset, n)
				for _, want := range strings.Split(sel[4:], "|") {
					if buf.String() == want {
						res = append(res, want)
					}
				}
			}
		case strings.HasPrefix(sel, "args:"):
			if c, ok := n.(*ast.CallExpr); ok && w.exprText(c.Fun) == sel[5:] {
				var as []string
				for _, a := range c.Args {
					as = append(as, w.exprText(a))
				}
				res = append(res, strings.Join(as, ", "))
			}
		}
		return true
	})
	return res
}

// ---------------------------------------------------------------------------------------------
// source pins

var pinTargets = []struct{ pkg, fn string }{
	{"internal/transfer", "nextChunkToSend"}, {"internal/transfer", "markChunkDone"}, {"internal/transfer", "trySendEnd"},
	{"internal/transfer", "markChunkComplete"}, {"internal/transfer", "markEndReceived"},
	{"internal/transfer", "SendManifestMultiStream"}, {"internal/transfer", "RecvManifestMultiStream"},
	{"internal/transfer", "LoadSidecar"}, {"internal/transfer", "Flush"}, {"internal/transfer", "CreateSidecar"},
	{"internal/transfer", "LoadOrCreateSidecarWithFallback"}, {"internal/transfer", "BitmapFromBytes"},
	{"internal/transfer", "validateRelPath"}, {"internal/transfer", "validateFilename"}, {"internal/transfer", "SidecarPath"},
	{"internal/peers", "Add"}, {"internal/peers", "Broadcast"}, {"internal/peers", "BroadcastExcept"}, {"internal/peers", "SendTo"},
	{"internal/peers", "CloseSession"}, {"internal/peers", "List"},
	{"internal/ice", "ProbeAndDial"}, {"internal/ice", "parseTurnServer"},
	{"internal/app", "handlePeerJoined"}, {"internal/app", "handleManifestAccept"}, {"internal/app", "maybeStartTransfers"},
	{"internal/app", "handlePeerLeft"}, {"internal/app", "runTransfer"}, {"internal/app", "authAsSender"}, {"internal/app", "authAsReceiver"},
	{"internal/app", "buildPathResolver"}, {"internal/app", "buildWebSocketURL"},
	{"internal/session", "Create"}, {"internal/session", "GetByJoinCode"}, {"internal/session", "Delete"},
	{"pkg/manifest", "ScanPaths"}, {"pkg/manifest", "Scan"},
	{"cmd/thruserv", "handleWebSocket"}, {"cmd/thruserv", "injectTurnCredentials"},
	{"internal/clienthttp", "CreateSession"},
}

func (w *world) genPins() string {
	res := map[string]string{}
	for _, t := range pinTargets {
		p := w.pkgs[t.pkg]
		if p == nil {
			continue
		}
		for _, f := range p.Syntax {
			for _, d := range f.Decls {
				fd, ok := d.(*ast.FuncDecl)
				if !ok || fd.Name.Name != t.fn {
					continue
				}
				var buf bytes.Buffer
				fd.Doc = nil
				printer.Fprint(&buf, w.fset, fd)
				h := sha256.Sum256(buf.Bytes())
				key := t.pkg + "." + t.fn
				if fd.Recv != nil && len(fd.Recv.List) == 1 {
					key = t.pkg + "." + w.exprText(fd.Recv.List[0].Type) + "." + t.fn
				}
				res[key] = hex.EncodeToString(h[:8])
			}
		}
	}
	b, _ := json.MarshalIndent(res, "", " ")
	return string(b) + "\n"
}
