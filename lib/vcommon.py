"""Shared machinery for /verif/check: regeneration, Lean build + audit, Go harness build,
line-protocol differential, findings, replays, evidence."""
import fcntl
import hashlib
import json
import os
import re
import subprocess
import sys
import time

VERIF = os.path.dirname(os.path.dirname(os.path.abspath(__file__)))
REPO = os.environ.get("VERIF_REPO", "/repo")
LEAN = os.path.join(VERIF, "lean")
GEN = os.path.join(LEAN, "ThruVerif", "Gen")
BIN = os.path.join(VERIF, ".bin")
WORK = os.path.join(VERIF, "work")
ALLOWED_AXIOMS = {"propext", "Classical.choice", "Quot.sound"}
MODPATH = "github.com/sheerbytes/sheerbytes"


def goenv():
    e = dict(os.environ)
    e["GOFLAGS"] = "-mod=mod"
    e["GOPROXY"] = "off"
    e.pop("GOSUMDB", None)      # GOSUMDB=off blocks the cached-toolchain switch go.mod asks for
    e.pop("GOTOOLCHAIN", None)
    e["CGO_ENABLED"] = e.get("CGO_ENABLED", "1")
    return e


def run(cmd, cwd=None, env=None, timeout=None, inp=None):
    p = subprocess.run(cmd, cwd=cwd, env=env, timeout=timeout, input=inp,
                       stdout=subprocess.PIPE, stderr=subprocess.PIPE)
    return p.returncode, p.stdout.decode("utf-8", "replace"), p.stderr.decode("utf-8", "replace")


class Lock:
    def __init__(self, name):
        os.makedirs(WORK, exist_ok=True)
        self.path = os.path.join(WORK, name + ".lock")

    def __enter__(self):
        self.f = open(self.path, "w")
        fcntl.flock(self.f, fcntl.LOCK_EX)
        return self

    def __exit__(self, *a):
        fcntl.flock(self.f, fcntl.LOCK_UN)
        self.f.close()


class SplitMix:
    """SplitMix64: every random choice of a run derives from VERIF_SEED through this."""

    def __init__(self, seed):
        self.s = seed & 0xFFFFFFFFFFFFFFFF

    def next(self):
        self.s = (self.s + 0x9E3779B97F4A7C15) & 0xFFFFFFFFFFFFFFFF
        z = self.s
        z = ((z ^ (z >> 30)) * 0xBF58476D1CE4E5B9) & 0xFFFFFFFFFFFFFFFF
        z = ((z ^ (z >> 27)) * 0x94D049BB133111EB) & 0xFFFFFFFFFFFFFFFF
        return z ^ (z >> 31)

    def below(self, n):
        return self.next() % n if n > 0 else 0

    def range(self, lo, hi):
        return lo + self.below(hi - lo + 1)

    def choice(self, xs):
        return xs[self.below(len(xs))]

    def chance(self, num, den):
        return self.below(den) < num

    def bytes(self, n):
        return bytes(self.below(256) for _ in range(n))

    def shuffle(self, xs):
        for i in range(len(xs) - 1, 0, -1):
            j = self.below(i + 1)
            xs[i], xs[j] = xs[j], xs[i]


class Ctx:
    def __init__(self, prop, tier, seed):
        self.prop = prop
        self.tier = tier
        self.seed = seed
        self.t0 = time.time()
        self.obligations = []       # (name, ok, detail)
        self.violations = []        # dicts: signature, what, replay
        self.broken = []            # names of theorems / correspondences that no longer check
        self.coverage = {}
        self.assumptions = []
        self.notes = []
        self.rng = SplitMix(seed * 1000003 + int(hashlib.sha256(prop.encode()).hexdigest()[:8], 16))
        os.makedirs(WORK, exist_ok=True)
        os.makedirs(BIN, exist_ok=True)
        self.workdir = os.path.join(WORK, prop)
        os.makedirs(self.workdir, exist_ok=True)

    # ---------------------------------------------------------------- obligations
    def oblige(self, name, ok, detail=""):
        self.obligations.append((name, bool(ok), detail))
        if not ok:
            self.broken.append(name)
        return ok

    def log(self, msg):
        print(f"[{self.prop}] {msg}", flush=True)

    # ---------------------------------------------------------------- regeneration
    def build_xlate(self):
        with Lock("xlate-build"):
            src = os.path.join(VERIF, "xlate")
            out = os.path.join(BIN, "xlate")
            newest = max(os.path.getmtime(os.path.join(src, f)) for f in os.listdir(src))
            if os.path.exists(out) and os.path.getmtime(out) >= newest:
                return True
            rc, o, e = run(["go", "build", "-o", out, "."], cwd=src, env=goenv(), timeout=600)
            if rc != 0:
                self.log("xlate build failed:\n" + e)
            return rc == 0

    def regen(self):
        """Delete and regenerate Gen/*.lean from /repo's current working tree."""
        if not self.build_xlate():
            self.oblige("xlate.build", False, "translator does not build")
            return False
        with Lock("lean"):
            tmp = os.path.join(WORK, "gen.%d" % os.getpid())
            os.makedirs(tmp, exist_ok=True)
            rc, o, e = run([os.path.join(BIN, "xlate"), "-repo", REPO, "-out", tmp], timeout=600)
            if rc != 0:
                self.oblige("xlate.run", False, (e or o)[-2000:])
                return False
            os.makedirs(GEN, exist_ok=True)
            # install only files whose content changed, so lake's traces stay warm on an unchanged tree
            for f in os.listdir(GEN):
                if f not in os.listdir(tmp):
                    os.remove(os.path.join(GEN, f))
            for f in os.listdir(tmp):
                new = open(os.path.join(tmp, f), "rb").read()
                dst = os.path.join(GEN, f)
                if not os.path.exists(dst) or open(dst, "rb").read() != new:
                    open(dst, "wb").write(new)
                os.remove(os.path.join(tmp, f))
            os.rmdir(tmp)
        rep = json.load(open(os.path.join(GEN, "xlate_report.json")))
        self.xlate_failures = rep.get("failures") or []
        return True

    def xlate_ok(self, prefixes):
        bad = [f for f in getattr(self, "xlate_failures", []) if any(p in f for p in prefixes)]
        return self.oblige("xlate.targets(" + ",".join(prefixes) + ")", not bad, "; ".join(bad))

    # ---------------------------------------------------------------- Lean
    def lake(self, targets, timeout=1800):
        with Lock("lean"):
            rc, o, e = run(["lake", "build"] + targets, cwd=LEAN, timeout=timeout)
        return rc == 0, o + e

    def lean_props(self, module=None):
        """Build the property module; on failure find out which theorems no longer check."""
        module = module or f"ThruVerif.Props.{self.prop}"
        ok, out = self.lake([module])
        path = os.path.join(LEAN, *module.split(".")) + ".lean"
        thms = self.theorems_of(path)
        if ok:
            for t in thms:
                self.oblige(f"lean:{t}", True)
            return True, thms
        # attribute errors to theorems by line number
        errs = []
        for line in out.splitlines():
            m = re.match(r"error: (\S+\.lean):(\d+):(\d+): (.*)", line)
            if m:
                errs.append((m.group(1), int(m.group(2)), m.group(4)))
        src_lines = open(path).read().splitlines() if os.path.exists(path) else []
        failed = set()
        other = []
        for f, ln, msg in errs:
            if os.path.abspath(os.path.join(LEAN, f)) == os.path.abspath(path):
                name = None
                for i in range(min(ln, len(src_lines)) - 1, -1, -1):
                    m = re.match(r"\s*(?:private\s+)?(?:theorem|lemma|example|def)\s+(\S+)?", src_lines[i])
                    if m:
                        name = m.group(1) or f"example@{i+1}"
                        break
                failed.add(name or f"line{ln}")
            else:
                other.append(f"{f}:{ln}: {msg}")
        if other:
            failed.add("dependency:" + other[0][:200])
        if not failed:
            failed.add("build:" + out[-300:].replace("\n", " | "))
        for t in thms:
            short = t.split(".")[-1]
            self.oblige(f"lean:{t}", short not in failed and not other, "")
        for f in failed:
            if f not in [t.split(".")[-1] for t in thms]:
                self.oblige(f"lean:{f}", False, "")
        self.lean_log = out
        return False, thms

    @staticmethod
    def theorems_of(path):
        if not os.path.exists(path):
            return []
        src = open(path).read()
        src = re.sub(r"/-.*?-/", "", src, flags=re.S)
        ns = []
        names = []
        for line in src.splitlines():
            m = re.match(r"namespace\s+(\S+)", line)
            if m:
                ns.append(m.group(1))
                continue
            m = re.match(r"end\s+(\S+)", line)
            if m and ns and ns[-1].split(".")[-1] == m.group(1).split(".")[-1]:
                ns.pop()
                continue
            m = re.match(r"\s*theorem\s+([A-Za-z0-9_'.]+)", line)
            if m:
                names.append(".".join(ns + [m.group(1)]))
        return names

    def audit(self, thms, files=None):
        """grep for escape hatches, and #print axioms of every property theorem."""
        # 1. grep
        bad = []
        pat = re.compile(r"\bsorry\b|\badmit\b|^axiom\s|native_decide|bv_decide|implemented_by|\bunsafe\s|maxHeartbeats 0")
        for root, _, fs in os.walk(os.path.join(LEAN, "ThruVerif")):
            for f in fs:
                if not f.endswith(".lean"):
                    continue
                src = open(os.path.join(root, f)).read()
                src = re.sub(r"/-.*?-/", "", src, flags=re.S)
                for i, line in enumerate(src.splitlines()):
                    code = line.split("--")[0]
                    if pat.search(code):
                        bad.append(f"{f}:{i+1}:{code.strip()[:80]}")
        self.oblige("audit:grep(no sorry/admit/axiom/native_decide/bv_decide/implemented_by/unsafe)", not bad, "; ".join(bad[:5]))
        # 2. axioms
        if not thms:
            return
        mods = sorted({self._module_of(t) for t in thms} - {None})
        audit = os.path.join(self.workdir, "Audit.lean")
        with open(audit, "w") as f:
            f.write(f"import ThruVerif.Props.{self.prop}\n")
            for t in thms:
                f.write(f"#print axioms {t}\n")
        with Lock("lean"):
            rc, o, e = run(["lake", "env", "lean", audit], cwd=LEAN, timeout=900)
        cur = None
        seen = {}
        text = o + e
        for m in re.finditer(r"^'(\S+?)' (depends on axioms: \[([^\]]*)\]|does not depend on any axioms)", text, flags=re.S | re.M):
            name = m.group(1)
            axs = [a.strip() for a in (m.group(3) or "").replace("\n", " ").split(",") if a.strip()]
            seen[name] = axs
        for t in thms:
            if t not in seen:
                self.oblige(f"axioms:{t}", False, "not reported by #print axioms: " + text[-200:])
            else:
                extra = [a for a in seen[t] if a not in ALLOWED_AXIOMS]
                self.oblige(f"axioms:{t}", not extra, "extra axioms: " + ",".join(extra))
        self.axioms = seen

    def _module_of(self, thm):
        return None

    def leanchecker(self, module=None):
        module = module or f"ThruVerif.Props.{self.prop}"
        with Lock("lean"):
            rc, o, e = run(["lake", "env", "leanchecker", module], cwd=LEAN, timeout=1800)
        self.oblige(f"leanchecker:{module}", rc == 0, (o + e)[-300:])

    def build_driver(self):
        ok, out = self.lake(["tvdriver"])
        if not ok:
            self.log("tvdriver build failed:\n" + out[-3000:])
        return self.oblige("driver.build", ok, out[-500:] if not ok else "")

    def driver(self, cases_path, out_path, timeout=1800):
        exe = os.path.join(LEAN, ".lake", "build", "bin", "tvdriver")
        with open(cases_path, "rb") as fin, open(out_path, "wb") as fout:
            p = subprocess.run([exe], stdin=fin, stdout=fout, stderr=subprocess.PIPE, timeout=timeout)
        if p.returncode != 0:
            self.log("tvdriver failed: " + p.stderr.decode()[-500:])
        return p.returncode == 0

    # ---------------------------------------------------------------- Go harness
    def build_harness(self, prog, race=False):
        """Compile /verif/harness/<prog>/*.go as /repo/internal/zzverif/<prog> from /repo's working tree,
        with export shims overlaid into the packages they open up (only *adding* paths)."""
        hdir = os.path.join(VERIF, "harness")
        overlay = {}
        for sub in [prog, "netsim"]:
            if not os.path.isdir(os.path.join(hdir, sub)):
                continue
            for f in os.listdir(os.path.join(hdir, sub)):
                if f.endswith(".go"):
                    overlay[os.path.join(REPO, "internal", "zzverif", sub, f)] = os.path.join(hdir, sub, f)
        exp = os.path.join(hdir, "exports")
        if os.path.isdir(exp):
            for f in os.listdir(exp):
                if not f.endswith(".go"):
                    continue
                # file name: <pkg path with __ for />__zz_verif_export.go  e.g. internal__transfer__zz_export.go
                parts = f[:-3].split("__")
                dst = os.path.join(REPO, *parts[:-1], parts[-1] + ".go")
                if os.path.exists(dst):
                    raise RuntimeError("overlay would replace existing file " + dst)
                overlay[dst] = os.path.join(exp, f)
        ov = os.path.join(self.workdir, f"overlay-{prog}.json")
        json.dump({"Replace": overlay}, open(ov, "w"))
        out = os.path.join(BIN, f"h-{prog}-{self.prop}" + ("-race" if race else ""))
        if os.path.exists(out):
            os.remove(out)
        cmd = ["go", "build", "-tags", "verif", "-overlay", ov, "-o", out]
        if race:
            cmd.append("-race")
        cmd.append(f"./internal/zzverif/{prog}")
        rc, o, e = run(cmd, cwd=REPO, env=goenv(), timeout=1200)
        if rc != 0:
            self.log(f"harness {prog} build failed:\n{e[-3000:]}")
            self.harness_err = e
            return None
        return out

    def build_thruserv(self, race=False):
        """The real server binary from /repo's working tree (tag verif: hook points live, plus the overlaid
        line-protocol driver that is entered only when THRUSERV_VERIF=1)."""
        ov = os.path.join(self.workdir, "overlay-serv.json")
        if not os.path.exists(ov):
            self.build_harness("serv")
        out = os.path.join(BIN, f"thruserv-{self.prop}" + ("-race" if race else ""))
        if os.path.exists(out):
            os.remove(out)
        cmd = ["go", "build", "-tags", "verif", "-overlay", ov, "-o", out]
        if race:
            cmd.append("-race")
        cmd.append("./cmd/thruserv")
        rc, o, e = run(cmd, cwd=REPO, env=goenv(), timeout=1200)
        if rc != 0:
            self.log("thruserv build failed:\n" + e[-3000:])
            self.harness_err = e
            return None
        return out

    def run_harness(self, exe, cases_path, out_path, args=(), timeout=1800, env=None):
        e = goenv()
        e["GOMEMLIMIT"] = "4GiB"
        e["VERIF_SEED"] = str(self.seed)
        if env:
            e.update(env)
        with open(cases_path, "rb") as fin, open(out_path, "wb") as fout:
            p = subprocess.run([exe] + list(args), stdin=fin, stdout=fout, stderr=subprocess.PIPE, timeout=timeout, env=e)
        self.harness_stderr = p.stderr.decode("utf-8", "replace")
        return p.returncode

    def differential(self, name, cases, exe, harness_args=(), canon=None, timeout=1800):
        """Run the same case lines through the real code (harness) and the model (tvdriver); diff."""
        cpath = os.path.join(self.workdir, f"{name}.cases")
        ipath = os.path.join(self.workdir, f"{name}.impl.out")
        mpath = os.path.join(self.workdir, f"{name}.model.out")
        with open(cpath, "w") as f:
            for c in cases:
                f.write(c + "\n")
        rc = self.run_harness(exe, cpath, ipath, harness_args, timeout=timeout)
        okm = self.driver(cpath, mpath, timeout=timeout)
        impl = open(ipath).read().splitlines()
        model = open(mpath).read().splitlines()
        diffs = []
        if rc != 0:
            diffs.append((-1, "<harness>", f"exit {rc}: {self.harness_stderr[-300:]}", ""))
        if not okm:
            diffs.append((-1, "<driver>", "", "driver failed"))
        n = min(len(impl), len(model), len(cases))
        for i in range(n):
            a, b = impl[i], model[i]
            if canon:
                a, b = canon(a), canon(b)
            if a != b:
                diffs.append((i, cases[i], impl[i], model[i]))
        if len(impl) != len(cases) or len(model) != len(cases):
            diffs.append((-1, "<count>", f"impl {len(impl)} lines", f"model {len(model)} lines, cases {len(cases)}"))
        self.oblige(f"correspondence:{name}", not diffs,
                    "; ".join(f"case `{d[1][:80]}` impl `{d[2][:80]}` model `{d[3][:80]}`" for d in diffs[:3]))
        return impl, model, diffs

    # ---------------------------------------------------------------- findings / replays / evidence
    def known_findings(self):
        p = os.path.join(VERIF, "known_findings.json")
        if not os.path.exists(p):
            return []
        return [f for f in json.load(open(p)).get("findings", []) if f.get("property") == self.prop]

    def violation(self, signature, what, replay):
        """Record a concrete property violation on the implementation."""
        self.violations.append({"signature": signature, "what": what, "replay": replay})

    def write_replay(self, idx, data):
        d = os.path.join(VERIF, "replays")
        os.makedirs(d, exist_ok=True)
        p = os.path.join(d, f"{self.prop}-{self.seed}-{idx}.json")
        json.dump(data, open(p, "w"), indent=1, default=str)
        return p

    def finish(self, level, technique_note=""):
        """Decide the exit status, print VIOLATION / KNOWN-FINDING lines, write evidence."""
        import glob as _glob
        for old in _glob.glob(os.path.join(VERIF, "replays", f"{self.prop}-{self.seed}-*.json")):
            os.remove(old)  # replays of an earlier run of this property/seed
        known = self.known_findings()
        open_sigs = {f["signature"]: f for f in known if f.get("status") == "open"}
        unknown = []
        reported_known = set()
        for v in self.violations:
            if v["signature"] in open_sigs:
                if v["signature"] not in reported_known:
                    print(f"KNOWN-FINDING: property={self.prop} {open_sigs[v['signature']]['what_fails']}", flush=True)
                    reported_known.add(v["signature"])
            else:
                unknown.append(v)
        exit_code = 0
        nrep = 0
        seen_sig = set()
        for v in unknown:
            if v["signature"] in seen_sig:
                continue
            seen_sig.add(v["signature"])
            p = self.write_replay(nrep, {"property": self.prop, "kind": "impl-violation", "signature": v["signature"],
                                         "what": v["what"], "input": v["replay"], "broken": self.broken})
            nrep += 1
            print(f"VIOLATION property={self.prop} replay={p}", flush=True)
            exit_code = 1
        # proof obligations / correspondences that no longer check and are not explained by a known finding
        if self.broken and not unknown:
            explained = bool(reported_known) and all(b in getattr(self, "broken_explained_by_known", set()) for b in self.broken)
            if not explained:
                p = self.write_replay(nrep, {"property": self.prop, "kind": "proof-or-tie-broken", "broken": self.broken,
                                             "details": [o for o in self.obligations if not o[1]],
                                             "note": "no failing input found by the search; the property is no longer shown to hold"})
                print(f"VIOLATION property={self.prop} replay={p} no-failing-input-found", flush=True)
                exit_code = 1
        cov = dict(self.coverage)
        nob = len(self.obligations)
        ndis = sum(1 for o in self.obligations if o[1])
        cov.setdefault("obligations", nob)
        cov.setdefault("discharged", ndis)
        cov.setdefault("checker_cmd", f"./check {self.prop} --tier {self.tier}  (xlate -> lake build ThruVerif.Props.{self.prop} -> #print axioms -> correspondence)")
        cov.setdefault("trusted_base", ["Lean 4.33.0 kernel", "axioms: propext, Classical.choice, Quot.sound only (audited per theorem)",
                                        "xlate translator (validated by correspondence)", "Go harness + tvdriver line protocol"])
        cov["obligation_list"] = [{"name": n, "ok": ok, **({"detail": d} if d else {})} for n, ok, d in self.obligations]
        ev = {"property_id": self.prop, "tier": self.tier, "seed": self.seed, "level": level, "coverage": cov,
              "assumptions": self.assumptions, "wall_s": round(time.time() - self.t0, 2),
              "violations": len(unknown) + (1 if exit_code and not unknown else 0)}
        if self.notes:
            ev["coverage"]["notes"] = self.notes
        os.makedirs(os.path.join(VERIF, "evidence"), exist_ok=True)
        json.dump(ev, open(os.path.join(VERIF, "evidence", f"{self.prop}.json"), "w"), indent=1, default=str)
        self.log(f"obligations {ndis}/{nob}, violations {len(unknown)}, known {len(reported_known)}, wall {ev['wall_s']}s, exit {exit_code}")
        return exit_code
