#!/bin/sh
# Build the framework from files on disk only (offline). Run once after a fresh restore.
set -e
cd "$(dirname "$0")"
export GOFLAGS=-mod=mod GOPROXY=off
unset GOSUMDB GOTOOLCHAIN || true
mkdir -p .bin work evidence replays
(cd xlate && go build -o ../.bin/xlate .)
rm -rf lean/ThruVerif/Gen && mkdir -p lean/ThruVerif/Gen
./.bin/xlate -repo "${VERIF_REPO:-/repo}" -out lean/ThruVerif/Gen
(cd lean && lake build ThruVerif tvdriver)
# warm the Go build cache for the harnesses
(cd "${VERIF_REPO:-/repo}" && go build ./... )
echo setup-ok
