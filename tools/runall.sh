#!/bin/sh
# run every claimed check (quick by default) on the unchanged tree and validate the evidence files
cd "$(dirname "$0")/.."
TIER=${1:-quick}
fail=0
for id in $(python3 -c "import json;print(' '.join(c['property_id'] for c in json.load(open('MANIFEST.json'))['checks']))"); do
  timeout 1500 ./check $id --tier $TIER > work/runall.$id.log 2>&1; rc=$?
  tail -1 work/runall.$id.log
  if [ $rc -ne 0 ]; then fail=1; grep -E "VIOLATION|KNOWN" work/runall.$id.log | head -5; fi
done
python3-vt - <<'PY'
import json,jsonschema,glob,os
sch=json.load(open('/root/.vp/EVIDENCE.schema.json'))
for f in sorted(glob.glob(os.path.join(os.getcwd(),'evidence','*.json'))):
    d=json.load(open(f))
    try:
        jsonschema.validate(d,sch)
        c=d['coverage']
        ok = c.get('obligations')==c.get('discharged')
        print(f.split('/')[-1], 'valid', 'discharged==obligations' if ok else 'DISCHARGED!=OBLIGATIONS', d['wall_s'])
    except Exception as e:
        print(f, 'INVALID', str(e)[:200])
jsonschema.validate(json.load(open('MANIFEST.json')), json.load(open('/root/.vp/MANIFEST.schema.json')))
print('manifest valid')
PY
exit $fail
