#!/usr/bin/env python3
"""Regenerates /verif/MANIFEST.json from the table below (kept valid at all times)."""
import json, os
V = os.path.dirname(os.path.dirname(os.path.abspath(__file__)))
ALL = [f"C{i:02d}" for i in range(1, 20)]
BASE_TB = ("Trusted: Lean 4.33.0 kernel; axioms limited to propext/Classical.choice/Quot.sound (audited per theorem each run; no sorry, "
           "native_decide, bv_decide or own axioms); xlate (Go->Lean translator, validated each run by evaluating generated "
           "definitions against the real functions); the Go harness, tvdriver line protocol and Python orchestrator. ")
CLAIMED = {
    "C19": dict(category="proof", design="DESIGN.md §4 C19",
                technique="Lean 4 theorems over definitions regenerated from source by xlate (go/ssa + go/ast), plus generated-vs-real differential",
                text="Tiling, sum, agreement and no-overflow are Lean theorems (all sizes<=10TiB, all chunk sizes<2^32) about TV.Gen.*, "
                     "which xlate regenerates from /repo's current chunkTotal/chunkSizeForIndex (go/ssa) and the embedded total/offset "
                     "expressions of handleFileBegin, the data reader, the sender worker, CreateSidecar, hashFileChunk (go/ast+go/types, "
                     "all Go conversions explicit). A changed expression changes the generated file and the theorems are re-checked against it.",
                note=BASE_TB + "Modelled not verified: Go's two's-complement wrap semantics (wrapS/wrapU); embedded expressions are tied by "
                     "regeneration only; CreateSidecar's total is additionally read back from a real sidecar file."),
    "C18": dict(category="proof", design="DESIGN.md §4 C18",
                technique="Lean 4 generic layout-codec round-trip theorem; layouts checked by `decide` against token lists regenerated from write*/read* bodies; two-way encoder/decoder differential",
                text="decode(encode r ++ rest) = (r, rest) for every record within the field limits, for sequences, and for the header, proved by induction on "
                     "layouts; the nine record layouts and the readControlMessage dispatch table are compared (decide) with what xlate reads off controlproto.go on "
                     "every run, and the real write*/readControlMessage are run against the Lean encoder/decoder on generated records (byte equality both ways).",
                note=BASE_TB + "Modelled not verified: encoding/json of the manifest inside the header (opaque bytes to the theorems); io.ReadFull/binary.Read EOF behaviour as modelled by takeN."),
    "C17": dict(category="proof", design="DESIGN.md §4 C17",
                technique="Lean 4 invariants over arbitrary op lists of a line-by-line model of sendFileState + scheduler; exhaustive and random op-sequence differential on the real struct",
                text="Strictly-increasing (hence exactly-once) dispatch, plan-skipping, single re-send per mismatch, single FileEnd and its emission conditions are "
                     "theorems over ALL operation lists (any number of workers, any arrival time of plan/verdict). The model is tied by running every generated op "
                     "sequence (exhaustive up to length 6/7) on the real sendFileState methods and comparing outputs and full state; scheduler choices must lie in the model's allowed set.",
                note=BASE_TB + "Modelled not verified: applyResumeInfo's closure is represented by its three locked updates; scheduler credits abstracted to nondeterministic choice; Go mutex gives atomicity of each method."),
    "C12": dict(category="proof", design="DESIGN.md §4 C12",
                technique="Lean 4 inductive invariant over all event histories of a handler-by-handler model of SnapshotSender admission; exhaustive + random history differential on the real struct",
                text="Cap (un-cancelled running transfers <= max-receivers, slot table = running set), queue/slot/status exclusivity, eagerness and leave-release are "
                     "proved as an invariant preserved by every event (join, accept, leave, transfer end incl. stale ones, cleanup tick) for every max and any number of "
                     "receivers. Tie: every generated history (exhaustive for 2 receivers up to length 3/4, seeded longer ones) runs on a real SnapshotSender with a stub "
                     "transfer function; queue, slots, statuses and running/cancelled transfers are compared with the model after every event.",
                note=BASE_TB + "Modelled not verified: atomicity of each handler (it holds SnapshotSender.mu); TransferStart/TransferQueued messages are not compared. "
                     "Props/C12 imports Mathlib.Data.List.Nodup and .Perm.Subperm for list lemmas."),
    "C13": dict(category="proof", design="DESIGN.md §4 C13",
                technique="Lean 4 theorems over a model of ScanPaths/TopLevelNames/buildPathResolver (names pairwise distinct for every base-name list, sortedness, counts, only plain entries, resolver inverse); real ScanPaths + resolver on materialised trees vs the model",
                text="For every list of selected base names the top-level names are pairwise distinct (hence all rel paths), the item list is sorted, counts/totals add up, "
                     "only plain files and directories are listed and the resolver maps each listed path back to its origin: Lean theorems about the executable model. "
                     "Tie: seeded trees with colliding/prefix-shaped names, repeated and overlapping selections, symlinks, FIFOs, non-UTF-8 names are created on disk, the real "
                     "ScanPaths (twice) and buildPathResolver run on them, every listed file is read, and the whole manifest incl. FNV ids is compared with the model's output.",
                note=BASE_TB + "Modelled not verified: the OS directory walk (the model is given lstat facts read back from disk), os.Stat symlink resolution for selected paths, mtime granularity."),
    "C08": dict(category="proof", design="DESIGN.md §4 C08",
                technique="Lean 4 theorems: byte-level auth model for an arbitrary MAC (exact acceptance characterisation, alteration, reflection, other key), symbolic Dolev-Yao soundness/relay, `decide` over regenerated success-branch dominance facts; model executed with HMAC-SHA256 vs the real authenticateTransport under a scripted attacker on netsim and real loopback QUIC",
                text="An endpoint accepts exactly version|expected role|n|MAC(key,version|role|n) (theorem, any MAC function); altered, truncated, reflected, role-swapped messages and messages under another key are rejected "
                     "(up to an explicit MAC collision); in the symbolic model every message an attacker can derive from all honest traffic that an honest end accepts was sent by an honest peer of the right role in the same TLS session. "
                     "authenticateTransport's err==nil branch is the only way to the manifest transfer, to the extra-connection set-up and to keeping an extra connection (facts regenerated from the CFG, failure branches ending in os.Exit recognised). "
                     "Tie: constants regenerated; the real authenticateTransport runs against a scripted attacker (material made by the model with its own SHA-256/HMAC) and every byte read/written by the honest ends is re-judged by the model.",
                note=BASE_TB + "Assumed, not proved: HMAC-SHA256 unforgeability/collision-freeness; TLS exporter uniqueness per session (measured on loopback QUIC each run). Not modelled: crypto/rand, context timeouts (attacker closes its stream instead of stalling)."),
    "C16": dict(category="proof", design="DESIGN.md §4 C16",
                technique="Lean 4 round-trip theorems over a byte-level model of the net/url subset used (escape/unescape in both modes, query assembly vs ParseQuery/Get, TURN URL minting vs parsing, /session response); model vs net/url, buildWebSocketURL, injectTurnCredentials (inside the real thruserv binary) and parseTurnServer on generated strings; real thruserv on a flag grid with the real client functions",
                text="For ALL byte strings: unescape(escape s)=s; the server's Query().Get on the query built by buildWebSocketURL returns exactly the join code, peer id and role; the client's parse of the TURN URL minted by the server "
                     "returns the same scheme, user, secret, host:port and options (any user/secret, turn/turns). Tie: every model function is run against its real counterpart on generated strings (URL-significant characters, unicode, invalid UTF-8, "
                     "malformed escapes, nine TURN spellings); the real thruserv binary is started on a grid of flag values (each flag small / 0, all 0, combinations, TURN on/off) and the real CreateSession, buildWebSocketURL+wsclient and parseTurnServer run against it, "
                     "TURN secrets checked against an independent HMAC-SHA1 oracle.",
                note=BASE_TB + "Modelled not verified: url.Parse only for URLs of the minted shape; encoding/json, time RFC3339, gorilla/websocket, net/http exercised only. Rate-limit pacing between the two connects is applied when the configured connect burst is <= 1. Port-less TURN entries are out of scope (server accepts, client rejects)."),
    "C07": dict(category="proof", design="DESIGN.md §4 C07",
                technique="Lean 4 confinement theorems over an element-stack model of filepath.Clean/Join and the receiver's validators; regenerated dominance facts; filepath differential; hostile-sender runs with sandbox snapshot",
                text="Within_join and its corollaries prove, for arbitrary byte strings, that every path expression the receiver builds from a validated manifest "
                     "(directories, files, resume-metadata names from ids or path hashes, both root modes) is lexically inside the output directory. Ties: SSA dominance facts "
                     "(ValidateManifest before MkdirAll, validateRelPath before OpenFile/MkdirAll) regenerated each run; clean/join/isAbs/dir and both validators compared with "
                     "path/filepath and the real functions on generated byte strings; a scripted hostile sender drives the real RecvManifestMultiStream and the set of created "
                     "paths must equal the model's prediction, with nothing changed outside the out dir (full sandbox snapshot).",
                note=BASE_TB + "Modelled not verified: lexical confinement only (fresh out dir without symlinks); nested Join = one Clean is checked differentially; OS path limits; encoding/json string decoding."),
    "C15": dict(category="proof", design="DESIGN.md §4 C15",
                technique="Lean 4 theorems on the total decoder model (suffix/consumption, per-field reservation bound, frame guards) + regenerated make-site obligation; mutation-fuzz differential with heap measurement; scripted hostile peers",
                text="The decoder model is total; theorems show it returns a suffix of its input, that every field of every record reserves <= 3*received+65 KiB whatever the peer announces, "
                     "and that the FileBegin/frame guards exclude the states where the real code panics. The list of make() sites in the decoders is regenerated and must equal the one the "
                     "reservation model accounts for. The real readControlMessage is fuzzed (truncation at every offset, bit flips, tag substitution, length maximisation, count inflation) against the "
                     "model with TotalAlloc measured; scripted hostile senders/receivers drive the real Recv/SendManifestMultiStream (every record at every stage, header fuzz, frame tampering) under a 3 s watchdog.",
                note=BASE_TB + "Modelled not verified: Go allocator behaviour (bytes.Buffer growth <= 2x), goroutine panics are observed as process death. Known finding: data-frame buffer sized by announced ChunkSize."),
    "C06": dict(category="proof", design="DESIGN.md §4 C06",
                technique="Lean 4 theorems on a model of LoadSidecar/Flush/BitmapFromBytes/loadValid; exhaustive bit-flip and truncation differential on real sidecars; resumed end-to-end runs from tampered states",
                text="Round trip (Flush then LoadSidecar), well-formedness of everything LoadSidecar accepts (bitmap length, no stray bits, hence set bits <= total) and the identity rule "
                     "(a stored sidecar is used only for the same id/size/chunk size) are theorems over all byte strings. The parser model is compared with the real LoadSidecar on every single-bit flip and "
                     "every truncation of generated sidecars plus garbage; serialisation and LoadOrCreateSidecarWithFallback likewise. The 'never causes data to be skipped' clause is decided by resumed "
                     "transfers from 11 kinds of tampered state (missing/short data file, foreign identity fields, damaged metadata, damaged highest chunk incl. all-complete) with tree comparison.",
                note=BASE_TB + "Modelled not verified: CRC32C detection of the injected damage is executed exhaustively per generated sidecar, not proved; bytes.Reader short-read behaviour is covered by the "
                     "accept/reject differential; no power-loss model (the code has no fsync). The behavioural clause rests on the end-to-end runs (sampled configurations), the metadata clauses on theorems."),
    "C05": dict(category="proof", design="DESIGN.md §4 C05",
                technique="Lean 4 inductive invariant over all interleavings of writers, flusher, kill and restart; regenerated SSA dominance facts; crash-point enumeration of the real receiver in a child process",
                text="sidecar_on_disk_sound: in every reachable state of the writers || flusher || crash || restart system, the on-disk sidecar marks only good chunks; the sidecar file changes only "
                     "by the rename of a completely written temp file. The model's ordering assumptions are regenerated facts (positional write dominates every call from which Sidecar.MarkComplete* is "
                     "reachable; CRC check dominates the write; temp write dominates rename). Tie (b): the real transfer runs in a child process that SIGKILLs itself at the k-th hit of each of six hook "
                     "points, with and without the flusher firing at that instant; every sidecar LoadSidecar accepts afterwards is compared chunk by chunk with the source.",
                note=BASE_TB + "Modelled not verified: process-kill semantics (completed syscalls persist; no power loss, the code has no fsync); the 1 s flusher is represented by FlushAllFlushers() at hook "
                     "points; atomicity of rename(2); writers write CRC-verified source bytes."),
    "C01": dict(category="proof", design="DESIGN.md §4 C01",
                technique="Lean 4 inductive invariant of a per-file transition system (sends, corruption, any-order delivery, FileEnd carrying the frame count, finalisation rule); end-to-end runs of the real endpoints over netsim/mock/QUIC",
                text="C01_file_fidelity: in every reachable state of the per-file system - any interleaving of chunk sends, in-flight corruption, deliveries in any order, duplicates, late frames, FileEnd overtaking "
                     "frames, fresh or resumed from a sound or highest-chunk-damaged state - a file finalised ok holds the source bytes in every chunk. The sender is constrained only by what C17 proves. Tie: the real "
                     "Send/RecvManifestMultiStream run on generated trees (sizes around chunk boundaries, nesting, empty dirs, odd names) x chunk sizes x 1-8 streams x 1-4 connections x root/scan modes x resume states over "
                     "netsim with QUIC stream visibility, the repo mock and real loopback QUIC; mutual success must imply an identical tree.",
                note=BASE_TB + "Modelled not verified: the lift from the per-file system to the manifest (distinct file keys; frames carry their key), goroutine-level atomicity, quic-go, the kernel file system; "
                     "the tie to the closures of multistream.go is by end-to-end runs (sampled schedules), not by translation."),
    "C02": dict(category="proof", design="DESIGN.md §4 C02",
                technique="Lean 4 decision lemmas for both endpoints' return rules + per-file corruption/finality theorems; fault injection at byte positions, cancellation, source/output faults on the real endpoints",
                text="Whichever select case fires, the receiver returns success only with every file finalised ok; the sender only with every file confirmed; a corrupted frame fails its file and verdicts are final; "
                     "with C01_file_fidelity a successful receiver holds an identical tree. Tie: netsim injects graceful close by either side and abrupt loss at byte positions of every stream and direction, payload/CRC bit flips "
                     "(also with the failing reader held so that the peer's close races its error), cancellation of either endpoint at many instants incl. idle phases, source shrink/removal and obstructed output paths; "
                     "oracle: no hang, receiver ok => identical tree, sender ok => identical tree.",
                note=BASE_TB + "Modelled not verified: the decision functions are transcriptions of the main loop / sender tail tied by the fault runs; wall-clock 'bounded time' is a 5 s watchdog; netsim's error texts mirror quic-go's."),
    "C03": dict(category="proof", design="DESIGN.md §4 C03",
                technique="Lean 4 progress + strictly decreasing measure on a liveness abstraction (lazily accepted data streams), name and budget theorems; watchdog grid on netsim and real QUIC",
                text="C03_completes: for every number of announced streams n>=1 and every chunk count (incl. 0) no reachable non-final state of the abstraction is stuck and every step decreases a natural measure, so every run "
                     "ends with FileDone received. C03_names: validateRelPath accepts exactly the legal relative names. C03_budget: 1..8 streams after normalisation, >= one per connection. Tie: budget and name differentials; the real "
                     "endpoints on the grid files {0,1,2,5} x chunks/file {0,1,2,5} x streams {1,2,4,8} x connections {1,2,4} x resume {off,on,partial} over netsim with QUIC stream-visibility semantics and sampled over real loopback QUIC.",
                note=BASE_TB + "Modelled not verified: the abstraction covers one file on one connection (multi-file/multi-connection only by grid runs); timers/polling are not steps; 'bounded time' is a 6-8 s watchdog."),
    "C04": dict(category="proof", design="DESIGN.md §4 C04",
                technique="Lean 4 theorems composing the crash invariant (C05) with per-file fidelity (C01) over chains of interrupted runs; SIGKILL chains of the real transfer followed by a resumed run",
                text="C04_resume / C04_chain: from any on-disk state a killed run can leave (sidecar marks only good chunks: C05_inv) the resumed run's ok-finalised files are identical to the source, for any number of "
                     "interrupted runs. Tie: chains of 1-3 SIGKILLs at random hits of 8 hook points (receiver and sender side, with/without the flusher firing) in a child process, then an uninterrupted resumed run into the same "
                     "directory: both endpoints nil, identical tree, and at most (unmarked chunks + one re-send per file) frames sent - finished work is not requested again.",
                note=BASE_TB + "Modelled not verified: process-kill semantics; sender and receiver die together in the child; 'advertised = on disk' is observed through the number of frames the resumed run sends."),
}
PENDING_REASON = "check not built yet in this round (design in DESIGN.md §4); not claimed until its theorem and tie exist"
NOT_APPLICABLE = {}

def main():
    checks = []
    for pid in ALL:
        if pid not in CLAIMED:
            continue
        c = CLAIMED[pid]
        checks.append({
            "property_id": pid,
            "quick_cmd": f"./check {pid} --tier quick",
            "thorough_cmd": f"./check {pid} --tier thorough",
            "evidence_file": f"/verif/evidence/{pid}.json",
            "replay_cmd_template": f"./check {pid} --replay {{path}}",
            "engine": "lean4-proof+correspondence",
            "level_claimed": {"category": c["category"], "text": c["text"], "design_ref": c["design"]},
            "level_note": c["note"],
            "technique": c["technique"],
        })
    na = [{"property_id": p, "reason": NOT_APPLICABLE.get(p, PENDING_REASON)} for p in ALL if p not in CLAIMED]
    m = {
        "version": 1,
        "setup_cmd": "./setup.sh",
        "hooks": {
            "guard": "verif",
            "enable": "go build -tags verif -overlay <generated json adding /verif/harness files under /repo/internal/zzverif/ and export shims>",
            "baseline_off_cmd": "cd /repo && GOFLAGS=-mod=mod GOPROXY=off go test -json -vet=off -count=1 -timeout 25m ./...",
            "source_commits": [l.strip() for l in open(os.path.join(V, "hooks_commits.txt"))] if os.path.exists(os.path.join(V, "hooks_commits.txt")) else [],
            "add_only": True,
        },
        "engines": [{"name": "lean4-proof+correspondence", "path": "/verif/check",
                     "serves_properties": [c["property_id"] for c in checks],
                     "kind_free_text": "Lean 4 theorems over regenerated + hand-written models; Go harness vs tvdriver differential; schedule/crash replay"}],
        "checks": checks,
        "not_applicable": na,
        "notes": "See DESIGN.md. Known findings: known_findings.json. Seeded breaking changes and which checks catch them: seeded/ and DESIGN.md §11.",
    }
    json.dump(m, open(os.path.join(V, "MANIFEST.json"), "w"), indent=1)
    print("checks:", [c["property_id"] for c in checks])

if __name__ == "__main__":
    main()
