#!/usr/bin/env python3
"""Prepare a seeding sub-agent's inputs: a scratch worktree of /repo and a prompt holding only the property text.
usage: seed_prep.py <round-tag> <prop-id> [hint...]   -> /tmp/<tag>-<id> (worktree), /tmp/<tag>-<id>-out/prompt.txt"""
import json
import os
import subprocess
import sys

tag, pid = sys.argv[1], sys.argv[2]
extra = " ".join(sys.argv[3:])
props = {json.loads(l)["id"]: json.loads(l) for l in open("/verif/properties.jsonl")}
p = props[pid]
wt, out = f"/tmp/{tag}-{pid}", f"/tmp/{tag}-{pid}-out"
subprocess.run(["git", "-C", "/repo", "worktree", "add", "-q", "--detach", wt, "HEAD"], check=True)
os.makedirs(out, exist_ok=True)
text = f"{pid}: {p['title']}\n{p['statement']}\nQuantifier: {p['quantifier']['text']}\n"
open(out + "/property.txt", "w").write(text)
prompt = f"""You are helping test a verification effort by writing a *seeded defect* for a Go project (samsungplay/Thruflux: a P2P file-transfer toolkit — signaling server `cmd/thruserv`, CLI `cmd/thru`, packages under `internal/` and `pkg/`).

Your private scratch git worktree of the repository is at: {wt}
Work ONLY inside that directory (and write your deliverables to {out}/). Never touch /repo or /verif, and do not read anything under /verif.

Go environment (offline sandbox) — use exactly this in every shell call:
  export GOFLAGS=-mod=mod GOPROXY=off
and nothing else (do NOT set GOSUMDB or GOTOOLCHAIN). `go build ./...` and `go test -vet=off -count=1 ./...` work offline. The first cold `go test` of internal/transfer may fail once under load; rerun it.

The property (a semantic property users rely on; it is supposed to hold on the current tree):

{text}

Your task: make a small source change to the repository (non-test .go files only) that BREAKS this property while
  (a) the project still compiles (`go build ./...`),
  (b) the whole existing test suite still passes unchanged (`go test -vet=off -count=1 ./...`), and
  (c) the breakage needs something specific to manifest — a particular interleaving or timing, a fault or crash at a particular point, a multi-step sequence of operations, an unusual input/configuration value, or two cooperating code sites that each look fine alone. It must NOT be something that ordinary use exposes at once (e.g. don't just make every transfer fail), and it should look like a plausible programming mistake or well-meant refactoring, not sabotage with an obvious marker. Do not add comments that announce the defect. Do not touch files under internal/verifhook or lines that call verifhook.* .
{extra}
Then write a demonstration: a Go test file (name it zz_seed_demo_test.go, placed in the package it tests) or small program that FAILS with your change and PASSES on the original source. Verify all of this yourself: build, full suite with the change, demo with the change (fails), demo with the change reverted via `git stash` / `git apply -R` (passes), then restore the change.

Deliverables, in {out}/ :
  - patch.diff     : `git diff` of your source change only (NOT the demo file), applying cleanly with `git apply` to the original tree
  - the demo test file (copy of it), e.g. zz_seed_demo_test.go
  - demo_cmd.txt   : one shell command line that runs the demo from the worktree root, e.g.  cd {wt} && export GOFLAGS=-mod=mod GOPROXY=off && go test -vet=off -count=1 -run 'TestSeedDemo' ./internal/xyz/
  - meta.json      : {{"property": "{pid}", "summary": "...what you changed and why it breaks the property...", "needs": "...what specific circumstances are needed for it to manifest...", "verified": "...exact commands you ran and what you observed...", "demo_file": "relative/path/in/repo/zz_seed_demo_test.go"}}

Leave the worktree with your change applied and the demo file present. Keep the change small (a few lines to a few dozen lines). Report briefly what you did when finished.
"""
open(out + "/prompt.txt", "w").write(prompt)
print(out + "/prompt.txt")
