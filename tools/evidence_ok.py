#!/usr/bin/env python3
"""exit 1 if a committed evidence file does not come from a clean run (violations, undischarged obligations)"""
import glob, json, sys
bad = []
for p in sorted(glob.glob('/verif/evidence/C*.json')):
    e = json.load(open(p))
    c = e.get("coverage", {})
    if e.get("violations") or c.get("obligations") != c.get("discharged"):
        bad.append(f"{p}: violations={e.get('violations')} {c.get('discharged')}/{c.get('obligations')}")
print("\n".join(bad) or "evidence ok")
sys.exit(1 if bad else 0)
