#!/usr/bin/env python3
"""tools/manifest_add.py <id> <json-file with text/technique/modelled/design_ref> : claim a property in MANIFEST.json"""
import json, sys
pid, spec = sys.argv[1], json.load(open(sys.argv[2]))
p = '/verif/MANIFEST.json'
m = json.load(open(p))
TRUST = ("Trusted: Lean 4.33.0 kernel; axioms limited to propext/Classical.choice/Quot.sound (audited per theorem each run; no sorry, "
         "native_decide, bv_decide or own axioms); xlate (Go->Lean translator, validated each run by evaluating generated definitions against "
         "the real functions); the Go harness, tvdriver line protocol and Python orchestrator. Modelled not verified: ")
chk = {
    "property_id": pid,
    "quick_cmd": f"./check {pid} --tier quick",
    "thorough_cmd": f"./check {pid} --tier thorough",
    "evidence_file": f"/verif/evidence/{pid}.json",
    "replay_cmd_template": f"./check {pid} --replay {{path}}",
    "engine": "lean4-proof+correspondence",
    "level_claimed": {"category": spec.get("category", "proof"), "text": spec["text"], "design_ref": spec.get("design_ref", f"DESIGN.md §4 {pid}")},
    "level_note": TRUST + spec["modelled"],
    "technique": spec["technique"],
}
m["checks"] = [c for c in m["checks"] if c["property_id"] != pid] + [chk]
m["checks"].sort(key=lambda c: c["property_id"])
m["not_applicable"] = [n for n in m.get("not_applicable", []) if n["property_id"] != pid]
for e in m["engines"]:
    if pid not in e["serves_properties"]:
        e["serves_properties"].append(pid)
        e["serves_properties"].sort()
json.dump(m, open(p, "w"), indent=1)
print("claimed", pid)
