#!/usr/bin/env python3
"""tools/seed.py <name> <agent-out-dir> <property> [check ids...]
Confirms a seeded breaking change in a fresh scratch worktree (compiles, existing suite passes, demo
fails with / passes without), stores it under /verif/seeded/<name>/, then applies it to /repo, runs the
given checks (default: the property's), reverts, and records which checks caught it."""
import json, os, shutil, subprocess, sys, glob, time

V = os.path.dirname(os.path.dirname(os.path.abspath(__file__)))
ENV = dict(os.environ, GOFLAGS="-mod=mod", GOPROXY="off")
ENV.pop("GOSUMDB", None); ENV.pop("GOTOOLCHAIN", None)


def sh(cmd, cwd=None, timeout=1500):
    p = subprocess.run(cmd, shell=True, cwd=cwd, env=ENV, stdout=subprocess.PIPE, stderr=subprocess.STDOUT, timeout=timeout)
    return p.returncode, p.stdout.decode("utf-8", "replace")


def main():
    name, out, prop = sys.argv[1], sys.argv[2], sys.argv[3]
    checks = [prop] + [c for c in sys.argv[4:] if c != prop]
    dst = os.path.join(V, "seeded", name)
    os.makedirs(dst, exist_ok=True)
    patch = os.path.join(out, "patch.diff")
    demos = [f for f in glob.glob(os.path.join(out, "*")) if f.endswith("_test.go") or f.endswith(".go")]
    meta = json.load(open(os.path.join(out, "meta.json"))) if os.path.exists(os.path.join(out, "meta.json")) else {}
    demo_cmd = open(os.path.join(out, "demo_cmd.txt")).read().strip() if os.path.exists(os.path.join(out, "demo_cmd.txt")) else ""
    if not demo_cmd and meta.get("demo_cmd"):
        demo_cmd = meta["demo_cmd"]
    wt = f"/tmp/cs-{name}"
    sh(f"git -C /repo worktree remove --force {wt}")
    rc, o = sh(f"git -C /repo worktree add -q --detach {wt} HEAD")
    res = {}
    try:
        rc, o = sh(f"git apply {patch}", cwd=wt); res["patch_applies"] = rc == 0
        rc, o = sh("go build ./...", cwd=wt); res["builds"] = rc == 0
        rc, o = sh("go test -vet=off -count=1 ./... 2>&1 | grep -v 'no test files' | tail -25", cwd=wt)
        res["suite_passes_with_change"] = ("FAIL" not in o) and rc == 0
        res["suite_tail"] = o[-600:]
        # demo: find where the agent put it (same relative path as in its worktree)
        agent_wt = out.replace("-out", "")
        placed = []
        for d in demos:
            base = os.path.basename(d)
            rc, found = sh(f"find {agent_wt} -name {base} -not -path '*/.git/*' | head -1")
            rel = os.path.relpath(found.strip(), agent_wt) if found.strip() else (meta.get("demo_file") or os.path.join("internal/transfer", base))
            shutil.copy(d, os.path.join(wt, rel)); placed.append(rel)
            shutil.copy(d, os.path.join(dst, base))
        cmd = demo_cmd.replace(agent_wt, wt).replace("<worktree>", wt)
        if "cd " not in cmd:
            cmd = f"cd {wt} && {cmd}"
        rc1, o1 = sh(cmd, cwd=wt); res["demo_fails_with_change"] = rc1 != 0
        sh(f"git apply -R {patch}", cwd=wt)
        rc2, o2 = sh(cmd, cwd=wt); res["demo_passes_without_change"] = rc2 == 0
        res["demo_cmd"] = cmd.replace(wt, "<worktree>")
        res["demo_output_with_change"] = o1[-500:]
    finally:
        sh(f"git -C /repo worktree remove --force {wt}")
    shutil.copy(patch, os.path.join(dst, "patch.diff"))
    # run the checks against /repo with the change applied
    caught = {}
    rc, o = sh(f"git -C /repo status --porcelain")
    if o.strip():
        print("REPO DIRTY, not applying"); sys.exit(2)
    rc, o = sh(f"git -C /repo apply {patch}")
    try:
        for c in checks:
            t0 = time.time()
            rc, o = sh(f"timeout 1500 ./check {c} --tier quick", cwd=V)
            lines = [l for l in o.splitlines() if l.startswith("VIOLATION") or l.startswith("KNOWN-FINDING")]
            sig = None
            if lines and "replay=" in lines[0]:
                rp = lines[0].split("replay=")[1].split()[0]
                try:
                    r = json.load(open(rp)); sig = {"signature": r.get("signature"), "what": r.get("what"), "kind": r.get("kind"), "broken": r.get("broken", [])[:6]}
                except Exception:
                    pass
            caught[c] = {"exit": rc, "violation_lines": lines[:3], "first_replay": sig, "wall_s": round(time.time() - t0, 1)}
    finally:
        sh("git -C /repo checkout -- .")
        sh("git -C /repo clean -fdq internal cmd pkg")
    meta_out = {"name": name, "property": prop, "agent_meta": meta, "confirmed": res, "checks_run": caught,
                "caught_by": [c for c, v in caught.items() if v["exit"] == 1 and v["violation_lines"]]}
    json.dump(meta_out, open(os.path.join(dst, "meta.json"), "w"), indent=1)
    print(json.dumps({k: v for k, v in res.items() if k not in ("suite_tail", "demo_output_with_change")}, indent=1))
    print("caught_by:", meta_out["caught_by"], {c: v["first_replay"] for c, v in caught.items()})
    # restore evidence of the unchanged tree for the checks we disturbed
    for c in checks:
        sh(f"timeout 1500 ./check {c} --tier quick", cwd=V)


if __name__ == "__main__":
    main()
