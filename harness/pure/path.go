//go:build verif

package main

import (
	"errors"
	"path/filepath"

	"github.com/sheerbytes/sheerbytes/internal/transfer"
)

func init() {
	handlers["clean"] = func(a []string) string { return path1(a, func(p string) string { return hx([]byte(filepath.Clean(p))) }) }
	handlers["dir"] = func(a []string) string { return path1(a, func(p string) string { return hx([]byte(filepath.Dir(p))) }) }
	handlers["isabs"] = func(a []string) string { return path1(a, func(p string) string { return b01(filepath.IsAbs(p)) }) }
	handlers["vrel"] = func(a []string) string {
		return path1(a, func(p string) string { return verr(transfer.VerifValidateRelPath(p)) })
	}
	handlers["vname"] = func(a []string) string {
		return path1(a, func(p string) string { return verr(transfer.VerifValidateFilename(p)) })
	}
	handlers["join"] = func(a []string) string {
		if len(a) != 2 {
			return "bad-op"
		}
		x, ok1 := unhex(a[0])
		y, ok2 := unhex(a[1])
		if !ok1 || !ok2 {
			return "bad-op"
		}
		return hx([]byte(filepath.Join(string(x), string(y))))
	}
}

func path1(a []string, f func(string) string) string {
	if len(a) != 1 {
		return "bad-op"
	}
	p, ok := unhex(a[0])
	if !ok {
		return "bad-op"
	}
	return f(string(p))
}

func verr(err error) string {
	switch {
	case err == nil:
		return "ok"
	case errors.Is(err, transfer.VerifErrRelPathTooLong), errors.Is(err, transfer.ErrFilenameTooLong):
		return "toolong"
	default:
		return "invalid"
	}
}
