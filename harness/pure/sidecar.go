//go:build verif

package main

import (
	"fmt"
	"os"
	"path/filepath"
	"strconv"

	"github.com/sheerbytes/sheerbytes/internal/transfer"
)

func init() {
	handlers["scparse"] = scParse
	handlers["scser"] = scSer
	handlers["scload"] = scLoad
}

func scParse(a []string) string {
	if len(a) != 1 {
		return "bad-op"
	}
	d, ok := unhex(a[0])
	if !ok {
		return "bad-op"
	}
	dir, _ := os.MkdirTemp("", "vsc")
	defer os.RemoveAll(dir)
	p := filepath.Join(dir, "x.sbxmap")
	os.WriteFile(p, d, 0o644)
	s, err := transfer.LoadSidecar(p)
	if err != nil {
		return "err"
	}
	return fmt.Sprintf("ok %s %d %d %d %s", hx([]byte(s.FileID)), s.FileSize, s.ChunkSize, s.TotalChunks, hx(s.MarshalBitmap()))
}

// scser <fid> <size> <chunk> <bitmaphex>: CreateSidecar, mark the given bits, Flush, return the file bytes
func scSer(a []string) string {
	if len(a) != 4 {
		return "bad-op"
	}
	fid, ok1 := unhex(a[0])
	fs, e2 := strconv.ParseInt(a[1], 10, 64)
	cs, e3 := strconv.ParseUint(a[2], 10, 32)
	bm, ok4 := unhex(a[3])
	if !ok1 || e2 != nil || e3 != nil || !ok4 {
		return "bad-op"
	}
	dir, _ := os.MkdirTemp("", "vsc")
	defer os.RemoveAll(dir)
	p := filepath.Join(dir, "x.sbxmap")
	s, err := transfer.CreateSidecar(p, string(fid), fs, uint32(cs))
	if err != nil {
		return "err:" + err.Error()
	}
	for i := 0; i < len(bm)*8; i++ {
		if bm[i/8]&(1<<uint(i%8)) != 0 {
			s.MarkComplete(uint32(i))
		}
	}
	if err := s.Flush(); err != nil {
		return "err:" + err.Error()
	}
	b, _ := os.ReadFile(p)
	return hx(b)
}

func scLoad(a []string) string {
	if len(a) != 4 {
		return "bad-op"
	}
	fid, ok1 := unhex(a[1])
	fs, e2 := strconv.ParseInt(a[2], 10, 64)
	cs, e3 := strconv.ParseUint(a[3], 10, 32)
	if !ok1 || e2 != nil || e3 != nil {
		return "bad-op"
	}
	dir, _ := os.MkdirTemp("", "vsc")
	defer os.RemoveAll(dir)
	p := filepath.Join(dir, ".thruflux_resumedata", "x.sbxmap")
	os.MkdirAll(filepath.Dir(p), 0o755)
	had := false
	if a[0] != "none" {
		d, ok := unhex(a[0])
		if !ok {
			return "bad-op"
		}
		os.WriteFile(p, d, 0o644)
		had = true
	}
	before, _ := os.ReadFile(p)
	s, err := transfer.LoadOrCreateSidecarWithFallback(p, "", string(fid), fs, uint32(cs))
	if err != nil {
		return "err:" + err.Error()
	}
	// "use" iff the file on disk is still the one we put there
	after, _ := os.ReadFile(p)
	kind := "fresh"
	if had && string(before) == string(after) && len(before) > 0 {
		// loaded and kept (a fresh one would have been rewritten by CreateSidecar)
		if l, e := transfer.LoadSidecar(p); e == nil && l.FileID == string(fid) && l.FileSize == fs && l.ChunkSize == uint32(cs) {
			kind = "use"
		}
	}
	return kind + " " + hx(s.MarshalBitmap())
}
