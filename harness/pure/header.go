//go:build verif

package main

import (
	"bytes"
	"fmt"
	"reflect"
	"strconv"

	"github.com/sheerbytes/sheerbytes/internal/transfer"
	"github.com/sheerbytes/sheerbytes/pkg/manifest"
)

func init() { handlers["hdrrt"] = hdrRoundTrip }

// hdrrt <root hex> (<rel hex> <size> <0|1 dir> <id hex>)*   followed by one FileEnd record:
// the real writeControlHeader, then the real readControlHeader and readControlMessage on the same bytes.
// prints "same <consumed>/<written>" or "differs <what>" or "err <kind>"
func hdrRoundTrip(a []string) string {
	if len(a) < 1 || (len(a)-1)%4 != 0 {
		return "bad-op"
	}
	root, ok := unhex(a[0])
	if !ok {
		return "bad-op"
	}
	m := manifest.Manifest{Root: string(root)}
	for i := 1; i < len(a); i += 4 {
		rel, ok1 := unhex(a[i])
		size, e2 := strconv.ParseInt(a[i+1], 10, 64)
		id, ok4 := unhex(a[i+3])
		if !ok1 || e2 != nil || !ok4 {
			return "bad-op"
		}
		it := manifest.FileItem{RelPath: string(rel), Size: size, IsDir: a[i+2] == "1", ID: string(id)}
		m.Items = append(m.Items, it)
		if it.IsDir {
			m.FolderCount++
		} else {
			m.FileCount++
			m.TotalBytes += size
		}
	}
	w := &bufStream{r: bytes.NewReader(nil)}
	if err := transfer.VerifWriteControlHeader(w, m); err != nil {
		return "err write:" + errKind(err)
	}
	hdrLen := w.w.Len()
	if err := transfer.VerifWriteFileEnd(w, transfer.FileEnd{StreamID: 77, CRC32: 5}); err != nil {
		return "err write-end:" + errKind(err)
	}
	r := &bufStream{r: bytes.NewReader(w.w.Bytes())}
	got, err := transfer.VerifReadControlHeader(r)
	if err != nil {
		return "err read:" + errKind(err)
	}
	consumed := w.w.Len() - r.r.Len()
	if consumed != hdrLen {
		return fmt.Sprintf("differs consumed %d of %d header bytes", consumed, hdrLen)
	}
	if _, next, err := transfer.VerifReadControlMessage(r); err != nil || !reflect.DeepEqual(next, transfer.FileEnd{StreamID: 77, CRC32: 5}) {
		return "differs the record behind the header"
	}
	if got.Root != m.Root {
		return fmt.Sprintf("differs root %q decoded as %q", m.Root, got.Root)
	}
	if len(got.Items) != len(m.Items) {
		return fmt.Sprintf("differs %d items decoded as %d", len(m.Items), len(got.Items))
	}
	for i := range m.Items {
		if got.Items[i] != m.Items[i] {
			return fmt.Sprintf("differs item %d: %q (size %d) decoded as %q (size %d)", i, m.Items[i].RelPath, m.Items[i].Size, got.Items[i].RelPath, got.Items[i].Size)
		}
	}
	if got.FileCount != m.FileCount || got.FolderCount != m.FolderCount || got.TotalBytes != m.TotalBytes {
		return "differs counts"
	}
	return fmt.Sprintf("same %d/%d", consumed, hdrLen)
}
