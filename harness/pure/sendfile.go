//go:build verif

package main

import (
	"fmt"
	"strconv"
	"strings"
	"time"

	"github.com/sheerbytes/sheerbytes/internal/scheduler"
	"github.com/sheerbytes/sheerbytes/internal/transfer"
)

func init() {
	handlers["sf"] = sfCmd
	handlers["sched"] = schedCmd
}

func b01(b bool) string {
	if b {
		return "1"
	}
	return "0"
}

// sf <total> <op>...   ops: t f e v k m:<c> p:<bits>:<forceFrom>
func sfCmd(a []string) string {
	if len(a) < 1 {
		return "bad-op"
	}
	total, err := strconv.ParseUint(a[0], 10, 32)
	if err != nil {
		return "bad-op"
	}
	st := transfer.VerifNewSendState(uint32(total), 4)
	var out []string
	verifying := false // a verification goroutine is running (between an accepted beginVerify and its verdict)
	for _, op := range a[1:] {
		f := strings.Split(op, ":")
		switch {
		case op == "t":
			idx, _, ok := st.Take()
			if ok {
				out = append(out, fmt.Sprintf("c%d", idx))
			} else {
				out = append(out, "n")
			}
		case op == "f":
			if st.Finish() {
				out = append(out, "E")
			} else {
				out = append(out, "-")
			}
		case op == "e":
			if st.TryEnd() {
				out = append(out, "E")
			} else {
				out = append(out, "-")
			}
		case op == "v":
			// the sender starts the verification goroutine only when beginVerify accepted
			if st.VerifyBegin() {
				verifying = true
				out = append(out, "-")
			} else {
				out = append(out, "x")
			}
		case op == "k":
			if !verifying {
				out = append(out, "x") // no verification goroutine exists: nobody delivers a verdict
				break
			}
			verifying = false
			st.Verdict(false, 0)
			out = append(out, "-")
		case f[0] == "m" && len(f) == 2:
			c, err := strconv.ParseUint(f[1], 10, 32)
			if err != nil {
				return "bad-op"
			}
			if !verifying {
				out = append(out, "x")
				break
			}
			verifying = false
			st.Verdict(true, uint32(c))
			out = append(out, "-")
		case f[0] == "p" && len(f) == 3:
			ff, err := strconv.ParseUint(f[2], 10, 32)
			if err != nil {
				return "bad-op"
			}
			bits := make([]bool, len(f[1]))
			for i, ch := range f[1] {
				bits[i] = ch == '1'
			}
			st.ApplyPlan(bits, uint32(ff))
			out = append(out, "-")
		default:
			return "bad-op"
		}
	}
	n, inf, sd, es, vp, rp, rc := st.Dump()
	return strings.Join(out, " ") + fmt.Sprintf(" | %d %d %s %s %s %s %d", n, inf, b01(sd), b01(es), b01(vp), b01(rp), rc)
}

// sched <smallThr> <parallel> a:<key>:<remaining> | n | r:<key> | t:<ms>
// prints, per op, "-" or the key chosen ("n:<k>" / "n:none") so that the orchestrator can hand the
// choices to the model.
func schedCmd(a []string) string {
	if len(a) < 2 {
		return "bad-op"
	}
	thr, e1 := strconv.ParseInt(a[0], 10, 64)
	par, e2 := strconv.Atoi(a[1])
	if e1 != nil || e2 != nil {
		return "bad-op"
	}
	s := scheduler.NewHybridScheduler(scheduler.PolicyConfig{ParallelFiles: par, SmallThreshold: thr, MediumThreshold: thr * 16})
	now := time.Unix(1700000000, 0)
	keyOf := func(k uint64) scheduler.FileKey { return scheduler.FileKey{StreamID: k, RelPath: fmt.Sprintf("f%06d", k)} }
	var out []string
	for _, op := range a[2:] {
		f := strings.Split(op, ":")
		switch f[0] {
		case "a":
			k, _ := strconv.ParseUint(f[1], 10, 64)
			r, _ := strconv.ParseInt(f[2], 10, 64)
			s.Add(keyOf(k), scheduler.FileMeta{Size: r, Remaining: r, AddedAt: now})
			out = append(out, "-")
		case "r":
			k, _ := strconv.ParseUint(f[1], 10, 64)
			s.Remove(keyOf(k))
			out = append(out, "-")
		case "t": // the clock advances (aging looks at it)
			ms, _ := strconv.ParseInt(f[1], 10, 64)
			now = now.Add(time.Duration(ms) * time.Millisecond)
			out = append(out, "-")
		case "n":
			key, ok := s.Next(now)
			if ok {
				out = append(out, fmt.Sprintf("n:%d", key.StreamID))
			} else {
				out = append(out, "n:none")
			}
		default:
			return "bad-op"
		}
	}
	return strings.Join(out, " ")
}
