//go:build verif

package main

import (
	"bytes"
	"encoding/hex"
	"errors"
	"fmt"
	"io"
	"runtime"
	"strconv"
	"strings"

	"github.com/sheerbytes/sheerbytes/internal/transfer"
)

func init() {
	handlers["enc"] = encCmd
	handlers["dec"] = decCmd
	handlers["decall"] = decAllCmd
	handlers["encfail"] = encFailCmd
}

// failStream refuses every write (a peer that has gone away)
type failStream struct{}

func (failStream) Read(p []byte) (int, error)  { return 0, io.EOF }
func (failStream) Write(p []byte) (int, error) { return 0, errors.New("write: broken pipe") }
func (failStream) Close() error                { return nil }

func writeRec(s transfer.Stream, m any) error {
	switch x := m.(type) {
	case transfer.FileBegin:
		return transfer.VerifWriteFileBegin(s, x)
	case transfer.Credit:
		return transfer.VerifWriteCredit(s, x)
	case transfer.CreditBatch:
		return transfer.VerifWriteCreditBatch(s, x)
	case transfer.FileEnd:
		return transfer.VerifWriteFileEnd(s, x)
	case transfer.FileDone:
		return transfer.VerifWriteFileDone(s, x)
	case transfer.FileResumeInfo:
		return transfer.VerifWriteFileResumeInfo(s, x)
	case transfer.ResumeRequest:
		return transfer.VerifWriteResumeRequest(s, x)
	case transfer.DataStreams:
		return transfer.VerifWriteDataStreams(s, x)
	case nil:
		return transfer.VerifWriteControlEnd(s)
	}
	return errors.New("unknown record")
}

// encfail <rec A> | <rec B> | <rec C> ... : A is written to a stream that refuses the write (twice, on two goroutine-free calls),
// then B, C ... are written to a healthy stream; prints the bytes that stream received. An encoder must not carry anything over
// from the failed write.
func encFailCmd(a []string) string {
	var recs [][]string
	cur := []string{}
	for _, w := range a {
		if w == "|" {
			recs = append(recs, cur)
			cur = []string{}
		} else {
			cur = append(cur, w)
		}
	}
	recs = append(recs, cur)
	if len(recs) < 2 {
		return "bad-op"
	}
	first, ok := parseRec(recs[0])
	if !ok {
		return "bad-op"
	}
	_ = writeRec(failStream{}, first)
	_ = writeRec(failStream{}, first)
	s := &bufStream{r: bytes.NewReader(nil)}
	for _, r := range recs[1:] {
		m, ok := parseRec(r)
		if !ok {
			return "bad-op"
		}
		if err := writeRec(s, m); err != nil {
			return "err " + errKind(err)
		}
	}
	return hx(s.w.Bytes())
}

// bufStream is an in-memory transfer.Stream: reads from r until it ends, collects writes in w.
type bufStream struct {
	r *bytes.Reader
	w bytes.Buffer
}

func (s *bufStream) Read(p []byte) (int, error)  { return s.r.Read(p) }
func (s *bufStream) Write(p []byte) (int, error) { return s.w.Write(p) }
func (s *bufStream) Close() error                { return nil }

func unhex(s string) ([]byte, bool) {
	if s == "-" {
		return []byte{}, true
	}
	b, err := hex.DecodeString(s)
	return b, err == nil
}

func hx(b []byte) string {
	if len(b) == 0 {
		return "-"
	}
	return hex.EncodeToString(b)
}

func u(s string, bits int) (uint64, bool) {
	v, err := strconv.ParseUint(s, 10, bits)
	return v, err == nil
}

func parseRec(a []string) (any, bool) {
	if len(a) == 0 {
		return nil, false
	}
	switch a[0] {
	case "FB":
		if len(a) != 10 {
			return nil, false
		}
		p, ok := unhex(a[1])
		if !ok {
			return nil, false
		}
		var n [8]uint64
		bits := []int{64, 32, 64, 8, 16, 16, 32, 32}
		for i := 0; i < 8; i++ {
			v, ok := u(a[2+i], bits[i])
			if !ok {
				return nil, false
			}
			n[i] = v
		}
		return transfer.FileBegin{RelPath: string(p), FileSize: n[0], ChunkSize: uint32(n[1]), StreamID: n[2], HashAlg: byte(n[3]),
			StripeIndex: uint16(n[4]), StripeCount: uint16(n[5]), StripeStart: uint32(n[6]), StripeChunks: uint32(n[7])}, true
	case "CR":
		if len(a) != 3 {
			return nil, false
		}
		x, ok1 := u(a[1], 64)
		y, ok2 := u(a[2], 32)
		return transfer.Credit{StreamID: x, Credits: uint32(y)}, ok1 && ok2
	case "CB":
		if len(a) < 2 {
			return nil, false
		}
		n, ok := u(a[1], 32)
		if !ok || len(a) != 2+2*int(n) {
			return nil, false
		}
		var es []transfer.Credit
		for i := 0; i < int(n); i++ {
			x, ok1 := u(a[2+2*i], 64)
			y, ok2 := u(a[3+2*i], 32)
			if !ok1 || !ok2 {
				return nil, false
			}
			es = append(es, transfer.Credit{StreamID: x, Credits: uint32(y)})
		}
		return transfer.CreditBatch{Entries: es}, true
	case "FE":
		if len(a) != 3 {
			return nil, false
		}
		x, ok1 := u(a[1], 64)
		y, ok2 := u(a[2], 32)
		return transfer.FileEnd{StreamID: x, CRC32: uint32(y)}, ok1 && ok2
	case "FD":
		if len(a) != 4 {
			return nil, false
		}
		x, ok1 := u(a[1], 64)
		e, ok2 := unhex(a[3])
		return transfer.FileDone{StreamID: x, OK: a[2] == "1", ErrMsg: string(e)}, ok1 && ok2 && (a[2] == "0" || a[2] == "1")
	case "RI":
		if len(a) != 7 {
			return nil, false
		}
		f, ok1 := unhex(a[1])
		sid, ok2 := u(a[2], 64)
		tot, ok3 := u(a[3], 32)
		bm, ok4 := unhex(a[4])
		lc, ok5 := u(a[5], 32)
		lh, ok6 := u(a[6], 64)
		if len(bm) == 0 {
			bm = nil
		}
		return transfer.FileResumeInfo{FileID: string(f), StreamID: sid, TotalChunks: uint32(tot), Bitmap: bm, LastVerifiedChunk: uint32(lc), LastVerifiedHash: lh},
			ok1 && ok2 && ok3 && ok4 && ok5 && ok6
	case "RQ":
		if len(a) != 3 {
			return nil, false
		}
		f, ok1 := unhex(a[1])
		sid, ok2 := u(a[2], 64)
		return transfer.ResumeRequest{FileID: string(f), StreamID: sid}, ok1 && ok2
	case "DS":
		if len(a) != 2 {
			return nil, false
		}
		c, ok := u(a[1], 16)
		return transfer.DataStreams{Count: uint16(c)}, ok
	case "EN":
		return nil, len(a) == 1
	}
	return nil, false
}

func showRec(typ byte, m any) string {
	switch x := m.(type) {
	case transfer.FileBegin:
		return fmt.Sprintf("FB %s %d %d %d %d %d %d %d %d", hx([]byte(x.RelPath)), x.FileSize, x.ChunkSize, x.StreamID, x.HashAlg, x.StripeIndex, x.StripeCount, x.StripeStart, x.StripeChunks)
	case transfer.Credit:
		return fmt.Sprintf("CR %d %d", x.StreamID, x.Credits)
	case transfer.CreditBatch:
		var b strings.Builder
		fmt.Fprintf(&b, "CB %d", len(x.Entries))
		for _, e := range x.Entries {
			fmt.Fprintf(&b, " %d %d", e.StreamID, e.Credits)
		}
		return b.String()
	case transfer.FileEnd:
		return fmt.Sprintf("FE %d %d", x.StreamID, x.CRC32)
	case transfer.FileDone:
		ok := "0"
		if x.OK {
			ok = "1"
		}
		return fmt.Sprintf("FD %d %s %s", x.StreamID, ok, hx([]byte(x.ErrMsg)))
	case transfer.FileResumeInfo:
		return fmt.Sprintf("RI %s %d %d %s %d %d", hx([]byte(x.FileID)), x.StreamID, x.TotalChunks, hx(x.Bitmap), x.LastVerifiedChunk, x.LastVerifiedHash)
	case transfer.ResumeRequest:
		return fmt.Sprintf("RQ %s %d", hx([]byte(x.FileID)), x.StreamID)
	case transfer.DataStreams:
		return fmt.Sprintf("DS %d", x.Count)
	case nil:
		if typ == 0xFF {
			return "EN"
		}
	}
	return fmt.Sprintf("?%T", m)
}

func errKind(err error) string {
	switch {
	case errors.Is(err, transfer.VerifErrInvalidRecordType):
		return "badtag"
	case errors.Is(err, transfer.VerifErrRelPathTooLong):
		return "toolong"
	case errors.Is(err, transfer.VerifErrInvalidRelPath):
		return "invalid"
	case errors.Is(err, io.ErrUnexpectedEOF):
		return "ueof"
	case errors.Is(err, io.EOF):
		return "eof"
	}
	return "other:" + strings.ReplaceAll(err.Error(), " ", "_")
}

func encCmd(a []string) string {
	m, ok := parseRec(a)
	if !ok {
		return "bad-op"
	}
	s := &bufStream{r: bytes.NewReader(nil)}
	var err error
	switch x := m.(type) {
	case transfer.FileBegin:
		err = transfer.VerifWriteFileBegin(s, x)
	case transfer.Credit:
		err = transfer.VerifWriteCredit(s, x)
	case transfer.CreditBatch:
		err = transfer.VerifWriteCreditBatch(s, x)
	case transfer.FileEnd:
		err = transfer.VerifWriteFileEnd(s, x)
	case transfer.FileDone:
		err = transfer.VerifWriteFileDone(s, x)
	case transfer.FileResumeInfo:
		err = transfer.VerifWriteFileResumeInfo(s, x)
	case transfer.ResumeRequest:
		err = transfer.VerifWriteResumeRequest(s, x)
	case transfer.DataStreams:
		err = transfer.VerifWriteDataStreams(s, x)
	case nil:
		err = transfer.VerifWriteControlEnd(s)
	}
	if err != nil {
		return "err " + errKind(err)
	}
	return hx(s.w.Bytes())
}

func decodeOne(s *bufStream) (string, bool, uint64) {
	var m0, m1 runtime.MemStats
	runtime.ReadMemStats(&m0)
	typ, msg, err := transfer.VerifReadControlMessage(s)
	runtime.ReadMemStats(&m1)
	alloc := m1.TotalAlloc - m0.TotalAlloc
	if err != nil {
		return "err " + errKind(err), false, alloc
	}
	return showRec(typ, msg), true, alloc
}

func decCmd(a []string) string {
	if len(a) != 1 {
		return "bad-op"
	}
	b, ok := unhex(a[0])
	if !ok {
		return "bad-op"
	}
	s := &bufStream{r: bytes.NewReader(b)}
	out, good, alloc := decodeOne(s)
	if !good {
		return fmt.Sprintf("%s alloc=%d", out, alloc)
	}
	return fmt.Sprintf("ok %s consumed=%d alloc=%d", out, len(b)-s.r.Len(), alloc)
}

func decAllCmd(a []string) string {
	if len(a) != 1 {
		return "bad-op"
	}
	b, ok := unhex(a[0])
	if !ok {
		return "bad-op"
	}
	s := &bufStream{r: bytes.NewReader(b)}
	// decode the whole sequence first and look at the records only afterwards: a decoder that hands out memory it reuses for
	// a later record shows up as an earlier record changing
	type rec struct {
		typ byte
		msg any
	}
	var recs []rec
	tail := ""
	for i := 0; i <= len(b); i++ {
		typ, msg, err := transfer.VerifReadControlMessage(s)
		if err != nil {
			tail = "err " + errKind(err)
			break
		}
		recs = append(recs, rec{typ, msg})
	}
	var parts []string
	for _, r := range recs {
		parts = append(parts, showRec(r.typ, r.msg))
	}
	if tail != "" {
		parts = append(parts, tail)
	}
	return strings.Join(parts, " | ")
}
