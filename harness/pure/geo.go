//go:build verif

package main

import (
	"fmt"
	"os"
	"path/filepath"
	"strconv"

	"github.com/sheerbytes/sheerbytes/internal/transfer"
)

func init() { handlers["geo"] = geo }

// geo <size> <chunk> <idx> <sidecar?>  ->  <chunkTotal> <chunkSizeForIndex> <CreateSidecar.TotalChunks | ->
func geo(a []string) string {
	if len(a) != 4 {
		return "bad-op"
	}
	size, e1 := strconv.ParseInt(a[0], 10, 64)
	c, e2 := strconv.ParseUint(a[1], 10, 32)
	idx, e3 := strconv.ParseUint(a[2], 10, 32)
	if e1 != nil || e2 != nil || e3 != nil {
		return "bad-op"
	}
	total := transfer.VerifChunkTotal(size, uint32(c))
	ln := transfer.VerifChunkSizeForIndex(size, uint32(c), uint32(idx))
	sc := "-"
	if a[3] == "1" {
		dir, err := os.MkdirTemp("", "vgeo")
		if err != nil {
			return "err:" + err.Error()
		}
		defer os.RemoveAll(dir)
		s, err := transfer.CreateSidecar(filepath.Join(dir, "x.sbxmap"), "id", size, uint32(c))
		if err != nil {
			return "err:" + err.Error()
		}
		// what is on disk is what counts: reload
		l, err := transfer.LoadSidecar(s.Path)
		if err != nil {
			return "err:" + err.Error()
		}
		sc = fmt.Sprint(l.TotalChunks)
	}
	return fmt.Sprintf("%d %d %s", total, ln, sc)
}
