//go:build verif

package main

import (
	"fmt"
	"strconv"

	"github.com/sheerbytes/sheerbytes/internal/app"
	"github.com/sheerbytes/sheerbytes/internal/transfer"
)

func init() { handlers["budget"] = budgetCmd }

// budget <files> <requested> <conns> -> <total> <perConn> <normalized>
func budgetCmd(a []string) string {
	if len(a) != 3 {
		return "bad-op"
	}
	f, e1 := strconv.Atoi(a[0])
	r, e2 := strconv.Atoi(a[1])
	c, e3 := strconv.Atoi(a[2])
	if e1 != nil || e2 != nil || e3 != nil {
		return "bad-op"
	}
	t, per := app.VerifComputeParallelBudget(f, r, c, c > 1)
	n := transfer.NormalizeParams(transfer.RuntimeParams{ParallelFiles: t}, transfer.Options{})
	return fmt.Sprintf("%d %d %d", t, per, n.ParallelFiles)
}
