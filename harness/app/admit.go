//go:build verif

package main

import (
	"context"
	"errors"
	"fmt"
	"sort"
	"strconv"
	"strings"
	"sync"
	"time"

	"github.com/sheerbytes/sheerbytes/internal/app"
	"github.com/sheerbytes/sheerbytes/internal/verifhook"
)

func init() { handlers["adm"] = admCmd }

type stubRun struct {
	peer            string
	gen             int
	ctx             context.Context
	cancelledAtBirth bool
	release         chan error
	returned        bool
}

// adm <max> <ttl> ev...   events: j:<p> a:<p> l:<p> f:<p>#<n>:<0|1> t:<dt>
// After every event prints  q=[..] a=[..] s={p:STATUS,..} r=[gen:peer:cancelled,..]
var admSeq int

func admCmd(a []string) string {
	if len(a) < 2 {
		return "bad-op"
	}
	admSeq++
	prefix := fmt.Sprintf("L%d.", admSeq) // peers of this line get unique internal names
	in := func(p string) string { return prefix + p }
	ex := func(p string) string { return strings.TrimPrefix(p, prefix) }
	max, e1 := strconv.Atoi(a[0])
	ttl, e2 := strconv.Atoi(a[1])
	if e1 != nil || e2 != nil {
		return "bad-op"
	}
	var mu sync.Mutex
	cond := sync.NewCond(&mu)
	clock := int64(1000)
	var runs []*stubRun
	returned := 0
	fn := func(ctx context.Context, peer string) error {
		mu.Lock()
		n := 0
		for _, o := range runs {
			if o.peer == peer {
				n++
			}
		}
		r := &stubRun{peer: peer, gen: n, ctx: ctx, cancelledAtBirth: ctx.Err() != nil, release: make(chan error, 1)}
		runs = append(runs, r)
		cond.Broadcast()
		mu.Unlock()
		return <-r.release
	}
	verifhook.Set(func(name string, _ []uint64, s string) {
		if name == "app.runTransfer.returned" && strings.HasPrefix(s, prefix) {
			mu.Lock()
			returned++
			cond.Broadcast()
			mu.Unlock()
		}
	})
	defer verifhook.Set(nil)
	s := app.VerifNewSender(max, time.Duration(ttl)*time.Second, func() time.Time {
		mu.Lock()
		defer mu.Unlock()
		return time.Unix(clock, 0)
	}, fn)
	bg := context.Background()
	wantReturned := 0
	// settle: every active slot has a registered stub run, and every released run has fully returned
	settle := func() bool {
		deadline := time.Now().Add(300 * time.Millisecond)
		for {
			_, active, _ := s.Snapshot()
			mu.Lock()
			live := map[string]int{}
			weak := map[string]int{}
			for _, r := range runs {
				if !r.returned {
					weak[r.peer]++
					if r.ctx.Err() == nil {
						live[r.peer]++
					}
				}
			}
			ok := returned == wantReturned
			for _, p := range active {
				if live[p] == 0 {
					ok = false
				}
			}
			mu.Unlock()
			if ok {
				return true
			}
			if time.Now().After(deadline) {
				// a slot whose context was cancelled at birth (a defect) never satisfies the strict test
				for _, p := range active {
					if weak[p] == 0 {
						return false
					}
				}
				return returned == wantReturned
			}
			time.Sleep(50 * time.Microsecond)
		}
	}
	var out []string
	for _, ev := range a[2:] {
		f := strings.Split(ev, ":")
		switch f[0] {
		case "j":
			s.Joined(in(f[1]))
		case "a":
			s.Accept(bg, in(f[1]))
		case "l":
			s.Left(in(f[1]))
		case "f":
			// f:<peer>#<n>:<ok>
			mu.Lock()
			var r *stubRun
			for _, o := range runs {
				if fmt.Sprintf("%s#%d", ex(o.peer), o.gen) == f[1] && !o.returned {
					r = o
				}
			}
			if r == nil {
				mu.Unlock()
				out = append(out, "nop")
				continue
			}
			r.returned = true
			wantReturned++
			mu.Unlock()
			switch f[2] {
			case "1":
				r.release <- nil
			case "2":
				// a transfer that fails on its own with an error wrapping context.Canceled (an aborted dial or stream operation)
				r.release <- fmt.Errorf("transfer aborted: %w", context.Canceled)
			default:
				r.release <- errors.New("stub failure")
			}
		case "t":
			dt, _ := strconv.Atoi(f[1])
			mu.Lock()
			clock += int64(dt)
			mu.Unlock()
			s.Cleanup()
		default:
			return "bad-op"
		}
		if !settle() {
			out = append(out, "UNSETTLED")
		}
		q, act, st := s.Snapshot()
		var ss []string
		for p, v := range st {
			ss = append(ss, ex(p)+":"+v)
		}
		for i := range q {
			q[i] = ex(q[i])
		}
		for i := range act {
			act[i] = ex(act[i])
		}
		sort.Strings(ss)
		mu.Lock()
		var rr []string
		for _, r := range runs {
			if !r.returned {
				c := "0"
				if r.ctx.Err() != nil {
					c = "1"
				}
				rr = append(rr, fmt.Sprintf("%s#%d:%s", ex(r.peer), r.gen, c))
			}
		}
		sort.Strings(rr)
		mu.Unlock()
		out = append(out, fmt.Sprintf("q=[%s] a=[%s] s={%s} r=[%s]", strings.Join(q, ","), strings.Join(act, ","), strings.Join(ss, ","), strings.Join(rr, ",")))
	}
	// release everything still blocked so goroutines do not pile up
	for round := 0; round < 64; round++ {
		mu.Lock()
		n := 0
		for _, r := range runs {
			if !r.returned {
				r.returned = true
				wantReturned++
				n++
				r.release <- errors.New("harness end")
			}
		}
		mu.Unlock()
		settle() // tails may start queued transfers; release those too
		if n == 0 {
			break
		}
	}
	return strings.Join(out, " ; ")
}
