//go:build verif

package main

import (
	"context"
	"encoding/json"
	"io"
	"log/slog"
	"net"
	"time"

	"github.com/quic-go/quic-go"
	"github.com/sheerbytes/sheerbytes/internal/app"
	"github.com/sheerbytes/sheerbytes/internal/quictransport"
	"github.com/sheerbytes/sheerbytes/internal/transferquic"
)

func init() { handlers["authstall"] = authStall }

// authstall: peers that complete the QUIC handshake, get the honest end into its authentication read and then say nothing
// more while keeping the connection open. The honest ends run with the application's own 10 s budget and must end in an
// error / deliver nothing.
//
//	(a) a listener that accepts the auth stream and stays silent, against the real sender-side authenticateTransport
//	(b) a dialer that opens the stream, writes one byte and stalls, against the receiver's real acceptAuthenticated
func authStall(args []string) string {
	out := map[string]any{}
	logger := slog.New(slog.NewTextHandler(io.Discard, nil))
	ctx, cancel := context.WithTimeout(context.Background(), 30*time.Second)
	defer cancel()
	const code = "ABCDEFGH"
	// (a)
	aDone := make(chan struct{})
	go func() {
		defer close(aDone)
		ls, err := net.ListenUDP("udp4", &net.UDPAddr{IP: net.ParseIP("127.0.0.1")})
		if err != nil {
			out["a_setup_err"] = err.Error()
			return
		}
		defer ls.Close()
		ln, err := quictransport.Listen(ctx, ls, logger)
		if err != nil {
			out["a_setup_err"] = err.Error()
			return
		}
		defer ln.Close()
		go func() {
			c, err := ln.Accept(ctx)
			if err != nil {
				return
			}
			st, err := c.AcceptStream(ctx)
			if err != nil {
				return
			}
			buf := make([]byte, 256)
			for {
				if _, err := st.Read(buf); err != nil { // swallow the sender's proof, answer nothing
					return
				}
			}
		}()
		ds, _ := net.ListenUDP("udp4", &net.UDPAddr{IP: net.IPv4zero})
		defer ds.Close()
		tr := &quic.Transport{Conn: ds}
		qc, err := tr.Dial(ctx, ls.LocalAddr(), quictransport.ClientConfig(), quictransport.DefaultClientQUICConfig())
		if err != nil {
			out["a_setup_err"] = err.Error()
			return
		}
		defer qc.CloseWithError(0, "")
		tc, _ := transferquic.NewDialer(qc, logger).Dial(ctx, "peer")
		t0 := time.Now()
		actx, acancel := context.WithTimeout(ctx, 10*time.Second) // the budget of runICEQUICTransfer
		err = app.VerifAuthenticateTransport(actx, tc, code, app.VerifRoleSender)
		acancel()
		out["sender_accepted_silent_listener"] = err == nil
		out["sender_ms"] = time.Since(t0).Milliseconds()
		if err != nil {
			out["sender_err"] = err.Error()
		}
	}()
	// (b)
	bDone := make(chan struct{})
	go func() {
		defer close(bDone)
		ls, err := net.ListenUDP("udp4", &net.UDPAddr{IP: net.ParseIP("127.0.0.1")})
		if err != nil {
			out["b_setup_err"] = err.Error()
			return
		}
		defer ls.Close()
		ln, err := quictransport.Listen(ctx, ls, logger)
		if err != nil {
			out["b_setup_err"] = err.Error()
			return
		}
		defer ln.Close()
		bctx, bcancel := context.WithCancel(ctx)
		defer bcancel()
		acc := app.VerifAcceptAuthenticated(bctx, transferquic.NewListener(ln, logger), code)
		ds, _ := net.ListenUDP("udp4", &net.UDPAddr{IP: net.IPv4zero})
		defer ds.Close()
		tr := &quic.Transport{Conn: ds}
		qc, err := tr.Dial(ctx, ls.LocalAddr(), quictransport.ClientConfig(), quictransport.DefaultClientQUICConfig())
		if err != nil {
			out["b_setup_err"] = err.Error()
			return
		}
		defer qc.CloseWithError(0, "")
		st, err := qc.OpenStreamSync(ctx)
		if err == nil {
			st.Write([]byte{1}) // the version byte, then nothing
		}
		t0 := time.Now()
		select {
		case c := <-acc:
			out["receiver_delivered_stalling_dialer"] = true
			out["receiver_ms"] = time.Since(t0).Milliseconds()
			c.Close()
		case <-time.After(11500 * time.Millisecond):
			out["receiver_delivered_stalling_dialer"] = false
		}
	}()
	<-aDone
	<-bDone
	b, _ := json.Marshal(out)
	return string(b)
}
