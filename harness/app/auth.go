//go:build verif

package main

import (
	"context"
	"encoding/hex"
	"encoding/json"
	"fmt"
	"io"
	"log/slog"
	"net"
	"strings"
	"sync"
	"time"

	"github.com/sheerbytes/sheerbytes/internal/app"
	"github.com/sheerbytes/sheerbytes/internal/quictransport"
	"github.com/sheerbytes/sheerbytes/internal/transfer"
	"github.com/sheerbytes/sheerbytes/internal/transferquic"
	"github.com/sheerbytes/sheerbytes/internal/zzverif/netsim"
)

func init() { handlers["auth"] = authCase }

// One scenario per line (hex-encoded JSON). The honest endpoints run the real authenticateTransport; every byte
// they read and write on the auth stream is recorded by a tap around their transfer.Conn.
type authScenario struct {
	Kind      string `json:"kind"`      // pair | relay | rogue-dialer | rogue-listener
	Transport string `json:"transport"` // netsim | quic
	CodeS     string `json:"code_s"`    // sender's join code (utf-8)
	CodeR     string `json:"code_r"`
	Ekm1      string `json:"ekm1"` // hex, netsim only: exporter output of session 1 (and of session 2 for relay)
	Ekm2      string `json:"ekm2"`
	Wire      string `json:"wire"`     // rogue-dialer: hex bytes the attacker writes to the honest receiver
	Strategy  string `json:"strategy"` // rogue-listener: fixed | reflect | reflect-swap-role ; relay: forward | flip:<bit> | trunc:<n> (applied to the sender->receiver bytes) | rflip:<bit> | rtrunc:<n> (receiver->sender)
	Reply     string `json:"reply"`    // rogue-listener/fixed: hex bytes
}

type tapConn struct {
	transfer.Conn
	mu       sync.Mutex
	rd, wr   []byte
	streams  int
	accepted int
}

func (t *tapConn) ExportKeyingMaterial(label string, ctx []byte, n int) ([]byte, error) {
	return t.Conn.(interface {
		ExportKeyingMaterial(string, []byte, int) ([]byte, error)
	}).ExportKeyingMaterial(label, ctx, n)
}

type tapStream struct {
	transfer.Stream
	t *tapConn
}

func (t *tapConn) OpenStream(ctx context.Context) (transfer.Stream, error) {
	s, err := t.Conn.OpenStream(ctx)
	if err != nil {
		return nil, err
	}
	t.mu.Lock()
	t.streams++
	t.mu.Unlock()
	return &tapStream{s, t}, nil
}

func (t *tapConn) AcceptStream(ctx context.Context) (transfer.Stream, error) {
	s, err := t.Conn.AcceptStream(ctx)
	if err != nil {
		return nil, err
	}
	t.mu.Lock()
	t.accepted++
	t.mu.Unlock()
	return &tapStream{s, t}, nil
}

func (s *tapStream) Read(b []byte) (int, error) {
	n, err := s.Stream.Read(b)
	s.t.mu.Lock()
	s.t.rd = append(s.t.rd, b[:n]...)
	s.t.mu.Unlock()
	return n, err
}

func (s *tapStream) Write(b []byte) (int, error) {
	n, err := s.Stream.Write(b)
	s.t.mu.Lock()
	s.t.wr = append(s.t.wr, b[:n]...)
	s.t.mu.Unlock()
	return n, err
}

// session = one TLS session: two ends
func newSession(transport string, ekm []byte) (dialer, listener transfer.Conn, cleanup func(), err error) {
	if transport == "quic" {
		logger := slog.New(slog.NewTextHandler(io.Discard, nil))
		lu, e := net.ListenUDP("udp4", &net.UDPAddr{IP: net.IPv4(127, 0, 0, 1)})
		if e != nil {
			return nil, nil, nil, e
		}
		du, e := net.ListenUDP("udp4", &net.UDPAddr{IP: net.IPv4(127, 0, 0, 1)})
		if e != nil {
			lu.Close()
			return nil, nil, nil, e
		}
		ctx, cancel := context.WithTimeout(context.Background(), 5*time.Second)
		defer cancel()
		ql, e := quictransport.Listen(ctx, lu, logger)
		if e != nil {
			return nil, nil, nil, e
		}
		lt := transferquic.NewListener(ql, logger)
		type res struct {
			c transfer.Conn
			e error
		}
		ch := make(chan res, 1)
		go func() { c, e := lt.Accept(ctx); ch <- res{c, e} }()
		qc, e := quictransport.Dial(ctx, du, lu.LocalAddr(), logger)
		if e != nil {
			return nil, nil, nil, e
		}
		dc, e := transferquic.NewDialer(qc, logger).Dial(ctx, "x")
		if e != nil {
			return nil, nil, nil, e
		}
		r := <-ch
		if r.e != nil {
			return nil, nil, nil, r.e
		}
		return dc, r.c, func() { dc.Close(); r.c.Close(); lt.Close(); lu.Close(); du.Close() }, nil
	}
	a, b := netsim.NewPair(netsim.Options{Lazy: true, EKM: ekm})
	return a, b, func() { a.Close(); b.Close() }, nil
}

func classify(err error) string {
	if err == nil {
		return "accept"
	}
	m := err.Error()
	switch {
	case strings.Contains(m, "unexpected auth version"):
		return "bad-version"
	case strings.Contains(m, "auth role mismatch"):
		return "bad-role"
	case strings.Contains(m, "auth proof mismatch"):
		return "bad-proof"
	case strings.Contains(m, "auth read:"):
		return "short-read"
	case strings.Contains(m, "deadline") || strings.Contains(m, "canceled"):
		return "timeout"
	}
	return "other:" + m
}

func ekmOf(c transfer.Conn) string {
	e, ok := c.(interface {
		ExportKeyingMaterial(string, []byte, int) ([]byte, error)
	})
	if !ok {
		return ""
	}
	b, err := e.ExportKeyingMaterial(app.VerifAuthLabel, nil, 32)
	if err != nil {
		return "err:" + err.Error()
	}
	return hex.EncodeToString(b)
}

func applyMut(b []byte, strat, prefix string) []byte {
	for _, part := range strings.Split(strat, ",") {
		var n int
		if strings.HasPrefix(part, prefix+"flip:") {
			fmt.Sscanf(part[len(prefix)+5:], "%d", &n)
			if n/8 < len(b) {
				b[n/8] ^= 1 << (n % 8)
			}
		} else if strings.HasPrefix(part, prefix+"trunc:") {
			fmt.Sscanf(part[len(prefix)+6:], "%d", &n)
			if n < len(b) {
				b = b[:n]
			}
		}
	}
	return b
}

func readUpTo(ctx context.Context, s transfer.Stream, n int) []byte {
	buf := make([]byte, n)
	got := 0
	if d, ok := s.(interface{ SetReadDeadline(time.Time) error }); ok {
		d.SetReadDeadline(time.Now().Add(1500 * time.Millisecond))
	}
	for got < n {
		k, err := s.Read(buf[got:])
		got += k
		if err != nil {
			break
		}
	}
	return buf[:got]
}

func authCase(args []string) string {
	raw, err := hex.DecodeString(args[0])
	if err != nil {
		return "bad-op"
	}
	var sc authScenario
	if err := json.Unmarshal(raw, &sc); err != nil {
		return "bad-op"
	}
	ekm1, _ := hex.DecodeString(sc.Ekm1)
	ekm2, _ := hex.DecodeString(sc.Ekm2)
	out := map[string]any{}
	ctx, cancel := context.WithTimeout(context.Background(), 3*time.Second)
	defer cancel()
	type done struct {
		who string
		err error
	}
	ch := make(chan done, 2)
	runHonest := func(who string, t *tapConn, code string, role byte) {
		go func() {
			err := app.VerifAuthenticateTransport(ctx, t, code, role)
			if err != nil {
				t.Conn.Close() // what runICEQUICTransfer / runTransfer do when auth fails
			}
			ch <- done{who, err}
		}()
	}
	report := func(who string, t *tapConn, err error) {
		t.mu.Lock()
		defer t.mu.Unlock()
		out[who] = classify(err)
		if err != nil {
			out[who+"_err"] = err.Error()
		}
		out[who+"_read"] = hex.EncodeToString(t.rd)
		out[who+"_wrote"] = hex.EncodeToString(t.wr)
		out[who+"_ekm"] = ekmOf(t)
		out[who+"_streams"] = t.streams + t.accepted
	}
	switch sc.Kind {
	case "pair":
		d, l, cleanup, err := newSession(sc.Transport, ekm1)
		if err != nil {
			return `{"setup_err":"` + err.Error() + `"}`
		}
		defer cleanup()
		ts, tr := &tapConn{Conn: d}, &tapConn{Conn: l}
		runHonest("s", ts, sc.CodeS, 1)
		runHonest("r", tr, sc.CodeR, 2)
		for i := 0; i < 2; i++ {
			x := <-ch
			if x.who == "s" {
				report("s", ts, x.err)
			} else {
				report("r", tr, x.err)
			}
		}
	case "relay":
		// sender --session 1-- attacker --session 2-- receiver
		d1, l1, c1, err := newSession(sc.Transport, ekm1)
		if err != nil {
			return `{"setup_err":"` + err.Error() + `"}`
		}
		defer c1()
		d2, l2, c2, err := newSession(sc.Transport, ekm2)
		if err != nil {
			return `{"setup_err":"` + err.Error() + `"}`
		}
		defer c2()
		ts, tr := &tapConn{Conn: d1}, &tapConn{Conn: l2}
		runHonest("s", ts, sc.CodeS, 1)
		runHonest("r", tr, sc.CodeR, 2)
		go func() {
			in, err := l1.AcceptStream(ctx)
			if err != nil {
				return
			}
			m1 := readUpTo(ctx, in, 50)
			m1 = applyMut(m1, sc.Strategy, "")
			o, err := d2.OpenStream(ctx)
			if err != nil {
				return
			}
			o.Write(m1)
			if len(m1) < 50 {
				o.Close()
			}
			m2 := readUpTo(ctx, o, 50)
			m2 = applyMut(m2, sc.Strategy, "r")
			if len(m2) > 0 {
				in.Write(m2)
			}
			in.Close()
			o.Close()
		}()
		for i := 0; i < 2; i++ {
			x := <-ch
			if x.who == "s" {
				report("s", ts, x.err)
			} else {
				report("r", tr, x.err)
			}
		}
	case "rogue-dialer":
		d, l, cleanup, err := newSession(sc.Transport, ekm1)
		if err != nil {
			return `{"setup_err":"` + err.Error() + `"}`
		}
		defer cleanup()
		tr := &tapConn{Conn: l}
		runHonest("r", tr, sc.CodeR, 2)
		wire, _ := hex.DecodeString(sc.Wire)
		var got []byte
		if st, err := d.OpenStream(ctx); err == nil {
			st.Write(wire)
			if len(wire) < 50 {
				st.Close() // nothing more will come
				got = nil
			} else {
				got = readUpTo(ctx, st, 50)
				st.Close()
			}
		}
		x := <-ch
		report("r", tr, x.err)
		out["attacker_got"] = hex.EncodeToString(got)
	case "rogue-listener":
		d, l, cleanup, err := newSession(sc.Transport, ekm1)
		if err != nil {
			return `{"setup_err":"` + err.Error() + `"}`
		}
		defer cleanup()
		ts := &tapConn{Conn: d}
		runHonest("s", ts, sc.CodeS, 1)
		if st, err := l.AcceptStream(ctx); err == nil {
			m1 := readUpTo(ctx, st, 50)
			var reply []byte
			switch {
			case sc.Strategy == "reflect":
				reply = append([]byte(nil), m1...)
			case sc.Strategy == "reflect-swap-role":
				reply = append([]byte(nil), m1...)
				if len(reply) > 1 {
					reply[1] = 2
				}
			default:
				reply, _ = hex.DecodeString(sc.Reply)
			}
			st.Write(reply)
			st.Close()
		}
		x := <-ch
		report("s", ts, x.err)
	default:
		return "bad-op"
	}
	b, _ := json.Marshal(out)
	return string(b)
}
