//go:build verif

package main

import (
	"encoding/hex"
	"encoding/json"
	"fmt"
	"io/fs"
	"os"
	"path/filepath"
	"reflect"
	"sort"
	"strings"
	"syscall"

	"github.com/sheerbytes/sheerbytes/internal/app"
	"github.com/sheerbytes/sheerbytes/pkg/manifest"
)

func init() { handlers["scan"] = scanCmd }

type scanEntry struct {
	P      string `json:"p"`    // path relative to the sandbox root, '/'-separated (hex if X)
	X      bool   `json:"x"`
	Kind   string `json:"kind"` // file | dir | symlink | fifo
	N      int    `json:"n"`
	Target string `json:"target"`
}

type scanCase struct {
	Entries []scanEntry `json:"entries"`
	Paths   []string    `json:"paths"` // relative to the sandbox root ("." allowed, trailing slash allowed)
	PathsX  bool        `json:"paths_hex"`
}

func hexElems(p string) string {
	if p == "" || p == "." {
		return "."
	}
	parts := strings.Split(p, string(os.PathSeparator))
	for i, s := range parts {
		parts[i] = hex.EncodeToString([]byte(s))
		if parts[i] == "" {
			parts[i] = "-"
		}
	}
	return strings.Join(parts, "/")
}

// scan <hex of JSON case>  ->  JSON: physical facts (for the model) + what the real ScanPaths / resolver did
func scanCmd(a []string) string {
	if len(a) != 1 {
		return "bad-op"
	}
	raw, err := hex.DecodeString(a[0])
	if err != nil {
		return "bad-op"
	}
	var c scanCase
	if json.Unmarshal(raw, &c) != nil {
		return "bad-op"
	}
	root, _ := os.MkdirTemp("", "vscan")
	defer os.RemoveAll(root)
	root, _ = filepath.EvalSymlinks(root)
	dec := func(s string, x bool) string {
		if x {
			b, _ := hex.DecodeString(s)
			return string(b)
		}
		return s
	}
	for _, e := range c.Entries {
		p := filepath.Join(root, filepath.FromSlash(dec(e.P, e.X)))
		os.MkdirAll(filepath.Dir(p), 0o755)
		switch e.Kind {
		case "dir":
			os.MkdirAll(p, 0o755)
		case "file":
			os.WriteFile(p, []byte(strings.Repeat("z", e.N)), 0o644)
		case "symlink":
			os.Symlink(e.Target, p)
		case "fifo":
			syscall.Mkfifo(p, 0o644)
		}
	}
	var paths []string
	for _, p := range c.Paths {
		paths = append(paths, filepath.Join(root, filepath.FromSlash(dec(p, c.PathsX)))+func() string {
			if strings.HasSuffix(p, "/") {
				return "/"
			}
			return ""
		}())
	}
	// physical table
	var table []string
	filepath.WalkDir(root, func(p string, d fs.DirEntry, err error) error {
		if err != nil || p == root {
			return nil
		}
		rel, _ := filepath.Rel(root, p)
		info, e := d.Info()
		if e != nil {
			return nil
		}
		switch {
		case d.IsDir():
			table = append(table, fmt.Sprintf("E %s d:%d", hexElems(rel), info.ModTime().Unix()))
		case d.Type().IsRegular():
			table = append(table, fmt.Sprintf("E %s f:%d:%d", hexElems(rel), info.Size(), info.ModTime().Unix()))
		case d.Type()&fs.ModeSymlink != 0:
			table = append(table, fmt.Sprintf("E %s l", hexElems(rel)))
		default:
			table = append(table, fmt.Sprintf("E %s o", hexElems(rel)))
		}
		return nil
	})
	var sels []string
	for _, p := range paths {
		abs, _ := filepath.Abs(p)
		rel, _ := filepath.Rel(root, abs)
		base := manifestBase(abs)
		top := "m"
		if info, err := os.Stat(abs); err == nil {
			if info.IsDir() {
				// a selected link to a directory stands for that directory: what lies beneath it is what lies beneath its target
				// (physical path for the model's table look-up; the manifest name stays the link's)
				if li, e := os.Lstat(abs); e == nil && li.Mode()&fs.ModeSymlink != 0 {
					if resolved, e2 := filepath.EvalSymlinks(abs); e2 == nil {
						if r2, e3 := filepath.Rel(root, resolved); e3 == nil {
							rel = r2
						}
					}
				}
				top = fmt.Sprintf("d:%d:1", info.ModTime().Unix())
			} else {
				top = fmt.Sprintf("f:%d:%d", info.Size(), info.ModTime().Unix())
			}
		}
		sels = append(sels, fmt.Sprintf("S %s %s %s", hx([]byte(base)), hexElems(rel), top))
	}
	m1, err1 := manifest.ScanPaths(paths)
	m2, _ := manifest.ScanPaths(paths)
	type outItem struct {
		Rel, ID string
		Size    int64
		Dir     bool
		Resolved string
		Readable int64
	}
	res := map[string]any{"model_line": "scan " + strings.Join(sels, " ") + " " + strings.Join(table, " "), "deterministic": reflect.DeepEqual(m1, m2)}
	if err1 != nil {
		res["scan_err"] = err1.Error()
	}
	resolver, rerr := app.VerifBuildPathResolver(paths)
	var items []string
	var problems []string
	seen := map[string]bool{}
	sorted := sort.SliceIsSorted(m1.Items, func(i, j int) bool { return m1.Items[i].RelPath < m1.Items[j].RelPath })
	if !sorted {
		problems = append(problems, "items not sorted")
	}
	var fc, dc int
	var tb int64
	for _, it := range m1.Items {
		d := "0"
		if it.IsDir {
			d = "1"
			dc++
		} else {
			fc++
			tb += it.Size
		}
		items = append(items, fmt.Sprintf("%s:%d:%s:%s", hx([]byte(it.RelPath)), it.Size, d, it.ID))
		if seen[it.RelPath] {
			problems = append(problems, "duplicate rel_path "+it.RelPath)
		}
		seen[it.RelPath] = true
		if strings.Contains(it.RelPath, "\\") && false {
			problems = append(problems, "backslash")
		}
		if !it.IsDir && rerr == nil {
			rp := resolver(it.RelPath)
			if rp == "" {
				problems = append(problems, "unresolvable "+it.RelPath)
			} else if st, e := os.Stat(rp); e != nil {
				problems = append(problems, "unreadable "+it.RelPath+": listed with size "+fmt.Sprint(it.Size)+" but "+e.Error())
			} else if !st.Mode().IsRegular() {
				problems = append(problems, fmt.Sprintf("notplain %s is listed as a file of size %d but is %s", it.RelPath, it.Size, st.Mode().Type().String()))
			} else if b, e := os.ReadFile(rp); e != nil {
				problems = append(problems, "unreadable "+it.RelPath+": "+e.Error())
			} else if int64(len(b)) != it.Size {
				problems = append(problems, fmt.Sprintf("size of %s listed %d readable %d", it.RelPath, it.Size, len(b)))
			}
		}
	}
	// completeness, without the model: every plain file and directory beneath a selected path (a selected link to a directory stands
	// for that directory; links inside a tree are not followed) is what some manifest entry resolves to
	if rerr == nil && err1 == nil {
		reached := map[string]bool{}
		for _, it := range m1.Items {
			if rp := resolver(it.RelPath); rp != "" {
				if phys, e := filepath.EvalSymlinks(rp); e == nil {
					reached[phys] = true
				}
			}
		}
		for _, p := range paths {
			abs, _ := filepath.Abs(p)
			info, e := os.Stat(abs)
			if e != nil || !info.IsDir() {
				continue
			}
			walkRoot, e := filepath.EvalSymlinks(abs)
			if e != nil {
				continue
			}
			filepath.WalkDir(walkRoot, func(q string, d fs.DirEntry, err error) error {
				if err != nil || q == walkRoot {
					return nil
				}
				if (d.IsDir() || d.Type().IsRegular()) && !reached[q] {
					rel, _ := filepath.Rel(walkRoot, q)
					problems = append(problems, fmt.Sprintf("unlisted %s beneath the selected path %s is in no manifest entry", rel, p))
					return fs.SkipAll
				}
				return nil
			})
		}
	}
	if fc != m1.FileCount || dc != m1.FolderCount || tb != m1.TotalBytes {
		problems = append(problems, fmt.Sprintf("counts listed fc=%d dc=%d tb=%d, items give %d %d %d", m1.FileCount, m1.FolderCount, m1.TotalBytes, fc, dc, tb))
	}
	if rerr != nil {
		res["resolver_err"] = rerr.Error()
	}
	res["impl_line"] = fmt.Sprintf("items=%s fc=%d dc=%d tb=%d", strings.Join(items, ","), m1.FileCount, m1.FolderCount, m1.TotalBytes)
	res["problems"] = problems
	b, _ := json.Marshal(res)
	return string(b)
}

func manifestBase(abs string) string {
	b := filepath.Base(abs)
	if b == "." {
		return "current"
	}
	if b == "/" {
		return "root"
	}
	return b
}

func hx(b []byte) string {
	if len(b) == 0 {
		return "-"
	}
	return hex.EncodeToString(b)
}
