//go:build verif

package main

import (
	"context"
	"encoding/hex"
	"encoding/json"
	"fmt"
	"io"
	"log/slog"
	"net"
	"sort"
	"strings"
	"sync"
	"time"

	"github.com/quic-go/quic-go"
	"github.com/sheerbytes/sheerbytes/internal/app"
	"github.com/sheerbytes/sheerbytes/internal/ice"
	"github.com/sheerbytes/sheerbytes/internal/quictransport"
	"github.com/sheerbytes/sheerbytes/internal/transfer"
	"github.com/sheerbytes/sheerbytes/internal/transferquic"
	"github.com/sheerbytes/sheerbytes/internal/verifhook"
)

func init() { handlers["race"] = raceCase }

// raceSpec: the real ProbeAndDial against one real quic-go listener reachable under several loopback addresses.
//
//	Cands    candidate labels: "A".."D" = 127.0.0.1..127.0.0.4 of the listener, "A'" a duplicate spelling, "X" an unreachable
//	         port, "T" a "turn:"-prefixed reachable address, "R" = the listener behind a UDP relay that delays the client's
//	         packets after its first one (so the server completes that handshake late), "S" = the listener behind a UDP relay
//	         that lets nothing of the client through for relay_delay_ms and everything afterwards (a slow path)
//	Schedule order in which parked goroutines are released: a label = the dial goroutine of that candidate after its
//	         successful handshake ("ice.dial.established"), "main" = the caller after it took a result. Empty: no control.
type raceSpec struct {
	Cands        []string `json:"cands"`
	Schedule     []string `json:"schedule"`
	RelayDelayMs int      `json:"relay_delay_ms"`
	Mode         string   `json:"mode"`  // "observe": a raw accept-all observer; "select": the receiver's real connection selection + transport auth
	Extra        int      `json:"extra"` // select mode: extra connections dialled to the winner's address afterwards (as dialExtraConns does)
	Rogues       int      `json:"rogues"`     // select mode: strangers that connect first and authenticate as sender with RogueCode
	RogueCode    string   `json:"rogue_code"` // "" = they connect and stay silent
	SpawnDelayMs int      `json:"spawn_delay_ms"` // the caller is held this long before it counts and starts each dial goroutine
	TurnDelayMs  int      `json:"turn_delay_ms"`  // candidate "U": a "turn:" candidate behind a slow path of this delay
	GraceMs      int      `json:"grace_ms"`       // how long after ProbeAndDial returned the listener's connections are counted (default 400)
}

type sel struct {
	conn transfer.Conn
	err  error
}

type parked struct {
	name string
	ch   chan struct{}
}

type raceCtl struct {
	mu      sync.Mutex
	waiting map[string]*parked
	arrived chan string
	active  bool
	// park the caller before its select only when the schedule asks for it
	wantsPremain bool
	wantsCb      bool
}

func (c *raceCtl) hit(name string) {
	c.mu.Lock()
	if !c.active {
		c.mu.Unlock()
		return
	}
	p := &parked{name: name, ch: make(chan struct{})}
	c.waiting[name] = p
	c.mu.Unlock()
	c.arrived <- name
	<-p.ch
}

func (c *raceCtl) release(name string, d time.Duration) bool {
	deadline := time.Now().Add(d)
	for time.Now().Before(deadline) {
		c.mu.Lock()
		p := c.waiting[name]
		if p != nil {
			delete(c.waiting, name)
			c.mu.Unlock()
			close(p.ch)
			return true
		}
		c.mu.Unlock()
		time.Sleep(time.Millisecond)
	}
	return false
}

func (c *raceCtl) waitParked(name string, d time.Duration) bool {
	deadline := time.Now().Add(d)
	for time.Now().Before(deadline) {
		c.mu.Lock()
		p := c.waiting[name]
		c.mu.Unlock()
		if p != nil {
			return true
		}
		time.Sleep(time.Millisecond)
	}
	return false
}

func (c *raceCtl) releaseAll() {
	c.mu.Lock()
	c.active = false
	for k, p := range c.waiting {
		delete(c.waiting, k)
		close(p.ch)
	}
	c.mu.Unlock()
}

// delaying relay: forwards datagrams between the dialer and the listener; client->server datagrams after the first are
// held back by `delay`
func startRelay(listenIP string, target *net.UDPAddr, delay time.Duration, holdStart ...bool) (*net.UDPConn, error) {
	front, err := net.ListenUDP("udp4", &net.UDPAddr{IP: net.ParseIP(listenIP)})
	if err != nil {
		return nil, err
	}
	go func() {
		var mu sync.Mutex
		backs := map[string]*net.UDPConn{}
		count := map[string]int{}
		first := map[string]time.Time{}
		buf := make([]byte, 65536)
		for {
			n, from, err := front.ReadFromUDP(buf)
			if err != nil {
				return
			}
			pkt := append([]byte(nil), buf[:n]...)
			key := from.String()
			mu.Lock()
			back := backs[key]
			if back == nil {
				back, err = net.DialUDP("udp4", nil, target)
				if err != nil {
					mu.Unlock()
					continue
				}
				backs[key] = back
				go func(back *net.UDPConn, from *net.UDPAddr) {
					b := make([]byte, 65536)
					for {
						n, err := back.Read(b)
						if err != nil {
							return
						}
						front.WriteToUDP(b[:n], from)
					}
				}(back, from)
			}
			count[key]++
			k := count[key]
			if k == 1 {
				first[key] = time.Now()
			}
			t0 := first[key]
			mu.Unlock()
			if len(holdStart) > 0 && holdStart[0] {
				// a slow path: nothing of this client gets through during the first `delay`, afterwards everything does at once
				if w := time.Until(t0.Add(delay)); w > 0 {
					go func() { time.Sleep(w); back.Write(pkt) }()
				} else {
					back.Write(pkt)
				}
				continue
			}
			if k == 1 || delay == 0 {
				back.Write(pkt)
			} else {
				go func() { time.Sleep(delay); back.Write(pkt) }()
			}
		}
	}()
	return front, nil
}

func raceCase(args []string) string {
	raw, err := hex.DecodeString(args[0])
	if err != nil {
		return "bad-op"
	}
	var g raceSpec
	if err := json.Unmarshal(raw, &g); err != nil {
		return "bad-op"
	}
	out := map[string]any{}
	fin := func() string { b, _ := json.Marshal(out); return string(b) }
	logger := slog.New(slog.NewTextHandler(io.Discard, nil))
	ctx, cancel := context.WithTimeout(context.Background(), 20*time.Second)
	defer cancel()
	// listener on the wildcard address: reachable as 127.0.0.1, 127.0.0.2, ...
	lsock, err := net.ListenUDP("udp4", &net.UDPAddr{IP: net.IPv4zero})
	if err != nil {
		out["setup_err"] = err.Error()
		return fin()
	}
	defer lsock.Close()
	port := lsock.LocalAddr().(*net.UDPAddr).Port
	ln, err := quictransport.Listen(ctx, lsock, logger)
	if err != nil {
		out["setup_err"] = err.Error()
		return fin()
	}
	defer ln.Close()
	// the accepting side: every connection in completion order; for each, whether a stream with the caller's token arrives
	type srvConn struct {
		order int
		conn  *quic.Conn
		token string
		at    time.Duration
	}
	var smu sync.Mutex
	var sconns []*srvConn
	t0 := time.Now()
	const joinCode = "ABCDEFGH"
	selCh := make(chan sel, 1)
	lt := transferquic.NewListener(ln, logger)
	var accepted <-chan transfer.Conn
	if g.Mode == "select" {
		accepted = app.VerifAcceptAuthenticated(ctx, lt, joinCode)
		go func() {
			select {
			case c := <-accepted:
				selCh <- sel{c, nil}
			case <-ctx.Done():
				selCh <- sel{nil, ctx.Err()}
			}
		}()
	}
	go func() {
		if g.Mode == "select" {
			return
		}
		for {
			c, err := ln.Accept(ctx)
			if err != nil {
				return
			}
			smu.Lock()
			sc := &srvConn{order: len(sconns), conn: c, at: time.Since(t0)}
			sconns = append(sconns, sc)
			smu.Unlock()
			go func() {
				st, err := c.AcceptStream(ctx)
				if err != nil {
					return
				}
				b := make([]byte, 16)
				n, _ := st.Read(b)
				smu.Lock()
				sc.token = string(b[:n])
				smu.Unlock()
			}()
		}
	}()
	// candidates
	labelAddr := map[string]string{}
	addrLabel := map[string]string{}
	var cands []string
	var relays []*net.UDPConn
	for _, l := range g.Cands {
		var a string
		switch l {
		case "A", "B", "C", "D":
			a = fmt.Sprintf("127.0.0.%d:%d", 1+int(l[0]-'A'), port)
		case "A'":
			a = fmt.Sprintf("127.0.0.1:%d", port) // the same string again: deduplicated by ProbeAndDial
			cands = append(cands, a)
			continue
		case "X":
			a = "127.0.0.1:9" // nobody listens there
		case "T":
			a = fmt.Sprintf("turn:127.0.0.6:%d", port)
		case "U":
			r, err := startRelay("127.0.0.9", &net.UDPAddr{IP: net.ParseIP("127.0.0.1"), Port: port}, time.Duration(g.TurnDelayMs)*time.Millisecond, true)
			if err != nil {
				out["setup_err"] = err.Error()
				return fin()
			}
			relays = append(relays, r)
			a = "turn:" + r.LocalAddr().String()
		case "S":
			r, err := startRelay("127.0.0.8", &net.UDPAddr{IP: net.ParseIP("127.0.0.1"), Port: port}, time.Duration(g.RelayDelayMs)*time.Millisecond, true)
			if err != nil {
				out["setup_err"] = err.Error()
				return fin()
			}
			relays = append(relays, r)
			a = r.LocalAddr().String()
		case "R":
			r, err := startRelay("127.0.0.7", &net.UDPAddr{IP: net.ParseIP("127.0.0.1"), Port: port}, time.Duration(g.RelayDelayMs)*time.Millisecond)
			if err != nil {
				out["setup_err"] = err.Error()
				return fin()
			}
			relays = append(relays, r)
			a = r.LocalAddr().String()
		default:
			return "bad-op"
		}
		labelAddr[l] = a
		addrLabel[a] = l
		cands = append(cands, a)
	}
	defer func() {
		for _, r := range relays {
			r.Close()
		}
	}()
	// strangers first: they reach the listener before the honest sender and try to pass (or just sit there)
	var rogueAccepted, rogueDone int32
	var rmu sync.Mutex
	for i := 0; i < g.Rogues && g.Mode == "select"; i++ {
		rs, err := net.ListenUDP("udp4", &net.UDPAddr{IP: net.IPv4zero})
		if err != nil {
			continue
		}
		defer rs.Close()
		rtr := &quic.Transport{Conn: rs}
		rc, err := rtr.Dial(ctx, &net.UDPAddr{IP: net.ParseIP("127.0.0.1"), Port: port}, quictransport.ClientConfig(), quictransport.DefaultClientQUICConfig())
		if err != nil {
			continue
		}
		if g.RogueCode == "" {
			continue // silent: the connection just stays open
		}
		go func() {
			tc, _ := transferquic.NewDialer(rc, logger).Dial(ctx, "peer")
			actx, acancel := context.WithTimeout(ctx, 5*time.Second)
			err := app.VerifAuthenticateTransport(actx, tc, g.RogueCode, app.VerifRoleSender)
			acancel()
			rmu.Lock()
			rogueDone++
			if err == nil {
				rogueAccepted++
			}
			rmu.Unlock()
		}()
	}
	if g.Rogues > 0 {
		time.Sleep(30 * time.Millisecond) // the strangers are ahead of the honest sender in the listener's queue
	}
	dsock, err := net.ListenUDP("udp4", &net.UDPAddr{IP: net.IPv4zero})
	if err != nil {
		out["setup_err"] = err.Error()
		return fin()
	}
	prober := ice.VerifNewProber(dsock, logger)
	defer prober.Close()
	ctl := &raceCtl{waiting: map[string]*parked{}, arrived: make(chan string, 64), active: len(g.Schedule) > 0}
	for _, st := range g.Schedule {
		if st == "premain" {
			ctl.wantsPremain = true
		}
		if st == "cb" {
			ctl.wantsCb = true
		}
	}
	var emu sync.Mutex
	established := map[string]bool{} // candidates whose dial returned a connection (they reached the hook behind tr.Dial)
	verifhook.Set(func(name string, _ []uint64, s string) {
		switch name {
		case "ice.dial.established":
			emu.Lock()
			established[addrLabel[s]] = true
			emu.Unlock()
			ctl.hit(addrLabel[s])
		case "ice.main.got_result":
			ctl.hit("main")
		case "ice.spawn.before_add":
			if g.SpawnDelayMs > 0 {
				time.Sleep(time.Duration(g.SpawnDelayMs) * time.Millisecond)
			}
		case "ice.main.before_select":
			if ctl.wantsPremain {
				ctl.hit("premain")
			}
		}
	})
	defer verifhook.Set(nil)
	var umu sync.Mutex
	var updates, failures []string
	type res struct {
		conn *quic.Conn
		err  error
	}
	resCh := make(chan res, 1)
	callerCtx, callerCancel := context.WithCancel(ctx) // the caller's context outlives ProbeAndDial (as the sender's does)
	defer callerCancel()
	go func() {
		qc := quictransport.DefaultClientQUICConfig()
		c, err := prober.ProbeAndDial(callerCtx, cands, quictransport.ClientConfig(), qc, func(u ice.ProbeUpdate) {
			umu.Lock()
			updates = append(updates, fmt.Sprintf("%s:%s", addrLabel[u.Addr], u.State))
			if u.Err != nil && u.State == ice.ProbeStateFailed {
				failures = append(failures, fmt.Sprintf("%s: %v", addrLabel[u.Addr], u.Err))
			}
			umu.Unlock()
			if ctl.wantsCb && u.State == ice.ProbeStateWon {
				ctl.hit("cb") // the status callback of the winning dial takes its time (it is display code in the application)
			}
		})
		resCh <- res{c, err}
	}()
	// run the schedule
	var done []string
	var r res
	gotRes := false
	for i, step := range g.Schedule {
		if step == "cancel" {
			// the caller gives up: first let every goroutine named later in the schedule reach its parking point (a dial that has
			// its connection but has not yet tried to claim the race), then cancel and wait for ProbeAndDial to return
			for _, later := range g.Schedule[i+1:] {
				if later != "cancel" {
					ctl.waitParked(later, 3*time.Second)
				}
			}
			callerCancel()
			callerParked := false
			for _, later := range g.Schedule[i+1:] {
				if later == "premain" || later == "main" {
					callerParked = true // it returns once the schedule lets it run
				}
			}
			if !callerParked {
				// the caller's select may still take a connection that is already in the channel (it then stops at its own hook: let it go on)
				deadline := time.Now().Add(3 * time.Second)
				for !gotRes && time.Now().Before(deadline) {
					select {
					case r = <-resCh:
						gotRes = true
					case <-time.After(5 * time.Millisecond):
						ctl.release("main", time.Millisecond)
					}
				}
				if !gotRes {
					out["schedule_stuck_at"] = step
				}
			}
			done = append(done, step)
			continue
		}
		if !ctl.release(step, 3*time.Second) {
			out["schedule_stuck_at"] = step
			break
		}
		done = append(done, step)
		time.Sleep(15 * time.Millisecond) // let the released goroutine run to its next point or finish
	}
	ctl.releaseAll()
	if !gotRes {
		select {
		case r = <-resCh:
		case <-time.After(8 * time.Second):
			out["hang"] = true
			return fin()
		}
	}
	out["schedule_done"] = done
	umu.Lock()
	if len(failures) > 0 {
		out["dial_failures"] = failures
	}
	umu.Unlock()
	emu.Lock()
	var est []string
	for l := range established {
		est = append(est, l)
	}
	emu.Unlock()
	sort.Strings(est)
	out["established"] = est
	if g.Mode == "select" {
		defer func() {}()
		out["rogues"] = g.Rogues
		res := raceSelect(ctx, g, out, fin, r.conn, r.err, selCh, accepted, ln, prober, dsock, joinCode, addrLabel, logger, &umu, &updates)
		rmu.Lock()
		ra := rogueAccepted
		rmu.Unlock()
		if ra > 0 {
			// (raceSelect already produced the JSON; re-open it to add the stranger verdict)
			var m map[string]any
			json.Unmarshal([]byte(res), &m)
			m["rogue_accepted"] = ra
			b, _ := json.Marshal(m)
			return string(b)
		}
		return res
	}
	if r.err != nil {
		out["dial_err"] = r.err.Error()
	} else {
		out["returned"] = addrLabel[r.conn.RemoteAddr().String()]
		if st, err := r.conn.OpenStreamSync(ctx); err == nil {
			st.Write([]byte("CALLER"))
			st.Close()
		}
	}
	grace := 400
	if g.GraceMs > 0 {
		grace = g.GraceMs
	}
	time.Sleep(time.Duration(grace) * time.Millisecond) // grace: losers' CONNECTION_CLOSE and late handshakes have arrived
	smu.Lock()
	var open, tokenAt []int
	first := -1
	for _, sc := range sconns {
		alive := sc.conn.Context().Err() == nil
		if alive {
			open = append(open, sc.order)
		}
		if sc.token == "CALLER" {
			tokenAt = append(tokenAt, sc.order)
		}
		if first < 0 {
			first = sc.order
		}
	}
	out["server_conns"] = len(sconns)
	out["server_open"] = open
	out["server_token_conn"] = tokenAt
	out["server_first_accepted_is_callers"] = len(sconns) > 0 && len(tokenAt) == 1 && tokenAt[0] == 0
	smu.Unlock()
	umu.Lock()
	sort.Strings(updates)
	out["updates"] = strings.Join(updates, ",")
	won := 0
	for _, u := range updates {
		if strings.HasSuffix(u, ":won") {
			won++
		}
	}
	out["won_updates"] = won
	umu.Unlock()
	if r.conn != nil {
		r.conn.CloseWithError(0, "")
	}
	return fin()
}

// raceSelect: both peers run their real selection + authentication code; they must end up on the same connection.
func raceSelect(ctx context.Context, g raceSpec, out map[string]any, fin func() string, qc *quic.Conn, derr error,
	selCh chan sel, accepted <-chan transfer.Conn, ln *quic.Listener, prober *ice.Prober, dsock *net.UDPConn, joinCode string,
	addrLabel map[string]string, logger *slog.Logger, umu *sync.Mutex, updates *[]string) string {
	t1 := time.Now()
	if derr != nil {
		out["dial_err"] = derr.Error()
		umu.Lock()
		out["updates"] = strings.Join(*updates, ",")
		umu.Unlock()
		return fin()
	}
	out["returned"] = addrLabel[qc.RemoteAddr().String()]
	defer qc.CloseWithError(0, "")
	tconn, err := transferquic.NewDialer(qc, logger).Dial(ctx, "peer")
	if err != nil {
		out["dial_err"] = err.Error()
		return fin()
	}
	actx, acancel := context.WithTimeout(ctx, 10*time.Second)
	serr := app.VerifAuthenticateTransport(actx, tconn, joinCode, app.VerifRoleSender)
	acancel()
	if serr != nil {
		out["sender_auth_err"] = serr.Error()
	}
	var chosen transfer.Conn
	select {
	case sl := <-selCh:
		if sl.err != nil {
			out["receiver_select_err"] = sl.err.Error()
		}
		chosen = sl.conn
	case <-time.After(12 * time.Second):
		out["receiver_select_err"] = "no connection selected within 12 s"
	}
	out["auth_ms"] = time.Since(t1).Milliseconds()
	same := false
	if chosen != nil && serr == nil {
		// the same connection? a token written by the caller must arrive on the receiver's choice
		go func() {
			if st, err := tconn.OpenStream(ctx); err == nil {
				st.Write([]byte("CALLER"))
				st.Close()
			}
		}()
		rctx, rcancel := context.WithTimeout(ctx, 3*time.Second)
		if st, err := chosen.AcceptStream(rctx); err == nil {
			b := make([]byte, 16)
			n, _ := io.ReadFull(st, b[:6])
			same = string(b[:n]) == "CALLER"
		}
		rcancel()
	}
	out["same_connection"] = same
	// extra connections to the winner's address, as the sender's dialExtraConns / the receiver's acceptExtraConns do
	if g.Extra > 0 && same {
		type ex struct {
			conns []transfer.Conn
			err   error
		}
		exCh := make(chan ex, 1)
		go func() {
			cs, err := app.VerifAcceptExtraConns(ctx, accepted, joinCode, g.Extra)
			exCh <- ex{cs, err}
		}()
		okDial := 0
		remote := qc.RemoteAddr()
		var extras []*quic.Conn
		for i := 0; i < g.Extra; i++ {
			c, err := prober.Transport().Dial(ctx, remote, quictransport.ClientConfig(), quictransport.DefaultClientQUICConfig())
			if err != nil {
				continue
			}
			extras = append(extras, c)
			tc, _ := transferquic.NewDialer(c, logger).Dial(ctx, "peer")
			xctx, xcancel := context.WithTimeout(ctx, 10*time.Second)
			if app.VerifAuthenticateTransport(xctx, tc, joinCode, app.VerifRoleSender) == nil {
				okDial++
			}
			xcancel()
		}
		e := <-exCh
		out["extra_sender_ok"] = okDial
		out["extra_receiver_ok"] = len(e.conns)
		if e.err != nil {
			out["extra_receiver_err"] = e.err.Error()
		}
		defer func() {
			for _, c := range extras {
				c.CloseWithError(0, "")
			}
		}()
	}
	// nothing else may come out authenticated
	select {
	case c := <-accepted:
		out["unexpected_extra_authenticated"] = true
		c.Close()
	case <-time.After(200 * time.Millisecond):
	}
	_ = ln
	umu.Lock()
	us := append([]string(nil), (*updates)...)
	umu.Unlock()
	sort.Strings(us)
	won := 0
	for _, u := range us {
		if strings.HasSuffix(u, ":won") {
			won++
		}
	}
	out["updates"] = strings.Join(us, ",")
	out["won_updates"] = won
	return fin()
}
