//go:build verif

package main

import (
	"context"
	"encoding/hex"
	"encoding/json"
	"fmt"
	"runtime"
	"sync"
	"sync/atomic"
	"time"

	"github.com/sheerbytes/sheerbytes/internal/app"
)

func init() { handlers["admstorm"] = admStorm }

// admstorm: the admission handlers of a real SnapshotSender called from several goroutines at once (as the WebSocket
// reader and the returning transfer goroutines do), with a stub transfer function that counts how many un-cancelled
// transfers run at the same time. The clock function yields, which widens whatever window exists around it.
type admStormSpec struct {
	Max     int `json:"max"`
	Peers   int `json:"peers"`
	Workers int `json:"workers"`
	Millis  int `json:"millis"`
	ChangeCbMicros int `json:"change_cb_us"` // the change notification callback (display refresh in the application) takes this long
	Cleaners int `json:"cleaners"` // goroutines that push the clock past the idle TTL and run the host's clean-up tick
}

func admStorm(args []string) string {
	raw, err := hex.DecodeString(args[0])
	if err != nil {
		return "bad-op"
	}
	var g admStormSpec
	if err := json.Unmarshal(raw, &g); err != nil {
		return "bad-op"
	}
	out := map[string]any{}
	var peak, started int64
	var mu sync.Mutex
	type run struct {
		peer string
		ctx  context.Context
	}
	running := map[int64]run{}
	var seq int64
	doublePeer := ""
	firstOver := ""
	var sender *app.VerifSender
	fn := func(ctx context.Context, peer string) error {
		if ctx.Err() != nil {
			return ctx.Err()
		}
		// transfers that run right now and whose context is not cancelled (a cancelled one has given up its slot)
		mu.Lock()
		seq++
		id := seq
		n := int64(0)
		selfLive := ctx.Err() == nil
		if selfLive {
			n = 1
			for _, r := range running {
				if r.ctx.Err() == nil {
					n++
					if r.peer == peer {
						doublePeer = peer
					}
				}
			}
		}
		running[id] = run{peer, ctx}
		started++
		if n > peak {
			peak = n
		}
		var others []string
		if int(n) > g.Max && firstOver == "" {
			for _, r := range running {
				if r.ctx.Err() == nil {
					others = append(others, r.peer)
				}
			}
		}
		mu.Unlock()
		if others != nil && sender != nil {
			q, a, st := sender.Snapshot()
			mu.Lock()
			if firstOver == "" {
				firstOver = fmt.Sprintf("uncancelled running %v while starting %s; slots %v queue %v status %v", others, peer, a, q, st)
			}
			mu.Unlock()
		}
		t := time.NewTimer(time.Duration(200+len(peer)*37%400) * time.Microsecond)
		select {
		case <-ctx.Done():
		case <-t.C:
		}
		t.Stop()
		mu.Lock()
		delete(running, id)
		mu.Unlock()
		return nil
	}
	var clockOffset atomic.Int64
	s := app.VerifNewSender(g.Max, time.Hour, func() time.Time {
		runtime.Gosched()
		return time.Now().Add(time.Duration(clockOffset.Load()))
	}, fn)
	sender = s
	if g.ChangeCbMicros > 0 {
		s.VerifSetOnChange(func() { time.Sleep(time.Duration(g.ChangeCbMicros) * time.Microsecond) })
	}
	bg := context.Background()
	stop := make(chan struct{})
	var wg sync.WaitGroup
	var panics sync.Map
	for w := 0; w < g.Workers; w++ {
		w := w
		wg.Add(1)
		go func() {
			defer wg.Done()
			defer func() {
				if r := recover(); r != nil {
					panics.Store(w, fmt.Sprint(r))
				}
			}()
			for i := 0; ; i++ {
				select {
				case <-stop:
					return
				default:
				}
				p := fmt.Sprintf("p%d", (w*7+i)%g.Peers)
				switch (w + i) % 5 {
				case 0:
					s.Joined(p)
				case 1, 2, 3:
					s.Joined(p)
					s.Accept(bg, p)
				case 4:
					s.Left(p)
				}
			}
		}()
	}
	for c := 0; c < g.Cleaners; c++ {
		c := c
		wg.Add(1)
		go func() {
			defer wg.Done()
			defer func() {
				if r := recover(); r != nil {
					panics.Store(1000+c, fmt.Sprint(r))
				}
			}()
			for {
				select {
				case <-stop:
					return
				default:
				}
				clockOffset.Add(int64(2 * time.Hour)) // everybody who is not being served has now been idle past the TTL
				s.Cleanup()
				time.Sleep(30 * time.Microsecond)
			}
		}()
	}
	time.Sleep(time.Duration(g.Millis) * time.Millisecond)
	close(stop)
	done := make(chan struct{})
	go func() { wg.Wait(); close(done) }()
	select {
	case <-done:
	case <-time.After(3 * time.Second):
		out["stalled"] = true
	}
	// quiescence: the handlers have stopped; transfers still running end within a millisecond each and every slot they free must
	// go to whoever waits. Poll until the picture stops changing (or a waiting receiver sits next to a free slot for 300 ms).
	time.Sleep(20 * time.Millisecond)
	strandedFor := 0
	for i := 0; i < 200; i++ {
		q0, a0, _ := s.Snapshot()
		if len(q0) > 0 && len(a0) < g.Max {
			strandedFor++
			if strandedFor >= 30 {
				break
			}
		} else if len(a0) == 0 || len(q0) == 0 {
			strandedFor = 0
			if len(a0) == 0 {
				break
			}
		} else {
			strandedFor = 0
		}
		time.Sleep(10 * time.Millisecond)
	}
	out["stranded"] = strandedFor >= 30
	q, a, st := s.Snapshot()
	mu.Lock()
	out["peak_uncancelled_transfers"] = peak
	out["started"] = started
	mu.Unlock()
	out["final_queue"] = len(q)
	out["final_active"] = len(a)
	nq, nt := 0, 0
	for _, v := range st {
		if v == "QUEUED" {
			nq++
		}
		if v == "TRANSFERRING" {
			nt++
		}
	}
	out["final_status_queued"] = nq
	out["final_status_transferring"] = nt
	mu.Lock()
	out["same_peer_twice"] = doublePeer
	out["first_over_limit"] = firstOver
	mu.Unlock()
	var ps []string
	panics.Range(func(k, v any) bool { ps = append(ps, fmt.Sprint(v)); return true })
	out["panics"] = ps
	b, _ := json.Marshal(out)
	return string(b)
}

func init() { handlers["admhold"] = admHold }

// admHold: max-receivers 2, a and b being served, c and d waiting. a's transfer ends; the pass that hands its slot to c is held in
// the change notification (where the application redraws its display) while b's transfer ends too; then the notification returns.
// d must be started: a slot is free and d waits.
func admHold(args []string) string {
	out := map[string]any{}
	release := map[string]chan struct{}{}
	var mu sync.Mutex
	started := map[string]int{}
	for _, p := range []string{"a", "b", "c", "d"} {
		release[p] = make(chan struct{})
	}
	fn := func(ctx context.Context, peer string) error {
		mu.Lock()
		started[peer]++
		ch := release[peer]
		mu.Unlock()
		select {
		case <-ch:
		case <-ctx.Done():
		}
		return nil
	}
	s := app.VerifNewSender(2, time.Hour, time.Now, fn)
	var hold atomic.Bool
	inChange := make(chan struct{}, 1)
	resume := make(chan struct{})
	var first atomic.Bool
	s.VerifSetOnChange(func() {
		if hold.Load() {
			// the notification raised by the pass that has just handed a's slot to c
			_, _, st := s.Snapshot()
			if st["c"] == "TRANSFERRING" && first.CompareAndSwap(false, true) {
				inChange <- struct{}{}
				<-resume
			}
		}
	})
	bg := context.Background()
	for _, p := range []string{"a", "b", "c", "d"} {
		s.Joined(p)
		s.Accept(bg, p)
	}
	waitStarted := func(p string) bool {
		for i := 0; i < 200; i++ {
			mu.Lock()
			n := started[p]
			mu.Unlock()
			if n > 0 {
				return true
			}
			time.Sleep(5 * time.Millisecond)
		}
		return false
	}
	if !waitStarted("a") || !waitStarted("b") {
		out["setup_err"] = "a and b were not started"
		b, _ := json.Marshal(out)
		return string(b)
	}
	hold.Store(true)
	close(release["a"])
	held := false
	select {
	case <-inChange:
		held = true
	case <-time.After(time.Second):
	}
	close(release["b"])
	time.Sleep(60 * time.Millisecond)
	close(resume)
	hold.Store(false)
	out["held_in_change_notification"] = held
	out["c_started"] = waitStarted("c")
	out["d_started"] = waitStarted("d")
	q, a, st := s.Snapshot()
	out["queue"], out["active"], out["status"] = q, a, st
	close(release["c"])
	close(release["d"])
	time.Sleep(20 * time.Millisecond)
	b, _ := json.Marshal(out)
	return string(b)
}
