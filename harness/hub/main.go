//go:build verif

// Harness "hub": schedule replay on the real internal/peers.Hub.
//
//	hub <prog> | <schedule>
//
// prog: threads separated by '/', operations by ',':
//
//	a:<sid>:<conn>:<peer>  Add            r:<sid>:<conn>:<peer>  the remove func returned by that Add
//	c:<sid>  CloseSession  l:<sid>  List  s:<sid>:<peer>:<msg>  SendTo
//	b:<sid>:<msg>  Broadcast              x:<sid>:<peer>:<msg>  BroadcastExcept
//
// schedule: thread numbers ("2" or "2@<conn>"; a pick after @ is ignored on input). Every thread is a goroutine that parks
// before each operation and at every verifhook.Point of hub.go; one schedule item lets the named thread run to its next
// park. Items whose thread is finished, or whose next action needs h.mu.Lock while a reader is parked inside the read
// lock, are skipped. After the schedule the remaining threads are run to completion, lowest enabled index first.
//
// output: <executed schedule with loop picks> # <observation per item> ; <final state>
package main

import (
	"bufio"
	"fmt"
	"os"
	"runtime"
	"sort"
	"strconv"
	"strings"
	"sync"
	"time"

	"github.com/sheerbytes/sheerbytes/internal/peers"
	"github.com/sheerbytes/sheerbytes/internal/verifhook"
	"github.com/sheerbytes/sheerbytes/pkg/protocol"
)

type handler func(args []string) string

var handlers = map[string]handler{"hub": hubCase}

func main() {
	in := bufio.NewReaderSize(os.Stdin, 1<<22)
	out := bufio.NewWriterSize(os.Stdout, 1<<16)
	defer out.Flush()
	verifhook.Set(hookHit)
	for {
		line, err := in.ReadString('\n')
		if len(line) == 0 && err != nil {
			break
		}
		f := strings.Fields(line)
		res := "bad-op"
		if len(f) > 0 {
			if h, ok := handlers[f[0]]; ok {
				res = safe(h, f[1:])
			}
		}
		fmt.Fprintln(out, res)
		out.Flush()
		if err != nil {
			break
		}
	}
}

func safe(h handler, args []string) (res string) {
	defer func() {
		if r := recover(); r != nil {
			res = strings.ReplaceAll(fmt.Sprintf("harness-panic:%v", r), "\n", " ")
		}
	}()
	return h(args)
}

// ---------------------------------------------------------------- controller

type parkMsg struct {
	pos  string
	pick string
}

type op struct {
	kind            string
	sid, conn, peer string
	msg             string
}

type thread struct {
	id      int
	ops     []op
	started int // operations begun
	pos     string
	pick    string
	resume  chan struct{}
	parked  chan parkMsg
	dead    bool
}

var (
	gidMu  sync.Mutex
	gidMap = map[uint64]*thread{}
)

func gid() uint64 {
	var buf [64]byte
	n := runtime.Stack(buf[:], false)
	f := strings.Fields(string(buf[:n]))
	if len(f) < 2 {
		return 0
	}
	v, _ := strconv.ParseUint(f[1], 10, 64)
	return v
}

var pointPos = map[string]string{
	"hub.remove.unlinked":      "unlinked",
	"hub.remove.before_gc":     "before_gc",
	"hub.closesession.closing": "closing",
	"hub.bcast.send":           "send",
}

func hookHit(name string, _ []uint64, s string) {
	pos, ok := pointPos[name]
	if !ok {
		return
	}
	gidMu.Lock()
	th := gidMap[gid()]
	gidMu.Unlock()
	if th == nil {
		return
	}
	th.park(pos, s)
}

func (th *thread) park(pos, pick string) {
	th.parked <- parkMsg{pos, pick}
	<-th.resume
}

type world struct {
	h       *peers.Hub
	mu      sync.Mutex
	recv    map[string][]string
	kicked  map[string]bool
	removes map[string]func()
	pcs     map[string]*peers.VerifPC
	results []string
	expect  int // envelopes queued so far (every queue attempt of these runs succeeds: the 256 slots never fill)
}

func (w *world) exec(th *thread, o op) {
	switch o.kind {
	case "a":
		c := o.conn
		send := func(env protocol.Envelope) error {
			w.mu.Lock()
			w.recv[c] = append(w.recv[c], env.SessionID+"/"+env.MsgID)
			w.mu.Unlock()
			return nil
		}
		closeFn := func() {
			w.mu.Lock()
			w.kicked[c] = true
			w.mu.Unlock()
		}
		rm := w.h.Add(o.sid, peers.Peer{PeerID: o.peer, Role: "receiver", ConnID: c}, send, closeFn)
		pc := w.h.VerifLookup(o.sid, c)
		w.mu.Lock()
		w.removes[c] = rm
		if pc != nil {
			w.pcs[c] = pc
		}
		w.mu.Unlock()
	case "r":
		w.mu.Lock()
		rm := w.removes[o.conn]
		w.mu.Unlock()
		if rm != nil {
			rm()
		}
	case "c":
		w.h.CloseSession(o.sid)
	case "l":
		var ps []string
		for _, p := range w.h.List(o.sid) {
			ps = append(ps, strip(p.PeerID))
		}
		sortNum(ps)
		w.mu.Lock()
		w.results = append(w.results, fmt.Sprintf("%d:L:%s:[%s]", th.id, o.sid, strings.Join(ps, ",")))
		w.mu.Unlock()
	case "s":
		ok := w.h.SendTo(o.sid, o.peer, env(o.sid, o.msg))
		w.mu.Lock()
		if ok {
			w.expect++
		}
		w.results = append(w.results, fmt.Sprintf("%d:S:%s:%s:%d", th.id, o.sid, o.peer, b2i(ok)))
		w.mu.Unlock()
	case "b":
		w.h.Broadcast(o.sid, env(o.sid, o.msg))
	case "x":
		w.h.BroadcastExcept(o.sid, o.peer, env(o.sid, o.msg))
	}
}

func b2i(b bool) int {
	if b {
		return 1
	}
	return 0
}

func env(sid, msg string) protocol.Envelope {
	return protocol.Envelope{V: protocol.ProtocolVersion, Type: "t", MsgID: msg, SessionID: sid}
}

func parseProg(s string) ([][]op, error) {
	var out [][]op
	if s == "-" {
		return out, nil
	}
	for _, ts := range strings.Split(s, "/") {
		var ops []op
		for _, os_ := range strings.Split(ts, ",") {
			if os_ == "" {
				continue
			}
			f := strings.Split(os_, ":")
			o := op{kind: f[0]}
			need := map[string]int{"a": 4, "r": 4, "c": 2, "l": 2, "s": 4, "b": 3, "x": 4}[f[0]]
			if need == 0 || len(f) != need {
				return nil, fmt.Errorf("bad op %q", os_)
			}
			o.sid = "s" + f[1]
			switch f[0] {
			case "a", "r":
				o.conn, o.peer = "c"+f[2], "p"+f[3]
			case "s", "x":
				o.peer, o.msg = "p"+f[2], "m"+f[3]
			case "b":
				o.msg = "m" + f[2]
			}
			ops = append(ops, o)
		}
		out = append(out, ops)
	}
	return out, nil
}

func (th *thread) needsWrite() bool {
	if th.pos == "before_gc" {
		return true
	}
	if th.pos == "op" && th.started < len(th.ops) {
		k := th.ops[th.started].kind
		return k == "a" || k == "r" || k == "c"
	}
	return false
}

func strip(s string) string {
	if len(s) > 1 {
		return s[1:]
	}
	return s
}

var hangs int

func hubCase(args []string) string {
	if hangs > 8 {
		return "aborted: too many hung cases"
	}
	sep := -1
	for i, a := range args {
		if a == "|" {
			sep = i
		}
	}
	if sep != 1 {
		return "bad-op"
	}
	progs, err := parseProg(args[0])
	if err != nil {
		return "bad-op"
	}
	var sched []int
	for _, it := range args[sep+1:] {
		if i := strings.IndexByte(it, '@'); i >= 0 {
			it = it[:i]
		}
		n, err := strconv.Atoi(it)
		if err != nil {
			return "bad-op"
		}
		sched = append(sched, n)
	}
	w := &world{h: peers.NewHub(), recv: map[string][]string{}, kicked: map[string]bool{}, removes: map[string]func(){},
		pcs: map[string]*peers.VerifPC{}}
	threads := make([]*thread, len(progs))
	for i, ops := range progs {
		th := &thread{id: i, ops: ops, resume: make(chan struct{}), parked: make(chan parkMsg, 1)}
		threads[i] = th
		go func() {
			g := gid()
			gidMu.Lock()
			gidMap[g] = th
			gidMu.Unlock()
			defer func() {
				gidMu.Lock()
				delete(gidMap, g)
				gidMu.Unlock()
				if r := recover(); r != nil {
					th.parked <- parkMsg{"panic", strings.ReplaceAll(fmt.Sprint(r), " ", "_")}
				}
			}()
			for _, o := range th.ops {
				th.park("op", "")
				w.exec(th, o)
			}
			th.parked <- parkMsg{"done", ""}
		}()
		m := <-th.parked
		th.pos, th.pick = m.pos, m.pick
	}
	var executed, obs []string
	hung := false
	stepThread := func(t int) bool {
		if t < 0 || t >= len(threads) {
			executed = append(executed, strconv.Itoa(t))
			obs = append(obs, "skip")
			return false
		}
		th := threads[t]
		lock := w.h.VerifLockState()
		if th.dead || th.pos == "done" || th.pos == "panic" || (th.needsWrite() && lock != "f") {
			executed = append(executed, strconv.Itoa(t))
			obs = append(obs, "skip")
			return false
		}
		item := strconv.Itoa(t)
		if th.pick != "" {
			item += "@" + strip(th.pick)
		}
		executed = append(executed, item)
		if th.pos == "op" {
			th.started++
		}
		wasSend := th.pos == "send"
		th.resume <- struct{}{}
		select {
		case m := <-th.parked:
			th.pos, th.pick = m.pos, m.pick
			if m.pos == "panic" {
				th.dead = true
				obs = append(obs, "panic:"+m.pick)
				return true
			}
		case <-time.After(3 * time.Second):
			th.dead = true
			hung = true
			hangs++
			obs = append(obs, "hang")
			return true
		}
		if wasSend {
			w.mu.Lock()
			w.expect++
			w.mu.Unlock()
		}
		obs = append(obs, th.pos+":"+w.h.VerifLockState())
		return true
	}
	for _, t := range sched {
		stepThread(t)
	}
	// completion phase: lowest enabled thread first
	for rounds := 0; rounds < 100000; rounds++ {
		progressed := false
		for t := range threads {
			th := threads[t]
			if th.dead || th.pos == "done" || th.pos == "panic" {
				continue
			}
			if th.needsWrite() && w.h.VerifLockState() != "f" {
				continue
			}
			stepThread(t)
			progressed = true
			break
		}
		if !progressed {
			break
		}
	}
	unfinished := 0
	for _, th := range threads {
		if th.pos != "done" {
			unfinished++
		}
	}
	// let the writer goroutines hand over everything that was queued
	deadline := time.Now().Add(3 * time.Second)
	for time.Now().Before(deadline) {
		w.mu.Lock()
		got := 0
		for _, ms := range w.recv {
			got += len(ms)
		}
		want := w.expect
		w.mu.Unlock()
		if got >= want {
			break
		}
		time.Sleep(100 * time.Microsecond)
	}
	reg, conns, idx, regIdx := w.h.VerifTables()
	// closed channels: the writer goroutine has ended (poll briefly: it ends right after the close)
	var closed []string
	w.mu.Lock()
	pcs := map[string]*peers.VerifPC{}
	for c, pc := range w.pcs {
		pcs[c] = pc
	}
	w.mu.Unlock()
	inTable := map[string]bool{}
	for _, e := range conns {
		inTable[strings.Split(e, ":")[1]] = true
	}
	for c, pc := range pcs {
		done := pc.VerifWriterDone()
		if !done && !inTable[c] {
			for i := 0; i < 200 && !done; i++ {
				time.Sleep(100 * time.Microsecond)
				done = pc.VerifWriterDone()
			}
		}
		if done {
			closed = append(closed, strip(c))
		}
	}
	sortNum(closed)
	var kicked []string
	w.mu.Lock()
	for c := range w.kicked {
		kicked = append(kicked, strip(c))
	}
	var recv []string
	for c, ms := range w.recv {
		var xs []string
		for _, m := range ms {
			p := strings.SplitN(m, "/", 2)
			xs = append(xs, strip(p[0])+"/"+strip(p[1]))
		}
		recv = append(recv, strip(c)+":["+strings.Join(xs, ",")+"]")
	}
	results := append([]string(nil), w.results...)
	w.mu.Unlock()
	sortNum(kicked)
	sort.Slice(recv, func(i, j int) bool { return lessTuple(strings.SplitN(recv[i], ":", 2)[0], strings.SplitN(recv[j], ":", 2)[0]) })
	fin := fmt.Sprintf("reg=[%s] conns=[%s] idx=[%s] regidx=[%s] closed=[%s] kicked=[%s] recv={%s} res=[%s] unfinished=%d",
		strings.Join(stripAll(reg), ","), strings.Join(stripEntries(conns), ","), strings.Join(stripEntries(idx), ","),
		strings.Join(stripAll(regIdx), ","), strings.Join(closed, ","), strings.Join(kicked, ","), strings.Join(recv, " "),
		strings.Join(stripRes(results), " "), unfinished)
	if hung {
		fin += " HANG"
	}
	return strings.Join(executed, " ") + " # " + strings.Join(obs, " ") + " ; " + fin
}

func sortNum(xs []string) {
	sort.Slice(xs, func(i, j int) bool {
		a, _ := strconv.Atoi(xs[i])
		b, _ := strconv.Atoi(xs[j])
		return a < b
	})
}

func stripAll(xs []string) []string {
	out := make([]string, len(xs))
	for i, x := range xs {
		out[i] = strip(x)
	}
	sortNum(out)
	return out
}

// "s1:c2:p3" -> "1:2:3", sorted
func stripEntries(xs []string) []string {
	out := make([]string, len(xs))
	for i, x := range xs {
		f := strings.Split(x, ":")
		for j := range f {
			f[j] = strip(f[j])
		}
		out[i] = strings.Join(f, ":")
	}
	sort.Slice(out, func(i, j int) bool { return lessTuple(out[i], out[j]) })
	return out
}

// "0:L:s1:[p1,p2]" -> "0:L:1:[1,2]" ; "0:S:s1:p2:1" -> "0:S:1:2:1"
func stripRes(xs []string) []string {
	out := make([]string, len(xs))
	for i, x := range xs {
		x = strings.ReplaceAll(x, ":s", ":")
		x = strings.ReplaceAll(x, ":p", ":")
		x = strings.ReplaceAll(x, "[p", "[")
		x = strings.ReplaceAll(x, ",p", ",")
		out[i] = x
	}
	return out
}

func lessTuple(a, b string) bool {
	fa, fb := strings.Split(a, ":"), strings.Split(b, ":")
	for i := 0; i < len(fa) && i < len(fb); i++ {
		x, _ := strconv.Atoi(fa[i])
		y, _ := strconv.Atoi(fb[i])
		if x != y {
			return x < y
		}
	}
	return len(fa) < len(fb)
}
