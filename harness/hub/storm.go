//go:build verif

package main

import (
	"encoding/hex"
	"encoding/json"
	"fmt"
	"runtime"
	"strings"
	"sync"
	"sync/atomic"
	"time"

	"github.com/sheerbytes/sheerbytes/internal/peers"
	"github.com/sheerbytes/sheerbytes/pkg/protocol"
)

func init() { handlers["storm"] = stormCase }

// stormSpec: free-running goroutines on the real Hub (no parking): relays in stable sessions, joins / leaves /
// replacements / session closes around them. Below the granularity of the schedule replay (e.g. a lock taken twice on
// one path) only this exhibits a stall: a watchdog reports when no hub operation completes for StallMs.
type stormSpec struct {
	Relays    int `json:"relays"`
	Churners  int `json:"churners"`
	Closers   int `json:"closers"`
	Sessions  int `json:"sessions"`
	Millis    int `json:"millis"`
	StallMs   int `json:"stall_ms"`
	SlowSends int `json:"slow_sends"` // every n-th envelope makes the send function sleep 1 ms (a slow socket)
	Stalled   int `json:"stalled"`    // members whose socket write blocks for the whole storm; other connections replace them (same peer id)
	Checkers  int `json:"checkers"`   // goroutines that join a session which keeps becoming empty, and expect to be listed and routable at once
	Failing   int `json:"failing"`    // members whose socket write fails at the first envelope; their handler removes them a little later
}

func stormCase(args []string) string {
	raw, err := hex.DecodeString(args[0])
	if err != nil {
		return "bad-op"
	}
	var g stormSpec
	if err := json.Unmarshal(raw, &g); err != nil {
		return "bad-op"
	}
	out := map[string]any{}
	fin := func() string { b, _ := json.Marshal(out); return string(b) }
	h := peers.NewHub()
	var ops atomic.Int64
	var delivered atomic.Int64
	var panics sync.Map
	stop := make(chan struct{})
	var wg sync.WaitGroup
	guard := func(name string, f func()) {
		wg.Add(1)
		go func() {
			defer wg.Done()
			defer func() {
				if r := recover(); r != nil {
					panics.Store(name, fmt.Sprint(r))
				}
			}()
			f()
		}()
	}
	send := func() func(protocol.Envelope) error {
		n := 0
		return func(protocol.Envelope) error {
			n++
			delivered.Add(1)
			if g.SlowSends > 0 && n%g.SlowSends == 0 {
				time.Sleep(time.Millisecond)
			}
			return nil
		}
	}
	sid := func(i int) string { return fmt.Sprintf("s%d", i%max(g.Sessions, 1)) }
	// stable members of every session
	var removes []func()
	for s := 0; s < max(g.Sessions, 1); s++ {
		for p := 0; p < 3; p++ {
			removes = append(removes, h.Add(sid(s), peers.Peer{PeerID: fmt.Sprintf("stable%d", p), Role: "receiver", ConnID: fmt.Sprintf("st-%d-%d", s, p)}, send(), func() {}))
		}
	}
	env := protocol.Envelope{V: 1, Type: "x", MsgID: "m"}
	// stalled sockets: their writer goroutine hangs inside send once it has an envelope; reconnects replace them
	unstall := make(chan struct{})
	defer func() {
		select {
		case <-unstall:
		default:
			close(unstall)
		}
	}()
	for i := 0; i < g.Stalled; i++ {
		h.Add(sid(i), peers.Peer{PeerID: fmt.Sprintf("stalled%d", i), Role: "receiver", ConnID: fmt.Sprintf("stall-%d", i)},
			func(protocol.Envelope) error { <-unstall; return nil }, func() {})
		h.SendTo(sid(i), fmt.Sprintf("stalled%d", i), env) // the writer is now blocked in send
	}
	for i := 0; i < g.Stalled; i++ {
		i := i
		guard(fmt.Sprintf("reconnect%d", i), func() {
			for k := 0; ; k++ {
				select {
				case <-stop:
					return
				default:
				}
				rm := h.Add(sid(i), peers.Peer{PeerID: fmt.Sprintf("stalled%d", i), Role: "receiver", ConnID: fmt.Sprintf("re-%d-%d", i, k)}, send(), func() {})
				ops.Add(1)
				time.Sleep(200 * time.Microsecond)
				rm()
				ops.Add(1)
			}
		})
	}
	// broken sockets: the writer's send fails; until the connection's handler notices and removes it, it stays linked and other
	// peers keep addressing it and broadcasting into its session
	for i := 0; i < g.Failing; i++ {
		i := i
		guard(fmt.Sprintf("failing%d", i), func() {
			for k := 0; ; k++ {
				select {
				case <-stop:
					return
				default:
				}
				rm := h.Add(sid(i), peers.Peer{PeerID: fmt.Sprintf("failing%d", i), Role: "receiver", ConnID: fmt.Sprintf("fail-%d-%d", i, k)},
					func(protocol.Envelope) error { return fmt.Errorf("write: broken pipe") }, func() {})
				ops.Add(1)
				h.SendTo(sid(i), fmt.Sprintf("failing%d", i), env) // its writer runs into the error
				for j := 0; j < 20; j++ {
					h.SendTo(sid(i), fmt.Sprintf("failing%d", i), env)
					h.Broadcast(sid(i), env)
					runtime.Gosched()
				}
				rm()
				ops.Add(1)
			}
		})
	}
	// a session that keeps becoming empty (its map is garbage-collected by the last leaver) while others join it: whoever Add
	// returned for is registered - listed and routable - until it leaves
	var lostReg atomic.Int64
	var lostDetail atomic.Value
	for c := 0; c < g.Checkers; c++ {
		c := c
		guard(fmt.Sprintf("flapper%d", c), func() {
			for i := 0; ; i++ {
				select {
				case <-stop:
					return
				default:
				}
				rm := h.Add("gc", peers.Peer{PeerID: fmt.Sprintf("flap%d", c), Role: "receiver", ConnID: fmt.Sprintf("fl-%d-%d", c, i)}, send(), func() {})
				rm()
				ops.Add(2)
			}
		})
		guard(fmt.Sprintf("checker%d", c), func() {
			for i := 0; ; i++ {
				select {
				case <-stop:
					return
				default:
				}
				me := fmt.Sprintf("chk%d", c)
				rm := h.Add("gc", peers.Peer{PeerID: me, Role: "receiver", ConnID: fmt.Sprintf("ck-%d-%d", c, i)}, send(), func() {})
				routable := h.SendTo("gc", me, env)
				listed := false
				for _, p := range h.List("gc") {
					if p.PeerID == me {
						listed = true
					}
				}
				if !routable || !listed {
					lostReg.Add(1)
					lostDetail.Store(fmt.Sprintf("%s after Add: routable=%v listed=%v", me, routable, listed))
				}
				rm()
				ops.Add(4)
			}
		})
	}
	for r := 0; r < g.Relays; r++ {
		r := r
		guard(fmt.Sprintf("relay%d", r), func() {
			for i := 0; ; i++ {
				select {
				case <-stop:
					return
				default:
				}
				s := sid(r + i)
				switch i % 4 {
				case 0:
					h.SendTo(s, fmt.Sprintf("stable%d", i%3), env)
				case 1:
					h.BroadcastExcept(s, fmt.Sprintf("stable%d", i%3), env)
				case 2:
					h.Broadcast(s, env)
				case 3:
					h.List(s)
				}
				ops.Add(1)
			}
		})
	}
	for c := 0; c < g.Churners; c++ {
		c := c
		guard(fmt.Sprintf("churn%d", c), func() {
			for i := 0; ; i++ {
				select {
				case <-stop:
					return
				default:
				}
				s := sid(c + i)
				peer := fmt.Sprintf("churn%d", c%2) // two churners share a peer id: replacements
				rm := h.Add(s, peers.Peer{PeerID: peer, Role: "receiver", ConnID: fmt.Sprintf("c%d-%d", c, i)}, send(), func() {})
				ops.Add(1)
				if i%3 != 2 {
					rm()
					ops.Add(1)
				}
			}
		})
	}
	for c := 0; c < g.Closers; c++ {
		c := c
		guard(fmt.Sprintf("closer%d", c), func() {
			for i := 0; ; i++ {
				select {
				case <-stop:
					return
				default:
				}
				s := fmt.Sprintf("tmp%d", c)
				for p := 0; p < 3; p++ {
					h.Add(s, peers.Peer{PeerID: fmt.Sprintf("t%d", p), Role: "receiver", ConnID: fmt.Sprintf("t%d-%d-%d", c, i, p)}, send(), func() {})
				}
				h.Broadcast(s, env)
				h.CloseSession(s)
				ops.Add(4)
				time.Sleep(100 * time.Microsecond)
			}
		})
	}
	// watchdog
	stall := time.Duration(max(g.StallMs, 500)) * time.Millisecond
	deadline := time.Now().Add(time.Duration(g.Millis) * time.Millisecond)
	last, lastAt := ops.Load(), time.Now()
	stalled := false
	for time.Now().Before(deadline) {
		time.Sleep(20 * time.Millisecond)
		if cur := ops.Load(); cur != last {
			last, lastAt = cur, time.Now()
		} else if time.Since(lastAt) > stall {
			stalled = true
			break
		}
	}
	close(stop)
	close(unstall)
	if stalled {
		buf := make([]byte, 1<<20)
		n := runtime.Stack(buf, true)
		var where []string
		for _, blk := range strings.Split(string(buf[:n]), "\n\n") {
			if strings.Contains(blk, "sync.(*RWMutex)") || strings.Contains(blk, "sync.(*Mutex)") {
				lines := strings.Split(blk, "\n")
				for _, l := range lines {
					if strings.Contains(l, "peers.(*Hub)") {
						where = append(where, strings.TrimSpace(strings.SplitN(l, "(", 2)[0]))
						break
					}
				}
			}
		}
		out["stalled"] = true
		out["blocked_in"] = where
		out["ops"] = ops.Load()
		return fin()
	}
	done := make(chan struct{})
	go func() { wg.Wait(); close(done) }()
	select {
	case <-done:
	case <-time.After(3 * time.Second):
		out["stalled"] = true
		out["blocked_in"] = []string{"goroutines did not finish after stop"}
	}
	for _, rm := range removes {
		rm()
	}
	var ps []string
	panics.Range(func(k, v any) bool { ps = append(ps, fmt.Sprintf("%v: %v", k, v)); return true })
	out["panics"] = ps
	out["lost_registrations"] = lostReg.Load()
	if v := lostDetail.Load(); v != nil {
		out["lost_registration_example"] = v.(string)
	}
	out["ops"] = ops.Load()
	out["delivered"] = delivered.Load()
	reg, conns, _, _ := h.VerifTables()
	out["sessions_left"] = len(reg)
	out["conns_left"] = len(conns)
	return fin()
}
