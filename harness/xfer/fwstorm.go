//go:build verif

package main

import (
	"context"
	"math/rand"
	"runtime"
	"sync"
	"sync/atomic"
	"time"

	"github.com/sheerbytes/sheerbytes/internal/transfer"
)

// FwStormCase: the receiver's FileBegin wake-up protocol on the real fileWaitRegistry, free-running: per round, Readers data
// readers do what the reader loop does (look the state up; if it is not there, wait on the registry with the look-up as readiness
// predicate) while one handler does what handleFileBegin does (store the state, signal). Random yields spread the interleavings.
// Every reader must come back; a reader still waiting after the watchdog is a lost wake-up (Model/FileWait: C03_filebegin_wakeup).
type FwStormCase struct {
	Mode    string `json:"mode"` // "fwstorm"
	Name    string `json:"name"`
	Readers int    `json:"readers"`
	Rounds  int    `json:"rounds"`
	Seed    int64  `json:"seed"`
}

type FwStormResult struct {
	Name    string `json:"name"`
	Rounds  int    `json:"rounds"`
	Parked  int64  `json:"parked"`   // readers that took the wait path
	Direct  int64  `json:"direct"`   // readers that found the state at once
	Lost    int    `json:"lost"`     // readers that never came back
	LostAt  int    `json:"lost_at_round"`
	Note    string `json:"note,omitempty"`
}

func runFwStorm(c FwStormCase) (res FwStormResult) {
	res.Name = c.Name
	res.LostAt = -1
	rng := rand.New(rand.NewSource(c.Seed))
	var parked, direct atomic.Int64
	for round := 0; round < c.Rounds; round++ {
		reg := transfer.VerifNewFileWait()
		var state atomic.Bool
		ctx, cancel := context.WithTimeout(context.Background(), 10*time.Second)
		var wg sync.WaitGroup
		var back atomic.Int64
		yields := make([]int, c.Readers+1)
		for i := range yields {
			yields[i] = rng.Intn(4)
		}
		for i := 0; i < c.Readers; i++ {
			wg.Add(1)
			go func(y int) {
				defer wg.Done()
				for k := 0; k < y; k++ {
					runtime.Gosched()
				}
				if state.Load() {
					direct.Add(1)
					back.Add(1)
					return
				}
				for k := 0; k < y; k++ {
					runtime.Gosched()
				}
				parked.Add(1)
				if reg.Wait(ctx, 7, func() bool { return state.Load() }) {
					back.Add(1)
				}
			}(yields[i])
		}
		go func(y int) {
			for k := 0; k < y; k++ {
				runtime.Gosched()
			}
			state.Store(true)
			for k := 0; k < y; k++ {
				runtime.Gosched()
			}
			reg.Signal(7)
		}(yields[c.Readers])
		wg.Wait()
		cancel()
		res.Rounds = round + 1
		if int(back.Load()) != c.Readers {
			res.Lost = c.Readers - int(back.Load())
			res.LostAt = round
			break
		}
	}
	res.Parked, res.Direct = parked.Load(), direct.Load()
	return
}
