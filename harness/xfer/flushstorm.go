//go:build verif

package main

import (
	"errors"
	"os"
	"path/filepath"
	"sync"
	"sync/atomic"
	"time"

	"github.com/sheerbytes/sheerbytes/internal/transfer"
)

// FlushStormCase: one real Sidecar, a marker (write the chunk's bytes, then mark it), several concurrent flushers (in the receiver:
// the ticker, finalizeFile and the signal handler's FlushAllFlushers all flush the same sidecar) and an observer that loads the file
// on disk over and over. Every observation is what a kill at that instant would leave behind: it must be absent (before the first
// flush) or a valid version that claims only chunks already written, and never fewer chunks than an earlier observation's version.
type FlushStormCase struct {
	Mode     string `json:"mode"` // "flushstorm"
	Name     string `json:"name"`
	Chunks   uint32 `json:"chunks"`
	Flushers int    `json:"flushers"`
	Millis   int    `json:"millis"`
	MarkGap  int    `json:"mark_gap_us"`
}

type FlushStormResult struct {
	Name         string   `json:"name"`
	Note         string   `json:"note,omitempty"`
	Observations int      `json:"observations"`
	Valid        int      `json:"valid"`
	Flushes      int64    `json:"flushes"`
	FlushErrors  int64    `json:"flush_errors"`
	FlushErr     string   `json:"flush_err,omitempty"`
	Invalid      []string `json:"invalid,omitempty"`
	Unsound      []string `json:"unsound,omitempty"`
	Shrunk       []string `json:"shrunk,omitempty"`
}

func runFlushStorm(c FlushStormCase) (res FlushStormResult) {
	res.Name = c.Name
	tmp, err := os.MkdirTemp("", "vfs")
	if err != nil {
		res.Note = "tmp:" + err.Error()
		return
	}
	defer os.RemoveAll(tmp)
	const chunk = 64
	size := int64(c.Chunks) * chunk
	path := transfer.SidecarPath(tmp, "", "storm-id")
	sc, err := transfer.CreateSidecar(path, "storm-id", size, chunk)
	if err != nil {
		res.Note = "sidecar:" + err.Error()
		return
	}
	data, _ := os.Create(filepath.Join(tmp, "data.bin"))
	defer data.Close()
	data.Truncate(size)
	written := make([]atomic.Bool, c.Chunks)
	stop := make(chan struct{})
	var wg sync.WaitGroup
	var flushes, ferrs atomic.Int64
	var ferr atomic.Value
	wg.Add(1)
	go func() { // marker
		defer wg.Done()
		for i := uint32(0); i < c.Chunks; i++ {
			select {
			case <-stop:
				return
			default:
			}
			data.WriteAt(content(uint64(i)+3, chunk), int64(i)*chunk)
			written[i].Store(true)
			sc.MarkComplete(i)
			if c.MarkGap > 0 {
				time.Sleep(time.Duration(c.MarkGap) * time.Microsecond)
			}
		}
	}()
	for f := 0; f < c.Flushers; f++ {
		wg.Add(1)
		go func() {
			defer wg.Done()
			for {
				select {
				case <-stop:
					return
				default:
				}
				flushes.Add(1)
				if err := sc.Flush(); err != nil {
					ferrs.Add(1)
					ferr.Store(err.Error())
				}
			}
		}()
	}
	deadline := time.Now().Add(time.Duration(c.Millis) * time.Millisecond)
	seenValid := false
	prev := 0
	for time.Now().Before(deadline) {
		loaded, err := transfer.LoadSidecar(path)
		res.Observations++
		if err != nil {
			if errors.Is(err, os.ErrNotExist) && !seenValid {
				continue
			}
			if len(res.Invalid) < 5 {
				res.Invalid = append(res.Invalid, err.Error())
			}
			continue
		}
		seenValid = true
		res.Valid++
		n := 0
		for i := uint32(0); i < c.Chunks; i++ {
			if loaded.IsComplete(i) {
				n++
				if !written[i].Load() && len(res.Unsound) < 5 {
					res.Unsound = append(res.Unsound, "claims unwritten chunk")
				}
			}
		}
		if n < prev && len(res.Shrunk) < 5 {
			res.Shrunk = append(res.Shrunk, "claims fewer chunks than an earlier version")
		}
		if n > prev {
			prev = n
		}
	}
	close(stop)
	wg.Wait()
	res.Flushes, res.FlushErrors = flushes.Load(), ferrs.Load()
	if v := ferr.Load(); v != nil {
		res.FlushErr = v.(string)
	}
	return
}
