//go:build verif

package main

import (
	"encoding/json"
	"fmt"
	"os"
	"os/exec"
	"path/filepath"
	"strings"

	"github.com/sheerbytes/sheerbytes/internal/transfer"
	"github.com/sheerbytes/sheerbytes/pkg/manifest"
)

// Crash-point enumeration (C05 / C04): the parent keeps a source tree and an output directory on disk,
// runs the whole transfer in a CHILD process that SIGKILLs itself at the k-th hit of a hook point, then
// inspects what is on disk, and finally resumes into the same directory.

type CrashCase struct {
	Name   string `json:"name"`
	Base   Case   `json:"base"`   // files, chunk, streams, transport, noroot (resume is forced on)
	Kills  []Kill `json:"kills"`  // chain of interrupted runs, in order
	Resume bool   `json:"resume"` // finish with an uninterrupted resumed run and compare the tree
}

type Kill struct {
	Point      string `json:"point"`
	At         int    `json:"at"`
	FlushFirst bool   `json:"flush_first"`
	FlushAtAll string `json:"flush_at_all"`
}

type CrashResult struct {
	Name     string           `json:"name"`
	Hits     map[string]int   `json:"hits,omitempty"`
	Killed   []bool           `json:"killed"`
	Unsound  []string         `json:"unsound,omitempty"` // sidecar marks a chunk whose bytes differ from the source
	Sidecars []string         `json:"sidecars,omitempty"`
	Final    *Result          `json:"final,omitempty"`
	Note     string           `json:"note,omitempty"`
	Marked   int              `json:"marked_chunks_checked"`
	LastMarked int            `json:"last_marked"`   // chunks marked on disk before the final resumed run
	LastTotal  int            `json:"last_total"`    // total chunks of the files that have a readable sidecar then
	AllChunks  int            `json:"all_chunks"`    // total chunks of the whole manifest
}

func runChild(c Case) (killed bool, res *Result, note string) {
	b, _ := json.Marshal(c)
	cmd := exec.Command(os.Args[0], "-child")
	if c.KeepOut != "" {
		// a child that kills itself cannot clean up: let its scratch directory live inside the parent's, which is removed
		ct := filepath.Join(filepath.Dir(c.KeepOut), "childtmp")
		if os.MkdirAll(ct, 0o755) == nil {
			cmd.Env = append(os.Environ(), "TMPDIR="+ct)
		}
	}
	cmd.Stdin = strings.NewReader(string(b) + "\n")
	out, err := cmd.Output()
	if err != nil {
		if ee, ok := err.(*exec.ExitError); ok && !ee.Success() && ee.ProcessState != nil && strings.Contains(ee.ProcessState.String(), "killed") {
			return true, nil, ""
		}
		return false, nil, "child: " + err.Error()
	}
	var r Result
	if json.Unmarshal(out, &r) != nil {
		return false, nil, "child output: " + string(out)
	}
	return false, &r, ""
}

// inspect every sidecar LoadSidecar accepts: each marked chunk must equal the source bytes in the data file
func inspect(c Case, m manifest.Manifest, outTree string, res *CrashResult) {
	dir := filepath.Join(outTree, ".thruflux_resumedata")
	ents, _ := os.ReadDir(dir)
	for _, e := range ents {
		if !strings.HasSuffix(e.Name(), ".sbxmap") {
			continue
		}
		sc, err := transfer.LoadSidecar(filepath.Join(dir, e.Name()))
		if err != nil {
			res.Sidecars = append(res.Sidecars, e.Name()+":unreadable")
			continue
		}
		var item *manifest.FileItem
		for i := range m.Items {
			if m.Items[i].ID == sc.FileID {
				item = &m.Items[i]
			}
		}
		if item == nil {
			res.Sidecars = append(res.Sidecars, e.Name()+":foreign")
			continue
		}
		var spec FileSpec
		for _, f := range c.Files {
			if relOf(f) == item.RelPath {
				spec = f
			}
		}
		src := content(spec.S, spec.N)
		data, _ := os.ReadFile(filepath.Join(outTree, filepath.FromSlash(item.RelPath)))
		bm := sc.MarshalBitmap()
		nm := 0
		for i := uint32(0); i < sc.TotalChunks; i++ {
			if bm[i/8]&(1<<(i%8)) == 0 {
				continue
			}
			nm++
			res.Marked++
			off := int64(i) * int64(sc.ChunkSize)
			end := off + int64(sc.ChunkSize)
			if end > spec.N {
				end = spec.N
			}
			if end > int64(len(data)) || string(data[off:end]) != string(src[off:end]) {
				res.Unsound = append(res.Unsound, fmt.Sprintf("%s chunk %d marked but file bytes differ (file len %d)", item.RelPath, i, len(data)))
			}
		}
		res.Sidecars = append(res.Sidecars, fmt.Sprintf("%s:%d/%d", e.Name(), nm, sc.TotalChunks))
		res.LastMarked += nm
		res.LastTotal += int(sc.TotalChunks)
	}
}

func runCrash(cc CrashCase) (res CrashResult) {
	res.Name = cc.Name
	tmp, err := os.MkdirTemp("", "vcrash")
	if err != nil {
		res.Note = err.Error()
		return
	}
	defer os.RemoveAll(tmp)
	src := filepath.Join(tmp, "src", "tree")
	os.MkdirAll(src, 0o755)
	c := cc.Base
	for _, d := range c.Dirs {
		os.MkdirAll(filepath.Join(src, filepath.FromSlash(d)), 0o755)
	}
	for _, f := range c.Files {
		p := filepath.Join(src, filepath.FromSlash(relOf(f)))
		os.MkdirAll(filepath.Dir(p), 0o755)
		os.WriteFile(p, content(f.S, f.N), 0o644)
	}
	m, err := manifest.Scan(src)
	if err != nil {
		res.Note = "scan: " + err.Error()
		return
	}
	out := filepath.Join(tmp, "out")
	os.MkdirAll(out, 0o755)
	outTree := out
	if !c.NoRoot {
		outTree = filepath.Join(out, m.Root)
	}
	c.SrcDir = src
	c.KeepOut = out
	c.Resume = true
	if len(cc.Kills) == 0 { // counting run
		c.CountHits = true
		_, r, note := runChild(c)
		if r != nil {
			res.Hits = r.Hits
			res.Final = r
		}
		res.Note = note
		inspect(c, m, outTree, &res)
		return
	}
	for _, k := range cc.Kills {
		kc := c
		kc.KillPoint, kc.KillAt, kc.FlushFirst, kc.FlushAtAll = k.Point, k.At, k.FlushFirst, k.FlushAtAll
		killed, r, note := runChild(kc)
		res.Killed = append(res.Killed, killed)
		if note != "" {
			res.Note += note + "; "
		}
		_ = r
		res.LastMarked, res.LastTotal = 0, 0
		inspect(c, m, outTree, &res)
	}
	chunk := c.Chunk
	if chunk == 0 {
		chunk = 64
	}
	for _, f := range c.Files {
		res.AllChunks += int((f.N + int64(chunk) - 1) / int64(chunk))
	}
	if cc.Resume {
		fc := c
		fc.TimeoutMs = 6000
		fc.CountHits = true
		_, r, note := runChild(fc)
		if note != "" {
			res.Note += note
		}
		res.Final = r
	}
	return
}
