//go:build verif

package main

import (
	"context"
	"encoding/binary"
	"encoding/json"
	"os"
	"path/filepath"
	"time"

	"github.com/sheerbytes/sheerbytes/internal/transfer"
	"github.com/sheerbytes/sheerbytes/internal/zzverif/netsim"
	"github.com/sheerbytes/sheerbytes/pkg/manifest"
)

// LateWriterCase: a scripted sender against the real RecvManifestMultiStream (resume on), two data streams carrying chunks of ONE file.
// Stream A delivers the chunks in First; stream B delivers the header and half the payload of chunk Late; stream A then delivers chunk
// Bad with a wrong checksum (the file is finalised as failed: sidecar flushed, file handle closed) while the reader that failed is held
// in the display callback; only then the rest of B's payload arrives and that reader writes into the finalised file.
// Afterwards (receiver returned, and once more after all flushers ran) every chunk the sidecar on disk marks must hold the source bytes.
type LateWriterCase struct {
	Mode   string `json:"mode"` // "latewriter"
	Name   string `json:"name"`
	Chunks int    `json:"chunks"`
	First  []int  `json:"first"`
	Late   int    `json:"late"`
	Bad    int    `json:"bad"`
	HoldMs int    `json:"hold_ms"` // how long the failing reader is held in TransferStatsFn
	Kind   string `json:"kind"`    // "crc" (wrong checksum) | "range" (chunk index out of range) | "cut" (stream A ends inside the frame)
}

type LateWriterResult struct {
	Name     string   `json:"name"`
	Note     string   `json:"note,omitempty"`
	Returned bool     `json:"returned"`
	RecvOK   bool     `json:"recv_ok"`
	RecvErr  string   `json:"recv_err,omitempty"`
	Unsound  []string `json:"unsound,omitempty"`
	Sidecars []string `json:"sidecars,omitempty"`
	Marked   int      `json:"marked_chunks_checked"`
	FileLen  int64    `json:"file_len"`
}

func runLateWriter(c LateWriterCase) (res LateWriterResult) {
	res.Name = c.Name
	tmp, err := os.MkdirTemp("", "vlate")
	if err != nil {
		res.Note = "tmp:" + err.Error()
		return
	}
	defer os.RemoveAll(tmp)
	const chunk = 64
	size := int64(c.Chunks)*chunk - 9
	spec := FileSpec{P: "f.bin", N: size, S: 4242}
	data := content(spec.S, spec.N)
	m := manifest.Manifest{Root: "t", Items: []manifest.FileItem{{RelPath: "f.bin", Size: size, ID: "late-writer-id"}}, FileCount: 1, TotalBytes: size}
	outDir := filepath.Join(tmp, "out")
	os.MkdirAll(outDir, 0o755)
	a, b := netsim.NewPair(netsim.Options{Lazy: false})
	defer a.Lose()
	ctx, cancel := context.WithTimeout(context.Background(), 5*time.Second)
	defer cancel()
	hold := time.Duration(c.HoldMs) * time.Millisecond
	finalised := make(chan struct{}, 16)
	opts := transfer.Options{Resume: true, NoRootDir: true, HashAlg: "crc32c", ParallelFiles: 2}
	opts.TransferStatsFn = func(active, completed int, remaining int64) {
		// called at the very end of finalizeFile (after the sidecar flush and closeFile), before the failing reader reports its error
		select {
		case finalised <- struct{}{}:
		default:
		}
		time.Sleep(hold)
	}
	rch := make(chan error, 1)
	go func() {
		_, err := transfer.RecvManifestMultiStream(ctx, b, outDir, opts)
		rch <- err
	}()
	ctl, _ := a.OpenStream(ctx)
	go func() {
		for {
			if _, _, err := transfer.VerifReadControlMessage(ctl); err != nil {
				return
			}
		}
	}()
	js, _ := json.Marshal(m)
	hdr := append([]byte(transfer.VerifControlMagic), 0, 0, 0, 0)
	binary.BigEndian.PutUint32(hdr[4:8], uint32(len(js)))
	ctl.Write(append(hdr, js...))
	sa, _ := a.OpenStream(ctx)
	sb, _ := a.OpenStream(ctx)
	ctl.Write([]byte{0x17, 0, 2})
	rec := []byte{0x10, 0, 5}
	rec = append(rec, "f.bin"...)
	rec = binary.BigEndian.AppendUint64(rec, uint64(size))
	rec = binary.BigEndian.AppendUint32(rec, chunk)
	rec = binary.BigEndian.AppendUint64(rec, 0)
	rec = append(rec, 1, 0, 0, 0, 0, 0, 0, 0, 0, 0, 0, 0, 0)
	ctl.Write(rec)
	key := transfer.VerifFileKeyForItem("f.bin", "late-writer-id")
	frame := func(idx int, damage bool) ([]byte, []byte) {
		off := int64(idx) * chunk
		end := off + chunk
		if end > size {
			end = size
		}
		pl := data[off:end]
		fh := make([]byte, 20)
		binary.BigEndian.PutUint64(fh[0:8], key)
		binary.BigEndian.PutUint32(fh[8:12], uint32(idx))
		binary.BigEndian.PutUint32(fh[12:16], uint32(len(pl)))
		crc := transfer.VerifCRC32C(pl)
		if damage {
			crc ^= 0x1
		}
		binary.BigEndian.PutUint32(fh[16:20], crc)
		return fh, pl
	}
	for _, i := range c.First {
		fh, pl := frame(i, false)
		sa.Write(fh)
		sa.Write(pl)
	}
	time.Sleep(60 * time.Millisecond) // the first chunks are written and marked
	lh, lp := frame(c.Late, false)
	sb.Write(lh)
	sb.Write(lp[:len(lp)/2])
	time.Sleep(40 * time.Millisecond) // reader B has looked the file state up and waits for the rest of its payload
	switch c.Kind {
	case "range":
		fh, pl := frame(c.Bad, false)
		binary.BigEndian.PutUint32(fh[8:12], uint32(c.Chunks+3))
		sa.Write(fh)
		sa.Write(pl)
	case "cut":
		fh, pl := frame(c.Bad, false)
		sa.Write(fh)
		sa.Write(pl[:len(pl)/3])
		sa.Close()
	default:
		fh, pl := frame(c.Bad, true)
		sa.Write(fh)
		sa.Write(pl)
	}
	select {
	case <-finalised:
	case <-time.After(500 * time.Millisecond):
		// (a cut stream does not finalise the file: the run then only shows that nothing is claimed that is not there)
	}
	time.Sleep(20 * time.Millisecond)
	sb.Write(lp[len(lp)/2:])
	select {
	case err := <-rch:
		res.Returned = true
		res.RecvOK = err == nil
		if err != nil {
			res.RecvErr = err.Error()
		}
	case <-time.After(3 * time.Second):
		res.Note = "receiver did not return within 3s"
		a.Lose()
		cancel()
		select {
		case <-rch:
		case <-time.After(time.Second):
		}
	}
	cc := Case{Files: []FileSpec{spec}}
	var cr CrashResult
	inspect(cc, m, outDir, &cr) // what a crash right now would leave
	transfer.FlushAllFlushers()
	var cr2 CrashResult
	inspect(cc, m, outDir, &cr2) // and after the exit path's flush
	res.Unsound = append(cr.Unsound, cr2.Unsound...)
	res.Sidecars = cr2.Sidecars
	res.Marked = cr.Marked + cr2.Marked
	if st, err := os.Stat(filepath.Join(outDir, "f.bin")); err == nil {
		res.FileLen = st.Size()
	}
	return
}
