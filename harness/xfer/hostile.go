//go:build verif

package main

import (
	"context"
	"encoding/binary"
	"encoding/hex"
	"encoding/json"
	"fmt"
	"io/fs"
	"os"
	"path/filepath"
	"runtime"
	"sort"
	"strings"
	"time"

	"github.com/sheerbytes/sheerbytes/internal/transfer"
	"github.com/sheerbytes/sheerbytes/internal/zzverif/netsim"
	"github.com/sheerbytes/sheerbytes/pkg/manifest"
)

// A hostile sender script against the real RecvManifestMultiStream.

type HItem struct {
	P   string `json:"p"` // hex rel_path
	N   int64  `json:"n"`
	Dir bool   `json:"dir"`
	ID  string `json:"id"` // hex id ("" = none)
}

type HBegin struct {
	P     string `json:"p"` // hex rel path on the wire
	N     uint64 `json:"n"`
	Chunk uint32 `json:"chunk"`
	// data-frame tampering for C15: override fields of the frames sent for this file
	FrameLenOverride *uint32 `json:"frame_len,omitempty"`
	FrameIdxOverride *uint32 `json:"frame_idx,omitempty"`
	NoFrames         bool    `json:"no_frames,omitempty"`
	ForceFrame       bool    `json:"force_frame,omitempty"` // send one 3-byte frame even for an empty file
}

type HostileCase struct {
	Name    string   `json:"name"`
	Root    string   `json:"root"` // hex
	Items   []HItem  `json:"items"`
	Begins  []HBegin `json:"begins"`
	NoRoot  bool     `json:"noroot"`
	Resume  bool     `json:"resume"`
	RawCtl  string   `json:"raw_control,omitempty"` // hex: bytes to put on the control stream instead of the script
	RawData string   `json:"raw_data,omitempty"`    // hex: bytes for the (single) data stream
	Streams int      `json:"streams"`
}

type HostileResult struct {
	Name      string   `json:"name"`
	RecvErr   string   `json:"recv_err"`
	RecvOK    bool     `json:"recv_ok"`
	Returned  bool     `json:"returned"`
	Created   []string `json:"created"`           // inside out dir: elements hex joined by "/"
	Outside   []string `json:"outside,omitempty"` // anything created/changed/removed in the sandbox outside the out dir
	ElapsedMs int64    `json:"elapsed_ms"`
	HeapMB    float64  `json:"heap_mb"`
	Note      string   `json:"note,omitempty"`
}

func unhexS(s string) string {
	b, _ := hex.DecodeString(s)
	return string(b)
}

type fsEntry struct {
	dir  bool
	size int64
	mod  int64
}

func walkAll(root string) map[string]fsEntry {
	res := map[string]fsEntry{}
	filepath.WalkDir(root, func(p string, d fs.DirEntry, err error) error {
		if err != nil {
			return nil
		}
		rel, _ := filepath.Rel(root, p)
		info, e := d.Info()
		if e != nil {
			return nil
		}
		res[rel] = fsEntry{dir: d.IsDir(), size: info.Size(), mod: info.ModTime().UnixNano()}
		return nil
	})
	return res
}

func hexElems(rel string) string {
	parts := strings.Split(rel, string(os.PathSeparator))
	for i, p := range parts {
		parts[i] = hex.EncodeToString([]byte(p))
	}
	return strings.Join(parts, "/")
}

func runHostile(c HostileCase) (res HostileResult) {
	res.Name = c.Name
	defer func() {
		if r := recover(); r != nil {
			res.Note = fmt.Sprintf("panic:%v", r)
		}
	}()
	sandbox, err := os.MkdirTemp("", "vhost")
	if err != nil {
		res.Note = err.Error()
		return
	}
	defer os.RemoveAll(sandbox)
	outDir := filepath.Join(sandbox, "a", "b", "out")
	os.MkdirAll(outDir, 0o755)
	// decoys a hostile path might hit
	os.MkdirAll(filepath.Join(sandbox, "a", "victim", ".thruflux_resumedata"), 0o755)
	// a VALID sidecar of some other transfer: a fallback lookup that reaches it deletes it on identity mismatch
	transfer.CreateSidecar(filepath.Join(sandbox, "a", "victim", ".thruflux_resumedata", "x.sbxmap"), "other-id", 5, 7)
	os.WriteFile(filepath.Join(sandbox, "a", "b", "sibling.txt"), []byte("decoy"), 0o644)
	before := walkAll(sandbox)

	m := manifest.Manifest{Root: unhexS(c.Root)}
	for _, it := range c.Items {
		m.Items = append(m.Items, manifest.FileItem{RelPath: unhexS(it.P), Size: it.N, IsDir: it.Dir, ID: unhexS(it.ID)})
		if it.Dir {
			m.FolderCount++
		} else {
			m.FileCount++
			m.TotalBytes += it.N
		}
	}
	a, b := netsim.NewPair(netsim.Options{Lazy: false})
	defer a.Lose()
	ctx, cancel := context.WithTimeout(context.Background(), 4*time.Second)
	defer cancel()
	type ret struct{ err error }
	rch := make(chan ret, 1)
	recvReturned := make(chan struct{})
	var m0 runtime.MemStats
	runtime.GC()
	runtime.ReadMemStats(&m0)
	t0 := time.Now()
	go func() {
		_, err := transfer.RecvManifestMultiStream(ctx, b, outDir, transfer.Options{Resume: c.Resume, NoRootDir: c.NoRoot, HashAlg: "crc32c", ParallelFiles: 1})
		rch <- ret{err}
		close(recvReturned)
	}()
	// ---- the script
	ctl, _ := a.OpenStream(ctx)
	doneSeen := make(chan struct{}, 1024)
	go func() { // read whatever the receiver says; count FileDone records
		for {
			typ, _, err := transfer.VerifReadControlMessage(ctl)
			if err != nil {
				return
			}
			if typ == 0x13 {
				doneSeen <- struct{}{}
			}
		}
	}()
	if c.RawCtl != "" {
		raw, _ := hex.DecodeString(c.RawCtl)
		ctl.Write(raw)
		if c.RawData != "" {
			ds, _ := a.OpenStream(ctx)
			rd, _ := hex.DecodeString(c.RawData)
			ds.Write(rd)
			ds.Close()
		}
		ctl.Close()
	} else {
		js, _ := json.Marshal(m)
		hdr := append([]byte(transfer.VerifControlMagic), 0, 0, 0, 0)
		binary.BigEndian.PutUint32(hdr[4:8], uint32(len(js)))
		ctl.Write(append(hdr, js...))
		ds, _ := a.OpenStream(ctx)
		ctl.Write([]byte{0x17, 0, 1})
		for _, bg := range c.Begins {
			p := unhexS(bg.P)
			rec := []byte{0x10, byte(len(p) >> 8), byte(len(p))}
			rec = append(rec, p...)
			rec = binary.BigEndian.AppendUint64(rec, bg.N)
			rec = binary.BigEndian.AppendUint32(rec, bg.Chunk)
			rec = binary.BigEndian.AppendUint64(rec, 0)
			rec = append(rec, 1, 0, 0, 0, 0, 0, 0, 0, 0, 0, 0, 0, 0)
			ctl.Write(rec)
			// find the item to compute the key
			id := ""
			for _, it := range m.Items {
				if it.RelPath == p {
					id = it.ID
				}
			}
			key := transfer.VerifFileKeyForItem(p, id)
			data := content(7, int64(bg.N))
			sent := uint32(0)
			if bg.Chunk > 0 && !bg.NoFrames {
				for off, idx := uint64(0), uint32(0); off < bg.N; off, idx = off+uint64(bg.Chunk), idx+1 {
					end := off + uint64(bg.Chunk)
					if end > bg.N {
						end = bg.N
					}
					pl := data[off:end]
					fh := make([]byte, 20)
					binary.BigEndian.PutUint64(fh[0:8], key)
					fi, fl := idx, uint32(len(pl))
					if bg.FrameIdxOverride != nil {
						fi = *bg.FrameIdxOverride
					}
					if bg.FrameLenOverride != nil {
						fl = *bg.FrameLenOverride
					}
					binary.BigEndian.PutUint32(fh[8:12], fi)
					binary.BigEndian.PutUint32(fh[12:16], fl)
					binary.BigEndian.PutUint32(fh[16:20], transfer.VerifCRC32C(pl))
					ds.Write(fh)
					ds.Write(pl)
					sent++
				}
			}
			if bg.ForceFrame && sent == 0 {
				pl := []byte("xyz")
				fh := make([]byte, 20)
				binary.BigEndian.PutUint64(fh[0:8], key)
				binary.BigEndian.PutUint32(fh[12:16], 3)
				binary.BigEndian.PutUint32(fh[16:20], transfer.VerifCRC32C(pl))
				ds.Write(fh)
				ds.Write(pl)
				sent++
				time.Sleep(30 * time.Millisecond) // let the reader see the frame before FileEnd finalises the empty file
			}
			fe := []byte{0x12}
			fe = binary.BigEndian.AppendUint64(fe, key)
			fe = binary.BigEndian.AppendUint32(fe, sent)
			ctl.Write(fe)
		}
		// a conforming sender writes End only after every FileDone; give the receiver 300 ms for that
		waitUntil := time.After(1500 * time.Millisecond)
	waitDone:
		for got := 0; got < len(c.Begins); {
			select {
			case <-doneSeen:
				got++
			case <-waitUntil:
				break waitDone
			case <-recvReturned:
				break waitDone
			}
		}
		ctl.Write([]byte{0xFF})
		time.AfterFunc(300*time.Millisecond, func() { ds.Close(); ctl.Close() })
	}
	select {
	case r := <-rch:
		res.Returned = true
		res.RecvOK = r.err == nil
		if r.err != nil {
			res.RecvErr = r.err.Error()
		}
	case <-time.After(3 * time.Second):
		res.Note = "receiver did not return within 3s"
		a.Lose()
		cancel()
		select {
		case <-rch:
		case <-time.After(time.Second):
		}
	}
	res.ElapsedMs = time.Since(t0).Milliseconds()
	var m1 runtime.MemStats
	runtime.ReadMemStats(&m1)
	res.HeapMB = float64(int64(m1.TotalAlloc)-int64(m0.TotalAlloc)) / (1 << 20)
	transfer.FlushAllFlushers()
	after := walkAll(sandbox)
	outRel, _ := filepath.Rel(sandbox, outDir)
	seen := map[string]bool{}
	for p, e := range after {
		old, had := before[p]
		changed := !had || old.dir != e.dir || old.size != e.size || (!e.dir && old.mod != e.mod)
		if !changed {
			continue
		}
		if p == outRel {
			continue
		}
		if strings.HasPrefix(p, outRel+string(os.PathSeparator)) {
			rel := strings.TrimPrefix(p, outRel+string(os.PathSeparator))
			if strings.HasSuffix(rel, ".tmp") {
				continue
			}
			seen[hexElems(rel)] = true
		} else if had && e.dir {
			continue // mtime of a pre-existing directory is not compared (size may differ by fs)
		} else {
			res.Outside = append(res.Outside, "changed:"+p)
		}
	}
	for p := range before {
		if _, ok := after[p]; !ok {
			res.Outside = append(res.Outside, "removed:"+p)
		}
	}
	for p := range seen {
		res.Created = append(res.Created, p)
	}
	sort.Strings(res.Created)
	sort.Strings(res.Outside)
	return
}

// ---- hostile receiver peer against the real SendManifestMultiStream

type HostileSendCase struct {
	Name   string `json:"name"`
	RawAck string `json:"raw_ack"` // hex bytes the fake receiver writes on the control stream
	Files  int    `json:"files"`
	Close  bool   `json:"close_after"` // close the connection after writing
}

func runHostileSend(c HostileSendCase) (res HostileResult) {
	res.Name = c.Name
	defer func() {
		if r := recover(); r != nil {
			res.Note = fmt.Sprintf("panic:%v", r)
		}
	}()
	tmp, _ := os.MkdirTemp("", "vhs")
	defer os.RemoveAll(tmp)
	src := filepath.Join(tmp, "tree")
	os.MkdirAll(src, 0o755)
	n := c.Files
	if n < 1 {
		n = 1
	}
	for i := 0; i < n; i++ {
		os.WriteFile(filepath.Join(src, fmt.Sprintf("f%d", i)), content(uint64(i), 200), 0o644)
	}
	m, err := manifest.Scan(src)
	if err != nil {
		res.Note = err.Error()
		return
	}
	a, b := netsim.NewPair(netsim.Options{Lazy: false})
	defer a.Lose()
	ctx, cancel := context.WithTimeout(context.Background(), 4*time.Second)
	defer cancel()
	sch := make(chan error, 1)
	var m0 runtime.MemStats
	runtime.GC()
	runtime.ReadMemStats(&m0)
	t0 := time.Now()
	go func() {
		opts := transfer.Options{ChunkSize: 64, ParallelFiles: 2, Resume: true}
		sch <- transfer.SendManifestMultiStream(ctx, a, src, m, opts)
	}()
	go func() {
		ctl, err := b.AcceptStream(ctx)
		if err != nil {
			return
		}
		go func() {
			buf := make([]byte, 4096)
			for {
				if _, err := ctl.Read(buf); err != nil {
					return
				}
			}
		}()
		raw, _ := hex.DecodeString(c.RawAck)
		time.Sleep(20 * time.Millisecond)
		ctl.Write(raw)
		if c.Close {
			time.Sleep(50 * time.Millisecond)
			b.Close()
		} else {
			ctl.Close()
		}
	}()
	select {
	case err := <-sch:
		res.Returned = true
		res.RecvOK = err == nil
		if err != nil {
			res.RecvErr = err.Error()
		}
	case <-time.After(3 * time.Second):
		res.Note = "sender did not return within 3s"
		a.Lose()
		cancel()
		select {
		case <-sch:
		case <-time.After(time.Second):
		}
	}
	res.ElapsedMs = time.Since(t0).Milliseconds()
	var m1 runtime.MemStats
	runtime.ReadMemStats(&m1)
	res.HeapMB = float64(int64(m1.TotalAlloc)-int64(m0.TotalAlloc)) / (1 << 20)
	return
}
