//go:build verif

package main

import (
	"context"
	"encoding/binary"
	"io"
	"os"
	"path/filepath"
	"sort"
	"sync"
	"sync/atomic"
	"time"

	"github.com/sheerbytes/sheerbytes/internal/transfer"
	"github.com/sheerbytes/sheerbytes/internal/verifhook"
	"github.com/sheerbytes/sheerbytes/internal/zzverif/netsim"
	"github.com/sheerbytes/sheerbytes/pkg/manifest"
)

// PlanCase: the real SendManifestMultiStream sends one file of Chunks chunks to a scripted receiver that answers the sender's
// ResumeRequest with exactly the given report (bitmap, last verified chunk, hash good / bad / unknown) and records which chunk
// frames then travel. Compared with Model/Resume (`plan`, `sent`).
type PlanCase struct {
	Mode    string `json:"mode"` // "plan"
	Name    string `json:"name"`
	Chunks  int    `json:"chunks"`
	Tail    uint32 `json:"tail"`
	Verify  string `json:"verify"`   // sender Options.ResumeVerify
	HashAlg string `json:"hash_alg"` // sender Options.HashAlg
	Bits    string `json:"bits"`     // reported bitmap, one '0'/'1' per chunk
	Last    int    `json:"last"`     // reported LastVerifiedChunk
	Hash    string `json:"hash"`     // good | bad | unknown | zero
	Streams int    `json:"streams"`
	// the receiver answers the ResumeRequest only after this delay (longer than the sender's 300 ms grace: the sender has then sent every
	// chunk and the end record without a plan) and confirms the file only DoneDelayMs after it saw FileEnd
	ReportDelayMs int `json:"report_delay_ms"`
	DoneDelayMs   int `json:"done_delay_ms"`
	// a report that arrives in the middle of the regular pass: every chunk takes ProgressDelayMs in the sender's progress callback, and
	// the statistics callback that applyResumeInfo calls takes StatsDelayMs (both are display code in the CLI)
	ProgressDelayMs int `json:"progress_delay_ms"`
	StatsDelayMs    int `json:"stats_delay_ms"`
}

type PlanResult struct {
	Name      string `json:"name"`
	Note      string `json:"note,omitempty"`
	Sent      []int  `json:"sent"`
	SenderOK  bool   `json:"sender_ok"`
	SenderErr string `json:"sender_err,omitempty"`
	Skipped   int    `json:"planned_skipped"`
	Verified  int    `json:"verified_chunk"`
	Stats     bool   `json:"stats"`
	EndCount  int    `json:"file_end_count"` // the frame count FileEnd announced (-1: no FileEnd seen)
	LateFrames []int `json:"frames_after_end"` // chunk frames the sender began to write after it had begun to write FileEnd
}

func runPlan(c PlanCase) (res PlanResult) {
	res.Name = c.Name
	res.Skipped, res.Verified, res.EndCount = -1, -1, -1
	tmp, err := os.MkdirTemp("", "vplan")
	if err != nil {
		res.Note = "tmp:" + err.Error()
		return
	}
	defer os.RemoveAll(tmp)
	const chunk = 64
	src := filepath.Join(tmp, "tree")
	os.MkdirAll(src, 0o755)
	size := int64(c.Chunks)*chunk - 5
	sp := filepath.Join(src, "f.bin")
	os.WriteFile(sp, content(77, size), 0o644)
	m, err := manifest.Scan(src)
	if err != nil {
		res.Note = "scan:" + err.Error()
		return
	}
	alg, err := transfer.VerifParseHashAlg(c.HashAlg)
	if err != nil {
		res.Note = "alg:" + err.Error()
		return
	}
	a, b := netsim.NewPair(netsim.Options{Lazy: true})
	defer a.Lose()
	ctx, cancel := context.WithTimeout(context.Background(), 5*time.Second)
	defer cancel()
	streams := c.Streams
	if streams < 1 {
		streams = 1
	}
	var mu, wmu sync.Mutex
	// the sender's own order of events (hook points in front of a chunk frame's write and in front of the end record's write): a chunk
	// frame begun after the end record was begun is a frame after the end record, whatever the streams do to their relative arrival
	endBegun := false
	verifhook.Set(func(name string, args []uint64, _ string) {
		switch name {
		case "send.before_file_end":
			mu.Lock()
			endBegun = true
			mu.Unlock()
		case "send.before_chunk":
			mu.Lock()
			if endBegun && len(args) > 1 {
				res.LateFrames = append(res.LateFrames, int(args[1]))
			}
			mu.Unlock()
		}
	})
	defer verifhook.Set(nil)
	sopts := transfer.Options{ChunkSize: chunk, ParallelFiles: streams, Resume: true, ResumeVerifyTail: c.Tail, ResumeVerify: c.Verify, HashAlg: c.HashAlg}
	sopts.ParamSource = func() transfer.RuntimeParams { return transfer.RuntimeParams{ChunkSize: chunk, ParallelFiles: streams} }
	sopts.ResumeStatsFn = func(rel string, skipped, total, verified uint32, sz int64, cs uint32) {
		mu.Lock()
		res.Skipped, res.Verified, res.Stats = int(skipped), int(verified), true
		mu.Unlock()
		if c.StatsDelayMs > 0 {
			time.Sleep(time.Duration(c.StatsDelayMs) * time.Millisecond)
		}
	}
	// the CLI installs a progress callback; it runs between a worker's "frame counted" and "chunk done" steps. Make every other
	// call slow so that the workers' steps cross.
	var pcalls int64
	sopts.ProgressFn = func(rel string, sent, total int64) {
		if c.ProgressDelayMs > 0 {
			time.Sleep(time.Duration(c.ProgressDelayMs) * time.Millisecond)
			return
		}
		if atomic.AddInt64(&pcalls, 1)%2 == 1 {
			time.Sleep(2 * time.Millisecond)
		}
	}
	sch := make(chan error, 1)
	go func() { sch <- transfer.SendManifestMultiStream(ctx, a, src, m, sopts) }()

	var readers sync.WaitGroup
	readFrames := func(s transfer.Stream) {
		defer readers.Done()
		hdr := make([]byte, 20)
		for {
			if _, err := io.ReadFull(s, hdr); err != nil {
				return
			}
			idx := binary.BigEndian.Uint32(hdr[8:12])
			n := binary.BigEndian.Uint32(hdr[12:16])
			if _, err := io.CopyN(io.Discard, s, int64(n)); err != nil {
				return
			}
			mu.Lock()
			res.Sent = append(res.Sent, int(idx))
			mu.Unlock()
		}
	}
	scriptDone := make(chan string, 1)
	go func() {
		ctl, err := b.AcceptStream(ctx)
		if err != nil {
			scriptDone <- "accept:" + err.Error()
			return
		}
		if _, err := transfer.VerifReadControlHeader(ctl); err != nil {
			scriptDone <- "header:" + err.Error()
			return
		}
		for {
			typ, msg, err := transfer.VerifReadControlMessage(ctl)
			if err != nil {
				scriptDone <- "read:" + err.Error()
				return
			}
			switch x := msg.(type) {
			case transfer.DataStreams:
				for i := 0; i < int(x.Count); i++ {
					readers.Add(1)
					go func() {
						s, err := b.AcceptStream(ctx)
						if err != nil {
							readers.Done()
							return
						}
						readFrames(s)
					}()
				}
			case transfer.ResumeRequest:
				bm := make([]byte, (c.Chunks+7)/8)
				for i := 0; i < c.Chunks && i < len(c.Bits); i++ {
					if c.Bits[i] == '1' {
						bm[i/8] |= 1 << uint(i%8)
					}
				}
				info := transfer.FileResumeInfo{FileID: x.FileID, StreamID: x.StreamID, TotalChunks: uint32(c.Chunks), Bitmap: bm, LastVerifiedChunk: uint32(c.Last)}
				switch c.Hash {
				case "good", "bad":
					if c.Last < c.Chunks {
						h, herr := transfer.VerifHashFileChunk(sp, uint32(c.Last), chunk, size, alg)
						if herr != nil {
							scriptDone <- "hash:" + herr.Error()
							return
						}
						if c.Hash == "bad" {
							h ^= 0x5a5a
							if h == transfer.VerifResumeHashUnknown {
								h ^= 1
							}
						}
						info.LastVerifiedHash = h
					}
				case "unknown":
					info.LastVerifiedHash = transfer.VerifResumeHashUnknown
				}
				if c.ReportDelayMs > 0 {
					go func() {
						time.Sleep(time.Duration(c.ReportDelayMs) * time.Millisecond)
						wmu.Lock()
						transfer.VerifWriteFileResumeInfo(ctl, info)
						wmu.Unlock()
					}()
					continue
				}
				wmu.Lock()
				err := transfer.VerifWriteFileResumeInfo(ctl, info)
				wmu.Unlock()
				if err != nil {
					scriptDone <- "write-info:" + err.Error()
					return
				}
			case transfer.FileEnd:
				mu.Lock()
				res.EndCount = int(x.CRC32)
				mu.Unlock()
				if c.DoneDelayMs > 0 {
					time.Sleep(time.Duration(c.DoneDelayMs) * time.Millisecond)
				}
				wmu.Lock()
				err := transfer.VerifWriteFileDone(ctl, transfer.FileDone{StreamID: x.StreamID, OK: true})
				wmu.Unlock()
				if err != nil {
					scriptDone <- "write-done:" + err.Error()
					return
				}
			case nil:
				if typ == 0xFF {
					scriptDone <- ""
					return
				}
			}
		}
	}()
	select {
	case e := <-sch:
		res.SenderOK = e == nil
		if e != nil {
			res.SenderErr = e.Error()
		}
	case <-ctx.Done():
		res.Note = "sender did not return"
		a.Lose()
	}
	select {
	case n := <-scriptDone:
		if n != "" && res.Note == "" && res.SenderOK {
			res.Note = "script:" + n
		}
	case <-time.After(2 * time.Second):
		if res.Note == "" {
			res.Note = "script did not see End"
		}
	}
	// the sender closed its streams when it returned: the readers drain what is buffered and then see the end of their stream
	done := make(chan struct{})
	go func() { readers.Wait(); close(done) }()
	select {
	case <-done:
	case <-time.After(2 * time.Second):
		if res.Note == "" {
			res.Note = "data readers did not see the end of their streams"
		}
	}
	a.Close()
	b.Close()
	mu.Lock()
	sort.Ints(res.Sent)
	mu.Unlock()
	return
}
