//go:build verif

package main

import (
	"bytes"
	"context"
	"fmt"
	"os"
	"path/filepath"
	"time"

	"github.com/sheerbytes/sheerbytes/internal/transfer"
	"github.com/sheerbytes/sheerbytes/internal/zzverif/netsim"
	"github.com/sheerbytes/sheerbytes/pkg/manifest"
)

// BigCase: a sparse file larger than 4 GiB is resumed: the out dir already holds (sparse) everything except the chunks in Need,
// the sidecar marks the rest. Only the needed chunks travel, so the run is fast, but their indices / offsets lie beyond 2^32.
// Compared: size, every chunk that holds data, every needed chunk, a sample of hole chunks; and every chunk the on-disk sidecar
// claims among those.
type BigCase struct {
	Mode    string   `json:"mode"` // "big"
	Name    string   `json:"name"`
	Size    int64    `json:"size"`
	Chunk   uint32   `json:"chunk"`
	Data    []uint32 `json:"data"` // chunk indices that hold (seeded) data in the source; everything else is a hole
	Need    []uint32 `json:"need"` // chunk indices missing at the receiver
	Damage  []uint32 `json:"damage"` // chunk indices the sidecar marks complete although their bytes on disk are wrong (torn)
	Streams int      `json:"streams"`
}

func chunkSpan(size int64, chunk uint32, idx uint32) (int64, int64) {
	off := int64(idx) * int64(chunk)
	n := int64(chunk)
	if off+n > size {
		n = size - off
	}
	return off, n
}

func runBig(c BigCase) (res Result) {
	res.Name = c.Name
	tmp, err := os.MkdirTemp("", "vbig")
	if err != nil {
		res.Note = "tmp:" + err.Error()
		return
	}
	defer os.RemoveAll(tmp)
	src := filepath.Join(tmp, "src", "tree")
	os.MkdirAll(src, 0o755)
	sp := filepath.Join(src, "big.bin")
	sf, err := os.Create(sp)
	if err != nil {
		res.Note = "mk:" + err.Error()
		return
	}
	sf.Truncate(c.Size)
	isData := map[uint32]bool{}
	for _, d := range c.Data {
		off, n := chunkSpan(c.Size, c.Chunk, d)
		if n <= 0 {
			continue
		}
		isData[d] = true
		sf.WriteAt(content(uint64(d)+11, n), off)
	}
	sf.Close()
	m, err := manifest.Scan(src)
	if err != nil {
		res.Note = "scan:" + err.Error()
		return
	}
	var item *manifest.FileItem
	for i := range m.Items {
		if m.Items[i].RelPath == "big.bin" {
			item = &m.Items[i]
		}
	}
	if item == nil {
		res.Note = "no item"
		return
	}
	out := filepath.Join(tmp, "out")
	os.MkdirAll(out, 0o755)
	total := uint32((c.Size + int64(c.Chunk) - 1) / int64(c.Chunk))
	need := map[uint32]bool{}
	for _, n := range c.Need {
		need[n] = true
	}
	of, _ := os.Create(filepath.Join(out, "big.bin"))
	of.Truncate(c.Size)
	for _, d := range c.Data {
		if !need[d] {
			off, n := chunkSpan(c.Size, c.Chunk, d)
			of.WriteAt(content(uint64(d)+11, n), off)
		}
	}
	for _, d := range c.Damage {
		off, n := chunkSpan(c.Size, c.Chunk, d)
		if n > 0 {
			junk := content(uint64(d)+4242, n)
			of.WriteAt(junk, off)
		}
	}
	of.Close()
	sc, err := transfer.CreateSidecar(transfer.SidecarPath(out, "", item.ID), item.ID, item.Size, c.Chunk)
	if err != nil {
		res.Note = "sidecar:" + err.Error()
		return
	}
	for i := uint32(0); i < total; i++ {
		if !need[i] {
			sc.MarkComplete(i)
		}
	}
	sc.Flush()
	a, b := netsim.NewPair(netsim.Options{Lazy: true})
	streams := c.Streams
	if streams < 1 {
		streams = 1
	}
	sopts := transfer.Options{ChunkSize: c.Chunk, ParallelFiles: streams, Resume: true, HashAlg: "crc32c"}
	sopts.ParamSource = func() transfer.RuntimeParams { return transfer.RuntimeParams{ChunkSize: c.Chunk, ParallelFiles: streams} }
	ropts := transfer.Options{Resume: true, NoRootDir: true, HashAlg: "crc32c", ParallelFiles: streams}
	ctx, cancel := context.WithTimeout(context.Background(), 60*time.Second)
	defer cancel()
	sch := make(chan error, 1)
	rch := make(chan error, 1)
	t0 := time.Now()
	go func() { sch <- transfer.SendManifestMultiStream(ctx, a, src, m, sopts) }()
	go func() { _, err := transfer.RecvManifestMultiStream(ctx, b, out, ropts); rch <- err }()
	for i := 0; i < 2; i++ {
		select {
		case e := <-sch:
			res.SenderRet, res.SenderOK = true, e == nil
			if e != nil {
				res.SenderErr = e.Error()
			}
		case e := <-rch:
			res.RecvRet, res.RecvOK = true, e == nil
			if e != nil {
				res.RecvErr = e.Error()
			}
		case <-ctx.Done():
			res.Hang = fmt.Sprintf("sender_returned=%v recv_returned=%v", res.SenderRet, res.RecvRet)
			a.Lose()
			i = 2
		}
	}
	res.ElapsedMs = time.Since(t0).Milliseconds()
	// compare
	sfd, _ := os.Open(sp)
	ofd, err := os.Open(filepath.Join(out, "big.bin"))
	if err != nil {
		res.Diff = append(res.Diff, "missing:big.bin")
		return
	}
	defer sfd.Close()
	defer ofd.Close()
	if st, _ := ofd.Stat(); st.Size() != c.Size {
		res.Diff = append(res.Diff, fmt.Sprintf("size: %d vs %d", st.Size(), c.Size))
	}
	look := map[uint32]bool{0: true, total - 1: true, total / 2: true, total / 3: true}
	for _, d := range c.Data {
		look[d] = true
	}
	for _, n := range c.Need {
		look[n] = true
		if n > 0 {
			look[n-1] = true
		}
	}
	for _, d := range c.Damage {
		look[d] = true
	}
	// where an offset computed modulo 2^32 would land
	for _, n := range c.Need {
		off := (int64(n) * int64(c.Chunk)) & 0xFFFFFFFF
		look[uint32(off/int64(c.Chunk))] = true
	}
	bufA := make([]byte, c.Chunk)
	bufB := make([]byte, c.Chunk)
	for idx := range look {
		if idx >= total {
			continue
		}
		off, n := chunkSpan(c.Size, c.Chunk, idx)
		sfd.ReadAt(bufA[:n], off)
		ofd.ReadAt(bufB[:n], off)
		if !bytes.Equal(bufA[:n], bufB[:n]) {
			res.Diff = append(res.Diff, fmt.Sprintf("differs:big.bin chunk %d (offset %d)", idx, off))
		}
	}
	// the on-disk sidecar must not claim a chunk whose bytes differ (C05)
	if loaded, err := transfer.LoadSidecar(transfer.SidecarPath(out, "", item.ID)); err == nil {
		for idx := range look {
			if idx < total && loaded.IsComplete(idx) {
				off, n := chunkSpan(c.Size, c.Chunk, idx)
				sfd.ReadAt(bufA[:n], off)
				ofd.ReadAt(bufB[:n], off)
				if !bytes.Equal(bufA[:n], bufB[:n]) {
					res.Diff = append(res.Diff, fmt.Sprintf("sidecar-claims-bad-chunk:%d", idx))
				}
			}
		}
	}
	res.Equal = len(res.Diff) == 0
	return
}
