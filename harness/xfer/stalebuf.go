//go:build verif

package main

import (
	"context"
	"os"
	"path/filepath"
	"runtime"
	"time"

	"github.com/sheerbytes/sheerbytes/internal/transfer"
	"github.com/sheerbytes/sheerbytes/internal/zzverif/netsim"
	"github.com/sheerbytes/sheerbytes/pkg/manifest"
)

// StaleBufCase: one sender process serves two receivers (as `thru host` does). Transfer A is cancelled while one of its chunk reads
// is queued in the sender's shared read pool; transfer B then runs. The read workers' scheduling is scripted (a legal schedule of the
// real pool: the abandoned read of A completes after B's read into the same recycled buffer has completed, before B's worker goes
// on): B must still deliver the source bytes or fail - never succeed with other bytes.
type StaleBufCase struct {
	Mode string `json:"mode"` // "stalebuf"
	Name string `json:"name"`
}

type StaleBufResult struct {
	Name       string   `json:"name"`
	Note       string   `json:"note,omitempty"`
	Aliased    bool     `json:"buffer_recycled_into_b"`
	StaleRead  string   `json:"stale_read"`
	Abandoned  bool     `json:"read_abandoned_by_cancelled_sender"`
	SenderOK   bool     `json:"sender_ok"`
	RecvOK     bool     `json:"recv_ok"`
	SenderErr  string   `json:"sender_err,omitempty"`
	RecvErr    string   `json:"recv_err,omitempty"`
	Equal      bool     `json:"equal"`
	Diff       []string `json:"diff,omitempty"`
}

func runStaleBuf(c StaleBufCase) (res StaleBufResult) {
	res.Name = c.Name
	old := runtime.GOMAXPROCS(1) // one P: the buffer pool hands the recycled buffer to the next Get
	defer runtime.GOMAXPROCS(old)
	tmp, err := os.MkdirTemp("", "vstale")
	if err != nil {
		res.Note = "tmp:" + err.Error()
		return
	}
	defer os.RemoveAll(tmp)
	const chunk = 64
	src := filepath.Join(tmp, "src", "tree")
	os.MkdirAll(src, 0o755)
	os.WriteFile(filepath.Join(src, "f.bin"), content(5, 3*chunk), 0o644)
	m, err := manifest.Scan(src)
	if err != nil {
		res.Note = "scan:" + err.Error()
		return
	}
	pool := transfer.VerifManualReadPool()
	defer transfer.VerifRestoreReadPool()
	sopts := transfer.Options{ChunkSize: chunk, ParallelFiles: 1, Resume: false, HashAlg: "crc32c"}
	sopts.ParamSource = func() transfer.RuntimeParams { return transfer.RuntimeParams{ChunkSize: chunk, ParallelFiles: 1} }
	ropts := transfer.Options{NoRootDir: true, HashAlg: "crc32c", ParallelFiles: 1}

	// transfer A: cancelled while its first read is queued
	a1, b1 := netsim.NewPair(netsim.Options{Lazy: true})
	actx, acancel := context.WithCancel(context.Background())
	outA := filepath.Join(tmp, "outA")
	os.MkdirAll(outA, 0o755)
	sa := make(chan error, 1)
	go func() { sa <- transfer.SendManifestMultiStream(actx, a1, src, m, sopts) }()
	go func() { transfer.RecvManifestMultiStream(actx, b1, outA, ropts) }()
	ja := pool.Take(3 * time.Second)
	if ja == nil {
		res.Note = "transfer A never queued a read"
		acancel()
		return
	}
	acancel()
	abandoned := true
	select {
	case <-sa:
	case <-time.After(300 * time.Millisecond):
		// the sender waits for its queued read before it lets go of the buffer: let a pool worker finish that read
		ja.Read()
		ja.Deliver()
		abandoned = false
		select {
		case <-sa:
		case <-time.After(3 * time.Second):
			res.Note = "sender A did not return after the cancel"
			return
		}
	}
	a1.Close()
	res.Abandoned = abandoned

	// transfer B
	a2, b2 := netsim.NewPair(netsim.Options{Lazy: true})
	bctx, bcancel := context.WithTimeout(context.Background(), 6*time.Second)
	defer bcancel()
	outB := filepath.Join(tmp, "outB")
	os.MkdirAll(outB, 0o755)
	sb := make(chan error, 1)
	rb := make(chan error, 1)
	go func() { sb <- transfer.SendManifestMultiStream(bctx, a2, src, m, sopts) }()
	go func() { _, e := transfer.RecvManifestMultiStream(bctx, b2, outB, ropts); rb <- e }()
	staleDone := false
	for {
		jb := pool.Take(1500 * time.Millisecond)
		if jb == nil {
			break
		}
		jb.Read()
		if abandoned && !staleDone && jb.Offset() != ja.Offset() && jb.SameBuffer(ja) {
			// the abandoned read of transfer A completes now, into the buffer transfer B has just read its chunk into
			res.Aliased = true
			if e := ja.Read(); e != nil {
				res.StaleRead = "failed: " + e.Error()
			} else {
				res.StaleRead = "completed"
			}
			staleDone = true
		}
		jb.Deliver()
	}
	select {
	case e := <-sb:
		res.SenderOK = e == nil
		if e != nil {
			res.SenderErr = e.Error()
		}
	case <-time.After(3 * time.Second):
		res.Note = "sender B did not return"
	}
	select {
	case e := <-rb:
		res.RecvOK = e == nil
		if e != nil {
			res.RecvErr = e.Error()
		}
	case <-time.After(3 * time.Second):
		if res.Note == "" {
			res.Note = "receiver B did not return"
		}
	}
	a2.Close()
	b2.Close()
	x := snapshot(src, false)
	y := snapshot(outB, true)
	res.Diff = diffTrees(x, y)
	res.Equal = len(res.Diff) == 0
	return
}
