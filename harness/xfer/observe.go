//go:build verif

package main

import (
	"bytes"
	"fmt"
	"os"
	"path/filepath"
	"sync"

	"github.com/sheerbytes/sheerbytes/internal/transfer"
	"github.com/sheerbytes/sheerbytes/pkg/manifest"
)

// observer: while a transfer runs, flush the receiver's sidecars the way the signal handler does, load each sidecar file from
// disk and compare every chunk it claims with the source. What is on disk at that instant is what a kill at that instant leaves
// behind: a claimed chunk whose bytes are not in the output file yet is C05's failure, found without needing a hook point inside
// the window.
type observer struct {
	stop    chan struct{}
	done    chan struct{}
	mu      sync.Mutex
	Unsound []string
	Obs     int
}

func startObserver(m manifest.Manifest, srcRoot, outBase, outTree string) *observer {
	o := &observer{stop: make(chan struct{}), done: make(chan struct{})}
	go func() {
		defer close(o.done)
		verified := map[string]map[uint32]bool{}
		for {
			select {
			case <-o.stop:
				return
			default:
			}
			transfer.FlushAllFlushers()
			for _, it := range m.Items {
				if it.IsDir || it.ID == "" || it.Size == 0 {
					continue
				}
				sc, err := transfer.LoadSidecar(transfer.SidecarPath(outBase, "", it.ID))
				if err != nil || sc.ChunkSize == 0 {
					continue
				}
				o.mu.Lock()
				o.Obs++
				o.mu.Unlock()
				if verified[it.ID] == nil {
					verified[it.ID] = map[uint32]bool{}
				}
				var of, sf *os.File
				for i := uint32(0); i < sc.TotalChunks; i++ {
					if !sc.IsComplete(i) || verified[it.ID][i] {
						continue
					}
					if of == nil {
						of, err = os.Open(filepath.Join(outTree, filepath.FromSlash(it.RelPath)))
						if err != nil {
							o.note(fmt.Sprintf("%s: metadata claims chunk %d but the output file cannot be opened: %v", it.RelPath, i, err))
							break
						}
						sf, _ = os.Open(filepath.Join(srcRoot, filepath.FromSlash(it.RelPath)))
					}
					off := int64(i) * int64(sc.ChunkSize)
					n := int64(sc.ChunkSize)
					if off+n > it.Size {
						n = it.Size - off
					}
					a := make([]byte, n)
					b := make([]byte, n)
					of.ReadAt(a, off)
					if sf != nil {
						sf.ReadAt(b, off)
					}
					if !bytes.Equal(a, b) {
						o.note(fmt.Sprintf("%s: the metadata on disk claimed chunk %d while the output file did not hold its bytes", it.RelPath, i))
					} else {
						verified[it.ID][i] = true
					}
				}
				if of != nil {
					of.Close()
				}
				if sf != nil {
					sf.Close()
				}
			}
		}
	}()
	return o
}

func (o *observer) note(s string) {
	o.mu.Lock()
	if len(o.Unsound) < 5 {
		o.Unsound = append(o.Unsound, s)
	}
	o.mu.Unlock()
}

func (o *observer) finish() ([]string, int) {
	close(o.stop)
	<-o.done
	o.mu.Lock()
	defer o.mu.Unlock()
	return o.Unsound, o.Obs
}
