//go:build verif

// Harness "xfer": end-to-end runs of the real SendManifestMultiStream / RecvManifestMultiStream over
// netsim, the repo's mock transport, or real loopback QUIC. One JSON case per stdin line, one JSON
// result per stdout line.
package main

import (
	"bufio"
	"bytes"
	"context"
	"crypto/sha256"
	"encoding/hex"
	"encoding/json"
	"fmt"
	"io"
	"io/fs"
	"log/slog"
	"net"
	"os"
	"path/filepath"
	"runtime"
	"sort"
	"strings"
	"sync"
	"syscall"
	"time"

	"github.com/sheerbytes/sheerbytes/internal/quictransport"
	"github.com/sheerbytes/sheerbytes/internal/transfer"
	"github.com/sheerbytes/sheerbytes/internal/transferquic"
	"github.com/sheerbytes/sheerbytes/internal/verifhook"
	"github.com/sheerbytes/sheerbytes/internal/zzverif/netsim"
	"github.com/sheerbytes/sheerbytes/pkg/manifest"
)

type FileSpec struct {
	P string `json:"p"` // relative path (hex if Hex is set)
	N int64  `json:"n"` // size
	S uint64 `json:"s"` // content seed
	X bool   `json:"x"` // p is hex-encoded bytes
}

type FaultSpec struct {
	FromA  bool   `json:"from_a"`
	Stream int    `json:"stream"`
	AtoB   bool   `json:"a_to_b"`
	AtByte int64  `json:"at"`
	Kind   string `json:"kind"`
	Conn   int    `json:"conn"`
}

type PriorSpec struct { // state left in the out dir before the run (for resume cases)
	File   string `json:"file"`   // rel path of the data file
	Chunks []int  `json:"chunks"` // chunk indices already written correctly and marked
	Damage []int  `json:"damage"` // marked chunks whose bytes on disk are wrong
	NoData bool   `json:"nodata"` // sidecar present, data file deleted
	Short  int64  `json:"short"`  // truncate data file to this length (when > 0)
	// the sidecar left behind is not this transfer's / not intact:
	Garbage      bool   `json:"garbage"`       // the data file holds garbage everywhere (any skipped chunk shows)
	ForeignChunk uint32 `json:"foreign_chunk"` // sidecar written for another chunk size
	ForeignSize  int64  `json:"foreign_size"`  // ... another file size
	ForeignID    string `json:"foreign_id"`    // ... another file id
	FlipBit      int    `json:"flip_bit"`      // flip this bit of the sidecar file (0 = none, n = bit n-1)
	TruncSidecar int    `json:"trunc_sidecar"` // truncate the sidecar file to n-1 bytes (0 = none)
	Elsewhere    bool   `json:"elsewhere"`     // the interrupted run wrote into <out>/<root> (its out dir was that directory): sidecar and partial data file live there, while <out>/<file> itself is an unrelated file of the same length
	TmpChunks    []int  `json:"tmp_chunks"`    // leave a complete temp sidecar (<path>.tmp, as a kill between temp write and rename does) marking these chunks
}

type Case struct {
	Name      string      `json:"name"`
	Files     []FileSpec  `json:"files"`
	Dirs      []string    `json:"dirs"`
	Chunk     uint32      `json:"chunk"`
	Streams   int         `json:"streams"`
	Conns     int         `json:"conns"`
	Transport string      `json:"transport"` // netsim | netsim-eager | mock | quic
	Resume    bool        `json:"resume"`
	NoRoot    bool        `json:"noroot"`
	Scan      string      `json:"scan"` // dir | paths
	Faults    []FaultSpec `json:"faults"`
	Prior     []PriorSpec `json:"prior"`
	TimeoutMs int         `json:"timeout_ms"`
	CancelS   int         `json:"cancel_sender_ms"`
	CancelR   int         `json:"cancel_receiver_ms"`
	KeepOut   string      `json:"keep_out"` // reuse this out dir (not removed)
	Shrink    string      `json:"shrink"`   // rel path of a source file to truncate after the scan
	ShrinkBy  int64       `json:"shrink_by"` // bytes to cut off (0 = half the file)
	Vanish    string      `json:"vanish"`   // rel path of a source file to delete after the scan
	Obstruct  string      `json:"obstruct"` // rel path in the out dir to pre-create as a directory
	ObstructFile string   `json:"obstruct_file"` // rel path in the out dir to pre-create as a regular file (where the tree has a directory)
	CloseLike bool        `json:"close_like_app"` // each side closes its conn (code 0) when its function returns, as the app does
	SrcDir    string      `json:"src_dir"`        // use this existing source tree (not created, not removed)
	Tail      uint32      `json:"tail"`           // sender Options.ResumeVerifyTail
	Verify    string      `json:"verify"`         // sender Options.ResumeVerify ("" = last)
	// crash-point runs (executed in a child process)
	KillPoint  string `json:"kill_point"`   // verifhook point name
	KillAt     int    `json:"kill_at"`      // SIGKILL self at the k-th hit (1-based); 0 = never
	FlushFirst bool   `json:"flush_first"`  // call FlushAllFlushers() at that hit before dying (the flusher fires exactly there)
	FlushAtAll string `json:"flush_at_all"` // call FlushAllFlushers() at EVERY hit of this point (flusher interleaving)
	CountHits  bool   `json:"count_hits"`   // report how often each point was hit
	ConnDelaysMs []int `json:"conn_delays_ms,omitempty"` // netsim: one-way latency per connection (index = connection)
	Observe    bool   `json:"observe"`      // flush + load the receiver's sidecars continuously and compare every claimed chunk with the source
	DelayPoint string `json:"delay_point"`  // sleep DelayMs at every hit of this point (optionally only when its 2nd arg == DelayArg)
	DelayMs    int    `json:"delay_ms"`
	DelayArg   *uint64 `json:"delay_arg,omitempty"`
	Delays     map[string]int `json:"delays,omitempty"` // further points: sleep this many ms at every hit
	HashAlg    string `json:"hash_alg,omitempty"`       // Options.HashAlg of both sides ("" = crc32c)
	RecvStatsDelayMs  int `json:"recv_stats_delay_ms,omitempty"`  // the receiver's TransferStatsFn (the CLI installs one for its display) takes this long
	SenderDoneDelayMs int `json:"sender_done_delay_ms,omitempty"` // the sender's FileDoneFn (the CLI installs one) takes this long when a file failed
}

type Result struct {
	Name      string   `json:"name"`
	SenderErr string   `json:"sender_err"`
	RecvErr   string   `json:"recv_err"`
	SenderOK  bool     `json:"sender_ok"`
	RecvOK    bool     `json:"recv_ok"`
	SenderRet bool     `json:"sender_returned"`
	RecvRet   bool     `json:"recv_returned"`
	Equal     bool     `json:"equal"`
	Diff      []string `json:"diff,omitempty"`
	ElapsedMs int64    `json:"elapsed_ms"`
	Hang      string   `json:"hang,omitempty"`
	Stuck     []string `json:"stuck,omitempty"`
	Note      string   `json:"note,omitempty"`
	OutDir    string   `json:"out_dir,omitempty"`
	Hits      map[string]int `json:"hits,omitempty"`
	Unsound      []string `json:"unsound,omitempty"`
	Observations int      `json:"observations,omitempty"`
}

func splitmix(s *uint64) uint64 {
	*s += 0x9E3779B97F4A7C15
	z := *s
	z = (z ^ (z >> 30)) * 0xBF58476D1CE4E5B9
	z = (z ^ (z >> 27)) * 0x94D049BB133111EB
	return z ^ (z >> 31)
}

func content(seed uint64, n int64) []byte {
	b := make([]byte, n)
	s := seed
	for i := int64(0); i < n; i += 8 {
		v := splitmix(&s)
		for k := int64(0); k < 8 && i+k < n; k++ {
			b[i+k] = byte(v >> (8 * k))
		}
	}
	return b
}

func relOf(f FileSpec) string {
	if f.X {
		b, _ := hex.DecodeString(f.P)
		return string(b)
	}
	return f.P
}

type entry struct {
	dir  bool
	size int64
	sum  string
}

func snapshot(root string, skipMeta bool) map[string]entry {
	res := map[string]entry{}
	filepath.WalkDir(root, func(p string, d fs.DirEntry, err error) error {
		if err != nil {
			return nil
		}
		rel, _ := filepath.Rel(root, p)
		if rel == "." {
			return nil
		}
		rel = filepath.ToSlash(rel)
		if skipMeta && (rel == ".thruflux_resumedata" || strings.HasPrefix(rel, ".thruflux_resumedata/")) {
			if d.IsDir() {
				return fs.SkipDir
			}
			return nil
		}
		if d.IsDir() {
			res[rel] = entry{dir: true}
			return nil
		}
		b, err := os.ReadFile(p)
		if err != nil {
			res[rel] = entry{sum: "unreadable:" + err.Error()}
			return nil
		}
		h := sha256.Sum256(b)
		res[rel] = entry{size: int64(len(b)), sum: hex.EncodeToString(h[:8])}
		return nil
	})
	return res
}

func diffTrees(a, b map[string]entry) []string {
	var d []string
	for k, v := range a {
		w, ok := b[k]
		if !ok {
			d = append(d, "missing:"+k)
		} else if v != w {
			d = append(d, fmt.Sprintf("differs:%s src=%v out=%v", k, v, w))
		}
	}
	for k := range b {
		if _, ok := a[k]; !ok {
			d = append(d, "extra:"+k)
		}
	}
	sort.Strings(d)
	if len(d) > 12 {
		d = append(d[:12], fmt.Sprintf("... %d more", len(d)-12))
	}
	return d
}

func main() {
	if len(os.Args) > 1 && os.Args[1] == "-child" {
		var c Case
		dec := json.NewDecoder(os.Stdin)
		if err := dec.Decode(&c); err != nil {
			fmt.Println(`{"note":"bad-case"}`)
			return
		}
		r := runCase(c)
		b, _ := json.Marshal(r)
		fmt.Println(string(b))
		return
	}
	in := bufio.NewReaderSize(os.Stdin, 1<<24)
	out := bufio.NewWriter(os.Stdout)
	defer out.Flush()
	for {
		line, err := in.ReadBytes('\n')
		if len(bytes.TrimSpace(line)) > 0 {
			var probe struct {
				Mode string `json:"mode"`
			}
			json.Unmarshal(line, &probe)
			var c Case
			if probe.Mode == "big" {
				var bc BigCase
				if jerr := json.Unmarshal(line, &bc); jerr != nil {
					fmt.Fprintln(out, `{"name":"?","note":"bad-case"}`)
				} else {
					r := runBig(bc)
					b, _ := json.Marshal(r)
					out.Write(b)
					out.WriteByte('\n')
				}
			} else if probe.Mode == "stalebuf" {
				var sc StaleBufCase
				if jerr := json.Unmarshal(line, &sc); jerr != nil {
					fmt.Fprintln(out, `{"name":"?","note":"bad-case"}`)
				} else {
					r := runStaleBuf(sc)
					b, _ := json.Marshal(r)
					out.Write(b)
					out.WriteByte('\n')
				}
			} else if probe.Mode == "fwstorm" {
				var fc FwStormCase
				if jerr := json.Unmarshal(line, &fc); jerr != nil {
					fmt.Fprintln(out, `{"name":"?","note":"bad-case"}`)
				} else {
					r := runFwStorm(fc)
					b, _ := json.Marshal(r)
					out.Write(b)
					out.WriteByte('\n')
				}
			} else if probe.Mode == "plan" {
				var pc PlanCase
				if jerr := json.Unmarshal(line, &pc); jerr != nil {
					fmt.Fprintln(out, `{"name":"?","note":"bad-case"}`)
				} else {
					r := runPlan(pc)
					b, _ := json.Marshal(r)
					out.Write(b)
					out.WriteByte('\n')
				}
			} else if probe.Mode == "flushstorm" {
				var fc FlushStormCase
				if jerr := json.Unmarshal(line, &fc); jerr != nil {
					fmt.Fprintln(out, `{"name":"?","note":"bad-case"}`)
				} else {
					r := runFlushStorm(fc)
					b, _ := json.Marshal(r)
					out.Write(b)
					out.WriteByte('\n')
				}
			} else if probe.Mode == "crash" {
				var cc CrashCase
				if jerr := json.Unmarshal(line, &cc); jerr != nil {
					fmt.Fprintln(out, `{"name":"?","note":"bad-case"}`)
				} else {
					r := runCrash(cc)
					b, _ := json.Marshal(r)
					out.Write(b)
					out.WriteByte('\n')
				}
			} else if probe.Mode == "latewriter" {
				var lc LateWriterCase
				if jerr := json.Unmarshal(line, &lc); jerr != nil {
					fmt.Fprintln(out, `{"name":"?","note":"bad-case"}`)
				} else {
					r := runLateWriter(lc)
					b, _ := json.Marshal(r)
					out.Write(b)
					out.WriteByte('\n')
				}
			} else if probe.Mode == "hostile-send" {
				var hc HostileSendCase
				if jerr := json.Unmarshal(line, &hc); jerr != nil {
					fmt.Fprintln(out, `{"name":"?","note":"bad-case"}`)
				} else {
					r := runHostileSend(hc)
					b, _ := json.Marshal(r)
					out.Write(b)
					out.WriteByte('\n')
				}
			} else if probe.Mode == "hostile" {
				var hc HostileCase
				if jerr := json.Unmarshal(line, &hc); jerr != nil {
					fmt.Fprintln(out, `{"name":"?","note":"bad-case"}`)
				} else {
					r := runHostile(hc)
					b, _ := json.Marshal(r)
					out.Write(b)
					out.WriteByte('\n')
				}
			} else if jerr := json.Unmarshal(line, &c); jerr != nil {
				fmt.Fprintln(out, `{"name":"?","note":"bad-case"}`)
			} else {
				r := runCase(c)
				b, _ := json.Marshal(r)
				out.Write(b)
				out.WriteByte('\n')
			}
			out.Flush()
		}
		if err != nil {
			break
		}
	}
}

type connPair struct{ s, r transfer.Conn }

func makeConns(c Case) (send transfer.Conn, recv transfer.Conn, closers []func(), sims []*netsim.Conn, err error) {
	n := c.Conns
	if n < 1 {
		n = 1
	}
	var ss, rs []transfer.Conn
	switch c.Transport {
	case "", "netsim", "netsim-eager":
		for i := 0; i < n; i++ {
			nopt := netsim.Options{Lazy: c.Transport != "netsim-eager"}
			if i < len(c.ConnDelaysMs) {
				nopt.Delay = time.Duration(c.ConnDelaysMs[i]) * time.Millisecond
			}
			a, b := netsim.NewPair(nopt)
			for _, f := range c.Faults {
				if f.Conn == i {
					a.AddFault(netsim.Fault{FromA: f.FromA, Stream: f.Stream, AtoB: f.AtoB, AtByte: f.AtByte, Kind: f.Kind})
				}
			}
			ss = append(ss, a)
			rs = append(rs, b)
			sims = append(sims, a, b)
		}
	case "mock":
		for i := 0; i < n; i++ {
			t1, t2 := transfer.NewMockPair()
			ctx, cancel := context.WithTimeout(context.Background(), 2*time.Second)
			var sc, rc transfer.Conn
			var e1, e2 error
			var wg sync.WaitGroup
			wg.Add(2)
			go func() { defer wg.Done(); sc, e1 = t1.Dial(ctx, "peer") }()
			go func() { defer wg.Done(); rc, e2 = t2.Accept(ctx) }()
			wg.Wait()
			cancel()
			if e1 != nil || e2 != nil {
				return nil, nil, nil, nil, fmt.Errorf("mock pair: %v %v", e1, e2)
			}
			ss = append(ss, sc)
			rs = append(rs, rc)
			closers = append(closers, func() { t1.Close(); t2.Close() })
		}
	case "quic":
		logger := slog.New(slog.NewTextHandler(io.Discard, nil))
		udp, e := net.ListenUDP("udp", &net.UDPAddr{IP: net.IPv4(127, 0, 0, 1)})
		if e != nil {
			return nil, nil, nil, nil, e
		}
		ln, e := quictransport.ListenWithConfig(context.Background(), udp, logger, quictransport.DefaultServerQUICConfig())
		if e != nil {
			return nil, nil, nil, nil, e
		}
		closers = append(closers, func() { ln.Close(); udp.Close() })
		lt := transferquic.NewListener(ln, logger)
		for i := 0; i < n; i++ {
			cu, e := net.ListenUDP("udp", &net.UDPAddr{IP: net.IPv4(127, 0, 0, 1)})
			if e != nil {
				return nil, nil, nil, nil, e
			}
			ctx, cancel := context.WithTimeout(context.Background(), 5*time.Second)
			acc := make(chan transfer.Conn, 1)
			go func() {
				rc, e := lt.Accept(ctx)
				if e == nil {
					acc <- rc
				} else {
					acc <- nil
				}
			}()
			qc, e := quictransport.DialWithConfig(ctx, cu, udp.LocalAddr(), logger, quictransport.DefaultClientQUICConfig())
			if e != nil {
				cancel()
				return nil, nil, nil, nil, e
			}
			sc, e := transferquic.NewDialer(qc, logger).Dial(ctx, "peer")
			rc := <-acc
			cancel()
			if e != nil || rc == nil {
				return nil, nil, nil, nil, fmt.Errorf("quic pair failed: %v", e)
			}
			ss = append(ss, sc)
			rs = append(rs, rc)
			closers = append(closers, func() { cu.Close() })
		}
	default:
		return nil, nil, nil, nil, fmt.Errorf("unknown transport %q", c.Transport)
	}
	if n == 1 {
		return ss[0], rs[0], closers, sims, nil
	}
	ms, e1 := transfer.NewMultiConn(ss)
	mr, e2 := transfer.NewMultiConn(rs)
	if e1 != nil || e2 != nil {
		return nil, nil, nil, nil, fmt.Errorf("multiconn: %v %v", e1, e2)
	}
	return ms, mr, closers, sims, nil
}

func stuckSummary() []string {
	buf := make([]byte, 1<<20)
	n := runtime.Stack(buf, true)
	var res []string
	for _, g := range strings.Split(string(buf[:n]), "\n\n") {
		if !strings.Contains(g, "internal/transfer.") {
			continue
		}
		lines := strings.Split(g, "\n")
		state := lines[0]
		where := ""
		for _, l := range lines[1:] {
			if strings.Contains(l, "internal/transfer.") && !strings.HasPrefix(l, "\t") {
				where = strings.TrimSpace(l)
				if i := strings.Index(where, "("); i > 0 {
					where = where[:i]
				}
				where = strings.TrimPrefix(where, "github.com/sheerbytes/sheerbytes/internal/transfer.")
				// line number
				break
			}
		}
		lineNo := ""
		for i, l := range lines[1:] {
			if strings.Contains(l, "internal/transfer.") && !strings.HasPrefix(l, "\t") && i+2 < len(lines) {
				f := strings.TrimSpace(lines[i+2])
				if j := strings.LastIndex(f, "/"); j >= 0 {
					f = f[j+1:]
				}
				if j := strings.Index(f, " "); j > 0 {
					f = f[:j]
				}
				lineNo = f
				break
			}
		}
		st := state
		if i := strings.Index(st, "["); i >= 0 {
			st = st[i:]
		}
		res = append(res, where+"@"+lineNo+" "+st)
	}
	sort.Strings(res)
	return res
}

func runCase(c Case) (res Result) {
	res.Name = c.Name
	defer func() {
		if r := recover(); r != nil {
			res.Note = fmt.Sprintf("panic:%v", r)
		}
	}()
	tmp, err := os.MkdirTemp("", "vxfer")
	if err != nil {
		res.Note = err.Error()
		return
	}
	defer os.RemoveAll(tmp)
	src := filepath.Join(tmp, "src", "tree")
	if c.SrcDir != "" {
		src = c.SrcDir
	}
	os.MkdirAll(src, 0o755)
	if c.SrcDir == "" {
		for _, d := range c.Dirs {
			os.MkdirAll(filepath.Join(src, filepath.FromSlash(d)), 0o755)
		}
		for _, f := range c.Files {
			p := filepath.Join(src, filepath.FromSlash(relOf(f)))
			os.MkdirAll(filepath.Dir(p), 0o755)
			if err := os.WriteFile(p, content(f.S, f.N), 0o644); err != nil {
				res.Note = "mk:" + err.Error()
				return
			}
		}
	}
	var m manifest.Manifest
	if c.Scan == "paths" {
		m, err = manifest.ScanPaths([]string{src})
	} else {
		m, err = manifest.Scan(src)
	}
	if err != nil {
		res.Note = "scan:" + err.Error()
		return
	}
	outBase := filepath.Join(tmp, "out", "a", "b")
	if c.KeepOut != "" {
		outBase = c.KeepOut
	}
	os.MkdirAll(outBase, 0o755)
	outTree := outBase
	if !c.NoRoot {
		outTree = filepath.Join(outBase, m.Root)
	}
	sendRoot, cmpSrc := src, src
	if c.Scan == "paths" {
		sendRoot, cmpSrc = filepath.Dir(src), filepath.Dir(src)
	}
	chunk := c.Chunk
	if chunk == 0 {
		chunk = 64
	}
	// prior partial state
	var elsewhereDirs []string
	for _, pr := range c.Prior {
		var item *manifest.FileItem
		for i := range m.Items {
			if m.Items[i].RelPath == pr.File {
				item = &m.Items[i]
			}
		}
		if item == nil {
			res.Note = "prior: no such item " + pr.File
			return
		}
		var spec FileSpec
		for _, f := range c.Files {
			if relOf(f) == pr.File {
				spec = f
			}
		}
		data := content(spec.S, spec.N)
		priorBase := outTree
		if pr.Elsewhere {
			priorBase = filepath.Join(outBase, m.Root)
			// what stands at the place this run writes to: some other file of the same length
			other := filepath.Join(outTree, filepath.FromSlash(pr.File))
			os.MkdirAll(filepath.Dir(other), 0o755)
			ob := make([]byte, spec.N)
			for i := range ob {
				ob[i] = data[i] ^ 0x5A
			}
			os.WriteFile(other, ob, 0o644)
			elsewhereDirs = append(elsewhereDirs, priorBase)
		}
		dst := filepath.Join(priorBase, filepath.FromSlash(pr.File))
		os.MkdirAll(filepath.Dir(dst), 0o755)
		buf := make([]byte, spec.N)
		scPath := transfer.SidecarPath(priorBase, "", item.ID)
		scID, scSize, scChunk := item.ID, item.Size, chunk
		if pr.ForeignID != "" {
			scID = pr.ForeignID
		}
		if pr.ForeignSize > 0 {
			scSize = pr.ForeignSize
		}
		if pr.ForeignChunk > 0 {
			scChunk = pr.ForeignChunk
		}
		sc, err := transfer.CreateSidecar(scPath, scID, scSize, scChunk)
		if err != nil {
			res.Note = "prior sidecar:" + err.Error()
			return
		}
		for _, ci := range pr.Chunks {
			off := int64(ci) * int64(chunk)
			end := off + int64(chunk)
			if end > spec.N {
				end = spec.N
			}
			if off < spec.N {
				copy(buf[off:end], data[off:end])
			}
			sc.MarkComplete(uint32(ci))
		}
		for _, ci := range pr.Damage {
			off := int64(ci) * int64(chunk)
			if off < spec.N {
				buf[off] ^= 0xFF
			}
		}
		sc.Flush()
		if pr.Garbage {
			for i := range buf {
				buf[i] = data[i] ^ 0x5A
			}
		}
		if pr.FlipBit > 0 || pr.TruncSidecar > 0 {
			raw, _ := os.ReadFile(scPath)
			if pr.FlipBit > 0 && (pr.FlipBit-1)/8 < len(raw) {
				raw[(pr.FlipBit-1)/8] ^= 1 << uint((pr.FlipBit-1)%8)
			}
			if pr.TruncSidecar > 0 && pr.TruncSidecar-1 < len(raw) {
				raw = raw[:pr.TruncSidecar-1]
			}
			os.WriteFile(scPath, raw, 0o644)
		}
		if len(pr.TmpChunks) > 0 {
			// what a kill between the temp write and the rename of a later flush leaves next to the sidecar: a complete temp file
			// (written through the real Sidecar code at another path, then moved to <path>.tmp)
			tpath := scPath + ".stage"
			if tsc, terr := transfer.CreateSidecar(tpath, item.ID, item.Size, chunk); terr == nil {
				for _, ci := range pr.TmpChunks {
					tsc.MarkComplete(uint32(ci))
				}
				tsc.Flush()
				os.Rename(tpath, scPath+".tmp")
			}
		}
		if !pr.NoData {
			if pr.Short > 0 && pr.Short < int64(len(buf)) {
				buf = buf[:pr.Short]
			}
			os.WriteFile(dst, buf, 0o644)
		}
	}
	if c.Obstruct != "" {
		os.MkdirAll(filepath.Join(outTree, filepath.FromSlash(c.Obstruct)), 0o755)
	}
	if c.ObstructFile != "" {
		op := filepath.Join(outTree, filepath.FromSlash(c.ObstructFile))
		os.MkdirAll(filepath.Dir(op), 0o755)
		os.WriteFile(op, []byte("in the way"), 0o644)
	}
	if c.Shrink != "" {
		p := filepath.Join(src, filepath.FromSlash(c.Shrink))
		if st, err := os.Stat(p); err == nil {
			to := st.Size() / 2
			if c.ShrinkBy > 0 {
				to = st.Size() - c.ShrinkBy
				if to < 0 {
					to = 0
				}
			}
			os.Truncate(p, to)
		}
	}
	if c.Vanish != "" {
		os.Remove(filepath.Join(src, filepath.FromSlash(c.Vanish)))
	}

	sconn, rconn, closers, sims, err := makeConns(c)
	if err != nil {
		res.Note = "conn:" + err.Error()
		return
	}
	defer func() {
		for _, f := range closers {
			f()
		}
		for _, s := range sims {
			s.Lose()
		}
	}()
	streams := c.Streams
	if streams < 1 {
		streams = 1
	}
	hashAlg := c.HashAlg
	if hashAlg == "" {
		hashAlg = "crc32c"
	}
	sopts := transfer.Options{ChunkSize: chunk, ParallelFiles: streams, Resume: true, ResumeVerifyTail: c.Tail, ResumeVerify: c.Verify, HashAlg: hashAlg}
	sopts.ParamSource = func() transfer.RuntimeParams { return transfer.RuntimeParams{ChunkSize: chunk, ParallelFiles: streams} }
	if c.SenderDoneDelayMs > 0 {
		sopts.FileDoneFn = func(rel string, ok bool) {
			if !ok {
				time.Sleep(time.Duration(c.SenderDoneDelayMs) * time.Millisecond)
			}
		}
		sopts.TransferStatsFn = func(active, completed int, remaining int64) {}
	}
	ropts := transfer.Options{Resume: c.Resume, NoRootDir: c.NoRoot, HashAlg: hashAlg, ParallelFiles: streams}
	if c.RecvStatsDelayMs > 0 {
		ropts.TransferStatsFn = func(active, completed int, remaining int64) {
			time.Sleep(time.Duration(c.RecvStatsDelayMs) * time.Millisecond)
		}
	}

	timeout := time.Duration(c.TimeoutMs) * time.Millisecond
	if timeout == 0 {
		timeout = 8 * time.Second
	}
	hits := map[string]int{}
	var hitMu sync.Mutex
	if c.KillPoint != "" || c.FlushAtAll != "" || c.CountHits || c.DelayPoint != "" || len(c.Delays) > 0 {
		verifhook.Set(func(name string, args []uint64, sarg string) {
			hitMu.Lock()
			hits[name]++
			n := hits[name]
			hitMu.Unlock()
			if ms := c.Delays[name]; ms > 0 {
				time.Sleep(time.Duration(ms) * time.Millisecond)
			}
			if c.DelayPoint != "" && name == c.DelayPoint && (c.DelayArg == nil || (len(args) > 1 && args[1] == *c.DelayArg)) {
				time.Sleep(time.Duration(c.DelayMs) * time.Millisecond)
			}
			if c.FlushAtAll != "" && name == c.FlushAtAll {
				transfer.FlushAllFlushers()
			}
			if c.KillAt > 0 && name == c.KillPoint && n == c.KillAt {
				if c.FlushFirst {
					transfer.FlushAllFlushers()
				}
				syscall.Kill(os.Getpid(), syscall.SIGKILL)
				select {}
			}
		})
		defer verifhook.Set(nil)
	}
	sctx, scancel := context.WithCancel(context.Background())
	rctx, rcancel := context.WithCancel(context.Background())
	defer scancel()
	defer rcancel()
	type ret struct{ err error }
	sch := make(chan ret, 1)
	rch := make(chan ret, 1)
	var obs *observer
	if c.Observe {
		obs = startObserver(m, cmpSrc, outBase, outTree)
	}
	t0 := time.Now()
	go func() {
		err := transfer.SendManifestMultiStream(sctx, sconn, sendRoot, m, sopts)
		if c.CloseLike {
			sconn.Close()
		}
		sch <- ret{err}
	}()
	go func() {
		_, err := transfer.RecvManifestMultiStream(rctx, rconn, outBase, ropts)
		if c.CloseLike {
			rconn.Close()
		}
		rch <- ret{err}
	}()
	if c.CancelS > 0 {
		time.AfterFunc(time.Duration(c.CancelS)*time.Millisecond, scancel)
	}
	if c.CancelR > 0 {
		time.AfterFunc(time.Duration(c.CancelR)*time.Millisecond, rcancel)
	}
	deadline := time.After(timeout)
	for !(res.SenderRet && res.RecvRet) {
		select {
		case r := <-sch:
			res.SenderRet = true
			res.SenderOK = r.err == nil
			if r.err != nil {
				res.SenderErr = r.err.Error()
			}
		case r := <-rch:
			res.RecvRet = true
			res.RecvOK = r.err == nil
			if r.err != nil {
				res.RecvErr = r.err.Error()
			}
		case <-deadline:
			res.Hang = fmt.Sprintf("sender_returned=%v recv_returned=%v", res.SenderRet, res.RecvRet)
			res.Stuck = stuckSummary()
			scancel()
			rcancel()
			for _, s := range sims {
				s.Lose()
			}
			sconn.Close()
			rconn.Close()
			time.Sleep(50 * time.Millisecond)
			goto done
		}
	}
done:
	res.ElapsedMs = time.Since(t0).Milliseconds()
	if obs != nil {
		res.Unsound, res.Observations = obs.finish()
	}
	a := snapshot(cmpSrc, false)
	for _, d := range elsewhereDirs {
		os.RemoveAll(d) // the other run's directory is not part of this run's result
	}
	b := snapshot(outTree, true)
	res.Diff = diffTrees(a, b)
	res.Equal = len(res.Diff) == 0
	if c.KeepOut != "" {
		res.OutDir = outBase
	}
	if c.CountHits {
		hitMu.Lock()
		res.Hits = map[string]int{}
		for k, v := range hits {
			res.Hits[k] = v
		}
		hitMu.Unlock()
	}
	return
}

