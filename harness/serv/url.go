//go:build verif

package main

import (
	"encoding/hex"
	"net/url"
	"strconv"

	"github.com/sheerbytes/sheerbytes/internal/app"
	"github.com/sheerbytes/sheerbytes/internal/ice"
)

func init() { handlers["url"] = urlCmd }

func unhex(s string) string {
	if s == "-" {
		return ""
	}
	b, _ := hex.DecodeString(s)
	return string(b)
}

func hx(s string) string {
	if s == "" {
		return "-"
	}
	return hex.EncodeToString([]byte(s))
}

func urlCmd(a []string) string {
	switch a[0] {
	case "qesc":
		return hx(url.QueryEscape(unhex(a[1])))
	case "uesc":
		// what url.UserPassword(..).String() does to the user name
		s := url.UserPassword(unhex(a[1]), "").String()
		return hx(s[:len(s)-1])
	case "qunesc":
		s, err := url.QueryUnescape(unhex(a[1]))
		if err != nil {
			return "err"
		}
		return hx(s)
	case "uunesc":
		// user-info unescaping as url.Parse applies it
		u, err := url.Parse("x://" + unhex(a[1]) + "@h")
		if err != nil || u.User == nil {
			return "err"
		}
		return hx(u.User.Username())
	case "wsq":
		mx, _ := strconv.Atoi(a[4])
		s, err := app.VerifBuildWebSocketURL("http://h.example:1", unhex(a[1]), unhex(a[2]), unhex(a[3]), mx)
		if err != nil {
			return "err"
		}
		const pre = "ws://h.example:1/ws?"
		if len(s) < len(pre) || s[:len(pre)] != pre {
			return "unexpected-prefix:" + hx(s)
		}
		return hx(s[len(pre):])
	case "qget":
		u := url.URL{RawQuery: unhex(a[1])}
		return hx(u.Query().Get(unhex(a[2])))
	case "pturn":
		c, err := ice.VerifParseTurnServer(unhex(a[1]))
		if err != nil {
			return "err"
		}
		sch := "turn"
		if c.UseTLS {
			sch = "turns"
		}
		return hx(sch) + " " + hx(c.Username) + " " + hx(c.Password) + " " + hx(c.Addr)
	}
	return "bad-op"
}
