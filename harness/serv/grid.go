//go:build verif

package main

import (
	"context"
	"crypto/hmac"
	"crypto/sha1"
	"encoding/base64"
	"encoding/hex"
	"encoding/json"
	"io"
	"log/slog"
	"strconv"
	"strings"
	"sync"
	"time"

	"github.com/sheerbytes/sheerbytes/internal/app"
	"github.com/sheerbytes/sheerbytes/internal/clienthttp"
	"github.com/sheerbytes/sheerbytes/internal/ice"
	"github.com/sheerbytes/sheerbytes/internal/wsclient"
	"github.com/sheerbytes/sheerbytes/pkg/protocol"
)

func init() { handlers["grid"] = gridCase }

type gridSpec struct {
	Flags      []string `json:"flags"`
	HostPeer   string   `json:"host_peer"`
	RecvPeer   string   `json:"recv_peer"`
	MaxRecv    int      `json:"max_receivers"`
	TurnSecret string   `json:"turn_secret"`
	TurnTTLSec int      `json:"turn_ttl_s"`
	PaceMs     int      `json:"pace_ms"` // wait this long between the two connects (configurations whose connect burst is one)
}

type client struct {
	c    *wsclient.Conn
	mu   sync.Mutex
	envs []protocol.Envelope
	done chan error
}

func dialClient(ctx context.Context, wsURL string) (*client, error) {
	logger := slog.New(slog.NewTextHandler(io.Discard, nil))
	c, err := wsclient.Dial(ctx, wsURL, logger)
	if err != nil {
		return nil, err
	}
	cl := &client{c: c, done: make(chan error, 1)}
	go func() {
		cl.done <- c.ReadLoop(ctx, func(env protocol.Envelope) {
			cl.mu.Lock()
			cl.envs = append(cl.envs, env)
			cl.mu.Unlock()
		})
	}()
	return cl, nil
}

func (c *client) waitFor(typ string, d time.Duration) *protocol.Envelope {
	deadline := time.Now().Add(d)
	for time.Now().Before(deadline) {
		c.mu.Lock()
		for i := range c.envs {
			if c.envs[i].Type == typ {
				e := c.envs[i]
				c.mu.Unlock()
				return &e
			}
		}
		c.mu.Unlock()
		time.Sleep(5 * time.Millisecond)
	}
	return nil
}

func gridCase(args []string) string {
	raw, err := hex.DecodeString(args[0])
	if err != nil {
		return "bad-op"
	}
	var g gridSpec
	if err := json.Unmarshal(raw, &g); err != nil {
		return "bad-op"
	}
	out := map[string]any{}
	fin := func() string { b, _ := json.Marshal(out); return string(b) }
	s, err := startServer(g.Flags)
	if err != nil {
		out["server_err"] = err.Error()
		return fin()
	}
	defer s.stop()
	ctx, cancel := context.WithTimeout(context.Background(), 20*time.Second)
	defer cancel()
	t0 := time.Now()
	sid, code, exp, err := clienthttp.CreateSession(ctx, s.base, g.MaxRecv)
	if err != nil {
		out["create_err"] = err.Error()
		return fin()
	}
	out["session_id"], out["join_code"], out["expires_zero"] = sid, code, exp.IsZero()
	if !exp.IsZero() {
		out["expires_in_s"] = int(exp.Sub(t0).Round(time.Second).Seconds())
	}
	turnCheck := func(who string, cl *client, peer string) {
		if g.TurnSecret == "" {
			if e := cl.waitFor(protocol.TypeTurnCredentials, 150*time.Millisecond); e != nil {
				out[who+"_turn_unexpected"] = true
			}
			return
		}
		e := cl.waitFor(protocol.TypeTurnCredentials, 2*time.Second)
		if e == nil {
			out[who+"_turn_err"] = "no turn_credentials envelope"
			return
		}
		var tc protocol.TurnCredentials
		if err := e.DecodePayload(&tc); err != nil {
			out[who+"_turn_err"] = "payload: " + err.Error()
			return
		}
		// what the real client keeps of the envelope (its handler stores the servers it will hand to ICE)
		role := "receiver"
		if who == "host" {
			role = "sender"
		}
		kept := app.VerifClientTurnServers(role, *e)
		out[who+"_turn_issued"] = len(tc.Servers)
		var parsed []map[string]any
		for _, sv := range kept {
			p, err := ice.VerifParseTurnServer(sv)
			m := map[string]any{"url": sv}
			if err != nil {
				m["err"] = err.Error()
			} else {
				m["addr"], m["user"], m["pass"], m["tls"], m["tcp"], m["server_name"] = p.Addr, p.Username, p.Password, p.UseTLS, p.UseTCP, p.ServerName
				// independent oracle for what the server intended: user = "<unix expiry>:<peer id>", pass = base64(HMAC-SHA1(secret, user))
				i := strings.IndexByte(p.Username, ':')
				okUser := false
				if i > 0 {
					ts, e := strconv.ParseInt(p.Username[:i], 10, 64)
					want := t0.Add(time.Duration(g.TurnTTLSec) * time.Second).Unix()
					okUser = e == nil && p.Username[i+1:] == peer && ts >= want-2 && ts <= want+30
				}
				m["user_ok"] = okUser
				mac := hmac.New(sha1.New, []byte(g.TurnSecret))
				mac.Write([]byte(p.Username))
				m["pass_ok"] = base64.StdEncoding.EncodeToString(mac.Sum(nil)) == p.Password
			}
			parsed = append(parsed, m)
		}
		out[who+"_turn"] = parsed
	}
	hostURL, err := app.VerifBuildWebSocketURL(s.base, code, g.HostPeer, "sender", g.MaxRecv)
	if err != nil {
		out["host_url_err"] = err.Error()
		return fin()
	}
	host, err := dialClient(ctx, hostURL)
	if err != nil {
		out["host_dial_err"] = err.Error()
		return fin()
	}
	defer host.c.Close()
	if host.waitFor(protocol.TypePeerList, 2*time.Second) == nil {
		out["host_err"] = "no peer_list"
	}
	turnCheck("host", host, g.HostPeer)
	if g.PaceMs > 0 {
		time.Sleep(time.Duration(g.PaceMs) * time.Millisecond)
	}
	recvURL, err := app.VerifBuildWebSocketURL(s.base, code, g.RecvPeer, "receiver", 0)
	if err != nil {
		out["recv_url_err"] = err.Error()
		return fin()
	}
	recv, err := dialClient(ctx, recvURL)
	if err != nil {
		out["recv_dial_err"] = err.Error()
		return fin()
	}
	defer recv.c.Close()
	if pl := recv.waitFor(protocol.TypePeerList, 2*time.Second); pl == nil {
		out["recv_err"] = "no peer_list"
	} else {
		var l protocol.PeerList
		pl.DecodePayload(&l)
		var ids []string
		for _, p := range l.Peers {
			ids = append(ids, p.PeerID+"/"+p.Role)
		}
		out["recv_peer_list"] = ids
	}
	turnCheck("recv", recv, g.RecvPeer)
	// the host learns about the receiver under the id the receiver chose
	if pj := host.waitFor(protocol.TypePeerJoined, 2*time.Second); pj == nil {
		out["host_err"] = "no peer_joined for the receiver"
	} else {
		host.mu.Lock()
		var seen []string
		for _, e := range host.envs {
			if e.Type == protocol.TypePeerJoined {
				var j protocol.PeerJoined
				e.DecodePayload(&j)
				seen = append(seen, j.Peer.PeerID+"/"+j.Peer.Role)
			}
		}
		host.mu.Unlock()
		out["host_saw_joined"] = seen
	}
	// one addressed message each way
	env, _ := protocol.NewEnvelope("offer", protocol.NewMsgID(), map[string]string{"sdp": "x"})
	env.To = g.RecvPeer
	host.c.Send(env)
	if e := recv.waitFor("offer", 2*time.Second); e == nil {
		out["msg_err"] = "receiver did not get the host's addressed message"
	} else if e.From != g.HostPeer {
		out["msg_err"] = "from=" + e.From
	}
	env2, _ := protocol.NewEnvelope("answer", protocol.NewMsgID(), map[string]string{"sdp": "y"})
	env2.To = g.HostPeer
	recv.c.Send(env2)
	if e := host.waitFor("answer", 2*time.Second); e == nil {
		out["msg_err2"] = "host did not get the receiver's addressed message"
	}
	out["ok"] = true
	return fin()
}
