//go:build verif

package main

import (
	"context"
	"encoding/hex"
	"encoding/json"
	"fmt"
	"io"
	"net/http"
	"strings"
	"sync"
	"time"

	"github.com/sheerbytes/sheerbytes/internal/app"
	"github.com/sheerbytes/sheerbytes/internal/clienthttp"
	"github.com/sheerbytes/sheerbytes/pkg/protocol"
)

func init() { handlers["burst"] = burstCase }

// burstSpec: concurrent arrivals against the real thruserv binary.
//
//	kind "sessions":  N concurrent POST /session against --max-sessions; admitted = number of 201 answers
//	kind "receivers": one session, host connected, N receivers dial at once against --max-receivers-per-sender;
//	                  admitted = receivers holding an open socket after the burst (each got its peer_list)
//	kind "conns":     N peers (distinct sessions not needed) dial at once against --max-ws-connections
//	kind "slots":     receivers racing for --max-receivers-per-sender, then further hosts: open sockets vs --max-ws-connections
//	kind "rate":      N sequential POST /session as fast as possible against the per-IP create bucket
type burstSpec struct {
	Flags   []string `json:"flags"`
	Kind    string   `json:"kind"`
	N       int      `json:"n"`
	DelayMs int      `json:"delay_ms"`
	Rounds  int      `json:"rounds"`
	Extra   int      `json:"extra"` // kind "slots": how many further hosts try to connect
	IdleMs  int      `json:"idle_ms"` // kind "rate": idle time between a first request and the volley
}

func postSession(base string, query string) (int, string, map[string]any) {
	resp, err := http.Post(base+"/session"+query, "application/json", nil)
	if err != nil {
		return 0, err.Error(), nil
	}
	defer resp.Body.Close()
	body, _ := io.ReadAll(resp.Body)
	var m map[string]any
	json.Unmarshal(body, &m)
	msg := ""
	if e, ok := m["error"].(string); ok {
		msg = e
	}
	return resp.StatusCode, msg, m
}

func burstCase(args []string) string {
	raw, err := hex.DecodeString(args[0])
	if err != nil {
		return "bad-op"
	}
	var g burstSpec
	if err := json.Unmarshal(raw, &g); err != nil {
		return "bad-op"
	}
	out := map[string]any{}
	fin := func() string { b, _ := json.Marshal(out); return string(b) }
	var env []string
	if g.DelayMs > 0 {
		env = append(env, fmt.Sprintf("THRUSERV_VERIF_DELAY_MS=%d", g.DelayMs))
	}
	s, err := startServer(g.Flags, env...)
	if err != nil {
		out["server_err"] = err.Error()
		return fin()
	}
	defer s.stop()
	ctx, cancel := context.WithTimeout(context.Background(), 30*time.Second)
	defer cancel()
	rounds := g.Rounds
	if rounds < 1 {
		rounds = 1
	}
	maxAdmitted := 0
	var statuses []string
	for round := 0; round < rounds; round++ {
		switch g.Kind {
		case "sessions":
			var wg sync.WaitGroup
			var mu sync.Mutex
			ok := 0
			codes := map[string]int{}
			gate := make(chan struct{})
			for i := 0; i < g.N; i++ {
				wg.Add(1)
				go func() {
					defer wg.Done()
					<-gate
					st, msg, m := postSession(s.base, "")
					mu.Lock()
					if st == 201 {
						ok++
						if c, _ := m["join_code"].(string); c != "" {
							codes[c]++
						}
					}
					statuses = append(statuses, fmt.Sprintf("%d:%s", st, msg))
					mu.Unlock()
				}()
			}
			close(gate)
			wg.Wait()
			if ok > maxAdmitted {
				maxAdmitted = ok
			}
			for c, n := range codes {
				if n > 1 {
					out["duplicate_code"] = c
				}
			}
			out["rounds_done"] = round + 1
			// sessions stay (no host): one round is all a server instance can show
			round = rounds
		case "receivers", "conns":
			_, code, _, err := clienthttp.CreateSession(ctx, s.base, 0)
			if err != nil {
				out["create_err"] = err.Error()
				return fin()
			}
			hostURL, _ := app.VerifBuildWebSocketURL(s.base, code, "host", "sender", 0)
			var host *client
			if g.Kind == "receivers" {
				host, err = dialClient(ctx, hostURL)
				if err != nil {
					out["host_dial_err"] = err.Error()
					return fin()
				}
				if host.waitFor(protocol.TypePeerList, 2*time.Second) == nil {
					out["host_err"] = "no peer_list"
				}
			}
			var wg sync.WaitGroup
			var mu sync.Mutex
			var open []*client
			gate := make(chan struct{})
			for i := 0; i < g.N; i++ {
				wg.Add(1)
				go func(i int) {
					defer wg.Done()
					u, _ := app.VerifBuildWebSocketURL(s.base, code, fmt.Sprintf("r%d-%d", round, i), "receiver", 0)
					<-gate
					cl, err := dialClient(ctx, u)
					mu.Lock()
					defer mu.Unlock()
					if err != nil {
						msg := err.Error()
						if j := strings.Index(msg, "{"); j >= 0 {
							msg = msg[j:]
						}
						statuses = append(statuses, "refused:"+strings.TrimSpace(msg))
						return
					}
					open = append(open, cl)
				}(i)
			}
			close(gate)
			wg.Wait()
			// a connection counts as admitted when the server registered it: it received its peer_list and the
			// socket is still open a moment later
			admitted := 0
			for _, cl := range open {
				if cl.waitFor(protocol.TypePeerList, 2*time.Second) != nil {
					select {
					case <-cl.done:
					case <-time.After(50 * time.Millisecond):
						admitted++
					}
				}
			}
			if admitted > maxAdmitted {
				maxAdmitted = admitted
			}
			for _, cl := range open {
				cl.c.Close()
			}
			if host != nil {
				host.c.Close()
			}
			// let the server finish the disconnects before the next round
			deadline := time.Now().Add(3 * time.Second)
			want := (round + 1) * (len(open))
			_ = want
			for time.Now().Before(deadline) {
				if strings.Count(s.out.String(), "peer disconnected") >= strings.Count(s.out.String(), "peer connected") {
					break
				}
				time.Sleep(10 * time.Millisecond)
			}
			out["rounds_done"] = round + 1
		case "slots":
			// connection slots under refused racing receivers: one session with its host, N receivers dial at once against
			// --max-receivers-per-sender (with the window widened some are refused only after the upgrade); whoever was admitted stays
			// connected; then hosts of fresh sessions dial one after the other until two in a row are refused. Open sockets (peer_list
			// received, not closed by the server) are counted against --max-ws-connections.
			_, code, _, err := clienthttp.CreateSession(ctx, s.base, 0)
			if err != nil {
				out["create_err"] = err.Error()
				return fin()
			}
			var open []*client
			hostURL, _ := app.VerifBuildWebSocketURL(s.base, code, "host", "sender", 0)
			host, err := dialClient(ctx, hostURL)
			if err != nil {
				out["host_dial_err"] = err.Error()
				return fin()
			}
			open = append(open, host)
			var wg sync.WaitGroup
			var mu sync.Mutex
			gate := make(chan struct{})
			for i := 0; i < g.N; i++ {
				wg.Add(1)
				go func(i int) {
					defer wg.Done()
					u, _ := app.VerifBuildWebSocketURL(s.base, code, fmt.Sprintf("r%d-%d", round, i), "receiver", 0)
					<-gate
					cl, err := dialClient(ctx, u)
					mu.Lock()
					defer mu.Unlock()
					if err != nil {
						statuses = append(statuses, "refused-before-upgrade")
						return
					}
					open = append(open, cl)
				}(i)
			}
			close(gate)
			wg.Wait()
			refusedInRow := 0
			for i := 0; i < g.Extra && refusedInRow < 2; i++ {
				_, c2, _, err := clienthttp.CreateSession(ctx, s.base, 0)
				if err != nil {
					out["create_err"] = err.Error()
					return fin()
				}
				u, _ := app.VerifBuildWebSocketURL(s.base, c2, fmt.Sprintf("h%d-%d", round, i), "sender", 0)
				cl, err := dialClient(ctx, u)
				if err != nil {
					refusedInRow++
					statuses = append(statuses, "host-refused")
					continue
				}
				refusedInRow = 0
				open = append(open, cl)
			}
			live := 0
			for _, cl := range open {
				if cl.waitFor(protocol.TypePeerList, 2*time.Second) != nil {
					select {
					case <-cl.done:
						statuses = append(statuses, "closed-after-upgrade")
					case <-time.After(50 * time.Millisecond):
						live++
					}
				} else {
					statuses = append(statuses, "closed-after-upgrade")
				}
			}
			if live > maxAdmitted {
				maxAdmitted = live
			}
			for _, cl := range open {
				cl.c.Close()
			}
			deadline := time.Now().Add(3 * time.Second)
			for time.Now().Before(deadline) {
				if strings.Count(s.out.String(), "peer disconnected") >= strings.Count(s.out.String(), "peer connected") {
					break
				}
				time.Sleep(10 * time.Millisecond)
			}
			time.Sleep(60 * time.Millisecond)
			out["rounds_done"] = round + 1
		case "rate":
			if g.IdleMs > 0 {
				// one request creates the caller's bucket, then the caller stays idle long enough to refill it: the volley that
				// follows may still pass only burst + rate * (its own duration)
				st, msg, _ := postSession(s.base, "")
				statuses = append(statuses, fmt.Sprintf("warmup:%d:%s", st, msg))
				time.Sleep(time.Duration(g.IdleMs) * time.Millisecond)
			}
			t0 := time.Now()
			ok := 0
			for i := 0; i < g.N; i++ {
				st, msg, _ := postSession(s.base, "")
				if st == 201 {
					ok++
				}
				statuses = append(statuses, fmt.Sprintf("%d:%s", st, msg))
			}
			out["elapsed_ms"] = time.Since(t0).Milliseconds()
			maxAdmitted = ok
			round = rounds
		default:
			return "bad-op"
		}
	}
	hist := map[string]int{}
	for _, st := range statuses {
		hist[st]++
	}
	out["admitted"] = maxAdmitted
	out["answers"] = hist
	out["alive"] = s.alive()
	return fin()
}
