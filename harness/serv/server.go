//go:build verif

package main

import (
	"bytes"
	"fmt"
	"net"
	"net/http"
	"os"
	"os/exec"
	"sync"
	"time"
)

type srv struct {
	cmd  *exec.Cmd
	port int
	base string
	out  *lockedBuf
}

type lockedBuf struct {
	mu sync.Mutex
	b  bytes.Buffer
}

func (l *lockedBuf) Write(p []byte) (int, error) { l.mu.Lock(); defer l.mu.Unlock(); return l.b.Write(p) }
func (l *lockedBuf) String() string               { l.mu.Lock(); defer l.mu.Unlock(); return l.b.String() }

func freePort() int {
	l, err := net.Listen("tcp", "127.0.0.1:0")
	if err != nil {
		return 0
	}
	defer l.Close()
	return l.Addr().(*net.TCPAddr).Port
}

// startServer launches the real thruserv binary built from the tree with the given flags.
func startServer(flags []string, env ...string) (*srv, error) {
	bin := os.Getenv("THRUSERV_BIN")
	if bin == "" {
		return nil, fmt.Errorf("THRUSERV_BIN not set")
	}
	var lastErr error
	for attempt := 0; attempt < 5; attempt++ {
		port := freePort()
		args := append([]string{"--port", fmt.Sprint(port)}, flags...)
		cmd := exec.Command(bin, args...)
		cmd.Env = append(os.Environ(), env...)
		ob := &lockedBuf{}
		cmd.Stdout = ob
		cmd.Stderr = ob
		if err := cmd.Start(); err != nil {
			return nil, err
		}
		s := &srv{cmd: cmd, port: port, base: fmt.Sprintf("http://127.0.0.1:%d", port), out: ob}
		ok := false
		for i := 0; i < 200; i++ {
			resp, err := http.Get(s.base + "/health")
			if err == nil {
				resp.Body.Close()
				ok = resp.StatusCode == 200
				break
			}
			lastErr = err
			if cmd.ProcessState != nil {
				break
			}
			time.Sleep(10 * time.Millisecond)
		}
		if ok {
			return s, nil
		}
		s.stop()
	}
	return nil, fmt.Errorf("server did not come up: %v", lastErr)
}

func (s *srv) stop() {
	if s.cmd.Process != nil {
		s.cmd.Process.Kill()
		s.cmd.Wait()
	}
}

func (s *srv) alive() bool {
	resp, err := http.Get(s.base + "/health")
	if err != nil {
		return false
	}
	resp.Body.Close()
	return resp.StatusCode == 200
}
