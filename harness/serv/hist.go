//go:build verif

package main

import (
	"context"
	"encoding/hex"
	"encoding/json"
	"fmt"
	"net/url"
	"sort"
	"strconv"
	"strings"
	"time"

	"github.com/gorilla/websocket"
	"github.com/sheerbytes/sheerbytes/pkg/protocol"
)

func init() { handlers["hist"] = histCase }

// histSpec: one sequential history against the real thruserv binary; the same event words as the model's `srv`
// command: c | cm:<raw> | w:<sess>:<peer>:<role>[:<mr>] | d:<conn> | t:<ms> | m:<conn>:<size>
type histSpec struct {
	Flags []string `json:"flags"`
	Evs   []string `json:"evs"`
}

type rawClient struct {
	c      *websocket.Conn
	peer   string
	closed chan struct{}
	msgs   chan protocol.Envelope
}

func rawDial(ctx context.Context, base string, q url.Values) (*rawClient, int, string) {
	u := "ws" + strings.TrimPrefix(base, "http") + "/ws?" + q.Encode()
	d := websocket.Dialer{HandshakeTimeout: 5 * time.Second}
	c, resp, err := d.DialContext(ctx, u, nil)
	if err != nil {
		if resp != nil {
			var m map[string]string
			json.NewDecoder(resp.Body).Decode(&m)
			resp.Body.Close()
			return nil, resp.StatusCode, m["error"]
		}
		return nil, 0, err.Error()
	}
	rc := &rawClient{c: c, closed: make(chan struct{}), msgs: make(chan protocol.Envelope, 1024)}
	go func() {
		defer close(rc.closed)
		for {
			_, data, err := c.ReadMessage()
			if err != nil {
				return
			}
			var env protocol.Envelope
			if json.Unmarshal(data, &env) == nil {
				select {
				case rc.msgs <- env:
				default:
				}
			}
		}
	}()
	return rc, 101, ""
}

func (rc *rawClient) isClosed() bool {
	select {
	case <-rc.closed:
		return true
	default:
		return false
	}
}

// waitType waits for an envelope of the given type (and msg id, if not empty)
func (rc *rawClient) waitType(typ, id string, d time.Duration) bool {
	deadline := time.After(d)
	for {
		select {
		case e := <-rc.msgs:
			if e.Type == typ && (id == "" || e.MsgID == id) {
				return true
			}
		case <-rc.closed:
			// drain what is left
			for {
				select {
				case e := <-rc.msgs:
					if e.Type == typ && (id == "" || e.MsgID == id) {
						return true
					}
				default:
					return false
				}
			}
		case <-deadline:
			return false
		}
	}
}

func usc(s string) string { return strings.ReplaceAll(s, " ", "_") }

func histCase(args []string) string {
	raw, err := hex.DecodeString(args[0])
	if err != nil {
		return "bad-op"
	}
	var g histSpec
	if err := json.Unmarshal(raw, &g); err != nil {
		return "bad-op"
	}
	s, err := startServer(g.Flags)
	if err != nil {
		return "server-err:" + usc(err.Error())
	}
	defer s.stop()
	ctx, cancel := context.WithTimeout(context.Background(), 60*time.Second)
	defer cancel()
	start := time.Now()
	nominal := time.Duration(0)
	maxDrift := time.Duration(0)
	codes := map[int]string{}
	nsess := 0
	conns := map[int]*rawClient{}
	nconn := 0
	var out []string
	countOut := func(sub string) int { return strings.Count(s.out.String(), sub) }
	waitOut := func(sub string, n int) bool {
		deadline := time.Now().Add(3 * time.Second)
		for time.Now().Before(deadline) {
			if countOut(sub) >= n {
				return true
			}
			time.Sleep(2 * time.Millisecond)
		}
		return false
	}
	drift := func() {
		d := time.Since(start) - nominal
		if d > maxDrift {
			maxDrift = d
		}
	}
	for _, ev := range g.Evs {
		f := strings.Split(ev, ":")
		switch f[0] {
		case "c", "cm":
			q := ""
			if len(f) > 1 {
				q = "?max_receivers=" + url.QueryEscape(f[1])
			}
			drift()
			st, msg, m := postSession(s.base, q)
			if st == 201 {
				nsess++
				codes[nsess], _ = m["join_code"].(string)
				out = append(out, fmt.Sprintf("201:%d", nsess))
			} else if msg != "" {
				out = append(out, fmt.Sprintf("%d:%s", st, usc(msg)))
			} else {
				out = append(out, strconv.Itoa(st))
			}
		case "w":
			nconn++
			q := url.Values{}
			if f[1] != "-" {
				if i, err := strconv.Atoi(f[1]); err == nil && codes[i] != "" {
					q.Set("join_code", codes[i])
				} else {
					q.Set("join_code", "ZZZZZZZZ")
				}
			}
			if f[2] != "-" {
				q.Set("peer_id", f[2])
			}
			role := map[string]string{"s": "sender", "r": "receiver", "o": "viewer"}[f[3]]
			q.Set("role", role)
			if len(f) > 4 {
				q.Set("max_receivers", f[4])
			}
			drift()
			before := countOut("peer connected")
			rc, st, msg := rawDial(ctx, s.base, q)
			if rc == nil {
				if msg != "" {
					out = append(out, fmt.Sprintf("%d:%s", st, usc(msg)))
				} else {
					out = append(out, strconv.Itoa(st))
				}
				continue
			}
			rc.peer = f[2]
			// registered when the server sent the peer list; a refusal after the upgrade closes the socket instead
			if rc.waitType(protocol.TypePeerList, "", 3*time.Second) {
				waitOut("peer connected", before+1)
				conns[nconn] = rc
				sid, _ := strconv.Atoi(f[1])
				out = append(out, fmt.Sprintf("ok:%d", sid))
			} else {
				out = append(out, "closed-after-upgrade")
			}
		case "d":
			c, _ := strconv.Atoi(f[1])
			rc := conns[c]
			if rc == nil {
				out = append(out, "nop")
				continue
			}
			before := countOut("peer disconnected")
			hostBefore := countOut("session deleted")
			rc.c.Close()
			<-rc.closed
			waitOut("peer disconnected", before+1)
			time.Sleep(40 * time.Millisecond) // the handler's remaining deferred calls (removePeer, connLimiter.Release) run after that line
			delete(conns, c)
			hl := 0
			if countOut("session deleted") > hostBefore {
				hl = 1
			}
			out = append(out, fmt.Sprintf("closed:%d", hl))
		case "t":
			ms, _ := strconv.Atoi(f[1])
			nominal += time.Duration(ms) * time.Millisecond
			if d := time.Until(start.Add(nominal)); d > 0 {
				time.Sleep(d)
			}
			time.Sleep(60 * time.Millisecond) // timers that fired during the sleep have closed their sockets by now
			var kicked []int
			for i, rc := range conns {
				if rc.isClosed() {
					kicked = append(kicked, i)
				}
			}
			sort.Ints(kicked)
			before := countOut("peer disconnected")
			_ = before
			var ks []string
			for _, i := range kicked {
				delete(conns, i)
				ks = append(ks, strconv.Itoa(i))
			}
			// all their handlers have finished
			deadline := time.Now().Add(2 * time.Second)
			for time.Now().Before(deadline) && countOut("peer disconnected") < countOut("peer connected")-len(conns) {
				time.Sleep(2 * time.Millisecond)
			}
			if len(ks) > 0 {
				time.Sleep(40 * time.Millisecond)
			}
			out = append(out, "t:"+strings.Join(ks, ","))
		case "m":
			c, _ := strconv.Atoi(f[1])
			size, _ := strconv.Atoi(f[2])
			rc := conns[c]
			if rc == nil {
				out = append(out, "nop")
				continue
			}
			// an envelope whose JSON text has exactly `size` bytes, addressed to nobody in particular (broadcast)
			head := `{"v":1,"type":"pad","msg_id":"m","payload":"`
			tail := `"}`
			pad := size - len(head) - len(tail)
			if pad < 0 {
				pad = 0
			}
			text := head + strings.Repeat("a", pad) + tail
			before := countOut("peer disconnected")
			hostBefore := countOut("session deleted")
			rc.c.WriteMessage(websocket.TextMessage, []byte(text))
			// then a small message to itself: its echo proves the connection survived the big one
			id := fmt.Sprintf("echo%d", len(out))
			echo := fmt.Sprintf(`{"v":1,"type":"echo","msg_id":"%s","to":"%s"}`, id, rc.peer)
			rc.c.WriteMessage(websocket.TextMessage, []byte(echo))
			if rc.waitType("echo", id, 3*time.Second) {
				out = append(out, "kept")
			} else {
				<-rc.closed
				waitOut("peer disconnected", before+1)
				time.Sleep(40 * time.Millisecond)
				delete(conns, c)
				_ = hostBefore
				out = append(out, "dropped")
			}
		default:
			return "bad-op"
		}
	}
	for _, rc := range conns {
		rc.c.Close()
	}
	alive := s.alive()
	return strings.Join(out, " ") + fmt.Sprintf(" | drift_ms=%d alive=%v", maxDrift.Milliseconds(), alive)
}
