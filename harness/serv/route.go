//go:build verif

package main

import (
	"context"
	"encoding/hex"
	"encoding/json"
	"fmt"
	"net/url"
	"sort"
	"strconv"
	"strings"
	"sync"
	"time"

	"github.com/gorilla/websocket"
)

func init() {
	handlers["route"] = routeCase
	handlers["swarm"] = swarmCase
}

// a WebSocket client that keeps everything it receives, in order
type logClient struct {
	idx    int
	sid    int
	peer   string
	c      *websocket.Conn
	mu     sync.Mutex
	envs   []map[string]any
	closed chan struct{}
	wmu    sync.Mutex
}

func logDial(ctx context.Context, base, code, peer, role string) (*logClient, int, string) {
	q := url.Values{}
	q.Set("join_code", code)
	q.Set("peer_id", peer)
	q.Set("role", role)
	u := "ws" + strings.TrimPrefix(base, "http") + "/ws?" + q.Encode()
	d := websocket.Dialer{HandshakeTimeout: 5 * time.Second}
	c, resp, err := d.DialContext(ctx, u, nil)
	if err != nil {
		if resp != nil {
			return nil, resp.StatusCode, err.Error()
		}
		return nil, 0, err.Error()
	}
	lc := &logClient{peer: peer, c: c, closed: make(chan struct{})}
	go func() {
		defer close(lc.closed)
		for {
			_, data, err := c.ReadMessage()
			if err != nil {
				return
			}
			var m map[string]any
			if json.Unmarshal(data, &m) == nil {
				lc.mu.Lock()
				lc.envs = append(lc.envs, m)
				lc.mu.Unlock()
			}
		}
	}()
	return lc, 101, ""
}

func (lc *logClient) send(text string) {
	lc.wmu.Lock()
	lc.c.WriteMessage(websocket.TextMessage, []byte(text))
	lc.wmu.Unlock()
}

func (lc *logClient) has(pred func(map[string]any) bool) bool {
	lc.mu.Lock()
	defer lc.mu.Unlock()
	for _, e := range lc.envs {
		if pred(e) {
			return true
		}
	}
	return false
}

func (lc *logClient) waitFor(pred func(map[string]any) bool, d time.Duration) bool {
	deadline := time.Now().Add(d)
	for time.Now().Before(deadline) {
		if lc.has(pred) {
			return true
		}
		select {
		case <-lc.closed:
			return lc.has(pred)
		default:
		}
		time.Sleep(time.Millisecond)
	}
	return false
}

func str(m map[string]any, k string) string { s, _ := m[k].(string); return s }

// routeSpec: sequential history; acts as in the model's `route` command:
//
//	j:<sid>:<conn>:<peer>   l:<conn>   m:<conn>:<to>:<claimed from>:<body>:<kind>[:<claimed session>]
type routeSpec struct {
	Sessions int      `json:"sessions"`
	Acts     []string `json:"acts"`
}

type routeWorld struct {
	s     *srv
	ctx   context.Context
	codes map[int]string
	sids  map[int]string
	conns map[int]*logClient
	reg   map[string]int // "sid/peer" -> conn index currently registered
	fence int
}

func newWorld(ctx context.Context, s *srv, sessions int) (*routeWorld, error) {
	w := &routeWorld{s: s, ctx: ctx, codes: map[int]string{}, sids: map[int]string{}, conns: map[int]*logClient{}, reg: map[string]int{}}
	for i := 1; i <= sessions; i++ {
		st, msg, m := postSession(s.base, "")
		if st != 201 {
			return nil, fmt.Errorf("create session: %d %s", st, msg)
		}
		w.codes[i], _ = m["join_code"].(string)
		w.sids[i], _ = m["session_id"].(string)
	}
	return w, nil
}

func peerName(p string) string { return "peer-" + p }

func (w *routeWorld) join(sid, conn int, peer string) error {
	before := strings.Count(w.s.out.String(), "peer connected")
	role := "receiver"
	lc, st, msg := logDial(w.ctx, w.s.base, w.codes[sid], peerName(peer), role)
	if lc == nil {
		return fmt.Errorf("join refused: %d %s", st, msg)
	}
	lc.idx, lc.sid = conn, sid
	if !lc.waitFor(func(m map[string]any) bool { return str(m, "type") == "peer_list" }, 3*time.Second) {
		return fmt.Errorf("no peer_list for conn %d", conn)
	}
	deadline := time.Now().Add(2 * time.Second)
	for time.Now().Before(deadline) && strings.Count(w.s.out.String(), "peer connected") <= before {
		time.Sleep(time.Millisecond)
	}
	w.conns[conn] = lc
	w.reg[fmt.Sprintf("%d/%s", sid, peer)] = conn
	return nil
}

// fenceAll: every registered connection sends itself a marker and waits for it; everything queued for it earlier has
// arrived by then (per-connection FIFO)
func (w *routeWorld) fenceAll() error {
	for key, ci := range w.reg {
		lc := w.conns[ci]
		if lc == nil {
			continue
		}
		w.fence++
		id := fmt.Sprintf("fence-%d", w.fence)
		peer := key[strings.Index(key, "/")+1:]
		lc.send(fmt.Sprintf(`{"v":1,"type":"fence","msg_id":"%s","to":"%s"}`, id, peerName(peer)))
		if !lc.waitFor(func(m map[string]any) bool { return str(m, "msg_id") == id }, 3*time.Second) {
			return fmt.Errorf("fence %s did not come back on conn %d", id, ci)
		}
	}
	return nil
}

// authorFence: the author's handler has finished routing its previous message when a marker it sent afterwards has
// been routed (handlers read sequentially)
func (w *routeWorld) authorFence(lc *logClient) error {
	w.fence++
	id := fmt.Sprintf("afence-%d", w.fence)
	peer := strings.TrimPrefix(lc.peer, "peer-")
	tgt, ok := w.reg[fmt.Sprintf("%d/%s", lc.sid, peer)]
	ownErrs := func() int {
		lc.mu.Lock()
		defer lc.mu.Unlock()
		n := 0
		for _, e := range lc.envs {
			if str(e, "type") == "error" {
				p, _ := e["payload"].(map[string]any)
				if msg, _ := p["message"].(string); strings.HasSuffix(msg, ": "+lc.peer) {
					n++
				}
			}
		}
		return n
	}
	before := ownErrs()
	lc.send(fmt.Sprintf(`{"v":1,"type":"fence","msg_id":"%s","to":"%s"}`, id, lc.peer))
	if ok && w.conns[tgt] != nil {
		if !w.conns[tgt].waitFor(func(m map[string]any) bool { return str(m, "msg_id") == id }, 3*time.Second) {
			return fmt.Errorf("author fence %s lost (conn %d -> conn %d)", id, lc.idx, tgt)
		}
		return nil
	}
	// nobody is registered under the author's peer id: the marker is answered with peer_not_found to the author
	deadline := time.Now().Add(3 * time.Second)
	for time.Now().Before(deadline) {
		if ownErrs() > before {
			return nil
		}
		time.Sleep(time.Millisecond)
	}
	return fmt.Errorf("author fence %s unanswered on conn %d", id, lc.idx)
}

func rawMsg(kind string, to, claimed string, body int, sessClaim string) string {
	m := map[string]any{"v": 1, "type": "data", "msg_id": fmt.Sprintf("d%d", body), "payload": map[string]int{"body": body}}
	if to != "0" {
		m["to"] = peerName(to)
	}
	if claimed != "0" {
		m["from"] = peerName(claimed)
	}
	if sessClaim != "" {
		m["session_id"] = sessClaim
	}
	switch kind {
	case "badver":
		m["v"] = 2
	case "notype":
		delete(m, "type")
	case "noid":
		delete(m, "msg_id")
	case "garbage":
		return `{"v":1,"type":"data","msg_id":` // truncated JSON
	}
	b, _ := json.Marshal(m)
	return string(b)
}

func routeCase(args []string) string {
	raw, err := hex.DecodeString(args[0])
	if err != nil {
		return "bad-op"
	}
	var g routeSpec
	if err := json.Unmarshal(raw, &g); err != nil {
		return "bad-op"
	}
	s, err := startServer([]string{"--ws-connects-per-min", "0", "--session-creates-per-min", "0", "--ws-msgs-per-sec", "0", "--max-receivers-per-sender", "0", "--max-ws-connections", "0"})
	if err != nil {
		return "server-err:" + usc(err.Error())
	}
	defer s.stop()
	ctx, cancel := context.WithTimeout(context.Background(), 60*time.Second)
	defer cancel()
	w, err := newWorld(ctx, s, g.Sessions)
	if err != nil {
		return "setup-err:" + usc(err.Error())
	}
	for _, a := range g.Acts {
		f := strings.Split(a, ":")
		switch f[0] {
		case "j":
			sid, _ := strconv.Atoi(f[1])
			c, _ := strconv.Atoi(f[2])
			if err := w.join(sid, c, f[3]); err != nil {
				return "harness-err:" + usc(err.Error())
			}
		case "l":
			c, _ := strconv.Atoi(f[1])
			lc := w.conns[c]
			if lc == nil {
				continue
			}
			before := strings.Count(s.out.String(), "peer disconnected")
			lc.c.Close()
			<-lc.closed
			deadline := time.Now().Add(3 * time.Second)
			for time.Now().Before(deadline) && strings.Count(s.out.String(), "peer disconnected") <= before {
				time.Sleep(time.Millisecond)
			}
			for k, v := range w.reg {
				if v == c {
					delete(w.reg, k)
				}
			}
		case "m":
			c, _ := strconv.Atoi(f[1])
			lc := w.conns[c]
			if lc == nil {
				return "harness-err:no-conn"
			}
			body, _ := strconv.Atoi(f[4])
			sc := ""
			if len(f) > 6 && f[6] != "0" {
				if k, err := strconv.Atoi(f[6]); err == nil && w.sids[k] != "" {
					sc = w.sids[k]
				} else {
					sc = "00000000000000000000000000000000"
				}
			}
			lc.send(rawMsg(f[5], f[2], f[3], body, sc))
			if err := w.authorFence(lc); err != nil {
				return "harness-err:" + usc(err.Error())
			}
		default:
			return "bad-op"
		}
		if err := w.fenceAll(); err != nil {
			return "harness-err:" + usc(err.Error())
		}
	}
	// transcript: per connection the client-authored envelopes in order, and the peer_not_found replies
	var idxs []int
	for i := range w.conns {
		idxs = append(idxs, i)
	}
	sort.Ints(idxs)
	var parts []string
	leaks := 0
	for _, i := range idxs {
		lc := w.conns[i]
		lc.mu.Lock()
		var es, er []string
		for _, e := range lc.envs {
			switch str(e, "type") {
			case "data":
				p, _ := e["payload"].(map[string]any)
				b, _ := p["body"].(float64)
				to := strings.TrimPrefix(str(e, "to"), "peer-")
				if to == "" {
					to = "0"
				}
				es = append(es, fmt.Sprintf("%s:%s:%d", strings.TrimPrefix(str(e, "from"), "peer-"), to, int(b)))
			case "error":
				p, _ := e["payload"].(map[string]any)
				msg, _ := p["message"].(string)
				// (a reply naming the connection's own peer id answers an author fence, not an event of the history)
				if j := strings.Index(msg, "peer-"); j >= 0 && !strings.HasSuffix(msg, ": "+lc.peer) {
					er = append(er, msg[j+5:])
				}
				if str(e, "from") != "server" {
					leaks++
				}
			case "peer_joined", "peer_left", "peer_list", "turn_credentials":
				// server-originated: must carry this connection's session id
				if sid := str(e, "session_id"); sid != w.sids[lc.sid] {
					leaks++
				}
			}
		}
		lc.mu.Unlock()
		parts = append(parts, fmt.Sprintf("c%d=[%s]e[%s]", i, strings.Join(es, ","), strings.Join(er, ",")))
	}
	for _, lc := range w.conns {
		lc.c.Close()
	}
	return strings.Join(parts, " ") + fmt.Sprintf(" dropped=0 panic=0 | foreign_server_msgs=%d alive=%v", leaks, s.alive())
}

// swarmSpec: concurrent phase with static membership. Every client sends its messages as fast as it can; afterwards
// everything is fenced and the complete receive logs are returned for the property oracle.
type swarmSpec struct {
	Sessions int        `json:"sessions"`
	Peers    [][]string `json:"peers"` // per session: peer ids (a repeated id = a reconnect replacing the earlier connection)
	Msgs     [][]string `json:"msgs"`  // per connection (in join order, 1-based conn = index+1): "to:claimed:kind:sessclaim"
	Churn    int        `json:"churn"` // extra clients that join and leave while messages fly
}

func swarmCase(args []string) string {
	raw, err := hex.DecodeString(args[0])
	if err != nil {
		return "bad-op"
	}
	var g swarmSpec
	if err := json.Unmarshal(raw, &g); err != nil {
		return "bad-op"
	}
	out := map[string]any{}
	fin := func() string { b, _ := json.Marshal(out); return string(b) }
	s, err := startServer([]string{"--ws-connects-per-min", "0", "--session-creates-per-min", "0", "--ws-msgs-per-sec", "0", "--max-receivers-per-sender", "0", "--max-ws-connections", "0"})
	if err != nil {
		out["server_err"] = err.Error()
		return fin()
	}
	defer s.stop()
	ctx, cancel := context.WithTimeout(context.Background(), 60*time.Second)
	defer cancel()
	w, err := newWorld(ctx, s, g.Sessions)
	if err != nil {
		out["setup_err"] = err.Error()
		return fin()
	}
	conn := 0
	type cinfo struct {
		Conn, Sid int
		Peer      string
	}
	var infos []cinfo
	for si, peers := range g.Peers {
		for _, p := range peers {
			conn++
			if err := w.join(si+1, conn, p); err != nil {
				out["setup_err"] = err.Error()
				return fin()
			}
			infos = append(infos, cinfo{conn, si + 1, p})
		}
	}
	if err := w.fenceAll(); err != nil {
		out["setup_err"] = err.Error()
		return fin()
	}
	var wg sync.WaitGroup
	gate := make(chan struct{})
	for ci, msgs := range g.Msgs {
		lc := w.conns[ci+1]
		if lc == nil {
			continue
		}
		wg.Add(1)
		go func(lc *logClient, msgs []string) {
			defer wg.Done()
			<-gate
			for k, m := range msgs {
				f := strings.Split(m, ":")
				sc := ""
				if f[3] != "0" {
					if j, err := strconv.Atoi(f[3]); err == nil && w.sids[j] != "" {
						sc = w.sids[j]
					}
				}
				lc.send(rawMsg(f[2], f[0], f[1], lc.idx*1000+k, sc))
			}
		}(lc, msgs)
	}
	stopChurn := make(chan struct{})
	var cwg sync.WaitGroup
	for k := 0; k < g.Churn; k++ {
		cwg.Add(1)
		go func(k int) {
			defer cwg.Done()
			<-gate
			for i := 0; ; i++ {
				select {
				case <-stopChurn:
					return
				default:
				}
				sid := (k+i)%g.Sessions + 1
				lc, _, _ := logDial(ctx, s.base, w.codes[sid], fmt.Sprintf("peer-churn%d", k), "receiver")
				if lc != nil {
					lc.send(rawMsg("ok", "0", "0", 900000+k, ""))
					time.Sleep(time.Duration(1+i%3) * time.Millisecond)
					lc.c.Close()
				}
			}
		}(k)
	}
	close(gate)
	wg.Wait()
	close(stopChurn)
	cwg.Wait()
	// every author's handler has routed everything it was sent; then every recipient has received what was queued
	for _, lc := range w.conns {
		if err := w.authorFence(lc); err != nil {
			out["fence_err"] = err.Error()
		}
	}
	if err := w.fenceAll(); err != nil {
		out["fence_err"] = err.Error()
	}
	logs := map[string][]map[string]any{}
	for i, lc := range w.conns {
		lc.mu.Lock()
		var l []map[string]any
		for _, e := range lc.envs {
			t := str(e, "type")
			if t == "data" || t == "error" {
				p, _ := e["payload"].(map[string]any)
				l = append(l, map[string]any{"type": t, "from": str(e, "from"), "to": str(e, "to"), "body": p["body"], "msg": p["message"], "session_id": str(e, "session_id")})
			}
		}
		lc.mu.Unlock()
		logs[strconv.Itoa(i)] = l
	}
	out["conns"] = infos
	out["sids"] = w.sids
	out["logs"] = logs
	out["alive"] = s.alive()
	out["panic_in_server_output"] = strings.Contains(s.out.String(), "panic")
	for _, lc := range w.conns {
		lc.c.Close()
	}
	return fin()
}
