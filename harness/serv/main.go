//go:build verif

// Harness "serv": real client code (clienthttp, app URL builder, wsclient, ice TURN parser) against the real
// thruserv binary built from the tree (path in THRUSERV_BIN), plus net/url differential commands.
package main

import (
	"bufio"
	"fmt"
	"os"
	"strings"
)

type handler func(args []string) string

var handlers = map[string]handler{}

func main() {
	in := bufio.NewReaderSize(os.Stdin, 1<<22)
	out := bufio.NewWriterSize(os.Stdout, 1<<16)
	defer out.Flush()
	for {
		line, err := in.ReadString('\n')
		if len(line) == 0 && err != nil {
			break
		}
		f := strings.Fields(line)
		res := "bad-op"
		if len(f) > 0 {
			if h, ok := handlers[f[0]]; ok {
				res = safe(h, f[1:])
			}
		}
		fmt.Fprintln(out, res)
		out.Flush()
		if err != nil {
			break
		}
	}
}

func safe(h handler, args []string) (res string) {
	defer func() {
		if r := recover(); r != nil {
			res = strings.ReplaceAll(fmt.Sprintf("panic:%v", r), "\n", " ")
		}
	}()
	return h(args)
}
