//go:build verif

package main

import (
	"crypto/rand"
	"fmt"
	"io"
	"sort"
	"strconv"
	"strings"
	"time"

	"github.com/sheerbytes/sheerbytes/internal/session"
)

func init() { handlers["store"] = storeCase }

// scriptReader feeds crypto/rand.Read: 16 bytes per session id (a counter, so ids never repeat), 8 bytes per
// join-code draw taken from the scripted candidate list (then fresh fallback codes).
type scriptReader struct {
	ids   uint64
	cands []int
	fresh int
	draws int
}

func codeBytes(k int) []byte {
	b := make([]byte, 8)
	for i := 0; i < 8; i++ {
		b[i] = byte(k % 32)
		k /= 32
	}
	return b
}

const codeChars = "ABCDEFGHJKLMNPQRSTUVWXYZ23456789"

func codeString(k int) string {
	b := codeBytes(k)
	out := make([]byte, 8)
	for i := range b {
		out[i] = codeChars[b[i]]
	}
	return string(out)
}

func codeNumber(s string) int {
	k := 0
	for i := 7; i >= 0; i-- {
		k = k*32 + strings.IndexByte(codeChars, s[i])
	}
	return k
}

func (r *scriptReader) Read(p []byte) (int, error) {
	switch len(p) {
	case 16:
		r.ids++
		for i := range p {
			p[i] = 0
		}
		for i := 0; i < 8; i++ {
			p[15-i] = byte(r.ids >> (8 * i))
		}
	case 8:
		var k int
		if len(r.cands) > 0 {
			k = r.cands[0]
			r.cands = r.cands[1:]
		} else {
			r.fresh++
			k = 1 << 20 + r.fresh
		}
		r.draws++
		copy(p, codeBytes(k))
	default:
		for i := range p {
			p[i] = 0
		}
	}
	return len(p), nil
}

var _ io.Reader = (*scriptReader)(nil)

// store <ttl ms> op…  — the same op language as the model's `store` command; candidates beyond the scripted
// ones are fresh codes, reported back so that the model sees the same generator output.
func storeCase(args []string) string {
	ttl, _ := strconv.Atoi(args[0])
	st := session.NewStore(time.Duration(ttl) * time.Millisecond)
	sr := &scriptReader{}
	old := rand.Reader
	rand.Reader = sr
	defer func() { rand.Reader = old }()
	ids := map[string]int{} // session id -> index
	byIdx := map[int]string{}
	var out []string
	for _, op := range args[1:] {
		f := strings.Split(op, ":")
		switch f[0] {
		case "c":
			mx, _ := strconv.Atoi(f[1])
			sr.cands = nil
			for _, c := range strings.Split(f[2], ",") {
				k, _ := strconv.Atoi(c)
				sr.cands = append(sr.cands, k)
			}
			sr.draws = 0
			before := sr.ids
			s, ok := st.CreateLimited(mx)
			if !ok {
				out = append(out, "limit")
				// the id and first code are drawn before the limit is tested; keep the index numbering of the model
				// (which numbers only created sessions) by not registering it
				_ = before
				continue
			}
			idx := len(ids) + 1
			ids[s.ID] = idx
			byIdx[idx] = s.ID
			out = append(out, fmt.Sprintf("ok:%d:%d", idx, codeNumber(s.JoinCode)))
		case "g":
			k, _ := strconv.Atoi(f[1])
			s, ok := st.GetByJoinCode(codeString(k))
			if ok {
				out = append(out, fmt.Sprintf("some:%d", ids[s.ID]))
			} else {
				out = append(out, "none")
			}
		case "x":
			k, _ := strconv.Atoi(f[1])
			st.Delete(byIdx[k]) // unknown index: Delete("") is a no-op, as in the model
			out = append(out, "-")
		case "n":
			out = append(out, strconv.Itoa(st.Count()))
		case "a":
			ms, _ := strconv.Atoi(f[1])
			st.VerifAgeAll(time.Duration(ms) * time.Millisecond)
			out = append(out, "-")
		default:
			return "bad-op"
		}
		// observed invariant of the real maps after every op
		a, b := st.VerifMaps()
		if msg := mapsAgree(a, b); msg != "" {
			out = append(out, "MAPS:"+msg)
		}
	}
	return strings.Join(out, " ")
}

func mapsAgree(byID, byCode map[string]string) string {
	var bad []string
	for id, c := range byID {
		if byCode[c] != id {
			bad = append(bad, fmt.Sprintf("session-%s-code-%s-not-indexed", id[len(id)-4:], c))
		}
	}
	for c, id := range byCode {
		if cc, ok := byID[id]; !ok || cc != c {
			bad = append(bad, fmt.Sprintf("code-%s-points-to-nothing", c))
		}
	}
	sort.Strings(bad)
	return strings.Join(bad, ",")
}
