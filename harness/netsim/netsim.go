//go:build verif

// Package netsim is an in-memory transfer.Conn pair with QUIC's observable stream semantics and
// fault injection. Harness code only (overlaid under internal/zzverif at build time).
//
// Semantics reproduced (measured on quic-go v0.58.0, see DESIGN.md §3.6):
//   - a stream opened by one side becomes acceptable at the peer only after its first Write or Close,
//     or when a higher-numbered stream of that side becomes acceptable (Lazy = true); with Lazy = false
//     it is acceptable as soon as it is opened (what the repo's MockTransport does);
//   - per-stream FIFO byte order, no order between streams;
//   - Close() on a stream half-closes it (FIN): the peer reads what was written and then io.EOF;
//   - closing the connection with application code 0 makes every blocked and later Read / Write /
//     AcceptStream / OpenStream fail with "Application error 0x0 (remote)" at the peer and
//     "... (local)" at the closer; an abrupt loss gives "timeout: no recent network activity";
//   - read/write deadlines.
package netsim

import (
	"context"
	"errors"
	"fmt"
	"io"
	"net"
	"os"
	"sync"
	"time"

	"github.com/sheerbytes/sheerbytes/internal/transfer"
)

type Options struct {
	Lazy bool   // QUIC stream-visibility rule
	EKM  []byte // what ExportKeyingMaterial returns on both ends
	// one-way latency of this connection (bytes, stream visibility and FINs reach the peer this much later, in order); 0 = at once.
	// Faults are still counted at write time.
	Delay time.Duration
}

// Fault strikes when byte number AtByte (0-based) of the Nth stream opened by side From
// (in open order, 0 = first) is about to be delivered in direction Dir.
type Fault struct {
	FromA  bool   // the stream was opened by side A
	Stream int    // index in that side's open order
	AtoB   bool   // direction of the bytes being counted
	AtByte int64  // offset in that direction of that stream
	Kind   string // "flip" | "close0-by-writer" | "close0-by-reader" | "abrupt" | "stall"
	fired  bool
}

type pair struct {
	mu     sync.Mutex
	cond   *sync.Cond
	opt    Options
	a, b   *Conn
	faults []*Fault
	// event log for the orchestrator
	Log []string
	// delayed deliveries (Options.Delay), FIFO
	dq        []delayed
	dqRunning bool
}

type delayed struct {
	due time.Time
	fn  func()
}

// deliver runs fn now, or - on a connection with latency - after the delay, in the order of the calls. Called with p.mu held.
func (p *pair) deliver(fn func()) {
	if p.opt.Delay <= 0 {
		fn()
		return
	}
	p.dq = append(p.dq, delayed{time.Now().Add(p.opt.Delay), fn})
	if !p.dqRunning {
		p.dqRunning = true
		go p.runDelayed()
	}
}

func (p *pair) runDelayed() {
	for {
		p.mu.Lock()
		if len(p.dq) == 0 {
			p.dqRunning = false
			p.mu.Unlock()
			return
		}
		it := p.dq[0]
		if w := time.Until(it.due); w > 0 {
			p.mu.Unlock()
			time.Sleep(w)
			continue
		}
		p.dq = p.dq[1:]
		it.fn()
		p.cond.Broadcast()
		p.mu.Unlock()
	}
}

type Conn struct {
	p        *pair
	isA      bool
	peer     *Conn
	opened   []*Stream // streams this side opened, in order
	accepted int       // how many of the peer's visible streams were accepted
	visible  []*Stream // peer-opened streams that became acceptable, in order
	err      error     // set when the connection is closed/lost
}

type half struct {
	buf     []byte
	fin     bool
	nbytes  int64 // bytes delivered so far in this direction
	stalled bool  // this direction stopped making progress (flow control blocked)
}

type Stream struct {
	c        *Conn // side that holds this handle
	twin     *Stream
	id       uint64
	idx      int  // index in opener's open order
	byA      bool // opened by side A
	in       *half
	out      *half
	revealed *bool
	closed   bool // local handle closed
	rdl, wdl time.Time
}

func NewPair(opt Options) (*Conn, *Conn) {
	p := &pair{opt: opt}
	p.cond = sync.NewCond(&p.mu)
	p.a = &Conn{p: p, isA: true}
	p.b = &Conn{p: p, isA: false}
	p.a.peer, p.b.peer = p.b, p.a
	if len(opt.EKM) == 0 {
		p.opt.EKM = []byte("netsim-ekm-0123456789abcdef0123456789abcdef")
	}
	return p.a, p.b
}

func (c *Conn) AddFault(f Fault) {
	c.p.mu.Lock()
	ff := f
	c.p.faults = append(c.p.faults, &ff)
	c.p.mu.Unlock()
}

// ticker wakes waiters so that deadlines and context cancellations are noticed.
func (p *pair) wakeLater(d time.Duration) {
	time.AfterFunc(d, func() { p.mu.Lock(); p.cond.Broadcast(); p.mu.Unlock() })
}

func (c *Conn) OpenStream(ctx context.Context) (transfer.Stream, error) {
	p := c.p
	p.mu.Lock()
	defer p.mu.Unlock()
	if c.err != nil {
		return nil, c.err
	}
	base := uint64(0)
	if !c.isA {
		base = 1
	}
	id := base + 4*uint64(len(c.opened))
	ab, ba := &half{}, &half{}
	rev := new(bool)
	local := &Stream{c: c, id: id, idx: len(c.opened), byA: c.isA, revealed: rev}
	remote := &Stream{c: c.peer, id: id, idx: len(c.opened), byA: c.isA, revealed: rev}
	local.twin, remote.twin = remote, local
	local.out, remote.in = ab, ab
	local.in, remote.out = ba, ba
	c.opened = append(c.opened, local)
	if !p.opt.Lazy {
		p.deliver(func() { c.reveal(local) })
	}
	return local, nil
}

// reveal makes s and every lower-numbered stream of the same opener acceptable at the peer.
func (c *Conn) reveal(s *Stream) {
	for _, o := range c.opened {
		if o.idx <= s.idx && !*o.revealed {
			*o.revealed = true
			c.peer.visible = append(c.peer.visible, o.twin)
		}
	}
	c.p.cond.Broadcast()
}

func (c *Conn) AcceptStream(ctx context.Context) (transfer.Stream, error) {
	p := c.p
	stop := context.AfterFunc(ctx, func() { p.mu.Lock(); p.cond.Broadcast(); p.mu.Unlock() })
	defer stop()
	p.mu.Lock()
	defer p.mu.Unlock()
	for {
		if c.err != nil {
			return nil, c.err
		}
		if c.accepted < len(c.visible) {
			s := c.visible[c.accepted]
			c.accepted++
			return s, nil
		}
		if ctx.Err() != nil {
			return nil, ctx.Err()
		}
		p.cond.Wait()
	}
}

func (c *Conn) RemoteAddr() net.Addr { return &net.UDPAddr{IP: net.IPv4(127, 0, 0, 1), Port: 4242} }

// Close closes the connection with application error code 0 (what transferquic.QUICConn.Close does).
func (c *Conn) Close() error {
	p := c.p
	p.mu.Lock()
	defer p.mu.Unlock()
	c.closeLocked("close0")
	return nil
}

type appErr struct{ s string }

func (e *appErr) Error() string { return e.s }

func (c *Conn) closeLocked(kind string) {
	if c.err != nil {
		return
	}
	switch kind {
	case "close0":
		c.err = &appErr{"Application error 0x0 (local)"}
		c.peer.err = &appErr{"Application error 0x0 (remote)"}
	default:
		c.err = &appErr{"timeout: no recent network activity"}
		c.peer.err = &appErr{"timeout: no recent network activity"}
	}
	c.p.cond.Broadcast()
}

func (c *Conn) Lose() {
	c.p.mu.Lock()
	c.closeLocked("abrupt")
	c.p.mu.Unlock()
}

func (c *Conn) ExportKeyingMaterial(label string, context []byte, length int) ([]byte, error) {
	out := make([]byte, length)
	if len(c.p.opt.EKM) == length { // a whole exporter output was supplied: both ends of this session see exactly it
		copy(out, c.p.opt.EKM)
		return out, nil
	}
	for i := range out {
		out[i] = c.p.opt.EKM[i%len(c.p.opt.EKM)] ^ byte(len(label))
	}
	return out, nil
}

func (s *Stream) StreamID() uint64 { return s.id }

type deadlineErr struct{}

func (deadlineErr) Error() string   { return "deadline exceeded" }
func (deadlineErr) Timeout() bool   { return true }
func (deadlineErr) Temporary() bool { return true }
func (deadlineErr) Is(t error) bool { return t == os.ErrDeadlineExceeded }

func (s *Stream) Read(b []byte) (int, error) {
	p := s.c.p
	p.mu.Lock()
	defer p.mu.Unlock()
	for {
		if s.closed {
			return 0, io.ErrClosedPipe
		}
		if s.c.err != nil {
			return 0, s.c.err
		}
		if len(s.in.buf) > 0 {
			n := copy(b, s.in.buf)
			s.in.buf = s.in.buf[n:]
			return n, nil
		}
		if s.in.fin {
			return 0, io.EOF
		}
		if len(b) == 0 {
			return 0, nil
		}
		if !s.rdl.IsZero() {
			d := time.Until(s.rdl)
			if d <= 0 {
				return 0, deadlineErr{}
			}
			p.wakeLater(d + time.Millisecond)
		}
		p.cond.Wait()
	}
}

func (s *Stream) Write(b []byte) (int, error) {
	p := s.c.p
	p.mu.Lock()
	defer p.mu.Unlock()
	if s.closed {
		return 0, io.ErrClosedPipe
	}
	if s.c.err != nil {
		return 0, s.c.err
	}
	if s.out.fin {
		return 0, errors.New("write on closed stream")
	}
	if s.byA == s.c.isA { // opener writes: reveals the stream
		p.deliver(func() { s.c.reveal(s) })
	}
	written := 0
	for written < len(b) {
		for s.out.stalled {
			if s.c.err != nil {
				return written, s.c.err
			}
			if !s.wdl.IsZero() && time.Until(s.wdl) <= 0 {
				return written, deadlineErr{}
			}
			if !s.wdl.IsZero() {
				p.wakeLater(time.Until(s.wdl) + time.Millisecond)
			}
			p.cond.Wait()
		}
		// fault lookup for the next byte
		var hit *Fault
		for _, f := range p.faults {
			if !f.fired && f.FromA == s.byA && f.Stream == s.idx && f.AtoB == s.c.isA && f.AtByte >= s.out.nbytes && f.AtByte < s.out.nbytes+int64(len(b)-written) {
				if hit == nil || f.AtByte < hit.AtByte {
					hit = f
				}
			}
		}
		if hit == nil {
			data := append([]byte(nil), b[written:]...)
			out := s.out
			p.deliver(func() { out.buf = append(out.buf, data...) })
			s.out.nbytes += int64(len(b) - written)
			written = len(b)
			break
		}
		k := int(hit.AtByte - s.out.nbytes)
		s.out.buf = append(s.out.buf, b[written:written+k]...)
		s.out.nbytes += int64(k)
		written += k
		hit.fired = true
		switch hit.Kind {
		case "flip":
			s.out.buf = append(s.out.buf, b[written]^0x01)
			s.out.nbytes++
			written++
		case "close0-by-writer":
			s.c.closeLocked("close0")
			p.cond.Broadcast()
			return written, s.c.err
		case "close0-by-reader":
			s.c.peer.closeLocked("close0")
			p.cond.Broadcast()
			return written, s.c.err
		case "abrupt":
			s.c.closeLocked("abrupt")
			p.cond.Broadcast()
			return written, s.c.err
		case "stall":
			s.out.stalled = true
		}
	}
	p.cond.Broadcast()
	return len(b), nil
}

// Close half-closes the stream (FIN) and invalidates the local handle, like transferquic.QUICStream.
func (s *Stream) Close() error {
	p := s.c.p
	p.mu.Lock()
	defer p.mu.Unlock()
	if s.closed {
		return nil
	}
	s.closed = true
	if s.c.err == nil {
		out, byOpener := s.out, s.byA == s.c.isA
		p.deliver(func() {
			out.fin = true
			if byOpener {
				s.c.reveal(s)
			}
		})
	}
	p.cond.Broadcast()
	return nil
}

func (s *Stream) SetReadDeadline(t time.Time) error {
	s.c.p.mu.Lock()
	s.rdl = t
	s.c.p.cond.Broadcast()
	s.c.p.mu.Unlock()
	return nil
}

func (s *Stream) SetWriteDeadline(t time.Time) error {
	s.c.p.mu.Lock()
	s.wdl = t
	s.c.p.cond.Broadcast()
	s.c.p.mu.Unlock()
	return nil
}

func (s *Stream) SetDeadline(t time.Time) error {
	s.SetReadDeadline(t)
	return s.SetWriteDeadline(t)
}

// Stats for the orchestrator: how many streams each side opened / were revealed.
func (c *Conn) Stats() string {
	c.p.mu.Lock()
	defer c.p.mu.Unlock()
	return fmt.Sprintf("opened=%d visible_at_peer=%d", len(c.opened), len(c.peer.visible))
}
