//go:build verif

package session

import "time"

// VerifAgeAll moves every stored session d into the past (as if d had elapsed since it was created).
func (s *Store) VerifAgeAll(d time.Duration) {
	s.mu.Lock()
	defer s.mu.Unlock()
	for id, sess := range s.sessions {
		sess.CreatedAt = sess.CreatedAt.Add(-d)
		if !sess.ExpiresAt.IsZero() {
			sess.ExpiresAt = sess.ExpiresAt.Add(-d)
		}
		s.sessions[id] = sess
	}
}

// VerifMaps returns copies of the two maps: id -> join code, join code -> id.
func (s *Store) VerifMaps() (map[string]string, map[string]string) {
	s.mu.RLock()
	defer s.mu.RUnlock()
	a := map[string]string{}
	b := map[string]string{}
	for id, sess := range s.sessions {
		a[id] = sess.JoinCode
	}
	for c, id := range s.byCode {
		b[c] = id
	}
	return a, b
}
