//go:build verif

package main

import (
	"bufio"
	"encoding/hex"
	"fmt"
	"os"
	"strconv"
	"strings"
	"time"

	"github.com/sheerbytes/sheerbytes/internal/verifhook"
)

// Line-protocol driver for the unexported pure pieces of thruserv (overlaid at build time from /verif;
// entered only when THRUSERV_VERIF=1, otherwise the binary is the ordinary server).
func init() {
	// THRUSERV_VERIF_DELAY_MS=<n>: every "serv.*" hook point sleeps n ms, which widens the window between a
	// limit test and the action it guards (the server otherwise runs normally).
	if d, err := strconv.Atoi(os.Getenv("THRUSERV_VERIF_DELAY_MS")); err == nil && d > 0 {
		verifhook.Set(func(name string, args []uint64, s string) {
			if strings.HasPrefix(name, "serv.") {
				time.Sleep(time.Duration(d) * time.Millisecond)
			}
		})
	}
	if os.Getenv("THRUSERV_VERIF") != "1" {
		return
	}
	in := bufio.NewReaderSize(os.Stdin, 1<<20)
	out := bufio.NewWriter(os.Stdout)
	for {
		line, err := in.ReadString('\n')
		if len(line) == 0 && err != nil {
			break
		}
		fmt.Fprintln(out, verifLine(strings.Fields(line)))
		out.Flush()
		if err != nil {
			break
		}
	}
	out.Flush()
	os.Exit(0)
}

func vunhex(s string) string {
	if s == "-" {
		return ""
	}
	b, _ := hex.DecodeString(s)
	return string(b)
}

func vhex(s string) string {
	if s == "" {
		return "-"
	}
	return hex.EncodeToString([]byte(s))
}

func verifLine(f []string) (res string) {
	defer func() {
		if r := recover(); r != nil {
			res = fmt.Sprintf("panic:%v", r)
		}
	}()
	if len(f) == 0 {
		return "bad-op"
	}
	switch f[0] {
	case "inject": // inject <raw> <user> <pass>
		s, err := injectTurnCredentials(vunhex(f[1]), vunhex(f[2]), vunhex(f[3]))
		if err != nil {
			return "err"
		}
		return vhex(s)
	case "turnpw":
		return vhex(buildTurnPassword([]byte(vunhex(f[1])), vunhex(f[2])))
	case "bucket": // bucket <rate milli> <burst> <dt ms>... : one Allow() after each dt
		rate, _ := strconv.Atoi(f[1])
		burst, _ := strconv.Atoi(f[2])
		b := newTokenBucket(float64(rate)/1000, burst)
		var sb strings.Builder
		for _, d := range f[3:] {
			ms, _ := strconv.Atoi(d)
			b.mu.Lock()
			b.last = time.Now().Add(-time.Duration(ms) * time.Millisecond) // as if ms had passed since the last call
			b.mu.Unlock()
			if b.Allow() {
				sb.WriteByte('1')
			} else {
				sb.WriteByte('0')
			}
		}
		return "r=" + sb.String()
	case "connlim": // connlim <limit> <ops: a|r ...>
		lim, _ := strconv.Atoi(f[1])
		l := newConnLimiter(0)
		l.SetLimit(lim)
		var sb strings.Builder
		for _, op := range f[2:] {
			if op == "a" {
				if l.Acquire() {
					sb.WriteByte('1')
				} else {
					sb.WriteByte('0')
				}
			} else {
				l.Release()
				sb.WriteByte('-')
			}
		}
		return fmt.Sprintf("r=%s inuse=%d", sb.String(), l.inUse)
	}
	return "bad-op"
}
