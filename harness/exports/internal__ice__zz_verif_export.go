//go:build verif

package ice

import (
	"log/slog"
	"net"
)

// Export shim for the verification harness (overlaid at build time from /verif).

type VerifTurn struct {
	Addr, Username, Password, Realm, ServerName string
	UseTCP, UseTLS, InsecureTLS              bool
}

func VerifParseTurnServer(raw string) (VerifTurn, error) {
	c, err := parseTurnServer(raw)
	if err != nil {
		return VerifTurn{}, err
	}
	return VerifTurn{c.addr, c.username, c.password, c.realm, c.serverName, c.useTCP, c.useTLS, c.insecureTLS}, nil
}

// VerifNewProber builds a Prober on an existing UDP socket without STUN/TURN discovery (offline harness).
func VerifNewProber(conn *net.UDPConn, logger *slog.Logger) *Prober {
	return &Prober{config: ProberConfig{}, logger: logger, udpConn: conn}
}
