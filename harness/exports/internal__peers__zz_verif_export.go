//go:build verif

package peers

import "sort"

// Export shims for the verification harness (overlaid at build time from /verif).

// VerifPC is an opaque handle on a connection record.
type VerifPC = peerConnection

// VerifLookup returns the record registered for connID in the session (nil if none).
func (h *Hub) VerifLookup(sid, connID string) *VerifPC {
	h.mu.RLock()
	defer h.mu.RUnlock()
	if m := h.sessions[sid]; m != nil {
		return m[connID]
	}
	return nil
}

// VerifWriterDone reports whether the writer goroutine of the record has ended
// (it ends when the send channel was closed and drained, or when a send failed).
func (pc *peerConnection) VerifWriterDone() bool {
	select {
	case <-pc.done:
		return true
	default:
		return false
	}
}

// VerifQueued is the number of envelopes waiting in the send channel.
func (pc *peerConnection) VerifQueued() int { return len(pc.send) }

// VerifLockState probes h.mu without blocking: "f" free, "r" read-locked, "w" write-locked.
func (h *Hub) VerifLockState() string {
	if h.mu.TryLock() {
		h.mu.Unlock()
		return "f"
	}
	if h.mu.TryRLock() {
		h.mu.RUnlock()
		return "r"
	}
	return "w"
}

// VerifTables returns the two routing tables as sorted "sid:conn:peer" strings and the registered session ids.
func (h *Hub) VerifTables() (reg []string, conns []string, idx []string, regIdx []string) {
	h.mu.RLock()
	defer h.mu.RUnlock()
	for sid, m := range h.sessions {
		reg = append(reg, sid)
		for cid, pc := range m {
			conns = append(conns, sid+":"+cid+":"+pc.peer.PeerID)
		}
	}
	for sid, m := range h.byPeerID {
		regIdx = append(regIdx, sid)
		for pid, cid := range m {
			idx = append(idx, sid+":"+cid+":"+pid)
		}
	}
	sort.Strings(reg)
	sort.Strings(conns)
	sort.Strings(idx)
	sort.Strings(regIdx)
	return
}
