//go:build verif

package transfer

// Export shims for the verification harness (overlaid at build time from /verif; never part of a
// normal build). Thin wrappers only: no logic of their own.

func VerifChunkTotal(fileSize int64, chunkSize uint32) uint32 { return chunkTotal(fileSize, chunkSize) }
func VerifChunkSizeForIndex(fileSize int64, chunkSize uint32, idx uint32) uint32 {
	return chunkSizeForIndex(fileSize, chunkSize, idx)
}
func VerifMakeVirtualStreamID(connIndex int, streamID uint64) uint64 {
	return makeVirtualStreamID(connIndex, streamID)
}
