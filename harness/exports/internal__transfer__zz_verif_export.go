//go:build verif

package transfer

import (
	"context"
	"hash/crc32"
	"time"

	"github.com/sheerbytes/sheerbytes/pkg/manifest"
)

func manifestItem(relPath, id string) manifest.FileItem { return manifest.FileItem{RelPath: relPath, ID: id} }

// Export shims for the verification harness (overlaid at build time from /verif; never part of a
// normal build). Thin wrappers only: no logic of their own.

func VerifChunkTotal(fileSize int64, chunkSize uint32) uint32 { return chunkTotal(fileSize, chunkSize) }
func VerifChunkSizeForIndex(fileSize int64, chunkSize uint32, idx uint32) uint32 {
	return chunkSizeForIndex(fileSize, chunkSize, idx)
}
func VerifMakeVirtualStreamID(connIndex int, streamID uint64) uint64 {
	return makeVirtualStreamID(connIndex, streamID)
}

// ---- control codec

func VerifWriteFileBegin(s Stream, m FileBegin) error           { return writeFileBegin(s, m) }
func VerifWriteCredit(s Stream, m Credit) error                 { return writeCredit(s, m) }
func VerifWriteCreditBatch(s Stream, m CreditBatch) error       { return writeCreditBatch(s, m) }
func VerifWriteFileEnd(s Stream, m FileEnd) error               { return writeFileEnd(s, m) }
func VerifWriteFileDone(s Stream, m FileDone) error             { return writeFileDone(s, m) }
func VerifWriteFileResumeInfo(s Stream, m FileResumeInfo) error { return writeFileResumeInfo(s, m) }
func VerifWriteResumeRequest(s Stream, m ResumeRequest) error   { return writeResumeRequest(s, m) }
func VerifWriteDataStreams(s Stream, m DataStreams) error       { return writeDataStreams(s, m) }
func VerifWriteControlEnd(s Stream) error                       { return writeControlEnd(s) }
func VerifReadControlMessage(s Stream) (byte, any, error)       { return readControlMessage(s) }
func VerifValidateRelPath(p string) error                       { return validateRelPath(p) }
func VerifValidateFilename(p string) error                      { return validateFilename(p) }

var (
	VerifErrInvalidRecordType = ErrInvalidRecordType
	VerifErrRelPathTooLong    = ErrRelPathTooLong
	VerifErrInvalidRelPath    = ErrInvalidRelPath
)

const VerifControlMagic = controlMagic

// ---- sender dispatch machine (C17)

type VerifSendState struct{ s *sendFileState }

func VerifNewSendState(total uint32, chunk uint32) *VerifSendState {
	st := &sendFileState{chunkSize: chunk, totalChunks: total, readyCh: make(chan struct{})}
	st.item.Size = int64(total) * int64(chunk)
	return &VerifSendState{st}
}
func (v *VerifSendState) Take() (uint32, uint32, bool) { return v.s.nextChunkToSend() }
func (v *VerifSendState) Finish() bool                 { return v.s.markChunkDone() }
func (v *VerifSendState) TryEnd() bool                 { return v.s.trySendEnd() }

// the effects of applyResumeInfo and its verification goroutine on the state, field for field
func (v *VerifSendState) ApplyPlan(bits []bool, forceFrom uint32) {
	bm := NewBitmap(int(v.s.totalChunks))
	for i, b := range bits {
		if b {
			bm.Set(i)
		}
	}
	v.s.mu.Lock()
	v.s.plan = &resumePlan{bitmap: bm, forceSendFrom: forceFrom, totalChunks: v.s.totalChunks}
	v.s.mu.Unlock()
}
func (v *VerifSendState) VerifyBegin() bool { return v.s.beginVerify() }
func (v *VerifSendState) Verdict(mismatch bool, c uint32) {
	v.s.mu.Lock()
	if mismatch {
		v.s.resendChunk = c
		v.s.resendPending = true
	}
	v.s.verifyPending = false
	v.s.mu.Unlock()
}
func (v *VerifSendState) Dump() (next uint32, inFlight int, sd, es, vp, rp bool, rc uint32) {
	v.s.mu.Lock()
	defer v.s.mu.Unlock()
	return v.s.nextChunk, v.s.inFlight, v.s.scheduleDone, v.s.endSent, v.s.verifyPending, v.s.resendPending, v.s.resendChunk
}

// ---- misc

func VerifFileKeyForItem(relPath, id string) uint64 {
	return fileKeyForItem(manifestItem(relPath, id))
}
func VerifCRC32C(b []byte) uint32 { return crc32.Checksum(b, crc32cTable) }

// scripted receiver of the resume negotiation (harness mode "plan")
func VerifReadControlHeader(s Stream) (manifest.Manifest, error) { return readControlHeader(s) }
func VerifWriteControlHeader(s Stream, m manifest.Manifest) error { return writeControlHeader(s, m) }
func VerifHashFileChunk(path string, idx uint32, chunk uint32, size int64, alg byte) (uint64, error) {
	return hashFileChunk(path, idx, chunk, size, alg)
}
func VerifParseHashAlg(s string) (byte, error) { return parseHashAlg(s) }

const VerifResumeHashUnknown = resumeHashUnknown

// the FileBegin wake-up registry of the receiver (harness mode "fwstorm")
type VerifFileWait struct{ r *fileWaitRegistry }

func VerifNewFileWait() *VerifFileWait { return &VerifFileWait{r: newFileWaitRegistry()} }
func (v *VerifFileWait) Wait(ctx context.Context, id uint64, ready func() bool) bool {
	return v.r.wait(ctx, id, ready)
}
func (v *VerifFileWait) Signal(id uint64) { v.r.signal(id) }

// scripted read pool (harness mode "stalebuf"): the sender's chunk reads are queued but run only when the harness says so
type VerifReadJob struct {
	j   readJob
	res readResult
}

type VerifReadPool struct{ p *readPool }

func VerifManualReadPool() *VerifReadPool {
	getReadPool() // make sure the Once has fired
	globalReadPool = &readPool{jobs: make(chan readJob, 64)}
	return &VerifReadPool{p: globalReadPool}
}

func VerifRestoreReadPool() { globalReadPool = newReadPool(defaultReadWorkers()) }

func (v *VerifReadPool) Take(d time.Duration) *VerifReadJob {
	select {
	case j := <-v.p.jobs:
		return &VerifReadJob{j: j}
	case <-time.After(d):
		return nil
	}
}
func (j *VerifReadJob) Read() error {
	n, err := j.j.file.ReadAt(j.j.buf, j.j.offset)
	j.res = readResult{n: n, err: err}
	return err
}
func (j *VerifReadJob) Deliver()      { j.j.result <- j.res }
func (j *VerifReadJob) Offset() int64 { return j.j.offset }
func (j *VerifReadJob) Len() int      { return len(j.j.buf) }
func (j *VerifReadJob) SameBuffer(o *VerifReadJob) bool {
	return len(j.j.buf) > 0 && len(o.j.buf) > 0 && &j.j.buf[0] == &o.j.buf[0]
}
