//go:build verif

package transfer

// Export shims for the verification harness (overlaid at build time from /verif; never part of a
// normal build). Thin wrappers only: no logic of their own.

func VerifChunkTotal(fileSize int64, chunkSize uint32) uint32 { return chunkTotal(fileSize, chunkSize) }
func VerifChunkSizeForIndex(fileSize int64, chunkSize uint32, idx uint32) uint32 {
	return chunkSizeForIndex(fileSize, chunkSize, idx)
}
func VerifMakeVirtualStreamID(connIndex int, streamID uint64) uint64 {
	return makeVirtualStreamID(connIndex, streamID)
}

// ---- control codec

func VerifWriteFileBegin(s Stream, m FileBegin) error           { return writeFileBegin(s, m) }
func VerifWriteCredit(s Stream, m Credit) error                 { return writeCredit(s, m) }
func VerifWriteCreditBatch(s Stream, m CreditBatch) error       { return writeCreditBatch(s, m) }
func VerifWriteFileEnd(s Stream, m FileEnd) error               { return writeFileEnd(s, m) }
func VerifWriteFileDone(s Stream, m FileDone) error             { return writeFileDone(s, m) }
func VerifWriteFileResumeInfo(s Stream, m FileResumeInfo) error { return writeFileResumeInfo(s, m) }
func VerifWriteResumeRequest(s Stream, m ResumeRequest) error   { return writeResumeRequest(s, m) }
func VerifWriteDataStreams(s Stream, m DataStreams) error       { return writeDataStreams(s, m) }
func VerifWriteControlEnd(s Stream) error                       { return writeControlEnd(s) }
func VerifReadControlMessage(s Stream) (byte, any, error)       { return readControlMessage(s) }
func VerifValidateRelPath(p string) error                       { return validateRelPath(p) }
func VerifValidateFilename(p string) error                      { return validateFilename(p) }

var (
	VerifErrInvalidRecordType = ErrInvalidRecordType
	VerifErrRelPathTooLong    = ErrRelPathTooLong
	VerifErrInvalidRelPath    = ErrInvalidRelPath
)

const VerifControlMagic = controlMagic
