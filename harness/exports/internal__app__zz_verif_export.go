//go:build verif

package app

import (
	"context"
	"io"
	"log/slog"
	"sort"
	"time"

	"github.com/sheerbytes/sheerbytes/internal/transfer"
	"github.com/sheerbytes/sheerbytes/internal/transferquic"
	"github.com/sheerbytes/sheerbytes/pkg/protocol"
)

// Export shims for the verification harness (overlaid at build time from /verif).

type VerifSender struct{ S *SnapshotSender }

func VerifNewSender(max int, ttl time.Duration, now func() time.Time, fn func(context.Context, string) error) *VerifSender {
	s := &SnapshotSender{
		logger:      slog.New(slog.NewTextHandler(io.Discard, nil)),
		maxRecv:     max,
		receiverTTL: ttl,
		receivers:   make(map[string]*ReceiverState),
		active:      make(map[string]*transferSlot),
		signalCh:    make(map[string]chan protocol.Envelope),
		progress:    make(map[string]*senderProgress),
		now:         now,
		exitFn:      func(int) {},
		closeConn:   func() {},
		transferFn:  fn,
	}
	return &VerifSender{s}
}

// VerifSetOnChange installs the change notification callback (the application logs / redraws its display there)
func (v *VerifSender) VerifSetOnChange(f func()) { v.S.onChange = f }

func (v *VerifSender) Joined(p string) { v.S.handlePeerJoined(p) }
func (v *VerifSender) Accept(ctx context.Context, p string) {
	v.S.handleManifestAccept(p, protocol.ManifestAccept{})
	v.S.maybeStartTransfers(ctx)
}
func (v *VerifSender) Left(p string) { v.S.handlePeerLeft(p) }
func (v *VerifSender) Cleanup()      { v.S.cleanup() }

func (v *VerifSender) Snapshot() (queue []string, active []string, status map[string]string) {
	v.S.mu.Lock()
	defer v.S.mu.Unlock()
	queue = append([]string(nil), v.S.queue...)
	for p := range v.S.active {
		active = append(active, p)
	}
	sort.Strings(active)
	status = map[string]string{}
	for p, st := range v.S.receivers {
		status[p] = st.Status
	}
	return
}

func VerifBuildWebSocketURL(serverURL, joinCode, peerID, role string, maxReceivers int) (string, error) {
	return buildWebSocketURL(serverURL, joinCode, peerID, role, maxReceivers)
}

func VerifComputeParallelBudget(fileCount, requested, conns int, striping bool) (int, int) {
	return computeParallelBudget(fileCount, requested, conns, striping)
}

func VerifBuildPathResolver(paths []string) (func(string) string, error) { return buildPathResolver(paths) }

func VerifAuthenticateTransport(ctx context.Context, conn transfer.Conn, joinCode string, role byte) error {
	return authenticateTransport(ctx, conn, joinCode, role)
}

const VerifAuthLabel = authLabel

// the receiver's connection selection (runTransfer: acceptAuthenticated / acceptExtraConns)
func VerifAcceptAuthenticated(ctx context.Context, t *transferquic.QUICTransport, joinCode string) <-chan transfer.Conn {
	r := &snapshotReceiver{joinCode: joinCode, logger: slog.New(slog.NewTextHandler(io.Discard, nil))}
	return r.acceptAuthenticated(ctx, t)
}

func VerifAcceptExtraConns(ctx context.Context, accepted <-chan transfer.Conn, joinCode string, extra int) ([]transfer.Conn, error) {
	r := &snapshotReceiver{joinCode: joinCode, logger: slog.New(slog.NewTextHandler(io.Discard, nil))}
	return r.acceptExtraConns(ctx, accepted, extra)
}

const (
	VerifRoleSender   = authRoleSender
	VerifRoleReceiver = authRoleReceive
)

// VerifClientTurnServers hands a turn_credentials envelope to the real envelope handler of a fresh sender or receiver (no
// --turn-server of its own) and returns the TURN servers that client would then use for ICE.
func VerifClientTurnServers(role string, env protocol.Envelope) []string {
	logger := slog.New(slog.NewTextHandler(io.Discard, nil))
	if role == "sender" {
		s := &SnapshotSender{logger: logger}
		s.handleEnvelope(context.Background(), env)
		return s.currentTurnServers()
	}
	r := &snapshotReceiver{logger: logger}
	r.handleEnvelope(env)
	return r.currentTurnServers()
}
