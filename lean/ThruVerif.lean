import ThruVerif.Basic.GoInt
import ThruVerif.Gen.Consts
import ThruVerif.Gen.Geometry
import ThruVerif.Gen.Layouts
import ThruVerif.Gen.Order
import ThruVerif.Gen.Shapes
import ThruVerif.Model.Geometry
