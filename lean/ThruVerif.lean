import ThruVerif.Basic.GoInt
import ThruVerif.Gen.Consts
import ThruVerif.Gen.Geometry
import ThruVerif.Gen.Layouts
import ThruVerif.Gen.Order
import ThruVerif.Model.Geometry
