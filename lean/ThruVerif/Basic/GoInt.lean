/-
Go fixed-width integer semantics made explicit over `Int`.
`wrapU n` / `wrapS n` are Go's conversions to an unsigned / signed n-bit integer (two's complement),
and every arithmetic result of a fixed-width type is passed through them by the translator.
-/
namespace TV.GoInt

/-- Go conversion to an unsigned n-bit integer -/
def wrapU (n : Nat) (x : Int) : Int := x % (2 ^ n : Int)

/-- Go conversion to a signed n-bit integer (two's complement) -/
def wrapS (n : Nat) (x : Int) : Int :=
  let m := x % (2 ^ n : Int)
  if m < (2 ^ (n - 1) : Int) then m else m - (2 ^ n : Int)

/-- Go `x << s` before wrapping to the operand type -/
def goShl (x s : Int) : Int := x * (2 ^ s.toNat : Int)
/-- Go `x >> s` on a non-negative operand -/
def goShr (x s : Int) : Int := x / (2 ^ s.toNat : Int)
/-- Go `x & y` on non-negative operands -/
def goAnd (x y : Int) : Int := ((x.toNat &&& y.toNat : Nat) : Int)
/-- Go `x | y` on non-negative operands -/
def goOr (x y : Int) : Int := ((x.toNat ||| y.toNat : Nat) : Int)

theorem wrapU_id {n : Nat} {x : Int} (h0 : 0 ≤ x) (h1 : x < 2 ^ n) : wrapU n x = x := by
  unfold wrapU; exact Int.emod_eq_of_lt h0 h1

theorem wrapS64_id {x : Int} (h0 : 0 ≤ x) (h1 : x < 2 ^ 63) : wrapS 64 x = x := by
  unfold wrapS
  have hm : x % (2 ^ 64 : Int) = x := Int.emod_eq_of_lt h0 (by omega)
  simp only [hm]
  have h63 : (2 ^ (64 - 1) : Int) = 2 ^ 63 := by decide
  rw [h63, if_pos h1]

end TV.GoInt
