/-!
Byte strings (`List UInt8`) and big-endian fixed-width integers, with Go's `io.ReadFull` error
behaviour: reading `n > 0` bytes from ended input gives `eof` when nothing is left and `ueof`
(unexpected EOF) when only part is there; reading 0 bytes never touches the input.
-/
namespace TV

abbrev Bytes := List UInt8

inductive DErr
  | eof                 -- io.EOF: input ended exactly at this read
  | ueof                -- io.ErrUnexpectedEOF: input ended inside this read
  | badTag (b : Nat)    -- ErrInvalidRecordType / wrong magic
  | tooLong             -- ErrRelPathTooLong
  | limit               -- a peer-supplied length or count above the protocol bound
  deriving Repr, DecidableEq

def putBE : Nat → Nat → Bytes
  | 0, _ => []
  | w+1, n => UInt8.ofNat (n / 256^w) :: putBE w (n % 256^w)

def beVal : Bytes → Nat → Nat
  | [], acc => acc
  | b :: bs, acc => beVal bs (acc * 256 + b.toNat)

/-- `io.ReadFull` of `n` bytes -/
def takeN (n : Nat) (bs : Bytes) : Except DErr (Bytes × Bytes) :=
  if n = 0 then .ok ([], bs)
  else if bs.length = 0 then .error .eof
  else if bs.length < n then .error .ueof
  else .ok (bs.take n, bs.drop n)

def getU (w : Nat) (bs : Bytes) : Except DErr (Nat × Bytes) :=
  match takeN w bs with
  | .error e => .error e
  | .ok (h, r) => .ok (beVal h 0, r)

theorem putBE_length (w n : Nat) : (putBE w n).length = w := by
  induction w generalizing n with
  | zero => rfl
  | succ w ih => simp [putBE, ih]

theorem beVal_acc (bs : Bytes) (acc : Nat) : beVal bs acc = acc * 256 ^ bs.length + beVal bs 0 := by
  induction bs generalizing acc with
  | nil => simp [beVal]
  | cons b bs ih =>
    simp only [beVal, List.length_cons]
    rw [ih (acc * 256 + b.toNat), ih (0 * 256 + b.toNat)]
    rw [Nat.pow_succ, Nat.add_mul]
    simp [Nat.mul_assoc, Nat.mul_comm, Nat.add_assoc]

theorem beVal_putBE (w n : Nat) (h : n < 256 ^ w) : beVal (putBE w n) 0 = n := by
  induction w generalizing n with
  | zero => simp [putBE, beVal]; simp at h; omega
  | succ w ih =>
    have hpos : 0 < 256 ^ w := Nat.pow_pos (by decide)
    have hq : n / 256 ^ w < 256 := by
      apply Nat.div_lt_of_lt_mul
      rw [Nat.pow_succ] at h
      exact h
    have hr : n % 256 ^ w < 256 ^ w := Nat.mod_lt _ hpos
    have hb : (UInt8.ofNat (n / 256 ^ w)).toNat = n / 256 ^ w := by
      simp [UInt8.toNat_ofNat']; omega
    simp only [putBE, beVal, hb, Nat.zero_mul, Nat.zero_add]
    rw [beVal_acc, putBE_length, ih _ hr]
    have := Nat.div_add_mod n (256 ^ w)
    have e : n / 256 ^ w * 256 ^ w = 256 ^ w * (n / 256 ^ w) := Nat.mul_comm _ _
    omega

theorem takeN_append (xs rest : Bytes) : takeN xs.length (xs ++ rest) = .ok (xs, rest) := by
  unfold takeN
  by_cases h0 : xs.length = 0
  · have : xs = [] := List.eq_nil_of_length_eq_zero h0
    subst this; simp
  · have h1 : ¬ ((xs ++ rest).length = 0) := by simp; intro h; simp [h] at h0
    have h2 : ¬ ((xs ++ rest).length < xs.length) := by simp
    simp only [h0, h1, h2, if_false]
    simp

theorem getU_putBE (w n : Nat) (rest : Bytes) (h : n < 256 ^ w) :
    getU w (putBE w n ++ rest) = .ok (n, rest) := by
  unfold getU
  have := takeN_append (putBE w n) rest
  rw [putBE_length] at this
  rw [this]
  simp [beVal_putBE w n h]

/-- whatever `takeN` returns is a split of its input -/
theorem takeN_ok {n : Nat} {bs h r : Bytes} (hh : takeN n bs = .ok (h, r)) : bs = h ++ r ∧ h.length = n := by
  unfold takeN at hh
  split at hh
  · rename_i h0; cases hh; simp [h0]
  · split at hh
    · cases hh
    · split at hh
      · cases hh
      · rename_i h1 h2 h3
        cases hh
        refine ⟨(List.take_append_drop n bs).symm, ?_⟩
        simp; omega

end TV
