namespace TV.Auth

inductive Tm
  | code (c : Nat) | ekm (e : Nat) | nonce (n : Nat) | byte (b : Nat)
  | hmac (k t : Tm) | pair (a b : Tm)
  deriving DecidableEq, Repr

open Tm

/-- components reachable by projections only (the attacker cannot look inside an hmac) -/
inductive Parts (K : Tm → Prop) : Tm → Prop
  | base {t} : K t → Parts K t
  | fst {a b} : Parts K (pair a b) → Parts K a
  | snd {a b} : Parts K (pair a b) → Parts K b

/-- atoms the attacker may invent: bytes, its own nonces (odd ids), codes other than `secret`, any ekm in `E` -/
structure World where
  secret : Nat            -- the honest join code
  E : Nat → Prop          -- TLS sessions the attacker terminates (it knows their exporter output)

inductive Der (W : World) (K : Tm → Prop) : Tm → Prop
  | parts {t} : Parts K t → Der W K t
  | byte (b) : Der W K (byte b)
  | nonce (n) : Der W K (nonce n)
  | code {c} : c ≠ W.secret → Der W K (code c)
  | ekm {e} : W.E e → Der W K (ekm e)
  | pair {a b} : Der W K a → Der W K b → Der W K (pair a b)
  | hmac {k t} : Der W K k → Der W K t → Der W K (hmac k t)

/-- Honest traffic never exposes the code or a session key as a projectable component. -/
def Clean (W : World) (K : Tm → Prop) : Prop :=
  (¬ Parts K (code W.secret)) ∧ (∀ e, ¬ Parts K (hmac (code W.secret) (ekm e)))

theorem secret_underivable {W K} (hK : Clean W K) : ¬ Der W K (code W.secret) := by
  intro h
  cases h with
  | parts hp => exact hK.1 hp
  | code hne => exact hne rfl

theorem key_underivable {W K} (hK : Clean W K) (e : Nat) : ¬ Der W K (hmac (code W.secret) (ekm e)) := by
  intro h
  cases h with
  | parts hp => exact hK.2 e hp
  | hmac hk _ => exact secret_underivable hK hk

/-- A MAC under an honest session key that the attacker can present was lifted from observed traffic. -/
theorem mac_from_traffic {W K} (hK : Clean W K) (e : Nat) (body : Tm)
    (h : Der W K (hmac (hmac (code W.secret) (ekm e)) body)) :
    Parts K (hmac (hmac (code W.secret) (ekm e)) body) := by
  cases h with
  | parts hp => exact hp
  | hmac hk _ => exact absurd hk (key_underivable hK e)

end TV.Auth
