namespace TV.Hub

/-- one connection's routing entry -/
structure PC where
  conn : Nat
  peer : Nat
  deriving DecidableEq, Repr

/-- a session's peer map carries an identity so that a re-created map is distinguishable from a captured one -/
structure SessMap where
  mapId : Nat
  conns : List PC
  deriving DecidableEq, Repr

inductive Thr
  | bcastStart (sid : Nat)                      -- Broadcast: about to take RLock and copy
  | bcastSend (targets : List Nat)              -- Broadcast: lock released, sending to the copied list
  | removeStart (sid conn peer : Nat)           -- remove phase 1 (unlink under Lock)
  | removeClose (sid conn mapId : Nat)          -- phase 2 (closeSend outside the lock)
  | removeGC (sid mapId : Nat)                  -- phase 3 (delete the session if the captured map is empty)
  | addStart (sid conn peer : Nat)
  | done
  deriving DecidableEq, Repr

structure St where
  sessions : List (Nat × SessMap)               -- sid ↦ map
  maps : List (Nat × List PC)                   -- heap of map objects by identity (captured maps stay alive)
  closed : List Nat                             -- connections whose send channel is closed
  queued : List (Nat × Nat)                     -- (conn, count) messages queued
  nextMap : Nat
  threads : List Thr
  panicked : Bool
  deriving DecidableEq, Repr

def lookupSess (s : St) (sid : Nat) : Option SessMap := (s.sessions.find? (·.1 == sid)).map (·.2)
def mapConns (s : St) (mid : Nat) : List PC := ((s.maps.find? (·.1 == mid)).map (·.2)).getD []
def setMap (s : St) (mid : Nat) (cs : List PC) : St :=
  { s with maps := (mid, cs) :: s.maps.filter (·.1 != mid) }
def setThread (s : St) (t : Nat) (th : Thr) : St := { s with threads := s.threads.set t th }

/-- one atomic action of thread `t` -/
def step (s : St) (t : Nat) : Option St :=
  match s.threads.getD t .done with
  | .done => none
  | .bcastStart sid =>
    match lookupSess s sid with
    | none => some (setThread s t .done)
    | some m => some (setThread s t (.bcastSend ((mapConns s m.mapId).map (·.conn))))
  | .bcastSend [] => some (setThread s t .done)
  | .bcastSend (c :: cs) =>
    if s.closed.contains c then some { (setThread s t .done) with panicked := true }   -- send on closed channel
    else some (setThread s t (.bcastSend cs))
  | .removeStart sid conn _peer =>
    match lookupSess s sid with
    | none => some (setThread s t .done)
    | some m =>
      let cs := mapConns s m.mapId
      if cs.any (·.conn == conn) then
        some (setThread (setMap s m.mapId (cs.filter (·.conn != conn))) t (.removeClose sid conn m.mapId))
      else some (setThread s t .done)
  | .removeClose sid conn mid => some (setThread { s with closed := conn :: s.closed } t (.removeGC sid mid))
  | .removeGC sid mid =>
    if (mapConns s mid).isEmpty then
      some (setThread { s with sessions := s.sessions.filter (·.1 != sid) } t .done)     -- deletes whatever map is registered now
    else some (setThread s t .done)
  | .addStart sid conn peer =>
    match lookupSess s sid with
    | some m => some (setThread (setMap s m.mapId (⟨conn, peer⟩ :: mapConns s m.mapId)) t .done)
    | none =>
      let mid := s.nextMap
      some (setThread { (setMap s mid [⟨conn, peer⟩]) with
              sessions := (sid, ⟨mid, []⟩) :: s.sessions, nextMap := mid + 1 } t .done)

def run (s : St) : List Nat → Option St
  | [] => some s
  | t :: ts => match step s t with | some s' => run s' ts | none => none

def twoPeers (threads : List Thr) : St :=
  { sessions := [(7, ⟨0, []⟩)], maps := [(0, [⟨1, 1⟩, ⟨2, 2⟩])], closed := [], queued := [], nextMap := 1,
    threads, panicked := false }

/-- P10 as a model run: Broadcast copies the list, remove unlinks and closes, Broadcast sends. -/
theorem send_on_closed :
    (run (twoPeers [.bcastStart 7, .removeStart 7 1 1]) [0, 1, 1, 0]).map (·.panicked) = some true := by decide

/-- stale-map GC: A unlinks (map 0 empty), B joins and leaves (session entry deleted), C joins (new map 1),
    A's phase 3 still sees its captured map 0 empty and deletes the entry that now holds C. -/
theorem stale_gc_drops_live_peer :
    (run { sessions := [(7, ⟨0, []⟩)], maps := [(0, [⟨1, 1⟩])], closed := [], queued := [], nextMap := 1,
           threads := [.removeStart 7 1 1, .addStart 7 2 2, .removeStart 7 2 2, .addStart 7 3 3], panicked := false }
         [0, 0, 1, 2, 2, 2, 3, 0]).map (fun s => (lookupSess s 7).isSome) = some false := by decide

end TV.Hub
