namespace TV.RaceOld

/-- one dial task of `ProbeAndDial` -/
inductive Task | probing | established | offered | closed | cancelled | failed
  deriving DecidableEq, Repr

structure St where
  tasks : List Task
  slot : Option Nat          -- the one-element result channel
  returned : Option Nat      -- connection handed to the caller
  cancelledCtx : Bool
  serverOrder : List Nat     -- order in which the listener completed the handshakes
  deriving DecidableEq, Repr

inductive Step
  | handshake (i : Nat)      -- candidate i's QUIC handshake completes on both ends
  | offer (i : Nat)          -- task i runs `select { case resultCh <- conn: …; default: close }`
  | mainRecv                 -- caller receives from resultCh, returns, deferred cancel fires
  | cancelSeen (i : Nat)     -- a still-probing dial observes the cancelled context
  deriving DecidableEq, Repr

def step (s : St) : Step → Option St
  | .handshake i =>
    if s.tasks[i]?.getD .failed = .probing then
      some { s with tasks := s.tasks.set i .established, serverOrder := s.serverOrder ++ [i] }
    else none
  | .offer i =>
    if s.tasks[i]?.getD .failed = .established then
      match s.slot with
      | none => some { s with tasks := s.tasks.set i .offered, slot := some i }
      | some _ => some { s with tasks := s.tasks.set i .closed }
    else none
  | .mainRecv =>
    match s.slot, s.returned with
    | some i, none => some { s with slot := none, returned := some i, cancelledCtx := true }
    | _, _ => none
  | .cancelSeen i =>
    if s.cancelledCtx ∧ s.tasks[i]?.getD .failed = .probing then some { s with tasks := s.tasks.set i .cancelled } else none

def run (s : St) : List Step → Option St
  | [] => some s
  | a :: as => match step s a with | some s' => run s' as | none => none

def init (k : Nat) : St :=
  { tasks := List.replicate k .probing, slot := none, returned := none, cancelledCtx := false, serverOrder := [] }

/-- connections still open on the dialing side: offered (won or parked in the slot) and established-not-yet-offered -/
def openConns (s : St) : List Nat :=
  (List.range s.tasks.length).filter fun i => s.tasks[i]?.getD .failed = .offered ∨ s.tasks[i]?.getD .failed = .established

/-- late winner: both handshakes complete, the caller takes conn 0 out of the slot, then task 1 finds the slot empty again -/
theorem late_winner_leaks :
    (run (init 2) [.handshake 0, .handshake 1, .offer 0, .mainRecv, .offer 1]).map
      (fun s => (s.returned, openConns s, s.slot)) = some (some 0, [0, 1], some 1) := by decide

/-- listener commitment: the server side may have completed conn 1 first and takes it as primary, the dialer returns conn 0 -/
theorem listener_disagrees :
    (run (init 2) [.handshake 1, .handshake 0, .offer 0, .mainRecv, .offer 1]).map
      (fun s => (s.returned, s.serverOrder.head?)) = some (some 0, some 1) := by decide

end TV.RaceOld
