import ThruVerif.Proto.SendFile
namespace TV.SendFile

theorem scan_some {p total fuel next i n} (h : scan p total fuel next = (some i, n)) :
    next ≤ i ∧ n = i + 1 ∧ i < total ∧ skip p i = false := by
  induction fuel generalizing next with
  | zero => simp [scan] at h
  | succ f ih =>
    simp only [scan] at h
    split at h
    · rename_i hlt
      split at h
      · obtain ⟨h1, h2, h3, h4⟩ := ih h
        exact ⟨by omega, h2, h3, h4⟩
      · rename_i hs
        simp at h
        obtain ⟨rfl, rfl⟩ := h
        exact ⟨Nat.le_refl _, rfl, hlt, by simpa using hs⟩
    · simp at h

theorem scan_none {p total fuel next n} (h : scan p total fuel next = (none, n)) : next ≤ n := by
  induction fuel generalizing next with
  | zero => simp [scan] at h; omega
  | succ f ih =>
    simp only [scan] at h
    split at h
    · split at h
      · have := ih h; omega
      · simp at h
    · simp at h; omega

/-- indices handed out by ordinary (non-resend) takes along a run -/
def normalTakes (s : St) : List Op → List Nat
  | [] => []
  | o :: os =>
    let s' := (step s o).1
    match o with
    | .take =>
      if s.resendPending then normalTakes s' os
      else match (take s).2 with
        | some i => i :: normalTakes s' os
        | none => normalTakes s' os
    | _ => normalTakes s' os

theorem next_mono (s : St) (o : Op) : s.next ≤ (step s o).1.next := by
  cases o with
  | take =>
    simp only [step, take]
    split
    · simp
    · split
      · simp
      · split
        · rename_i h; have := scan_some h; simp; omega
        · rename_i h; have := scan_none h; simp; omega
  | finish => simp only [step, finish]; (repeat' split) <;> simp
  | tryEnd => simp only [step, tryEnd]; (repeat' split) <;> simp
  | verdict m c => simp only [step, verdict]; split <;> simp

theorem take_some_normal {s : St} {i : Nat} (hr : s.resendPending = false) (h : (take s).2 = some i) :
    s.next ≤ i ∧ (take s).1.next = i + 1 ∧ i < s.total ∧ skip s.plan i = false := by
  unfold take at h ⊢
  rw [hr] at h ⊢
  simp only [Bool.false_eq_true, if_false] at h ⊢
  by_cases hd : s.scheduleDone = true
  · simp [hd] at h
  · simp only [hd, if_false] at h ⊢
    generalize hsc : scan s.plan s.total (s.total - s.next) s.next = r at h ⊢
    obtain ⟨o, n⟩ := r
    cases o with
    | none => simp at h
    | some j =>
      simp at h; subst h
      obtain ⟨h1, h2, h3, h4⟩ := scan_some hsc
      exact ⟨h1, by simp [h2], h3, h4⟩

/-- C17 core: ordinary takes hand out strictly increasing indices, all ≥ the cursor —
    for every operation sequence whatsoever (any interleaving of any number of workers, plan and verdict arrival). -/
theorem normalTakes_sorted (s : St) (ops : List Op) :
    (∀ i ∈ normalTakes s ops, s.next ≤ i) ∧ (normalTakes s ops).Pairwise (· < ·) := by
  induction ops generalizing s with
  | nil => simp [normalTakes]
  | cons o os ih =>
    have hm := next_mono s o
    obtain ⟨ihge, ihp⟩ := ih (step s o).1
    have keep : (∀ i ∈ normalTakes (step s o).1 os, s.next ≤ i) ∧ (normalTakes (step s o).1 os).Pairwise (· < ·) :=
      ⟨fun i hi => Nat.le_trans hm (ihge i hi), ihp⟩
    cases o with
    | take =>
      simp only [normalTakes]
      split
      · exact keep
      · rename_i hnr
        have hr : s.resendPending = false := by simpa using hnr
        split
        · rename_i i hi
          obtain ⟨h1, h2, _, _⟩ := take_some_normal hr hi
          have hn : (step s .take).1.next = i + 1 := by simpa [step] using h2
          refine ⟨?_, ?_⟩
          · intro j hj
            simp at hj
            rcases hj with rfl | hj
            · exact h1
            · have := ihge j hj; omega
          · simp only [List.pairwise_cons]
            exact ⟨fun j hj => by have := ihge j hj; omega, ihp⟩
        · exact keep
    | finish => simpa only [normalTakes] using keep
    | tryEnd => simpa only [normalTakes] using keep
    | verdict m c => simpa only [normalTakes] using keep

end TV.SendFile
