namespace TV.Admission

inductive Status | joined | queued | transferring | done | failed
  deriving DecidableEq, Repr

structure Run where
  peer : Nat
  gen : Nat
  cancelled : Bool
  deriving DecidableEq, Repr

structure St where
  max : Nat
  status : List (Nat × Status)
  queue : List Nat
  active : List (Nat × Nat)      -- peer ↦ generation of the slot
  running : List Run             -- ghost: transfer functions that have not returned yet
  nextGen : Nat
  deriving DecidableEq, Repr

def getStatus (s : St) (p : Nat) : Option Status := (s.status.find? (·.1 == p)).map (·.2)
def setStatus (s : St) (p : Nat) (v : Status) : St :=
  { s with status := (p, v) :: s.status.filter (·.1 != p) }

/-- `maybeStartTransfers`, by fuel = queue length -/
def pump : Nat → St → St
  | 0, s => s
  | fuel+1, s =>
    if s.active.length ≥ s.max then s else
    match s.queue with
    | [] => s
    | p :: q =>
      let s := { s with queue := q }
      match getStatus s p with
      | none => pump fuel s
      | some .transferring => pump fuel s
      | some _ =>
        let s := setStatus s p .transferring
        pump fuel { s with active := (p, s.nextGen) :: s.active.filter (·.1 != p),
                           running := ⟨p, s.nextGen, false⟩ :: s.running, nextGen := s.nextGen + 1 }

inductive Ev | joined (p : Nat) | accept (p : Nat) | left (p : Nat) | finished (p g : Nat) (ok : Bool)
  deriving DecidableEq, Repr

def step (s : St) : Ev → St
  | .joined p => setStatus s p .joined
  | .accept p =>
    if getStatus s p = some .transferring then s else
    let s := setStatus s p .queued
    let s := if s.queue.contains p then s else { s with queue := s.queue ++ [p] }
    pump (s.queue.length + 1) s
  | .left p =>
    let s := if getStatus s p ≠ none ∧ getStatus s p ≠ some .done then setStatus s p .failed else s
    let s := { s with running := s.running.map fun r => if r.peer = p ∧ s.active.contains (p, r.gen) then { r with cancelled := true } else r,
                      active := s.active.filter (·.1 != p), queue := s.queue.filter (· != p) }
    pump (s.queue.length + 1) s
  | .finished p g ok =>
    let s := if getStatus s p ≠ none then setStatus s p (if ok then .done else .failed) else s
    let s := { s with active := s.active.filter (·.1 != p),          -- NB: by peer, not by generation
                      running := s.running.filter fun r => !(r.peer = p ∧ r.gen = g) }
    pump (s.queue.length + 1) s

def live (s : St) : Nat := (s.running.filter (!·.cancelled)).length

def init (max : Nat) : St := { max, status := [], queue := [], active := [], running := [], nextGen := 0 }

/-- the stale-finish history: with max = 1, two uncancelled transfers run at once -/
theorem cap_refuted :
    live ([Ev.joined 1, .accept 1, .left 1, .joined 1, .accept 1, .joined 2, .accept 2, .finished 1 0 false].foldl step (init 1)) = 2 := by
  decide

end TV.Admission
