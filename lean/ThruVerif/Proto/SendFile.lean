namespace TV.SendFile

structure Plan where
  bitmap : List Bool
  forceFrom : Nat
  deriving DecidableEq, Repr

structure St where
  next : Nat
  total : Nat
  inFlight : Nat
  scheduleDone : Bool
  endSent : Bool
  verifyPending : Bool
  resendPending : Bool
  resendChunk : Nat
  plan : Option Plan
  deriving DecidableEq, Repr

def skip (p : Option Plan) (i : Nat) : Bool :=
  match p with
  | none => false
  | some p => p.bitmap.getD i false && decide (i < p.forceFrom)

/-- the `for s.nextChunk < s.totalChunks` loop of nextChunkToSend, by fuel = total - next -/
def scan (p : Option Plan) (total : Nat) : Nat → Nat → Option Nat × Nat
  | 0, next => (none, next)
  | fuel+1, next =>
    if next < total then
      if skip p next then scan p total fuel (next+1) else (some next, next+1)
    else (none, next)

def take (s : St) : St × Option Nat :=
  if s.resendPending then
    ({ s with resendPending := false, inFlight := s.inFlight + 1 }, some s.resendChunk)
  else if s.scheduleDone then (s, none)
  else
    match scan s.plan s.total (s.total - s.next) s.next with
    | (some i, n) => ({ s with next := n, inFlight := s.inFlight + 1, scheduleDone := decide (n ≥ s.total) }, some i)
    | (none, n) => ({ s with next := n, scheduleDone := true }, none)

def finish (s : St) : St × Bool :=
  let s := { s with inFlight := s.inFlight - 1 }
  if s.verifyPending then (s, false)
  else if s.scheduleDone && s.inFlight == 0 && !s.endSent then ({ s with endSent := true }, true)
  else (s, false)

def tryEnd (s : St) : St × Bool :=
  if s.verifyPending then (s, false)
  else if s.scheduleDone && s.inFlight == 0 && !s.endSent then ({ s with endSent := true }, true)
  else (s, false)

def verdict (s : St) (mismatch : Bool) (chunk : Nat) : St :=
  if mismatch then { s with resendChunk := chunk, resendPending := true, verifyPending := false }
  else { s with verifyPending := false }

inductive Op | take | finish | tryEnd | verdict (mismatch : Bool) (c : Nat)
  deriving DecidableEq, Repr
inductive Out | chunk (i : Nat) | none | fileEnd | nothing
  deriving DecidableEq, Repr

def step (s : St) : Op → St × Out
  | .take => let (s', o) := take s; (s', match o with | some i => .chunk i | none => .none)
  | .finish => let (s', e) := finish s; (s', if e then .fileEnd else .nothing)
  | .tryEnd => let (s', e) := tryEnd s; (s', if e then .fileEnd else .nothing)
  | .verdict m c => (verdict s m c, .nothing)

def run (s : St) : List Op → List Out
  | [] => []
  | o :: os => let (s', out) := step s o; out :: run s' os

def init4 : St :=
  { next := 0, total := 4, inFlight := 0, scheduleDone := false, endSent := false,
    verifyPending := true, resendPending := false, resendChunk := 0,
    plan := some { bitmap := [true, true, false, false], forceFrom := 2 } }

/-- the witness: FileEnd is emitted before the re-send of chunk 1 is taken. -/
theorem end_before_resend :
    run init4 [.take, .take, .finish, .verdict true 1, .finish, .take] =
      [.chunk 2, .chunk 3, .nothing, .nothing, .fileEnd, .chunk 1] := by decide

end TV.SendFile
