namespace TV.Disk

inductive Chunk | absent | torn | good
  deriving DecidableEq, Repr

abbrev BM := Nat → Bool

inductive FlushPc
  | idle
  | snapped (s : BM)      -- holds the sidecar mutex, has marshalled s
  | wroteTmp (s : BM)     -- temp file written completely
  | renamed               -- rename done, still holding the mutex

structure State where
  data  : Nat → Chunk
  mem   : BM                 -- in-memory bitmap
  tmp   : Option BM          -- <path>.tmp when completely written
  tmpTorn : Bool             -- a partially written temp file exists
  disk  : Option BM          -- <path>
  fl    : FlushPc
  wr    : Nat → Nat          -- number of writers currently inside WriteAt for chunk i
  pend  : Nat → Nat          -- writers whose WriteAt returned but that have not yet marked

def upd {α} (f : Nat → α) (i : Nat) (v : α) : Nat → α := fun j => if j = i then v else f j

inductive Step
  | beginWrite (i : Nat)     -- a data reader enters WriteAt for chunk i (payload = source, CRC checked)
  | endWrite (i : Nat)       -- WriteAt returned
  | mark (i : Nat)           -- markChunkComplete; needs the sidecar mutex
  | flushBegin               -- Flush: lock, marshal
  | flushTmpPartial          -- part of the temp file hit the disk
  | flushTmpDone
  | flushRename
  | flushEnd
  | crash                    -- SIGKILL; then restart loads the sidecar
  | restartLoad

def lockFree (s : State) : Prop := s.fl = .idle

def step (s : State) : Step → Option State
  | .beginWrite i =>
    some { s with wr := upd s.wr i (s.wr i + 1),
                  data := if s.data i = .good then s.data else upd s.data i .torn }
  | .endWrite i =>
    if s.wr i = 0 then none else
    some { s with wr := upd s.wr i (s.wr i - 1), pend := upd s.pend i (s.pend i + 1),
                  data := upd s.data i .good }
  | .mark i =>
    match s.fl with
    | .idle => if s.pend i = 0 then none else
        some { s with pend := upd s.pend i (s.pend i - 1), mem := upd s.mem i true }
    | _ => none
  | .flushBegin =>
    match s.fl with
    | .idle => some { s with fl := .snapped s.mem }
    | _ => none
  | .flushTmpPartial =>
    match s.fl with
    | .snapped _ => some { s with tmp := none, tmpTorn := true }
    | _ => none
  | .flushTmpDone =>
    match s.fl with
    | .snapped b => some { s with tmp := some b, tmpTorn := false, fl := .wroteTmp b }
    | _ => none
  | .flushRename =>
    match s.fl with
    | .wroteTmp b => some { s with disk := some b, tmp := none, fl := .renamed }
    | _ => none
  | .flushEnd =>
    match s.fl with
    | .renamed => some { s with fl := .idle }
    | _ => none
  | .crash =>
    some { s with mem := fun _ => false, fl := .idle, wr := fun _ => 0, pend := fun _ => 0 }
  | .restartLoad =>
    match s.disk with
    | some b => some { s with mem := b }
    | none => some s

/-- A chunk is safely in the file: good and nobody is overwriting it with anything but the source bytes.
    (Writers only ever write source bytes, so `good` is stable; see `beginWrite`.) -/
def Sub (b : BM) (s : State) : Prop := ∀ i, b i = true → s.data i = .good

structure Inv (s : State) : Prop where
  mem  : Sub s.mem s
  disk : ∀ b, s.disk = some b → Sub b s
  tmp  : ∀ b, s.tmp = some b → Sub b s
  snap : (∀ b, s.fl = .snapped b → Sub b s) ∧ (∀ b, s.fl = .wroteTmp b → Sub b s)
  pend : ∀ i, 0 < s.pend i → s.data i = .good
  wr   : ∀ i, s.data i = .torn → 0 < s.wr i ∨ True   -- (torn chunks may survive a crash)

def init : State :=
  { data := fun _ => .absent, mem := fun _ => false, tmp := none, tmpTorn := false, disk := none,
    fl := .idle, wr := fun _ => 0, pend := fun _ => 0 }

theorem inv_init : Inv init := by
  refine ⟨?_, ?_, ?_, ⟨?_, ?_⟩, ?_, ?_⟩ <;> intros <;> simp_all [init, Sub]

/-- `good` is never lost by a step. -/
theorem good_stable (s s' : State) (a : Step) (h : step s a = some s') (i : Nat)
    (hg : s.data i = .good) : s'.data i = .good := by
  cases a <;> simp only [step] at h <;> (repeat' split at h) <;> (try simp at h) <;>
    (try subst h) <;> (try simp only [upd]) <;> (repeat' split) <;> simp_all

theorem sub_stable {b : BM} {s s' : State} {a : Step} (h : step s a = some s') (hb : Sub b s) : Sub b s' :=
  fun i hi => good_stable s s' a h i (hb i hi)

theorem inv_step (s s' : State) (a : Step) (hinv : Inv s) (h : step s a = some s') : Inv s' := by
  have stab : ∀ b, Sub b s → Sub b s' := fun b hb => sub_stable h hb
  have gstab := good_stable s s' a h
  obtain ⟨hmem, hdisk, htmp, ⟨hsnap, hwt⟩, hpend, _⟩ := hinv
  cases a <;> simp only [step] at h <;> (repeat' split at h) <;> (try simp at h) <;>
    (try subst h) <;>
    (refine ⟨?_, ?_, ?_, ⟨?_, ?_⟩, ?_, ?_⟩) <;> (try simp_all [Sub, upd]) <;>
    (try (first
      | (apply hpend; omega)
      | (intro i hi hne; simp [hne] at hi; exact hpend i hi)
      | (intro i hi; split at hi
         · subst_vars; apply hpend; omega
         · intros; exact hpend i hi)
      | (intro i hi; split at hi
         · subst_vars; apply hpend; omega
         · exact hpend i hi)))

/-- Every state reachable from `init` by any interleaving of writers, flusher, crashes and restarts. -/
inductive Reachable : State → Prop
  | init : Reachable init
  | step {s s' a} : Reachable s → step s a = some s' → Reachable s'

theorem inv_reachable {s : State} (h : Reachable s) : Inv s := by
  induction h with
  | init => exact inv_init
  | step _ hs ih => exact inv_step _ _ _ ih hs

/-- C05 core: whatever is in the sidecar file on disk marks only chunks that are safely in the data file. -/
theorem sidecar_on_disk_sound {s : State} (h : Reachable s) (b : BM) (hb : s.disk = some b) (i : Nat)
    (hi : b i = true) : s.data i = .good :=
  (inv_reachable h).disk b hb i hi

end TV.Disk
