import ThruVerif.Proto.Auth
namespace TV.Auth
open Tm

/-- wire message ⟨version, role, nonce, mac⟩ -/
def msg (role n : Nat) (mac : Tm) : Tm := pair (byte 1) (pair (byte role) (pair (nonce n) mac))
def key (c e : Nat) : Tm := hmac (code c) (ekm e)
def proof (k : Tm) (role n : Nat) : Tm := hmac k (pair (byte 1) (pair (byte role) (nonce n)))

def roleSender := 1
def roleReceiver := 2

/-- what an honest party ever puts on the wire: its proof for its own role, under the key of its own session -/
structure HonestSend where
  e : Nat        -- TLS session
  role : Nat
  n : Nat
  deriving DecidableEq

def wire (c : Nat) (h : HonestSend) : Tm := msg h.role h.n (proof (key c h.e) h.role h.n)

/-- attacker knowledge = all honest wire messages of the run -/
def Know (c : Nat) (sent : List HonestSend) : Tm → Prop := fun t => ∃ h ∈ sent, t = wire c h

/-- components of a wire message, enumerated -/
theorem parts_wire {c : Nat} {sent : List HonestSend} {t : Tm} (hp : Parts (Know c sent) t) :
    ∃ h ∈ sent,
      t = wire c h ∨ t = byte 1 ∨
      t = pair (byte h.role) (pair (nonce h.n) (proof (key c h.e) h.role h.n)) ∨ t = byte h.role ∨
      t = pair (nonce h.n) (proof (key c h.e) h.role h.n) ∨ t = nonce h.n ∨
      t = proof (key c h.e) h.role h.n := by
  induction hp with
  | base hk =>
    obtain ⟨h, hm, rfl⟩ := hk
    exact ⟨h, hm, Or.inl rfl⟩
  | fst _ ih =>
    obtain ⟨h, hm, hcases⟩ := ih
    refine ⟨h, hm, ?_⟩
    rcases hcases with e | e | e | e | e | e | e
    · simp only [wire, msg] at e; injection e with e1 e2; subst e1; exact Or.inr (Or.inl rfl)
    · cases e
    · injection e with e1 e2; subst e1; exact Or.inr (Or.inr (Or.inr (Or.inl rfl)))
    · cases e
    · injection e with e1 e2; subst e1; exact Or.inr (Or.inr (Or.inr (Or.inr (Or.inr (Or.inl rfl)))))
    · cases e
    · simp only [proof] at e; cases e
  | snd _ ih =>
    obtain ⟨h, hm, hcases⟩ := ih
    refine ⟨h, hm, ?_⟩
    rcases hcases with e | e | e | e | e | e | e
    · simp only [wire, msg] at e; injection e with e1 e2; subst e2; exact Or.inr (Or.inr (Or.inl rfl))
    · cases e
    · injection e with e1 e2; subst e2; exact Or.inr (Or.inr (Or.inr (Or.inr (Or.inl rfl))))
    · cases e
    · injection e with e1 e2; subst e2; exact Or.inr (Or.inr (Or.inr (Or.inr (Or.inr (Or.inr rfl)))))
    · cases e
    · simp only [proof] at e; cases e

theorem know_clean (W : World) (sent : List HonestSend) : Clean W (Know W.secret sent) := by
  refine ⟨?_, ?_⟩
  · intro hp
    obtain ⟨h, _, hc⟩ := parts_wire hp
    rcases hc with e | e | e | e | e | e | e <;> simp [wire, msg, proof] at e
  · intro e hp
    obtain ⟨h, _, hc⟩ := parts_wire hp
    rcases hc with e' | e' | e' | e' | e' | e' | e' <;> simp [wire, msg, proof] at e'

/-- the check an honest party performs on an incoming message, for its own session `e` and the role it expects -/
def accepts (c e expectRole : Nat) (m : Tm) : Prop :=
  ∃ n, m = msg expectRole n (proof (key c e) expectRole n)

/-- C08 soundness core: whatever the attacker can derive from all honest traffic (of any sessions), its own sessions'
    exporter secrets, other codes, fresh nonces and bytes — if an honest party in session `e` accepts it as coming from
    `expectRole`, then an honest party of that role in that same session sent exactly that proof. -/
theorem accept_sound (W : World) (sent : List HonestSend) (e expectRole : Nat) (m : Tm)
    (hd : Der W (Know W.secret sent) m) (ha : accepts W.secret e expectRole m) :
    ∃ h ∈ sent, h.e = e ∧ h.role = expectRole := by
  obtain ⟨n, rfl⟩ := ha
  have hK := know_clean W sent
  -- the MAC component is derivable from m's derivation
  have hmac : Der W (Know W.secret sent) (proof (key W.secret e) expectRole n) := by
    -- project the derivation: either m is a part, or it was paired from derivable components
    have step1 : ∀ {a b}, Der W (Know W.secret sent) (pair a b) → Der W (Know W.secret sent) b := by
      intro a b h
      cases h with
      | parts hp => exact Der.parts (Parts.snd hp)
      | pair _ hb => exact hb
    exact step1 (step1 (step1 hd))
  have hp := mac_from_traffic hK e _ hmac
  obtain ⟨h, hm, hc⟩ := parts_wire hp
  refine ⟨h, hm, ?_⟩
  rcases hc with e' | e' | e' | e' | e' | e' | e' <;> simp [wire, msg, proof, key] at e'
  obtain ⟨he, hr, _⟩ := e'
  exact ⟨he.symm, hr.symm⟩

/-- reflection is rejected: a sender's own proof never satisfies the check the sender performs on the reply -/
theorem reflection_rejected (c e n : Nat) : ¬ accepts c e roleReceiver (msg roleSender n (proof (key c e) roleSender n)) := by
  intro ⟨n', h⟩
  simp [msg, roleSender, roleReceiver] at h

/-- relay between two TLS sessions: a proof made for session e₁ is not accepted in session e₂ ≠ e₁ -/
theorem relay_rejected (c e1 e2 role n : Nat) (hne : e1 ≠ e2) :
    ¬ accepts c e2 role (msg role n (proof (key c e1) role n)) := by
  intro ⟨n', h⟩
  simp [msg, proof, key] at h
  exact hne h.2.1

end TV.Auth

namespace TV.Auth
/-- completeness: the honest sender's message is accepted by the honest receiver of the same session and code,
    and it is derivable (trivially) from the traffic — so `accept_sound`'s hypotheses are satisfiable. -/
example (W : World) (e n : Nat) :
    let sent := [⟨e, roleSender, n⟩]
    Der W (Know W.secret sent) (wire W.secret ⟨e, roleSender, n⟩) ∧
    accepts W.secret e roleSender (wire W.secret ⟨e, roleSender, n⟩) := by
  refine ⟨Der.parts (Parts.base ⟨_, by simp, rfl⟩), ⟨n, rfl⟩⟩
end TV.Auth
