namespace TV.FileSys

structure Frame where
  idx : Nat
  pay : Nat
  crcOk : Bool
  deriving DecidableEq, Repr

/-- Per-file projection of the transfer, resume (sidecar) mode. Payload ids: `src[i]`; 0 = nothing/garbage. -/
structure St where
  src : List Nat
  flight : List Frame
  bits : List Bool          -- sidecar bitmap, length = src.length
  remaining : Nat
  disk : List Nat           -- length = src.length
  endReceived : Bool
  fin : Option Bool
  deriving DecidableEq, Repr

inductive Step
  | send (i : Nat)          -- honest sender emits chunk i (any i < total, any number of times)
  | corrupt (k : Nat)       -- network damages the k-th frame in flight (CRC then fails)
  | deliver (k : Nat)       -- a data reader processes the k-th frame in flight
  | endArrives
  deriving DecidableEq, Repr

def countFalse (l : List Bool) : Nat := (l.filter (· == false)).length

def finIfZero (s : St) : St := if s.remaining = 0 then { s with fin := some true } else s

def step (s : St) : Step → Option St
  | .send i =>
    if h : i < s.src.length then some { s with flight := s.flight ++ [⟨i, s.src[i], true⟩] } else none
  | .corrupt k =>
    if k < s.flight.length then
      some { s with flight := s.flight.set k { (s.flight.getD k ⟨0,0,false⟩) with pay := 0, crcOk := false } }
    else none
  | .deliver k =>
    if k < s.flight.length then
      let f := s.flight.getD k ⟨0,0,false⟩
      let s := { s with flight := s.flight.eraseIdx k }
      if s.fin.isSome then some s                                   -- late frame: reader parks, no effect
      else if f.idx ≥ s.src.length then some { s with fin := some false }
      else if !f.crcOk then some { s with fin := some false }
      else
        let s := { s with disk := s.disk.set f.idx f.pay }
        if s.bits.getD f.idx false then some (finIfZero s)
        else some (finIfZero { s with bits := s.bits.set f.idx true, remaining := s.remaining - 1 })
    else none
  | .endArrives =>
    if s.fin.isSome then some s else some (finIfZero { s with endReceived := true })

structure Inv (s : St) : Prop where
  lenB : s.bits.length = s.src.length
  lenD : s.disk.length = s.src.length
  flight : ∀ f ∈ s.flight, f.crcOk = true → f.idx < s.src.length ∧ f.pay = s.src.getD f.idx 0
  sound : ∀ i, i < s.src.length → s.bits.getD i false = true → s.disk.getD i 0 = s.src.getD i 0
  count : s.remaining = countFalse s.bits
  fin : s.fin = some true → s.remaining = 0

theorem countFalse_zero_all (l : List Bool) (h : countFalse l = 0) : ∀ i, i < l.length → l.getD i false = true := by
  induction l with
  | nil => intro i hi; simp at hi
  | cons b bs ih =>
    intro i hi
    cases b with
    | false => simp [countFalse] at h
    | true =>
      have h' : countFalse bs = 0 := by simpa [countFalse] using h
      cases i with
      | zero => simp
      | succ j => simpa using ih h' j (by simpa using hi)

/-- The fidelity consequence of the invariant: a file finalised ok is byte-identical to the source. -/
theorem fidelity_of_inv {s : St} (h : Inv s) (hf : s.fin = some true) :
    ∀ i, i < s.src.length → s.disk.getD i 0 = s.src.getD i 0 := by
  intro i hi
  have hz : countFalse s.bits = 0 := by rw [← h.count]; exact h.fin hf
  exact h.sound i hi (countFalse_zero_all _ hz i (by rw [h.lenB]; exact hi))

theorem getD_set {α} (l : List α) (i j : Nat) (v d : α) :
    (l.set i v).getD j d = if i = j ∧ i < l.length then v else l.getD j d := by
  simp only [List.getD_eq_getElem?_getD, List.getElem?_set]
  by_cases hij : i = j
  · subst hij
    by_cases hl : i < l.length
    · simp [hl]
    · simp [hl]
  · simp [hij]

theorem countFalse_set_true (l : List Bool) (i : Nat) (hi : i < l.length) (hb : l.getD i false = false) :
    countFalse (l.set i true) + 1 = countFalse l := by
  induction l generalizing i with
  | nil => simp at hi
  | cons b bs ih =>
    cases i with
    | zero =>
      simp at hb; subst hb
      simp [countFalse]
    | succ j =>
      have := ih j (by simpa using hi) (by simpa using hb)
      cases b <;> simp [countFalse] at this ⊢ <;> omega

theorem mem_of_mem_eraseIdx {α} {l : List α} {k : Nat} {x : α} (h : x ∈ l.eraseIdx k) : x ∈ l :=
  List.mem_of_mem_eraseIdx h

theorem inv_step (s s' : St) (a : Step) (hinv : Inv s) (h : step s a = some s') : Inv s' := by
  obtain ⟨hB, hD, hF, hS, hC, hN⟩ := hinv
  cases a with
  | send i =>
    simp only [step] at h
    split at h
    · rename_i hi
      simp at h; subst h
      refine ⟨hB, hD, ?_, hS, hC, hN⟩
      intro f hf hok
      simp at hf
      rcases hf with hf | hf
      · exact hF f hf hok
      · subst hf; simp [hi]
    · simp at h
  | corrupt k =>
    simp only [step] at h
    split at h
    · simp at h; subst h
      refine ⟨hB, hD, ?_, hS, hC, hN⟩
      intro f hf hok
      rcases List.mem_or_eq_of_mem_set hf with hf | hf
      · exact hF f hf hok
      · subst hf; simp at hok
    · simp at h
  | endArrives =>
    simp only [step] at h
    split at h
    · simp at h; subst h; exact ⟨hB, hD, hF, hS, hC, hN⟩
    · simp at h; subst h
      simp only [finIfZero]
      split
      · exact ⟨hB, hD, hF, hS, hC, fun _ => by assumption⟩
      · exact ⟨hB, hD, hF, hS, hC, hN⟩
  | deliver k =>
    simp only [step] at h
    split at h
    · rename_i hk
      have hF' : ∀ f ∈ s.flight.eraseIdx k, f.crcOk = true → f.idx < s.src.length ∧ f.pay = s.src.getD f.idx 0 :=
        fun f hf => hF f (mem_of_mem_eraseIdx hf)
      have hmem : s.flight.getD k ⟨0,0,false⟩ ∈ s.flight := by
        rw [List.getD_eq_getElem?_getD, List.getElem?_eq_getElem hk]; simp
      split at h
      · simp at h; subst h; exact ⟨hB, hD, hF', hS, hC, hN⟩
      · split at h
        · simp at h; subst h; exact ⟨hB, hD, hF', hS, hC, by simp⟩
        · split at h
          · simp at h; subst h; exact ⟨hB, hD, hF', hS, hC, by simp⟩
          · rename_i hfin hidx hcrc
            have hcrc' : (s.flight.getD k ⟨0,0,false⟩).crcOk = true := by simpa using hcrc
            obtain ⟨hlt, hpay⟩ := hF _ hmem hcrc'
            -- after the positional write the written index holds the source payload
            have hS' : ∀ i, i < s.src.length → s.bits.getD i false = true →
                (s.disk.set (s.flight.getD k ⟨0,0,false⟩).idx (s.flight.getD k ⟨0,0,false⟩).pay).getD i 0 = s.src.getD i 0 := by
              intro i hi hb
              rw [getD_set]
              split
              · rename_i hc; rw [← hc.1]; exact hpay
              · exact hS i hi hb
            split at h
            · -- bit already set: duplicate chunk, counter untouched
              simp at h; subst h
              simp only [finIfZero]
              split
              · exact ⟨hB, by simpa using hD, hF', hS', hC, fun _ => by assumption⟩
              · exact ⟨hB, by simpa using hD, hF', hS', hC, hN⟩
            · rename_i hbit
              have hbit' : s.bits.getD (s.flight.getD k ⟨0,0,false⟩).idx false = false := by simpa using hbit
              have hcnt := countFalse_set_true s.bits _ (by rw [hB]; exact hlt) hbit'
              simp at h; subst h
              have hS'' : ∀ i, i < s.src.length →
                  (s.bits.set (s.flight.getD k ⟨0,0,false⟩).idx true).getD i false = true →
                  (s.disk.set (s.flight.getD k ⟨0,0,false⟩).idx (s.flight.getD k ⟨0,0,false⟩).pay).getD i 0 = s.src.getD i 0 := by
                intro i hi hb
                rw [getD_set] at hb
                split at hb
                · rename_i hc
                  have e : i = _ := hc.1.symm
                  subst e
                  rw [getD_set, if_pos ⟨rfl, by rw [hD]; exact hlt⟩]
                  exact hpay
                · exact hS' i hi hb
              have hC' : s.remaining - 1 = countFalse (s.bits.set (s.flight.getD k ⟨0,0,false⟩).idx true) := by omega
              simp only [finIfZero]
              split
              · exact ⟨by simpa using hB, by simpa using hD, hF', hS'', hC', fun _ => by assumption⟩
              · refine ⟨by simpa using hB, by simpa using hD, hF', hS'', hC', ?_⟩
                intro hh; rw [hh] at hfin; simp at hfin
    · simp at h

inductive Reachable (s0 : St) : St → Prop
  | init : Reachable s0 s0
  | step {s s' a} : Reachable s0 s → step s a = some s' → Reachable s0 s'

/-- C01/C02 per-file core: from any start state whose sidecar is sound (C05), under any interleaving of sends,
    corruptions and deliveries, a file that the receiver finalises with ok = true is identical to the source. -/
theorem inv_reachable {s0 s : St} (h0 : Inv s0) (h : Reachable s0 s) : Inv s := by
  induction h with
  | init => exact h0
  | step _ hs ih => exact inv_step _ _ _ ih hs

theorem fidelity {s0 s : St} (h0 : Inv s0) (h : Reachable s0 s) (hf : s.fin = some true) :
    ∀ i, i < s.src.length → s.disk.getD i 0 = s.src.getD i 0 :=
  fidelity_of_inv (inv_reachable h0 h) hf

end TV.FileSys
