namespace TV.ProtoL

/-- Liveness abstraction, one connection, one file: payloads and indices erased to counters. -/
structure St where
  n : Nat                    -- data streams announced in DataStreams{n}
  toSend : Nat               -- chunks not yet dispatched to a worker
  buffered : List Nat        -- frames written to stream w and not yet read (length n)
  visible : Nat              -- streams 0..visible-1 can be accepted by the peer (QUIC: first frame on stream j reveals all ≤ j)
  accepted : Nat             -- data streams the receiver has accepted so far
  remaining : Nat            -- chunks the receiver still misses
  endSent : Bool
  endRecv : Bool
  doneSent : Bool
  doneRecv : Bool
  deriving DecidableEq, Repr

inductive Step
  | dispatch (w : Nat)       -- worker w takes a chunk and writes its frame on stream w
  | sendEnd                  -- FileEnd on the control stream
  | accept                   -- receiver accepts the next data stream (blocks until one is visible)
  | readFrame (w : Nat)      -- reader of stream w consumes a frame; readers start only after all n are accepted
  | recvEnd                  -- main loop handles FileEnd; control records are handled only after all n are accepted
  | recvDone                 -- sender receives FileDone; workers then exit and close (FIN reveals every stream)
  deriving DecidableEq, Repr

def fin (s : St) : St := if s.remaining = 0 then { s with doneSent := true } else s

def step (s : St) : Step → Option St
  | .dispatch w =>
    if s.toSend > 0 ∧ w < s.n then
      some { s with toSend := s.toSend - 1, buffered := s.buffered.set w (s.buffered.getD w 0 + 1),
                    visible := max s.visible (w + 1) }
    else none
  | .sendEnd => if s.toSend = 0 ∧ !s.endSent then some { s with endSent := true } else none
  | .accept => if s.accepted < s.n ∧ s.accepted < s.visible then some { s with accepted := s.accepted + 1 } else none
  | .readFrame w =>
    if s.accepted = s.n ∧ s.buffered.getD w 0 > 0 ∧ s.remaining > 0 then
      some (fin { s with buffered := s.buffered.set w (s.buffered.getD w 0 - 1), remaining := s.remaining - 1 })
    else none
  | .recvEnd => if s.accepted = s.n ∧ s.endSent ∧ !s.endRecv then some (fin { s with endRecv := true }) else none
  | .recvDone => if s.doneSent ∧ !s.doneRecv then some { s with doneRecv := true, visible := s.n } else none

def init (n chunks : Nat) : St :=
  { n, toSend := chunks, buffered := List.replicate n 0, visible := 0, accepted := 0, remaining := chunks,
    endSent := false, endRecv := false, doneSent := false, doneRecv := false }

def final (s : St) : Bool := s.doneRecv && s.endRecv

def allSteps (s : St) : List Step :=
  [.sendEnd, .accept, .recvEnd, .recvDone] ++ (List.range s.n).map .dispatch ++ (List.range s.n).map .readFrame

def stuck (s : St) : Bool := !final s && (allSteps s).all fun a => (step s a).isNone

def run (s : St) : List Step → Option St
  | [] => some s
  | a :: as => match step s a with | some s' => run s' as | none => none

/-- P1 as a model run: one chunk, two streams, worker 0 takes the chunk. -/
theorem visibility_deadlock :
    (run (init 2 1) [.dispatch 0, .sendEnd, .accept]).map stuck = some true := by decide

/-- the same configuration completes when worker 1 happens to take the chunk -/
theorem visibility_lucky :
    (run (init 2 1) [.dispatch 1, .sendEnd, .accept, .accept, .readFrame 1, .recvEnd, .recvDone]).map final = some true := by
  decide

/-- a single empty file on one stream: nothing is ever written on the data stream -/
theorem empty_file_deadlock : (run (init 1 0) [.sendEnd]).map stuck = some true := by decide

end TV.ProtoL
