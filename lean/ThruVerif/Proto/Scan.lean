namespace TV.Scan

abbrev Name := List UInt8

/-- decimal digits of `n` as ASCII bytes (structural on fuel so that the kernel can evaluate it) -/
def digitsAux : Nat → Nat → Name → Name
  | 0, _, acc => acc
  | fuel+1, n, acc =>
    let acc := UInt8.ofNat (48 + n % 10) :: acc
    if n / 10 = 0 then acc else digitsAux fuel (n / 10) acc
def digits (n : Nat) : Name := digitsAux 20 n []

/-- `ScanPaths` / `buildPathResolver`: ordinal prefix for base names that occur more than once -/
def topKey (bases : List Name) (i : Nat) : Name :=
  let b := bases.getD i []
  if (bases.filter (· == b)).length > 1 then
    digits (((bases.take i).filter (· == b)).length + 1) ++ [95] ++ b     -- "<ordinal>_" ++ base
  else b

def topKeys (bases : List Name) : List Name := (List.range bases.length).map (topKey bases)

def x : Name := [120]
def oneX : Name := [49, 95, 120]      -- "1_x"

/-- P12 as a model computation: the keys for [x, x, 1_x] are not pairwise distinct. -/
theorem prefix_collision : topKeys [x, x, oneX] = [oneX, [50, 95, 120], oneX] := by decide

end TV.Scan
