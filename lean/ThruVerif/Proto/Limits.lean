namespace TV.Limits

/-- `/session` handler: `if max > 0 && store.Count() >= max { reject }` … `store.Create()` are two separately locked steps -/
inductive Pc | start | checked | done | rejected
  deriving DecidableEq, Repr

structure St where
  max : Nat
  count : Nat
  pcs : List Pc
  deriving DecidableEq, Repr

def step (s : St) (t : Nat) : Option St :=
  match s.pcs[t]?.getD .done with
  | .start =>
    if s.max > 0 ∧ s.count ≥ s.max then some { s with pcs := s.pcs.set t .rejected }
    else some { s with pcs := s.pcs.set t .checked }
  | .checked => some { s with count := s.count + 1, pcs := s.pcs.set t .done }
  | _ => none

def run (s : St) : List Nat → Option St
  | [] => some s
  | t :: ts => match step s t with | some s' => run s' ts | none => none

/-- two concurrent creates at count = max − 1 both pass the check -/
theorem check_then_act_exceeds :
    (run { max := 3, count := 2, pcs := [.start, .start] } [0, 1, 0, 1]).map (·.count) = some 4 := by decide

/-- sequentially (each handler runs to completion) the limit holds: the model run that the real server showed in P13 -/
theorem sequential_ok :
    (run { max := 3, count := 2, pcs := [.start, .start] } [0, 0, 1]).map (fun s => (s.count, s.pcs)) =
      some (3, [.done, .rejected]) := by decide

end TV.Limits
