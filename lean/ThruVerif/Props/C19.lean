import ThruVerif.Proofs.GeometryBridge
/-!
# C19 — Chunk geometry tiles every file exactly and identically on both sides

All statements are about `TV.Gen.*`, the definitions regenerated from /repo's current source on every
run (go/ssa for `chunkTotal` / `chunkSizeForIndex`, go/ast + go/types for the expressions embedded in
`handleFileBegin`, the data reader, the sender worker, `CreateSidecar` and `hashFileChunk`), with every
Go integer conversion explicit.  Domain: `Dom size c` = size ≤ 10 TiB, 1 ≤ c < 2³², chunk count < 2³².
-/
namespace TV.C19
open TV.GeoBridge

/-- number of chunks the sender computes, as a natural number -/
def total (size c : Nat) : Nat := (TV.Gen.chunkTotal size c).toNat
/-- length of chunk `i` the sender reads -/
def len (size c i : Nat) : Nat := (TV.Gen.chunkSizeForIndex size c i).toNat
/-- offset at which the receiver writes chunk `i` -/
def off (c i : Nat) : Nat := (TV.Gen.recvOffset i c).toNat

theorem total_eq (size c : Nat) (h : Dom size c) : total size c = TV.Geo.chunkTotal size c := by
  unfold total; rw [chunkTotal_bridge size c h]; simp

/-- indices below the total never overflow `int64(idx) * int64(chunk)` -/
theorem idx_ok (size c i : Nat) (h : Dom size c) (hi : i < TV.Geo.chunkTotal size c) :
    i < 2 ^ 32 ∧ i * c < 2 ^ 63 := by
  obtain ⟨hs, hc0, hc1, hn⟩ := h
  have hpos : 0 < size := by
    rcases Nat.eq_zero_or_pos size with h0 | h0
    · simp [TV.Geo.chunkTotal, h0] at hi
    · exact h0
  obtain ⟨hlo, _, _⟩ := TV.Geo.total_bounds size c hc0 hpos
  have : i * c ≤ (TV.Geo.chunkTotal size c - 1) * c := Nat.mul_le_mul_right c (by omega)
  exact ⟨by omega, by omega⟩

theorem len_eq (size c i : Nat) (h : Dom size c) (hi : i < TV.Geo.chunkTotal size c) :
    len size c i = TV.Geo.lenAt size c i := by
  obtain ⟨h1, h2⟩ := idx_ok size c i h hi
  unfold len; rw [lenAt_bridge size c i h h1 h2]; simp

theorem off_eq (size c i : Nat) (h : Dom size c) (hi : i < TV.Geo.chunkTotal size c) :
    off c i = i * c := by
  obtain ⟨h1, h2⟩ := idx_ok size c i h hi
  unfold off; rw [recvOffset_bridge i c h1 h.hc1 h2, Int.toNat_natCast]

/-- **C19_tiles.** Contiguous, non-overlapping, each chunk non-empty and at most one chunk long, the
    last one ending exactly at the file size. -/
theorem C19_tiles (size c : Nat) (h : Dom size c) :
    ∀ i, i < total size c →
      0 < len size c i ∧ len size c i ≤ c ∧
      off c i + len size c i = (if i + 1 < total size c then off c (i + 1) else size) := by
  intro i hi
  rw [total_eq size c h] at hi ⊢
  have hs := TV.Geo.lenAt_spec size c i h.hc0 hi
  rw [len_eq size c i h hi, off_eq size c i h hi]
  refine ⟨hs.1, hs.2.1, ?_⟩
  rw [hs.2.2]
  split
  · rename_i hn; rw [off_eq size c (i + 1) h hn]
  · rfl

/-- **C19_first.** The first chunk starts at offset 0. -/
theorem C19_first (c : Nat) (hc : c < 2 ^ 32) : off c 0 = 0 := by
  unfold off
  rw [recvOffset_bridge 0 c (by decide) hc (by omega), Int.toNat_natCast]; omega

/-- **C19_sum.** Chunk lengths sum to the file size. -/
theorem C19_sum (size c : Nat) (h : Dom size c) :
    ((List.range (total size c)).map (len size c)).sum = size := by
  rw [total_eq size c h]
  have hmap : (List.range (TV.Geo.chunkTotal size c)).map (len size c)
      = (List.range (TV.Geo.chunkTotal size c)).map (TV.Geo.lenAt size c) := by
    apply List.map_congr_left
    intro i hi
    exact len_eq size c i h (List.mem_range.mp hi)
  rw [hmap]
  exact TV.Geo.tiles size c h.hc0

/-- **C19_oob.** Past the last chunk there is nothing to send (as long as `idx*chunk` fits `int64`). -/
theorem C19_oob (size c i : Nat) (h : Dom size c) (hi : total size c ≤ i) (h32 : i < 2 ^ 32)
    (hp : i * c < 2 ^ 63) : len size c i = 0 := by
  rw [total_eq size c h] at hi
  unfold len; rw [lenAt_bridge size c i h h32 hp]
  simp [TV.Geo.lenAt_oob size c i h.hc0 hi]

/-- **C19_agree.** Sender (`chunkTotal`), receiver (`handleFileBegin`) and resume metadata
    (`CreateSidecar`) compute the same number of chunks; sender read offset, receiver write offset and
    verification-hash offset coincide. -/
theorem C19_agree (size c : Nat) (h : Dom size c) :
    TV.Gen.recvTotal size c = TV.Gen.chunkTotal size c ∧
    TV.Gen.sidecarTotalRaw size c = TV.Gen.chunkTotal size c ∧
    (∀ i, i < total size c →
      TV.Gen.sendOffset i c = TV.Gen.recvOffset i c ∧ TV.Gen.hashOffset i c = TV.Gen.recvOffset i c) := by
  refine ⟨?_, ?_, ?_⟩
  · rw [recvTotal_bridge size c h, chunkTotal_bridge size c h]
  · rw [sidecarTotal_bridge size c h, chunkTotal_bridge size c h]
  · intro i hi
    rw [total_eq size c h] at hi
    obtain ⟨h1, h2⟩ := idx_ok size c i h hi
    rw [sendOffset_bridge i c h1 h.hc1 h2, recvOffset_bridge i c h1 h.hc1 h2, hashOffset_bridge i c h1 h.hc1 h2]
    exact ⟨rfl, rfl⟩

/-- **C19_no_wrap.** On the domain none of the 64-bit intermediates overflows and the `uint32`
    conversion is exact: the generated expression equals plain ceiling division. -/
theorem C19_no_wrap (size c : Nat) (h : Dom size c) :
    TV.Gen.chunkTotal size c = ((if size = 0 then 0 else (size + c - 1) / c : Nat) : Int) := by
  rw [chunkTotal_bridge size c h]
  have : c ≠ 0 := by have := h.hc0; omega
  simp [TV.Geo.chunkTotal, this]

/-- the resume metadata records the computed total unchanged (single assignment in `CreateSidecar`) -/
theorem C19_sidecar_single_assignment : TV.Gen.sidecarTotal_assignments = 1 := by decide

-- non-vacuity: the domain is inhabited at its corners
example : Dom 0 1 := ⟨by decide, by decide, by decide, by decide⟩
example : Dom 1 1 := ⟨by decide, by decide, by decide, by decide⟩
example : Dom (2 ^ 32 - 1) 1 := ⟨by decide, by decide, by decide, by
  simp [TV.Geo.chunkTotal]⟩
example : Dom (10 * 2 ^ 40) (2 ^ 32 - 1) := ⟨by decide, by decide, by decide, by
  simp [TV.Geo.chunkTotal]⟩
example : total 10 4 = 3 ∧ len 10 4 2 = 2 ∧ off 4 2 = 8 := by decide


/-! ## stream ids of several connections are kept apart (`multiConn`) -/

open TV.GoInt in
/-- the regenerated `makeVirtualStreamID` is `connIndex * 2^56 + streamID` for the (at most 255) connections
`NewMultiConn` accepts and QUIC stream ids below 2^56 -/
theorem C19_virtual_id (c s : Nat) (hc : c < 256) (hs : s < 2 ^ 56) :
    TV.Gen.makeVirtualStreamID (c : Int) (s : Int) = ((c * 2 ^ 56 + s : Nat) : Int) := by
  unfold TV.Gen.makeVirtualStreamID
  simp only
  have h64 : ((2:Int)^64) = ((2 ^ 64 : Nat) : Int) := by norm_cast
  have h1 : wrapU 64 (c : Int) = (c : Int) := wrapU_id (by omega) (by
    rw [h64]; exact_mod_cast (Nat.lt_trans hc (by decide : 256 < 2 ^ 64)))
  rw [h1]
  have h2 : goShl (c : Int) 56 = ((c * 2 ^ 56 : Nat) : Int) := by
    unfold goShl; simp
  rw [h2]
  have hlt : c * 2 ^ 56 < 2 ^ 64 := by
    have : (2:Nat) ^ 64 = 256 * 2 ^ 56 := by decide
    rw [this]; exact Nat.mul_lt_mul_of_pos_right hc (by decide)
  have h3 : wrapU 64 ((c * 2 ^ 56 : Nat) : Int) = ((c * 2 ^ 56 : Nat) : Int) :=
    wrapU_id (by omega) (by rw [h64]; exact_mod_cast hlt)
  rw [h3]
  unfold goAnd goOr
  have hm : (72057594037927935 : Int).toNat = 2 ^ 56 - 1 := by decide
  simp only [Int.toNat_natCast, hm, Nat.and_two_pow_sub_one_eq_mod, Nat.mod_eq_of_lt hs]
  congr 1
  rw [← Nat.shiftLeft_eq, ← Nat.shiftLeft_add_eq_or_of_lt hs]

/-- two streams get the same virtual id only if they are the same stream of the same connection: files keyed by
virtual stream ids never collide across connections -/
theorem C19_virtual_id_injective (c c' s s' : Nat) (hc : c < 256) (hc' : c' < 256) (hs : s < 2 ^ 56) (hs' : s' < 2 ^ 56)
    (h : TV.Gen.makeVirtualStreamID (c : Int) (s : Int) = TV.Gen.makeVirtualStreamID (c' : Int) (s' : Int)) :
    c = c' ∧ s = s' := by
  rw [C19_virtual_id c s hc hs, C19_virtual_id c' s' hc' hs'] at h
  have h' : c * 2 ^ 56 + s = c' * 2 ^ 56 + s' := by exact_mod_cast h
  have hp : (2:Nat) ^ 56 = 72057594037927936 := by decide
  rw [hp] at h' hs hs'
  omega

end TV.C19
