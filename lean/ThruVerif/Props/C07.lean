import ThruVerif.Model.Path
import ThruVerif.Gen.Consts
import ThruVerif.Gen.Order
/-!
# C07 — The receiver never touches anything outside its output directory

Confinement is lexical (`Within` = element-wise prefix of cleaned paths) and is proved for the path
expressions the receiver actually builds: `Join(Join(out, root), rel)` for directories and files and
`Join(Join(out, root), sidecarDir, id + suffix)` for resume metadata — for arbitrary byte strings in
root / rel_path / id that pass the validation the receiver applies before creating anything.
-/
namespace TV.C07
open TV TV.Path

theorem noDotDot_nil : NoDotDot (segs []) := by
  intro s hs; simp [segs, splitOn, hd, tl] at hs; subst hs; decide

/-- **C07_under.** For an output directory `out ≠ ""`, a root that is empty or validated and a validated
    relative path, the computed path is lexically inside `out`. -/
theorem C07_under (maxPath : Nat) (out root rel : Bytes) (ho : out ≠ [])
    (hr : hasParentSeg root = false) (hp : validateRelPath maxPath rel = none) :
    Within (stack out) (stack (under out root rel)) := by
  have h1 : Within (stack out) (stack (out ++ slash :: root)) :=
    within_join out root ho (noParent_noDotDot root hr)
  have h2 : Within (stack (out ++ slash :: root)) (stack (under out root rel)) := by
    apply within_join _ rel (by simp)
    exact validate_noDotDot maxPath rel hp
  exact within_trans h1 h2

theorem hd_noSlash (l : Bytes) (h : l.any isSlash = false) : hd isSlash l = l ∧ tl isSlash l = [] := by
  induction l with
  | nil => simp [hd, tl]
  | cons b bs ih =>
    simp only [List.any_cons, Bool.or_eq_false_iff] at h
    obtain ⟨h1, h2⟩ := ih h.2
    simp [hd, tl, h.1, h1, h2]

/-- a name without `/` plus the sidecar suffix is a single path element and not `..` -/
theorem name_noDotDot (id suffix : Bytes) (hnos : id.any isSlash = false)
    (hs : suffix.any isSlash = false) (hlen : 3 ≤ suffix.length) : NoDotDot (segs (id ++ suffix)) := by
  have hall : (id ++ suffix).any isSlash = false := by simp [List.any_append, hnos, hs]
  obtain ⟨h1, h2⟩ := hd_noSlash _ hall
  intro s hm he
  simp only [segs, splitOn, h1, h2, List.mem_singleton] at hm
  subst hm
  have : (id ++ suffix).length = 2 := by rw [he]; rfl
  simp at this; omega

theorem validFilename_noSlash (maxName : Nat) (id : Bytes) (hid : validateFilename maxName id = none) :
    id.any isSlash = false := by
  simp only [validateFilename] at hid
  split at hid
  · cases hid
  · split at hid
    · cases hid
    · rename_i hn
      simp only [Bool.not_eq_true] at hn
      rw [List.any_eq_false] at hn ⊢
      intro b hb
      have := hn b hb
      simp [isSep2, isSlash] at this ⊢; exact this.1

/-- a validated id plus the sidecar suffix is a single path element and not `..` -/
theorem sidecarName_noDotDot (maxName : Nat) (id suffix : Bytes) (hid : validateFilename maxName id = none)
    (hs : suffix.any isSlash = false) (hlen : 3 ≤ suffix.length) : NoDotDot (segs (id ++ suffix)) :=
  name_noDotDot id suffix (validFilename_noSlash maxName id hid) hs hlen

theorem hexDigit_noSlash (n : Nat) (h : n < 16) : isSlash (hexDigit n) = false := by
  have : ∀ k, k < 16 → isSlash (hexDigit k) = false := by decide
  exact this n h

/-- the fallback metadata name (hex FNV hash of the path) never contains a separator -/
theorem hexOf_noSlash (fuel n : Nat) : (hexOf fuel n).any isSlash = false := by
  induction fuel generalizing n with
  | zero => simp [hexOf]
  | succ f ih =>
    simp only [hexOf]
    split
    · rename_i h; simp [hexDigit_noSlash n h]
    · simp [List.any_append, ih, hexDigit_noSlash (n % 16) (Nat.mod_lt _ (by decide))]

/-- **C07_sidecar_ident.** Whatever the item id (validated) or path, the metadata file name is a single
    safe element. -/
theorem C07_sidecar_ident (maxName : Nat) (id rel suffix : Bytes) (hid : id ≠ [] → validateFilename maxName id = none)
    (hs : suffix.any isSlash = false) (hlen : 3 ≤ suffix.length) :
    NoDotDot (segs (sidecarIdent id rel ++ suffix)) := by
  unfold sidecarIdent
  split
  · rename_i hne; exact sidecarName_noDotDot maxName id suffix (hid hne) hs hlen
  · exact name_noDotDot _ suffix (hexOf_noSlash _ _) hs hlen

/-- **C07_sidecar.** The resume-metadata path built from an item id stays inside `out`. -/
theorem C07_sidecar (maxName : Nat) (out root dirName id suffix : Bytes) (ho : out ≠ [])
    (hr : hasParentSeg root = false)
    (hd : NoDotDot (segs dirName)) (hid : validateFilename maxName id = none)
    (hs : suffix.any isSlash = false) (hlen : 3 ≤ suffix.length) :
    Within (stack out) (stack (((out ++ slash :: root) ++ slash :: dirName) ++ slash :: (id ++ suffix))) := by
  have h1 : Within (stack out) (stack (out ++ slash :: root)) :=
    within_join out root ho (noParent_noDotDot root hr)
  have h2 := within_join (out ++ slash :: root) dirName (by simp) hd
  have h3 := within_join ((out ++ slash :: root) ++ slash :: dirName) (id ++ suffix) (by simp)
    (sidecarName_noDotDot maxName id suffix hid hs hlen)
  exact within_trans (within_trans h1 h2) h3

/-- **C07_manifest.** Every directory and file of a manifest that passed `validateManifest`, and the
    metadata path of every item with an id, lies inside `out`, in both root-directory modes. -/
theorem C07_manifest (maxPath maxName : Nat) (out : Bytes) (m : Manifest) (ho : out ≠ [])
    (hv : validateManifest maxPath maxName m = true) (it : Item) (hit : it ∈ m.items) :
    Within (stack out) (stack (under out m.root it.rel)) ∧ Within (stack out) (stack (under out [] it.rel)) ∧
    (it.id ≠ [] → validateFilename maxName it.id = none) := by
  simp only [validateManifest, Bool.and_eq_true, Bool.or_eq_true, decide_eq_true_eq, List.all_eq_true,
    Option.isNone_iff_eq_none, Bool.not_eq_true'] at hv
  obtain ⟨hroot, hitems⟩ := hv
  have hi := hitems it hit
  refine ⟨C07_under maxPath out m.root it.rel ho hroot hi.1, C07_under maxPath out [] it.rel ho (by decide) hi.1, ?_⟩
  intro hne
  rcases hi.2 with h | h
  · exact absurd h hne
  · exact h

/-- the escapes of probe P7 are refused by the validation: directory item `../x`, id `../x`, root `../x` -/
example : validateManifest 1024 256 { root := [], items := [⟨[46, 46, 47, 120], true, [], 0⟩] } = false := by decide
example : validateManifest 1024 256 { root := [], items := [⟨[120], false, [46, 46, 47, 120], 1⟩] } = false := by decide
example : validateManifest 1024 256 { root := [46, 46, 47, 120], items := [] } = false := by decide
-- non-vacuity: an ordinary manifest (root `t`, file `a/b..c`, id `0f`) passes
example : validateManifest 1024 256 { root := [116], items := [⟨[97, 47, 98, 46, 46, 99], false, [48, 102], 3⟩] } = true := by decide

/-- order obligations regenerated from the source: validation dominates every use of a peer-supplied path -/
theorem C07_order :
    TV.Gen.Order.recv_validate_before_open.2.1 ≥ 1 ∧
    TV.Gen.Order.recv_validate_before_open.2.2 = TV.Gen.Order.recv_validate_before_open.2.1 ∧
    TV.Gen.Order.recv_validate_before_mkdir.2.2 = TV.Gen.Order.recv_validate_before_mkdir.2.1 ∧
    TV.Gen.Order.recv_manifest_validated_before_mkdir.2.1 ≥ 1 ∧
    TV.Gen.Order.recv_manifest_validated_before_mkdir.2.2 = TV.Gen.Order.recv_manifest_validated_before_mkdir.2.1 := by decide

theorem C07_consts : TV.Gen.Consts.sidecarSuffix.any isSlash = false ∧ 3 ≤ TV.Gen.Consts.sidecarSuffix.length ∧
    NoDotDot (segs TV.Gen.Consts.sidecarDir) := by
  refine ⟨by decide, by decide, ?_⟩
  intro s hs; revert s; decide

end TV.C07
