import ThruVerif.Model.Hub
import ThruVerif.Gen.Shapes
/-!
# C11 — the signaling hub survives any interleaving of join, leave and send
-/
namespace TV.C11
open TV.Hub

/-- invariant of everything except the threads -/
structure Glob (s : St) : Prop where
  conns_live : ∀ e, e ∈ s.conns ↔ e ∈ s.live
  idx_live : ∀ e, e ∈ s.idx ↔ e ∈ s.live
  peer_uniq : ∀ e1 ∈ s.live, ∀ e2 ∈ s.live, e1.sid = e2.sid → e1.peer = e2.peer → e1 = e2
  live_clos : ∀ e ∈ s.live, e ∈ s.closures
  clos_uniq : ∀ e1 ∈ s.closures, ∀ e2 ∈ s.closures, e1.conn = e2.conn → e1 = e2
  live_reg : ∀ e ∈ s.live, e.sid ∈ s.reg
  live_open : ∀ e ∈ s.live, e.conn ∉ s.gone
  closed_gone : ∀ c ∈ s.closed, c ∈ s.gone
  gone_clos : ∀ c ∈ s.gone, ∃ e ∈ s.closures, e.conn = c
  no_panic : s.panicked = false
  isolated : ∀ d ∈ s.inbox ++ s.outbox ++ s.dropped, ∃ e ∈ s.closures, e.conn = d.conn ∧ e.sid = d.sid

theorem Glob.conn_uniq {s : St} (h : Glob s) {e1 e2 : Entry} (h1 : e1 ∈ s.live) (h2 : e2 ∈ s.live)
    (hc : e1.conn = e2.conn) : e1 = e2 :=
  h.clos_uniq e1 (h.live_clos e1 h1) e2 (h.live_clos e2 h2) hc

theorem Glob.live_not_closed {s : St} (h : Glob s) {e : Entry} (he : e ∈ s.live) : e.conn ∉ s.closed :=
  fun hc => h.live_open e he (h.closed_gone _ hc)

theorem idxFind_some {s : St} {sid : Sid} {p : Peer} {e : Entry} (h : idxFind s sid p = some e) :
    e ∈ s.idx ∧ e.sid = sid ∧ e.peer = p := by
  unfold idxFind at h
  have hm := List.mem_of_find?_eq_some h
  have hp := List.find?_some h
  simp at hp
  exact ⟨hm, hp.1, hp.2⟩

theorem idxFind_none {s : St} {sid : Sid} {p : Peer} (h : idxFind s sid p = none) :
    ∀ e ∈ s.idx, ¬ (e.sid = sid ∧ e.peer = p) := by
  unfold idxFind at h
  intro e he hc
  have := List.find?_eq_none.mp h e he
  simp [hc.1, hc.2] at this

/-- a live entry for `(sid, p)` is what the index finds -/
theorem idxFind_live {s : St} (h : Glob s) {e : Entry} (he : e ∈ s.live) :
    idxFind s e.sid e.peer = some e := by
  cases hf : idxFind s e.sid e.peer with
  | none => exact absurd ⟨rfl, rfl⟩ (idxFind_none hf e ((h.idx_live e).mpr he))
  | some x =>
    obtain ⟨hx, hs, hp⟩ := idxFind_some hf
    have := h.peer_uniq x ((h.idx_live x).mp hx) e he hs hp
    rw [this]

theorem trySend_glob {s : St} (h : Glob s) {c : Conn} {sid : Sid} (m : Msg)
    (hl : ∃ e ∈ s.live, e.conn = c ∧ e.sid = sid) : Glob (trySend s c sid m) := by
  obtain ⟨e, he, hc, hs⟩ := hl
  have hnc : c ∉ s.closed := hc ▸ h.live_not_closed he
  have hcl : ∃ e ∈ s.closures, e.conn = c ∧ e.sid = sid := ⟨e, h.live_clos e he, hc, hs⟩
  unfold trySend
  rw [if_neg hnc]
  split
  · refine { h with isolated := ?_ }
    intro d hd
    simp only [List.mem_append, List.mem_singleton] at hd
    rcases hd with ((hd | rfl) | hd) | hd
    · exact h.isolated d (by simp [hd])
    · exact hcl
    · exact h.isolated d (by simp [hd])
    · exact h.isolated d (by simp [hd])
  · refine { h with isolated := ?_ }
    intro d hd
    simp only [List.mem_append, List.mem_singleton] at hd
    rcases hd with (hd | hd) | (hd | rfl)
    · exact h.isolated d (by simp [hd])
    · exact h.isolated d (by simp [hd])
    · exact h.isolated d (by simp [hd])
    · exact hcl

theorem trySend_fields (s : St) (c : Conn) (sid : Sid) (m : Msg) :
    (trySend s c sid m).reg = s.reg ∧ (trySend s c sid m).conns = s.conns ∧ (trySend s c sid m).idx = s.idx ∧
    (trySend s c sid m).closed = s.closed ∧ (trySend s c sid m).rlock = s.rlock ∧
    (trySend s c sid m).threads = s.threads ∧ (trySend s c sid m).closures = s.closures ∧
    (trySend s c sid m).live = s.live ∧ (trySend s c sid m).gone = s.gone ∧
    (trySend s c sid m).kicked = s.kicked ∧ (trySend s c sid m).results = s.results := by
  unfold trySend; split
  · simp
  · split <;> simp


/-! ### Add -/

theorem replConns_mem {s : St} (h : Glob s) {sid : Sid} {c : Conn} {p : Peer}
    (hfresh : ∀ e ∈ s.closures, e.conn ≠ c) (e : Entry) :
    e ∈ replConns s sid c p ↔ e ∈ s.live ∧ ¬ (e.sid = sid ∧ e.peer = p) := by
  unfold replConns
  cases hf : idxFind s sid p with
  | none =>
    simp only
    rw [h.conns_live]
    constructor
    · intro he; exact ⟨he, idxFind_none hf e ((h.idx_live e).mpr he)⟩
    · exact fun he => he.1
  | some old =>
    obtain ⟨ho, hs, hp⟩ := idxFind_some hf
    have hol : old ∈ s.live := (h.idx_live old).mp ho
    have hne : old.conn ≠ c := hfresh old (h.live_clos old hol)
    simp only [bne_iff_ne, ne_eq, hne, not_false_eq_true, if_true, List.mem_filter, h.conns_live,
      Bool.not_eq_true', Bool.and_eq_false_iff, beq_eq_false_iff_ne]
    constructor
    · rintro ⟨he, hcond⟩
      refine ⟨he, ?_⟩
      rintro ⟨hes, hep⟩
      have : e = old := h.peer_uniq e he old hol (hes.trans hs.symm) (hep.trans hp.symm)
      subst this
      rcases hcond with hcond | hcond
      · exact hcond hes
      · exact hcond rfl
    · rintro ⟨he, hcond⟩
      refine ⟨he, ?_⟩
      by_cases hes : e.sid = sid
      · right
        intro hec
        have : e = old := h.conn_uniq he hol hec
        subst this
        exact hcond ⟨hes, hp⟩
      · left; exact hes

theorem doAdd_glob {s : St} (h : Glob s) (sid : Sid) (c : Conn) (p : Peer)
    (hfresh : ∀ e ∈ s.closures, e.conn ≠ c) : Glob (doAdd s sid c p) := by
  have hlive_ne : ∀ e ∈ s.live, e.conn ≠ c := fun e he => hfresh e (h.live_clos e he)
  constructor
  · -- conns_live
    intro e
    simp only [doAdd, List.mem_append, List.mem_filter, List.mem_singleton, replConns_mem h hfresh]
    constructor
    · rintro (⟨⟨he, hn⟩, _⟩ | rfl)
      · left; exact ⟨he, by simp only [Bool.not_eq_true', Bool.and_eq_false_iff, beq_eq_false_iff_ne]; by_cases hx : e.sid = sid <;> simp_all⟩
      · right; rfl
    · rintro (⟨he, hn⟩ | rfl)
      · left
        refine ⟨⟨he, by simp only [Bool.not_eq_true', Bool.and_eq_false_iff, beq_eq_false_iff_ne] at hn; by_cases hx : e.sid = sid <;> simp_all⟩, ?_⟩
        have := hlive_ne e he
        simp [this]
      · right; rfl
  · -- idx_live
    intro e
    simp only [doAdd, List.mem_append, List.mem_filter, List.mem_singleton, h.idx_live]
  · -- peer_uniq
    intro e1 h1 e2 h2 hs hp
    simp only [doAdd, List.mem_append, List.mem_filter, List.mem_singleton] at h1 h2
    rcases h1 with ⟨h1, n1⟩ | rfl <;> rcases h2 with ⟨h2, n2⟩ | rfl
    · exact h.peer_uniq e1 h1 e2 h2 hs hp
    · simp at hs hp; simp [hs, hp] at n1
    · simp at hs hp; simp [← hs, ← hp] at n2
    · rfl
  · -- live_clos
    intro e he
    simp only [doAdd, List.mem_append, List.mem_filter, List.mem_singleton] at he ⊢
    rcases he with ⟨he, _⟩ | rfl
    · left; exact h.live_clos e he
    · right; rfl
  · -- clos_uniq
    intro e1 h1 e2 h2 hc
    simp only [doAdd, List.mem_append, List.mem_singleton] at h1 h2
    rcases h1 with h1 | rfl <;> rcases h2 with h2 | rfl
    · exact h.clos_uniq e1 h1 e2 h2 hc
    · exact absurd hc (hfresh e1 h1)
    · exact absurd hc.symm (hfresh e2 h2)
    · rfl
  · -- live_reg
    intro e he
    simp only [doAdd, List.mem_append, List.mem_filter, List.mem_singleton] at he ⊢
    rcases he with ⟨he, _⟩ | rfl
    · have := h.live_reg e he
      split <;> simp [this]
    · split
      · assumption
      · simp
  · -- live_open
    intro e he hg
    simp only [doAdd, List.mem_append, List.mem_filter, List.mem_singleton, List.mem_map] at he hg
    rcases he with ⟨he, hn⟩ | rfl
    · rcases hg with hg | ⟨r, ⟨hr, hrc⟩, hrr⟩
      · exact h.live_open e he hg
      · have : r = e := h.conn_uniq hr he hrr
        subst this
        simp at hrc
        simp [hrc.1, hrc.2] at hn
    · rcases hg with hg | ⟨r, ⟨hr, _⟩, hrr⟩
      · obtain ⟨x, hx, hxc⟩ := h.gone_clos _ hg
        exact hfresh x hx hxc
      · exact hlive_ne r hr hrr
  · -- closed_gone
    intro x hx
    simp only [doAdd, replClosed] at hx ⊢
    simp only [List.mem_append, List.mem_map, List.mem_filter]
    cases hf : idxFind s sid p with
    | none => rw [hf] at hx; left; exact h.closed_gone x hx
    | some old =>
      rw [hf] at hx
      obtain ⟨ho, hs, hp⟩ := idxFind_some hf
      simp only at hx
      split at hx
      · rcases List.mem_cons.mp hx with rfl | hx
        · right; exact ⟨old, ⟨(h.idx_live old).mp ho, by simp [hs, hp]⟩, rfl⟩
        · left; exact h.closed_gone x hx
      · left; exact h.closed_gone x hx
  · -- gone_clos
    intro x hx
    simp only [doAdd, List.mem_append, List.mem_map, List.mem_filter] at hx ⊢
    rcases hx with hx | ⟨r, ⟨hr, _⟩, rfl⟩
    · obtain ⟨e, he, hec⟩ := h.gone_clos x hx
      exact ⟨e, Or.inl he, hec⟩
    · exact ⟨r, Or.inl (h.live_clos r hr), rfl⟩
  · exact h.no_panic
  · intro d hd
    obtain ⟨e, he, hx⟩ := h.isolated d hd
    exact ⟨e, by simp [doAdd, he], hx⟩


/-! ### remove -/

theorem doRemoveStart_glob {s : St} (h : Glob s) {e : Entry} (he : e ∈ s.closures) :
    Glob (doRemoveStart s e).1 := by
  have hkey : ∀ x ∈ s.live, x.conn = e.conn → x = e :=
    fun x hx hc => h.clos_uniq x (h.live_clos x hx) e he hc
  have hgone : ∀ c, c ∈ s.gone ++ (s.live.filter (fun x => x.conn == e.conn)).map (·.conn) →
      ∃ x ∈ s.closures, x.conn = c := by
    intro c hc
    simp only [List.mem_append, List.mem_map, List.mem_filter] at hc
    rcases hc with hc | ⟨r, ⟨hr, _⟩, rfl⟩
    · exact h.gone_clos c hc
    · exact ⟨r, h.live_clos r hr, rfl⟩
  have hopen : ∀ x ∈ s.live.filter (fun x => x.conn != e.conn),
      x.conn ∉ s.gone ++ (s.live.filter (fun x => x.conn == e.conn)).map (·.conn) := by
    intro x hx hg
    simp only [List.mem_filter, bne_iff_ne, ne_eq] at hx
    simp only [List.mem_append, List.mem_map, List.mem_filter, beq_iff_eq] at hg
    rcases hg with hg | ⟨r, ⟨_, hrc⟩, hrr⟩
    · exact h.live_open x hx.1 hg
    · exact hx.2 (hrr.symm.trans hrc)
  unfold doRemoveStart
  split
  · rename_i hcond
    simp only [Bool.and_eq_true, decide_eq_true_eq, List.any_eq_true, beq_iff_eq] at hcond
    obtain ⟨hreg, x, hx, hxs, hxc⟩ := hcond
    have hxe : x = e := hkey x ((h.conns_live x).mp hx) hxc
    subst hxe
    have hel : x ∈ s.live := (h.conns_live x).mp hx
    have hidx : idxFind s x.sid x.peer = some x := idxFind_live h hel
    constructor
    · intro y
      simp only [List.mem_filter, h.conns_live, bne_iff_ne, ne_eq, Bool.not_eq_true', Bool.and_eq_false_iff,
        beq_eq_false_iff_ne]
      constructor
      · rintro ⟨hy, hn⟩
        refine ⟨hy, fun hc => ?_⟩
        have := hkey y hy hc; subst this
        rcases hn with hn | hn <;> exact hn rfl
      · rintro ⟨hy, hn⟩; exact ⟨hy, Or.inr hn⟩
    · intro y
      simp only [hidx, beq_self_eq_true, if_true, List.mem_filter, h.idx_live, bne_iff_ne, ne_eq,
        Bool.not_eq_true', Bool.and_eq_false_iff, beq_eq_false_iff_ne]
      constructor
      · rintro ⟨hy, hn⟩
        refine ⟨hy, fun hc => ?_⟩
        have := hkey y hy hc; subst this
        rcases hn with hn | hn <;> exact hn rfl
      · rintro ⟨hy, hn⟩
        refine ⟨hy, ?_⟩
        by_cases hs : y.sid = x.sid
        · right; intro hp; exact hn (by rw [h.peer_uniq y hy x hel hs hp])
        · left; exact hs
    · intro e1 h1 e2 h2
      exact h.peer_uniq e1 (List.mem_filter.mp h1).1 e2 (List.mem_filter.mp h2).1
    · intro y hy; exact h.live_clos y (List.mem_filter.mp hy).1
    · exact h.clos_uniq
    · intro y hy; exact h.live_reg y (List.mem_filter.mp hy).1
    · exact hopen
    · intro c hc; exact List.mem_append_left _ (h.closed_gone c hc)
    · exact hgone
    · exact h.no_panic
    · exact h.isolated
  · rename_i hcond
    have hnone : ∀ y ∈ s.live, y.conn ≠ e.conn := by
      intro y hy hc
      have := hkey y hy hc; subst this
      apply hcond
      simp only [Bool.and_eq_true, decide_eq_true_eq, List.any_eq_true, beq_iff_eq]
      exact ⟨h.live_reg y hy, y, (h.conns_live y).mpr hy, rfl, rfl⟩
    have hfil : ∀ y, y ∈ s.live.filter (fun x => x.conn != e.conn) ↔ y ∈ s.live := by
      intro y; simp only [List.mem_filter, bne_iff_ne, ne_eq]
      exact ⟨fun hh => hh.1, fun hy => ⟨hy, hnone y hy⟩⟩
    constructor
    · intro y; simp only [hfil, h.conns_live]
    · intro y; simp only [hfil, h.idx_live]
    · intro e1 h1 e2 h2
      exact h.peer_uniq e1 (List.mem_filter.mp h1).1 e2 (List.mem_filter.mp h2).1
    · intro y hy; exact h.live_clos y (List.mem_filter.mp hy).1
    · exact h.clos_uniq
    · intro y hy; exact h.live_reg y (List.mem_filter.mp hy).1
    · exact hopen
    · intro c hc; exact List.mem_append_left _ (h.closed_gone c hc)
    · exact hgone
    · exact h.no_panic
    · exact h.isolated

theorem doRemoveClose_glob {s : St} (h : Glob s) {c : Conn} (hc : c ∈ s.gone) : Glob (doRemoveClose s c) := by
  refine { h with closed_gone := ?_ }
  intro x hx
  rcases List.mem_cons.mp hx with rfl | hx
  · exact hc
  · exact h.closed_gone x hx

theorem doRemoveGC_glob {s : St} (h : Glob s) (sid : Sid) : Glob (doRemoveGC s sid) := by
  unfold doRemoveGC
  split
  · rename_i hcond
    simp only [Bool.and_eq_true, decide_eq_true_eq, List.isEmpty_iff] at hcond
    have hempty : ∀ e ∈ s.live, e.sid ≠ sid := by
      intro e he hs
      have : e ∈ connsOf s sid := by
        simp only [connsOf, List.mem_filter, beq_iff_eq]; exact ⟨(h.conns_live e).mpr he, hs⟩
      rw [hcond.2] at this; cases this
    refine { h with idx_live := ?_, live_reg := ?_ }
    · intro e
      simp only [List.mem_filter, h.idx_live, bne_iff_ne, ne_eq]
      exact ⟨fun hh => hh.1, fun he => ⟨he, hempty e he⟩⟩
    · intro e he
      simp only [List.mem_filter, bne_iff_ne, ne_eq]
      exact ⟨h.live_reg e he, hempty e he⟩
  · exact h


/-! ### CloseSession -/

theorem doCloseSession_glob {s : St} (h : Glob s) (sid : Sid) : Glob (doCloseSession s sid).1 := by
  have hgone : ∀ c, c ∈ s.gone ++ (s.live.filter (fun x => x.sid == sid)).map (·.conn) →
      ∃ x ∈ s.closures, x.conn = c := by
    intro c hc
    simp only [List.mem_append, List.mem_map, List.mem_filter] at hc
    rcases hc with hc | ⟨r, ⟨hr, _⟩, rfl⟩
    · exact h.gone_clos c hc
    · exact ⟨r, h.live_clos r hr, rfl⟩
  have hopen : ∀ x ∈ s.live.filter (fun x => x.sid != sid),
      x.conn ∉ s.gone ++ (s.live.filter (fun x => x.sid == sid)).map (·.conn) := by
    intro x hx hg
    simp only [List.mem_filter, bne_iff_ne, ne_eq] at hx
    simp only [List.mem_append, List.mem_map, List.mem_filter, beq_iff_eq] at hg
    rcases hg with hg | ⟨r, ⟨hr, hrs⟩, hrr⟩
    · exact h.live_open x hx.1 hg
    · have := h.conn_uniq hr hx.1 hrr
      subst this; exact hx.2 hrs
  unfold doCloseSession
  split
  · constructor
    · intro y; simp only [List.mem_filter, h.conns_live]
    · intro y; simp only [List.mem_filter, h.idx_live]
    · intro e1 h1 e2 h2
      exact h.peer_uniq e1 (List.mem_filter.mp h1).1 e2 (List.mem_filter.mp h2).1
    · intro y hy; exact h.live_clos y (List.mem_filter.mp hy).1
    · exact h.clos_uniq
    · intro y hy
      have hy' := List.mem_filter.mp hy
      simp only [List.mem_filter, bne_iff_ne, ne_eq]
      exact ⟨h.live_reg y hy'.1, by simpa using hy'.2⟩
    · exact hopen
    · intro c hc; exact List.mem_append_left _ (h.closed_gone c hc)
    · exact hgone
    · exact h.no_panic
    · exact h.isolated
  · rename_i hreg
    have hnone : ∀ y ∈ s.live, y.sid ≠ sid := fun y hy hs => hreg (hs ▸ h.live_reg y hy)
    have hfil : ∀ y, y ∈ s.live.filter (fun x => x.sid != sid) ↔ y ∈ s.live := by
      intro y; simp only [List.mem_filter, bne_iff_ne, ne_eq]
      exact ⟨fun hh => hh.1, fun hy => ⟨hy, hnone y hy⟩⟩
    constructor
    · intro y; simp only [hfil, h.conns_live]
    · intro y; simp only [hfil, h.idx_live]
    · intro e1 h1 e2 h2
      exact h.peer_uniq e1 (List.mem_filter.mp h1).1 e2 (List.mem_filter.mp h2).1
    · intro y hy; exact h.live_clos y (List.mem_filter.mp hy).1
    · exact h.clos_uniq
    · intro y hy; exact h.live_reg y (List.mem_filter.mp hy).1
    · exact hopen
    · intro c hc; exact List.mem_append_left _ (h.closed_gone c hc)
    · exact hgone
    · exact h.no_panic
    · exact h.isolated

theorem doCloseLoop_glob {s : St} (h : Glob s) (targets : List Conn) {pick : Conn} (hp : pick ∈ s.gone) :
    Glob (doCloseLoop s targets pick).1 := by
  unfold doCloseLoop
  refine { h with closed_gone := ?_ }
  intro x hx
  rcases List.mem_cons.mp hx with rfl | hx
  · exact hp
  · exact h.closed_gone x hx

/-! ### readers -/

theorem doList_glob {s : St} (h : Glob s) (t : Nat) (sid : Sid) : Glob (doList s t sid) := by
  unfold doList; exact { h with }

theorem doSendTo_glob {s : St} (h : Glob s) (t : Nat) (sid : Sid) (p : Peer) (m : Msg) :
    Glob (doSendTo s t sid p m) := by
  unfold doSendTo
  cases hf : idxFind s sid p with
  | none => exact { h with }
  | some e =>
    simp only
    obtain ⟨he, hs, _⟩ := idxFind_some hf
    split
    · have hg := trySend_glob h m ⟨e, (h.idx_live e).mp he, rfl, hs⟩
      exact { hg with }
    · exact { h with }

theorem doBcastStart_glob {s : St} (h : Glob s) (sid : Sid) (m : Msg) (targets : List Conn) :
    Glob (doBcastStart s sid m targets).1 := by
  unfold doBcastStart; split
  · exact h
  · exact { h with }

theorem doHold_glob {s : St} (h : Glob s) (sid : Sid) (m : Msg) (targets : List Conn) {pick : Conn}
    (hl : ∃ e ∈ s.live, e.conn = pick ∧ e.sid = sid) : Glob (doHold s sid m targets pick).1 := by
  have hg := trySend_glob h m hl
  unfold doHold; simp only; split
  · exact { hg with }
  · exact hg


/-! ### threads -/

/-- what the program counter of a thread promises about the shared state -/
def pcOK (s : St) : Pc → Prop
  | .bcastHold sid _ targets => targets ≠ [] ∧ ∀ c ∈ targets, ∃ e ∈ s.live, e.conn = c ∧ e.sid = sid
  | .removeClose _ c => c ∈ s.gone
  | .closeLoop targets => targets ≠ [] ∧ ∀ c ∈ targets, c ∈ s.gone
  | _ => True

def pcHold : Pc → Bool
  | .bcastHold .. => true
  | _ => false

def isHold (th : Thread) : Bool := pcHold th.pc

structure Inv (s : St) : Prop where
  glob : Glob s
  pcs : ∀ th ∈ s.threads, pcOK s th.pc
  /-- the read lock is held by exactly the threads inside a broadcast loop -/
  lock : s.rlock = (s.threads.filter isHold).length

theorem filter_length_set {α : Type} (p : α → Bool) (l : List α) (t : Nat) (old new : α) (h : l[t]? = some old) :
    ((l.set t new).filter p).length + (if p old then 1 else 0) = (l.filter p).length + (if p new then 1 else 0) := by
  induction l generalizing t with
  | nil => simp at h
  | cons a l ih =>
    cases t with
    | zero =>
      simp only [List.getElem?_cons_zero, Option.some.injEq] at h
      subst h
      simp only [List.set_cons_zero, List.filter_cons]
      cases p a <;> cases p new <;> simp
    | succ t =>
      simp only [List.getElem?_cons_succ] at h
      have := ih t h
      simp only [List.set_cons_succ, List.filter_cons]
      cases p a <;> simp <;> omega

theorem no_hold_of_zero {s : St} (hi : Inv s) (h0 : s.rlock = 0) : ∀ th ∈ s.threads, isHold th = false := by
  intro th hth
  have hl := hi.lock
  rw [h0] at hl
  have : s.threads.filter isHold = [] := List.length_eq_zero_iff.mp hl.symm
  cases hh : isHold th with
  | false => rfl
  | true =>
    have hm : th ∈ s.threads.filter isHold := List.mem_filter.mpr ⟨hth, hh⟩
    rw [this] at hm; cases hm

theorem hold_pos {s : St} (hi : Inv s) {th : Thread} (hth : th ∈ s.threads) (hh : isHold th = true) : 0 < s.rlock := by
  rw [hi.lock]
  exact List.length_pos_of_mem (List.mem_filter.mpr ⟨hth, hh⟩)

theorem erase_targets_ok {targets : List Conn} {pick : Conn} {P : Conn → Prop} (h : ∀ c ∈ targets, P c) :
    ∀ c ∈ targets.erase pick, P c := fun c hc => h c (List.mem_of_mem_erase hc)

/-- what one step of a thread does to everything except the thread table -/
theorem stepCore_spec {s s1 : St} {t : Nat} {th : Thread} {pick : Conn} {pc : Pc} {prog : List Op}
    (hi : Inv s) (hth : th ∈ s.threads) (hc : stepCore s t th pick = some (s1, pc, prog)) :
    Glob s1 ∧ s1.threads = s.threads ∧ pcOK s1 pc ∧ (∀ c ∈ s.gone, c ∈ s1.gone) ∧
    (needsWrite th = true ∨ s1.live = s.live) ∧
    s1.rlock + (if isHold th then 1 else 0) = s.rlock + (if pcHold pc then 1 else 0) := by
  have hg := hi.glob
  have hpc := hi.pcs th hth
  obtain ⟨tpc, tprog⟩ := th
  cases tpc with
  | idle =>
    cases tprog with
    | nil => simp [stepCore] at hc
    | cons op rest =>
      cases op with
      | add sid c p =>
        simp only [stepCore] at hc
        split at hc
        · simp only [Option.some.injEq, Prod.mk.injEq] at hc
          obtain ⟨rfl, rfl, rfl⟩ := hc
          exact ⟨hg, rfl, trivial, fun _ h => h, Or.inl rfl, by simp [isHold, pcHold]⟩
        · rename_i hfr
          simp only [Option.some.injEq, Prod.mk.injEq] at hc
          obtain ⟨rfl, rfl, rfl⟩ := hc
          have hfresh : ∀ e ∈ s.closures, e.conn ≠ c := by
            intro e he hcc
            apply hfr
            simp only [List.any_eq_true, beq_iff_eq]; exact ⟨e, he, hcc⟩
          refine ⟨doAdd_glob hg sid c p hfresh, rfl, trivial, ?_, Or.inl rfl, by simp [isHold, pcHold, doAdd]⟩
          intro x hx; simp [doAdd, hx]
      | remove c =>
        simp only [stepCore] at hc
        split at hc
        · simp only [Option.some.injEq, Prod.mk.injEq] at hc
          obtain ⟨rfl, rfl, rfl⟩ := hc
          exact ⟨hg, rfl, trivial, fun _ h => h, Or.inl rfl, by simp [isHold, pcHold]⟩
        · rename_i e hfind
          simp only [Option.some.injEq, Prod.mk.injEq] at hc
          obtain ⟨rfl, rfl, rfl⟩ := hc
          have he : e ∈ s.closures := List.mem_of_find?_eq_some hfind
          refine ⟨doRemoveStart_glob hg he, ?_, ?_, ?_, Or.inl rfl, ?_⟩
          · unfold doRemoveStart; split <;> rfl
          · unfold doRemoveStart; split
            · rename_i hcond
              simp only [Bool.and_eq_true, decide_eq_true_eq, List.any_eq_true, beq_iff_eq] at hcond
              obtain ⟨_, x, hx, _, hxc⟩ := hcond
              simp only [pcOK, List.mem_append, List.mem_map, List.mem_filter, beq_iff_eq]
              right; exact ⟨x, ⟨(hg.conns_live x).mp hx, hxc⟩, hxc⟩
            · trivial
          · intro x hx; unfold doRemoveStart; split <;> simp [hx]
          · unfold doRemoveStart; split <;> simp [isHold, pcHold]
      | closeSession sid =>
        simp only [stepCore, Option.some.injEq, Prod.mk.injEq] at hc
        obtain ⟨rfl, rfl, rfl⟩ := hc
        refine ⟨doCloseSession_glob hg sid, ?_, ?_, ?_, Or.inl rfl, ?_⟩
        · unfold doCloseSession; split <;> rfl
        · unfold doCloseSession; split
          · simp only
            split
            · trivial
            · rename_i hne
              refine ⟨by simpa using hne, ?_⟩
              intro c hcm
              simp only [connsOf, List.mem_map, List.mem_filter, beq_iff_eq] at hcm
              obtain ⟨x, ⟨hx, hxs⟩, rfl⟩ := hcm
              simp only [List.mem_append, List.mem_map, List.mem_filter, beq_iff_eq]
              right; exact ⟨x, ⟨(hg.conns_live x).mp hx, hxs⟩, rfl⟩
          · trivial
        · intro x hx; unfold doCloseSession; split <;> simp [hx]
        · have hph : ∀ (c : Prop) [Decidable c] (l : List Conn), pcHold (if c then Pc.idle else Pc.closeLoop l) = false := by
            intro c _ l; split <;> rfl
          unfold doCloseSession; split <;> simp only [isHold, hph] <;> simp [pcHold]
      | list sid =>
        simp only [stepCore, Option.some.injEq, Prod.mk.injEq] at hc
        obtain ⟨rfl, rfl, rfl⟩ := hc
        exact ⟨doList_glob hg t sid, rfl, trivial, fun _ h => h, Or.inr rfl, by simp [isHold, pcHold, doList]⟩
      | sendTo sid p m =>
        simp only [stepCore, Option.some.injEq, Prod.mk.injEq] at hc
        obtain ⟨rfl, rfl, rfl⟩ := hc
        have hf := trySend_fields s
        refine ⟨doSendTo_glob hg t sid p m, ?_, trivial, ?_, Or.inr ?_, ?_⟩
        all_goals (unfold doSendTo; split)
        all_goals (try split)
        all_goals simp_all [isHold, pcHold]
      | bcast sid m =>
        simp only [stepCore, Option.some.injEq, Prod.mk.injEq] at hc
        obtain ⟨rfl, rfl, rfl⟩ := hc
        refine ⟨doBcastStart_glob hg sid m _, ?_, ?_, ?_, Or.inr ?_, ?_⟩
        · unfold doBcastStart; split <;> rfl
        · unfold doBcastStart; split
          · trivial
          · rename_i hne
            refine ⟨by simpa using hne, ?_⟩
            intro c hcm
            unfold bcastTargets at hcm
            split at hcm
            · simp only [connsOf, List.mem_map, List.mem_filter, beq_iff_eq] at hcm
              obtain ⟨x, ⟨hx, hxs⟩, rfl⟩ := hcm
              exact ⟨x, (hg.conns_live x).mp hx, rfl, hxs⟩
            · cases hcm
        · intro x hx; unfold doBcastStart; split <;> exact hx
        · unfold doBcastStart; split <;> rfl
        · unfold doBcastStart; split <;> simp [isHold, pcHold]
      | bcastExcept sid p m =>
        simp only [stepCore, Option.some.injEq, Prod.mk.injEq] at hc
        obtain ⟨rfl, rfl, rfl⟩ := hc
        refine ⟨doBcastStart_glob hg sid m _, ?_, ?_, ?_, Or.inr ?_, ?_⟩
        · unfold doBcastStart; split <;> rfl
        · unfold doBcastStart; split
          · trivial
          · rename_i hne
            refine ⟨by simpa using hne, ?_⟩
            intro c hcm
            unfold bcastExceptTargets at hcm
            split at hcm
            · simp only [connsOf, List.mem_map, List.mem_filter, beq_iff_eq] at hcm
              obtain ⟨x, ⟨⟨hx, hxs⟩, _⟩, rfl⟩ := hcm
              exact ⟨x, (hg.conns_live x).mp hx, rfl, hxs⟩
            · cases hcm
        · intro x hx; unfold doBcastStart; split <;> exact hx
        · unfold doBcastStart; split <;> rfl
        · unfold doBcastStart; split <;> simp [isHold, pcHold]
  | bcastHold sid m targets =>
    simp only [stepCore] at hc
    split at hc
    · rename_i hpick
      simp only [Option.some.injEq, Prod.mk.injEq] at hc
      obtain ⟨rfl, rfl, rfl⟩ := hc
      have hlive := hpc.2 pick hpick
      have hpos : 0 < s.rlock := hold_pos hi hth rfl
      have hf := trySend_fields s pick sid m
      refine ⟨doHold_glob hg sid m targets hlive, ?_, ?_, ?_, Or.inr ?_, ?_⟩
      · unfold doHold; simp only; split <;> simp [hf]
      · unfold doHold; simp only; split
        · trivial
        · rename_i hne
          refine ⟨by simpa using hne, ?_⟩
          intro c hcm
          have := hpc.2 c (List.mem_of_mem_erase hcm)
          simpa [hf] using this
      · intro x hx; unfold doHold; simp only; split <;> simp [hf, hx]
      · unfold doHold; simp only; split <;> simp [hf]
      · unfold doHold; simp only; split
        · simp [hf, isHold, pcHold]; omega
        · simp [hf, isHold, pcHold]
    · cases hc
  | removeClose sid c =>
    simp only [stepCore, Option.some.injEq, Prod.mk.injEq] at hc
    obtain ⟨rfl, rfl, rfl⟩ := hc
    exact ⟨doRemoveClose_glob hg hpc, rfl, trivial, fun _ h => h, Or.inr rfl, by simp [isHold, pcHold, doRemoveClose]⟩
  | removeGC sid =>
    simp only [stepCore, Option.some.injEq, Prod.mk.injEq] at hc
    obtain ⟨rfl, rfl, rfl⟩ := hc
    refine ⟨doRemoveGC_glob hg sid, ?_, trivial, ?_, Or.inl rfl, ?_⟩
    · unfold doRemoveGC; split <;> rfl
    · intro x hx; unfold doRemoveGC; split <;> exact hx
    · unfold doRemoveGC; split <;> simp [isHold, pcHold]
  | closeLoop targets =>
    simp only [stepCore] at hc
    split at hc
    · rename_i hpick
      simp only [Option.some.injEq, Prod.mk.injEq] at hc
      obtain ⟨rfl, rfl, rfl⟩ := hc
      refine ⟨doCloseLoop_glob hg targets (hpc.2 pick hpick), rfl, ?_, fun _ h => h, Or.inr rfl, ?_⟩
      · unfold doCloseLoop; simp only; split
        · trivial
        · rename_i hne
          exact ⟨by simpa using hne, fun c hcm => hpc.2 c (List.mem_of_mem_erase hcm)⟩
      · have hph : ∀ (c : Prop) [Decidable c] (l : List Conn), pcHold (if c then Pc.idle else Pc.closeLoop l) = false := by
          intro c _ l; split <;> rfl
        unfold doCloseLoop; simp only [isHold, hph]; simp [pcHold]
    · cases hc


theorem pcOK_congr {s s' : St} (hl : s'.live = s.live) (hg : s'.gone = s.gone) (pc : Pc) : pcOK s' pc = pcOK s pc := by
  cases pc <;> simp [pcOK, hl, hg]

theorem pcOK_of_eq {s s' : St} {pc : Pc} (hl : s'.live = s.live) (hg : s'.gone = s.gone) (h : pcOK s pc) : pcOK s' pc := by
  rw [pcOK_congr hl hg]; exact h

theorem step_inv {s s' : St} {t : Nat} {pick : Conn} (hi : Inv s) (hs : step s t pick = some s') : Inv s' := by
  unfold step at hs
  cases hth : s.threads[t]? with
  | none => simp [hth] at hs
  | some th =>
    rw [hth] at hs
    simp only at hs
    split at hs
    · cases hs
    · rename_i hguard
      cases hc : stepCore s t th pick with
      | none => simp [hc] at hs
      | some r =>
        obtain ⟨s1, pc, prog⟩ := r
        simp only [hc, Option.some.injEq] at hs
        subst hs
        have hmem : th ∈ s.threads := List.mem_of_getElem? hth
        obtain ⟨hg1, hthr, hpc1, hgone, hlive, hrl⟩ := stepCore_spec hi hmem hc
        constructor
        · exact { hg1 with }
        · intro th' hth'
          apply pcOK_of_eq (s := s1) rfl rfl
          rcases List.mem_or_eq_of_mem_set hth' with h | rfl
          · rw [hthr] at h
            have hold := hi.pcs th' h
            cases hpc' : th'.pc with
            | bcastHold sid m targets =>
              rw [hpc'] at hold
              rcases hlive with hw | hl
              · have h0 : s.rlock = 0 := by
                  simp only [hw, Bool.true_and, bne_iff_ne, ne_eq, Decidable.not_not] at hguard
                  exact hguard
                have := no_hold_of_zero hi h0 th' h
                simp [isHold, hpc', pcHold] at this
              · simpa [pcOK, hl] using hold
            | removeClose sid c => rw [hpc'] at hold; exact hgone c hold
            | closeLoop targets => rw [hpc'] at hold; exact ⟨hold.1, fun c hc => hgone c (hold.2 c hc)⟩
            | idle => trivial
            | removeGC sid => trivial
          · exact hpc1
        · have hcount := filter_length_set isHold s.threads t th ⟨pc, prog⟩ hth
          have hl := hi.lock
          show s1.rlock = ((s1.threads.set t ⟨pc, prog⟩).filter isHold).length
          rw [hthr]
          have : isHold ⟨pc, prog⟩ = pcHold pc := rfl
          rw [this] at hcount
          omega

theorem deliver_inv {s s' : St} {c : Conn} (hi : Inv s) (hs : deliver s c = some s') : Inv s' := by
  unfold deliver at hs
  split at hs
  · cases hs
  · rename_i d hfind
    simp only [Option.some.injEq] at hs
    subst hs
    have hd : d ∈ s.inbox := List.mem_of_find?_eq_some hfind
    constructor
    · refine { hi.glob with isolated := ?_ }
      intro x hx
      simp only [List.mem_append, List.mem_singleton] at hx
      apply hi.glob.isolated
      simp only [List.mem_append]
      rcases hx with (hx | hx | rfl) | hx
      · exact Or.inl (Or.inl (List.mem_of_mem_erase hx))
      · exact Or.inl (Or.inr hx)
      · exact Or.inl (Or.inl hd)
      · exact Or.inr hx
    · intro th hth
      apply pcOK_of_eq (s := s) rfl rfl
      exact hi.pcs th hth
    · exact hi.lock

/-- states reachable from the empty hub by any schedule of thread steps (with any loop picks) and writer goroutines -/
inductive Reachable (cap : Nat) (progs : List (List Op)) : St → Prop
  | init : Reachable cap progs (init cap progs)
  | act {s s' : St} (a : Act) : Reachable cap progs s → act s a = some s' → Reachable cap progs s'

theorem inv_init (cap : Nat) (progs : List (List Op)) : Inv (init cap progs) := by
  constructor
  · constructor <;> simp [init]
  · intro th hth
    simp only [init, List.mem_map] at hth
    obtain ⟨p, _, rfl⟩ := hth
    trivial
  · simp only [init]
    induction progs with
    | nil => rfl
    | cons p ps ih => simpa [List.filter_cons, isHold, pcHold] using ih

theorem inv_reachable {cap : Nat} {progs : List (List Op)} {s : St} (h : Reachable cap progs s) : Inv s := by
  induction h with
  | init => exact inv_init cap progs
  | act a _ hact ih =>
    cases a with
    | thr t pick => exact step_inv ih hact
    | writer c => exact deliver_inv ih hact


/-! ### nothing leaks -/

def pendGC (sid : Sid) : Pc → Prop
  | .removeClose sid' _ => sid' = sid
  | .removeGC sid' => sid' = sid
  | _ => False

def pendClose (c : Conn) : Pc → Prop
  | .removeClose _ c' => c' = c
  | .closeLoop targets => c ∈ targets
  | _ => False

structure Leak (s : St) : Prop where
  /-- a registered session has a connected peer, or a remove that will look at it again is under way -/
  gc : ∀ sid ∈ s.reg, (∃ e ∈ s.live, e.sid = sid) ∨ ∃ th ∈ s.threads, pendGC sid th.pc
  /-- the channel of an unregistered connection is closed, or the thread that will close it is under way -/
  close : ∀ c ∈ s.gone, c ∈ s.closed ∨ ∃ th ∈ s.threads, pendClose c th.pc

theorem stepCore_leak {s s1 : St} {t : Nat} {th : Thread} {pick : Conn} {pc : Pc} {prog : List Op}
    (hi : Inv s) (hth : th ∈ s.threads) (hc : stepCore s t th pick = some (s1, pc, prog)) :
    (∀ sid ∈ s1.reg, sid ∈ s.reg ∨ ∃ e ∈ s1.live, e.sid = sid) ∧
    (∀ e ∈ s.live, e.sid ∈ s1.reg → (∃ e' ∈ s1.live, e'.sid = e.sid) ∨ pendGC e.sid pc) ∧
    (∀ sid, pendGC sid th.pc → sid ∈ s1.reg → (∃ e' ∈ s1.live, e'.sid = sid) ∨ pendGC sid pc) ∧
    (∀ c ∈ s1.gone, c ∈ s.gone ∨ c ∈ s1.closed ∨ pendClose c pc) ∧
    (∀ c ∈ s.closed, c ∈ s1.closed) ∧
    (∀ c, pendClose c th.pc → c ∈ s1.closed ∨ pendClose c pc) := by
  have hg := hi.glob
  obtain ⟨tpc, tprog⟩ := th
  have keep : ∀ {s1 : St} {pc : Pc}, s1.reg = s.reg → s1.live = s.live → s1.gone = s.gone → s1.closed = s.closed →
      (∀ sid, pendGC sid tpc → pendGC sid pc) → (∀ c, pendClose c tpc → pendClose c pc) →
      (∀ sid ∈ s1.reg, sid ∈ s.reg ∨ ∃ e ∈ s1.live, e.sid = sid) ∧
      (∀ e ∈ s.live, e.sid ∈ s1.reg → (∃ e' ∈ s1.live, e'.sid = e.sid) ∨ pendGC e.sid pc) ∧
      (∀ sid, pendGC sid tpc → sid ∈ s1.reg → (∃ e' ∈ s1.live, e'.sid = sid) ∨ pendGC sid pc) ∧
      (∀ c ∈ s1.gone, c ∈ s.gone ∨ c ∈ s1.closed ∨ pendClose c pc) ∧
      (∀ c ∈ s.closed, c ∈ s1.closed) ∧
      (∀ c, pendClose c tpc → c ∈ s1.closed ∨ pendClose c pc) := by
    intro s1 pc hr hl hgo hcl h1 h2
    refine ⟨fun sid h => Or.inl (hr ▸ h), fun e he _ => Or.inl ⟨e, hl ▸ he, rfl⟩, fun sid hp _ => Or.inr (h1 sid hp),
      fun c h => Or.inl (hgo ▸ h), fun c h => hcl ▸ h, fun c hp => Or.inr (h2 c hp)⟩
  cases tpc with
  | idle =>
    have nogc : ∀ sid, ¬ pendGC sid Pc.idle := fun _ h => h
    have nocl : ∀ c, ¬ pendClose c Pc.idle := fun _ h => h
    cases tprog with
    | nil => simp [stepCore] at hc
    | cons op rest =>
      cases op with
      | add sid c p =>
        simp only [stepCore] at hc
        split at hc
        · simp only [Option.some.injEq, Prod.mk.injEq] at hc
          obtain ⟨rfl, rfl, rfl⟩ := hc
          exact keep rfl rfl rfl rfl (fun _ h => h) (fun _ h => h)
        · rename_i hfr
          simp only [Option.some.injEq, Prod.mk.injEq] at hc
          obtain ⟨rfl, rfl, rfl⟩ := hc
          have hfresh : ∀ e ∈ s.closures, e.conn ≠ c := by
            intro e he hcc
            apply hfr
            simp only [List.any_eq_true, beq_iff_eq]; exact ⟨e, he, hcc⟩
          refine ⟨?_, ?_, fun sid h => absurd h (nogc sid), ?_, ?_, fun c h => absurd h (nocl c)⟩
          · intro sid' hs
            simp only [doAdd] at hs
            split at hs
            · exact Or.inl hs
            · rcases List.mem_append.mp hs with hs | hs
              · exact Or.inl hs
              · right; simp only [List.mem_singleton] at hs; subst hs
                exact ⟨⟨sid', c, p⟩, by simp [doAdd], rfl⟩
          · intro e he _
            left
            by_cases hx : e.sid = sid ∧ e.peer = p
            · exact ⟨⟨sid, c, p⟩, by simp [doAdd], hx.1.symm⟩
            · refine ⟨e, ?_, rfl⟩
              simp only [doAdd, List.mem_append, List.mem_filter, List.mem_singleton]
              left; refine ⟨he, ?_⟩
              simp only [Bool.not_eq_true', Bool.and_eq_false_iff, beq_eq_false_iff_ne]
              by_cases h1 : e.sid = sid
              · right; exact fun h2 => hx ⟨h1, h2⟩
              · left; exact h1
          · intro x hx
            simp only [doAdd, List.mem_append, List.mem_map, List.mem_filter, Bool.and_eq_true, beq_iff_eq] at hx
            rcases hx with hx | ⟨r, ⟨hr, hrs, hrp⟩, rfl⟩
            · exact Or.inl hx
            · right; left
              have hfind : idxFind s sid p = some r := by
                have := idxFind_live hg hr; rwa [hrs, hrp] at this
              have hne : r.conn ≠ c := hfresh r (hg.live_clos r hr)
              have hany : s.conns.any (fun e => e.sid == sid && e.conn == r.conn) = true := by
                simp only [List.any_eq_true, Bool.and_eq_true, beq_iff_eq]
                exact ⟨r, (hg.conns_live r).mpr hr, hrs, rfl⟩
              simp [doAdd, replClosed, hfind, hne, hany]
          · intro x hx
            simp only [doAdd, replClosed]
            split
            · split
              · exact List.mem_cons_of_mem _ hx
              · exact hx
            · exact hx
      | remove c =>
        simp only [stepCore] at hc
        split at hc
        · simp only [Option.some.injEq, Prod.mk.injEq] at hc
          obtain ⟨rfl, rfl, rfl⟩ := hc
          exact keep rfl rfl rfl rfl (fun _ h => h) (fun _ h => h)
        · rename_i e0 hfind
          simp only [Option.some.injEq, Prod.mk.injEq] at hc
          obtain ⟨rfl, rfl, rfl⟩ := hc
          have he0 : e0 ∈ s.closures := List.mem_of_find?_eq_some hfind
          have hkey : ∀ x ∈ s.live, x.conn = e0.conn → x = e0 :=
            fun x hx hcx => hg.clos_uniq x (hg.live_clos x hx) e0 he0 hcx
          refine ⟨?_, ?_, fun sid h => absurd h (nogc sid), ?_, ?_, fun c h => absurd h (nocl c)⟩
          · intro sid hs; left
            unfold doRemoveStart at hs; split at hs <;> exact hs
          · intro e he _
            by_cases hx : e.conn = e0.conn
            · have := hkey e he hx; subst this
              right
              have hcond : (decide (e.sid ∈ s.reg) && s.conns.any (fun x => x.sid == e.sid && x.conn == e.conn)) = true := by
                simp only [Bool.and_eq_true, decide_eq_true_eq, List.any_eq_true, beq_iff_eq]
                exact ⟨hg.live_reg e he, e, (hg.conns_live e).mpr he, rfl, rfl⟩
              simp [doRemoveStart, hcond, pendGC]
            · left
              refine ⟨e, ?_, rfl⟩
              unfold doRemoveStart; split <;> simp [he, hx]
          · intro x hx
            have hx' : x ∈ s.gone ∨ ∃ r ∈ s.live, r.conn = e0.conn ∧ r.conn = x := by
              unfold doRemoveStart at hx
              split at hx <;>
                (simp only [List.mem_append, List.mem_map, List.mem_filter, beq_iff_eq] at hx
                 rcases hx with hx | ⟨r, ⟨hr, hrc⟩, hrx⟩
                 · exact Or.inl hx
                 · exact Or.inr ⟨r, hr, hrc, hrx⟩)
            rcases hx' with hx' | ⟨r, hr, hrc, rfl⟩
            · exact Or.inl hx'
            · have := hkey r hr hrc; subst this
              right; right
              have hcond : (decide (r.sid ∈ s.reg) && s.conns.any (fun x => x.sid == r.sid && x.conn == r.conn)) = true := by
                simp only [Bool.and_eq_true, decide_eq_true_eq, List.any_eq_true, beq_iff_eq]
                exact ⟨hg.live_reg r hr, r, (hg.conns_live r).mpr hr, rfl, rfl⟩
              simp [doRemoveStart, hcond, pendClose]
          · intro x hx; unfold doRemoveStart; split <;> exact hx
      | closeSession sid =>
        simp only [stepCore, Option.some.injEq, Prod.mk.injEq] at hc
        obtain ⟨rfl, rfl, rfl⟩ := hc
        refine ⟨?_, ?_, fun sid h => absurd h (nogc sid), ?_, ?_, fun c h => absurd h (nocl c)⟩
        · intro sid' hs; left
          unfold doCloseSession at hs; split at hs
          · exact (List.mem_filter.mp hs).1
          · exact hs
        · intro e he hreg
          left
          have hne : e.sid ≠ sid := by
            intro heq
            unfold doCloseSession at hreg; split at hreg
            · simp only [List.mem_filter, bne_iff_ne, ne_eq] at hreg; exact hreg.2 heq
            · rename_i hn; exact hn (heq ▸ hg.live_reg e he)
          refine ⟨e, ?_, rfl⟩
          unfold doCloseSession; split <;> simp [he, hne]
        · intro x hx
          have hx' : x ∈ s.gone ∨ ∃ r ∈ s.live, r.sid = sid ∧ r.conn = x := by
            unfold doCloseSession at hx
            split at hx <;>
              (simp only [List.mem_append, List.mem_map, List.mem_filter, beq_iff_eq] at hx
               rcases hx with hx | ⟨r, ⟨hr, hrc⟩, hrx⟩
               · exact Or.inl hx
               · exact Or.inr ⟨r, hr, hrc, hrx⟩)
          rcases hx' with hx' | ⟨r, hr, hrs, rfl⟩
          · exact Or.inl hx'
          · right; right
            have hreg : sid ∈ s.reg := hrs ▸ hg.live_reg r hr
            have hmem : r.conn ∈ (connsOf s sid).map (·.conn) := by
              simp only [connsOf, List.mem_map, List.mem_filter, beq_iff_eq]
              exact ⟨r, ⟨(hg.conns_live r).mpr hr, hrs⟩, rfl⟩
            have hne : ((connsOf s sid).map (·.conn)).isEmpty = false := by
              cases hh : (connsOf s sid).map (·.conn) with
              | nil => rw [hh] at hmem; cases hmem
              | cons a l => rfl
            simp only [doCloseSession, hreg, if_true, hne]
            exact hmem
        · intro x hx; unfold doCloseSession; split <;> exact hx
      | list sid =>
        simp only [stepCore, Option.some.injEq, Prod.mk.injEq] at hc
        obtain ⟨rfl, rfl, rfl⟩ := hc
        exact keep rfl rfl rfl rfl (fun _ h => h) (fun _ h => h)
      | sendTo sid p m =>
        simp only [stepCore, Option.some.injEq, Prod.mk.injEq] at hc
        obtain ⟨rfl, rfl, rfl⟩ := hc
        have hf := trySend_fields s
        apply keep <;> first
          | (unfold doSendTo; split <;> (try split) <;> simp_all)
          | exact fun _ h => h
      | bcast sid m =>
        simp only [stepCore, Option.some.injEq, Prod.mk.injEq] at hc
        obtain ⟨rfl, rfl, rfl⟩ := hc
        apply keep <;> first
          | (unfold doBcastStart; split <;> rfl)
          | exact fun _ h => absurd h (nogc _)
          | exact fun _ h => absurd h (nocl _)
      | bcastExcept sid p m =>
        simp only [stepCore, Option.some.injEq, Prod.mk.injEq] at hc
        obtain ⟨rfl, rfl, rfl⟩ := hc
        apply keep <;> first
          | (unfold doBcastStart; split <;> rfl)
          | exact fun _ h => absurd h (nogc _)
          | exact fun _ h => absurd h (nocl _)
  | bcastHold sid m targets =>
    simp only [stepCore] at hc
    split at hc
    · simp only [Option.some.injEq, Prod.mk.injEq] at hc
      obtain ⟨rfl, rfl, rfl⟩ := hc
      have hf := trySend_fields s pick sid m
      apply keep <;> first
        | exact fun _ h => absurd h (by simp [pendGC])
        | exact fun _ h => absurd h (by simp [pendClose])
        | (unfold doHold; simp only; split <;> simp [hf])
    · cases hc
  | removeClose sid c =>
    simp only [stepCore, Option.some.injEq, Prod.mk.injEq] at hc
    obtain ⟨rfl, rfl, rfl⟩ := hc
    refine ⟨fun sid h => Or.inl h, fun e he _ => Or.inl ⟨e, he, rfl⟩, fun sid' hp _ => Or.inr ?_, fun x h => Or.inl h,
      fun x h => List.mem_cons_of_mem _ h, fun x hp => Or.inl ?_⟩
    · simpa [pendGC] using hp
    · simp only [pendClose] at hp; subst hp; simp [doRemoveClose]
  | removeGC sid =>
    simp only [stepCore, Option.some.injEq, Prod.mk.injEq] at hc
    obtain ⟨rfl, rfl, rfl⟩ := hc
    refine ⟨?_, ?_, ?_, ?_, ?_, fun x hp => absurd hp (by simp [pendClose])⟩
    · intro sid' hs; left; unfold doRemoveGC at hs; split at hs
      · exact (List.mem_filter.mp hs).1
      · exact hs
    · intro e he _; left; refine ⟨e, ?_, rfl⟩; unfold doRemoveGC; split <;> exact he
    · intro sid' hp hreg
      simp only [pendGC] at hp; subst hp
      left
      unfold doRemoveGC at hreg ⊢
      split at hreg
      · simp at hreg
      · rename_i hcond
        simp only [Bool.and_eq_true, decide_eq_true_eq, List.isEmpty_iff, not_and] at hcond
        have hne := hcond hreg
        cases hco : connsOf s sid with
        | nil => exact absurd hco hne
        | cons x l =>
          have hx : x ∈ connsOf s sid := by rw [hco]; simp
          simp only [connsOf, List.mem_filter, beq_iff_eq] at hx
          rw [if_neg (by simpa using hcond)]
          exact ⟨x, (hg.conns_live x).mp hx.1, hx.2⟩
    · intro x hx; left; unfold doRemoveGC at hx; split at hx <;> exact hx
    · intro x hx; unfold doRemoveGC; split <;> exact hx
  | closeLoop targets =>
    simp only [stepCore] at hc
    split at hc
    · simp only [Option.some.injEq, Prod.mk.injEq] at hc
      obtain ⟨rfl, rfl, rfl⟩ := hc
      refine ⟨fun sid h => Or.inl h, fun e he _ => Or.inl ⟨e, he, rfl⟩, fun sid hp _ => absurd hp (by simp [pendGC]),
        fun x h => Or.inl h, fun x h => List.mem_cons_of_mem _ h, ?_⟩
      intro x hp
      simp only [pendClose] at hp
      by_cases hxp : x = pick
      · left; subst hxp; simp [doCloseLoop]
      · right
        have hm : x ∈ targets.erase pick := (List.mem_erase_of_ne hxp).mpr hp
        have hne : (targets.erase pick).isEmpty = false := by
          cases hh : targets.erase pick with
          | nil => rw [hh] at hm; cases hm
          | cons a l => rfl
        simp only [doCloseLoop, hne]
        exact hm
    · cases hc


theorem mem_set_cases {α : Type} {l : List α} {t : Nat} {old a : α} (b : α) (ha : a ∈ l) (ht : l[t]? = some old) :
    a = old ∨ a ∈ l.set t b := by
  obtain ⟨i, hi⟩ := List.mem_iff_getElem?.mp ha
  by_cases hit : t = i
  · subst hit; rw [ht] at hi; left; exact (Option.some.inj hi).symm
  · right
    apply List.mem_iff_getElem?.mpr
    exact ⟨i, by rw [List.getElem?_set_ne hit]; exact hi⟩

theorem new_mem_set {α : Type} {l : List α} {t : Nat} {old : α} (b : α) (ht : l[t]? = some old) : b ∈ l.set t b := by
  apply List.mem_iff_getElem?.mpr
  have hlt : t < l.length := by
    rcases List.getElem?_eq_some_iff.mp ht with ⟨h, _⟩; exact h
  exact ⟨t, by simp [List.getElem?_set_self, hlt]⟩

theorem leak_step {s s' : St} {t : Nat} {pick : Conn} (hi : Inv s) (hl : Leak s) (hs : step s t pick = some s') :
    Leak s' := by
  unfold step at hs
  cases hth : s.threads[t]? with
  | none => simp [hth] at hs
  | some th =>
    rw [hth] at hs
    simp only at hs
    split at hs
    · cases hs
    · cases hc : stepCore s t th pick with
      | none => simp [hc] at hs
      | some r =>
        obtain ⟨s1, pc, prog⟩ := r
        simp only [hc, Option.some.injEq] at hs
        subst hs
        have hmem : th ∈ s.threads := List.mem_of_getElem? hth
        obtain ⟨_, hthr, _, _, _, _⟩ := stepCore_spec hi hmem hc
        obtain ⟨g1, g2, g3, c1, c2, c3⟩ := stepCore_leak hi hmem hc
        have hnew : (⟨pc, prog⟩ : Thread) ∈ s1.threads.set t ⟨pc, prog⟩ := by
          rw [hthr]; exact new_mem_set _ hth
        constructor
        · intro sid hsid
          show (∃ e ∈ s1.live, e.sid = sid) ∨ ∃ th' ∈ s1.threads.set t ⟨pc, prog⟩, pendGC sid th'.pc
          have fromPend : pendGC sid pc → ∃ th' ∈ s1.threads.set t ⟨pc, prog⟩, pendGC sid th'.pc :=
            fun h => ⟨⟨pc, prog⟩, hnew, h⟩
          rcases g1 sid hsid with hreg | hlive
          · rcases hl.gc sid hreg with ⟨e, he, hes⟩ | ⟨th', hth', hp⟩
            · rcases g2 e he (hes ▸ hsid) with h | h
              · left; rw [← hes]; exact h
              · right; exact fromPend (hes ▸ h)
            · rcases mem_set_cases (⟨pc, prog⟩ : Thread) hth' hth with rfl | hin
              · rcases g3 sid hp hsid with h | h
                · left; exact h
                · right; exact fromPend h
              · right; exact ⟨th', hthr ▸ hin, hp⟩
          · left; exact hlive
        · intro c hcg
          show c ∈ s1.closed ∨ ∃ th' ∈ s1.threads.set t ⟨pc, prog⟩, pendClose c th'.pc
          have fromPend : pendClose c pc → ∃ th' ∈ s1.threads.set t ⟨pc, prog⟩, pendClose c th'.pc :=
            fun h => ⟨⟨pc, prog⟩, hnew, h⟩
          rcases c1 c hcg with hold | hcl | hp
          · rcases hl.close c hold with hcl | ⟨th', hth', hp⟩
            · left; exact c2 c hcl
            · rcases mem_set_cases (⟨pc, prog⟩ : Thread) hth' hth with rfl | hin
              · rcases c3 c hp with h | h
                · left; exact h
                · right; exact fromPend h
              · right; exact ⟨th', hthr ▸ hin, hp⟩
          · left; exact hcl
          · right; exact fromPend hp

theorem leak_reachable {cap : Nat} {progs : List (List Op)} {s : St} (h : Reachable cap progs s) : Leak s := by
  induction h with
  | init => constructor <;> simp [init]
  | act a hr hact ih =>
    cases a with
    | thr t pick => exact leak_step (inv_reachable hr) ih hact
    | writer c =>
      have hd : deliver _ c = some _ := hact
      unfold deliver at hd
      split at hd
      · cases hd
      · simp only [Option.some.injEq] at hd; subst hd
        exact ⟨ih.gc, ih.close⟩


/-! ## The property -/

variable {cap : Nat} {progs : List (List Op)} {s : St}

/-- **No crash**: in no interleaving does any thread send on a closed channel. -/
theorem C11_no_panic (h : Reachable cap progs s) : s.panicked = false := (inv_reachable h).glob.no_panic

/-- the tables are exactly the specification: `sessions`/`byPeerID` hold the connected peers and nobody else -/
theorem C11_tables_are_spec (h : Reachable cap progs s) :
    (∀ e, e ∈ s.conns ↔ e ∈ s.live) ∧ (∀ e, e ∈ s.idx ↔ e ∈ s.live) :=
  ⟨(inv_reachable h).glob.conns_live, (inv_reachable h).glob.idx_live⟩

/-- **Routable**: a connected peer (added, not replaced, its remove not begun, its session not closed) is found by
`SendTo`, on an open channel, and the envelope is queued there (or skipped because 256 are waiting) — whatever
else is going on, and whether or not the session was empty at some time before. -/
theorem C11_routable (h : Reachable cap progs s) {e : Entry} (he : e ∈ s.live) (t : Nat) (m : Msg) :
    (doSendTo s t e.sid e.peer m).results = s.results ++ [.sent t e.sid e.peer true] ∧
    e.conn ∉ s.closed ∧
    (⟨e.conn, e.sid, m⟩ ∈ (doSendTo s t e.sid e.peer m).inbox ∨ ⟨e.conn, e.sid, m⟩ ∈ (doSendTo s t e.sid e.peer m).dropped) := by
  have hg := (inv_reachable h).glob
  have hidx := idxFind_live hg he
  have hany : s.conns.any (fun x => x.sid == e.sid && x.conn == e.conn) = true := by
    simp only [List.any_eq_true, Bool.and_eq_true, beq_iff_eq]
    exact ⟨e, (hg.conns_live e).mpr he, rfl, rfl⟩
  have hnc := hg.live_not_closed he
  refine ⟨?_, hnc, ?_⟩
  · simp [doSendTo, hidx, hany, (trySend_fields s e.conn e.sid m).2.2.2.2.2.2.2.2.2.2]
  · simp only [doSendTo, hidx, hany, if_true, trySend, if_neg hnc]
    split <;> simp

/-- `SendTo` to a peer id nobody is connected under reports "not found" -/
theorem C11_not_connected_not_found (h : Reachable cap progs s) (sid : Sid) (p : Peer)
    (hn : ∀ e ∈ s.live, ¬ (e.sid = sid ∧ e.peer = p)) (t : Nat) (m : Msg) :
    doSendTo s t sid p m = { s with results := s.results ++ [.sent t sid p false] } := by
  have hg := (inv_reachable h).glob
  cases hf : idxFind s sid p with
  | none => simp [doSendTo, hf]
  | some e =>
    obtain ⟨he, hs, hp⟩ := idxFind_some hf
    exact absurd ⟨hs, hp⟩ (hn e ((hg.idx_live e).mp he))

/-- what `List` returns -/
def listPeers (s : St) (sid : Sid) : List Peer := if sid ∈ s.reg then (connsOf s sid).map (·.peer) else []

/-- **Listed = connected**: `List` names exactly the peer ids connected to the session. -/
theorem C11_listed_iff_connected (h : Reachable cap progs s) (sid : Sid) (p : Peer) :
    p ∈ listPeers s sid ↔ ∃ e ∈ s.live, e.sid = sid ∧ e.peer = p := by
  have hg := (inv_reachable h).glob
  unfold listPeers
  split
  · simp only [connsOf, List.mem_map, List.mem_filter, beq_iff_eq, hg.conns_live]
    constructor
    · rintro ⟨e, ⟨he, hs⟩, hp⟩; exact ⟨e, he, hs, hp⟩
    · rintro ⟨e, he, hs, hp⟩; exact ⟨e, ⟨he, hs⟩, hp⟩
  · rename_i hreg
    constructor
    · intro hm; cases hm
    · rintro ⟨e, he, hs, _⟩; exact absurd (hs ▸ hg.live_reg e he) hreg

/-- **Left = unlisted, for good**: once a connection was unregistered (its remove began, it was replaced, its
session was closed) it is in neither table … -/
theorem C11_left_unlisted (h : Reachable cap progs s) {c : Conn} (hc : c ∈ s.gone) :
    (∀ e ∈ s.conns, e.conn ≠ c) ∧ (∀ e ∈ s.idx, e.conn ≠ c) := by
  have hg := (inv_reachable h).glob
  exact ⟨fun e he heq => hg.live_open e ((hg.conns_live e).mp he) (heq ▸ hc),
         fun e he heq => hg.live_open e ((hg.idx_live e).mp he) (heq ▸ hc)⟩

/-- … and it stays unregistered in every later state -/
theorem C11_gone_forever (h : Reachable cap progs s) {s' : St} (a : Act) (ha : act s a = some s') {c : Conn}
    (hc : c ∈ s.gone) : c ∈ s'.gone := by
  cases a with
  | writer w =>
    have hd : deliver s w = some s' := ha
    unfold deliver at hd; split at hd
    · cases hd
    · simp only [Option.some.injEq] at hd; subst hd; exact hc
  | thr t pick =>
    have hs : step s t pick = some s' := ha
    unfold step at hs
    cases hth : s.threads[t]? with
    | none => simp [hth] at hs
    | some th =>
      rw [hth] at hs; simp only at hs
      split at hs
      · cases hs
      · cases hcore : stepCore s t th pick with
        | none => simp [hcore] at hs
        | some r =>
          obtain ⟨s1, pc, prog⟩ := r
          simp only [hcore, Option.some.injEq] at hs
          subst hs
          exact (stepCore_spec (inv_reachable h) (List.mem_of_getElem? hth) hcore).2.2.2.1 c hc

/-- beginning `remove` unregisters the connection at once (first locked region) -/
theorem C11_remove_unregisters (e : Entry) : ∀ x ∈ (doRemoveStart s e).1.live, x.conn ≠ e.conn := by
  intro x hx
  unfold doRemoveStart at hx
  split at hx <;> (simp only [List.mem_filter, bne_iff_ne, ne_eq] at hx; exact hx.2)

/-- **No leak**: when no operation is in progress, a session nobody is connected to has no routing state left, and
every channel of an unregistered connection is closed. -/
theorem C11_no_leak (h : Reachable cap progs s) (hq : ∀ th ∈ s.threads, th.pc = .idle) :
    (∀ sid, (∀ e ∈ s.live, e.sid ≠ sid) → sid ∉ s.reg ∧ (∀ e ∈ s.conns, e.sid ≠ sid) ∧ (∀ e ∈ s.idx, e.sid ≠ sid)) ∧
    (∀ c ∈ s.gone, c ∈ s.closed) := by
  have hg := (inv_reachable h).glob
  have hl := leak_reachable h
  constructor
  · intro sid hempty
    refine ⟨?_, fun e he => hempty e ((hg.conns_live e).mp he), fun e he => hempty e ((hg.idx_live e).mp he)⟩
    intro hreg
    rcases hl.gc sid hreg with ⟨e, he, hes⟩ | ⟨th, hth, hp⟩
    · exact hempty e he hes
    · rw [hq th hth] at hp; exact hp
  · intro c hc
    rcases hl.close c hc with hcl | ⟨th, hth, hp⟩
    · exact hcl
    · rw [hq th hth] at hp; exact absurd hp (by simp [pendClose])

/-- the read lock is held by exactly the threads inside a broadcast loop; steps that need the write lock are
disabled meanwhile (`step`), so the lock is only ever held within the steps of this model -/
theorem C11_lock_discipline (h : Reachable cap progs s) : s.rlock = (s.threads.filter isHold).length :=
  (inv_reachable h).lock

/-- **No deadlock**: as long as some thread has not finished its program, some thread can take a step. -/
theorem C11_progress (h : Reachable cap progs s) (hu : ∃ th ∈ s.threads, finished th = false) :
    ∃ t pick, (step s t pick).isSome = true := by
  have hi := inv_reachable h
  by_cases h0 : s.rlock = 0
  · obtain ⟨th, hth, hfin⟩ := hu
    obtain ⟨t, ht⟩ := List.mem_iff_getElem?.mp hth
    have hguard : (needsWrite th && s.rlock != 0) = false := by simp [h0]
    have hpc := hi.pcs th hth
    obtain ⟨tpc, tprog⟩ := th
    have core : ∃ pick, (stepCore s t ⟨tpc, tprog⟩ pick).isSome = true := by
      cases tpc with
      | idle =>
        cases tprog with
        | nil => simp [finished] at hfin
        | cons op rest =>
          refine ⟨0, ?_⟩
          cases op <;> simp only [stepCore] <;> (try split) <;> rfl
      | bcastHold sid m targets =>
        have := no_hold_of_zero hi h0 _ hth
        simp [isHold, pcHold] at this
      | removeClose sid c => exact ⟨0, rfl⟩
      | removeGC sid => exact ⟨0, rfl⟩
      | closeLoop targets =>
        cases targets with
        | nil => exact absurd rfl hpc.1
        | cons c cs => exact ⟨c, by simp [stepCore]⟩
    obtain ⟨pick, hcore⟩ := core
    refine ⟨t, pick, ?_⟩
    unfold step
    rw [ht]; simp only [hguard]
    cases hc : stepCore s t ⟨tpc, tprog⟩ pick with
    | none => rw [hc] at hcore; cases hcore
    | some r => rfl
  · have hpos : 0 < (s.threads.filter isHold).length := by rw [← hi.lock]; omega
    obtain ⟨th, hmem⟩ := List.exists_mem_of_length_pos hpos
    obtain ⟨hth, hh⟩ := List.mem_filter.mp hmem
    obtain ⟨t, ht⟩ := List.mem_iff_getElem?.mp hth
    have hpc := hi.pcs th hth
    obtain ⟨tpc, tprog⟩ := th
    cases tpc with
    | bcastHold sid m targets =>
      cases targets with
      | nil => exact absurd rfl hpc.1
      | cons c cs =>
        refine ⟨t, c, ?_⟩
        unfold step
        rw [ht]
        simp [needsWrite, stepCore]
    | idle => simp [isHold, pcHold] at hh
    | removeClose _ _ => simp [isHold, pcHold] at hh
    | removeGC _ => simp [isHold, pcHold] at hh
    | closeLoop _ => simp [isHold, pcHold] at hh

/-- isolation at the hub: an envelope is only ever queued on the channel of a connection that was added to the
session the operation named -/
theorem C11_session_scoped (h : Reachable cap progs s) :
    ∀ d ∈ s.inbox ++ s.outbox ++ s.dropped, ∃ e ∈ s.closures, e.conn = d.conn ∧ e.sid = d.sid :=
  (inv_reachable h).glob.isolated


/-! ### non-vacuity: concrete runs that meet the hypotheses above -/

theorem reachable_run (cap : Nat) (progs : List (List Op)) (sched : List Act) :
    Reachable cap progs (run (TV.Hub.init cap progs) sched) := by
  suffices ∀ s, Reachable cap progs s → Reachable cap progs (run s sched) from this _ .init
  induction sched with
  | nil => intro s hs; exact hs
  | cons a as ih =>
    intro s hs
    simp only [run]
    cases ha : act s a with
    | none => exact ih s hs
    | some s' => exact ih s' (.act a hs ha)

/-- two peers connected, a broadcast half done (read lock held), a remove waiting for the write lock -/
def demoProgs : List (List Op) := [[.add 1 1 1, .add 1 2 2, .bcast 1 7], [.remove 1]]
def demoState : St := run (TV.Hub.init 256 demoProgs) [.thr 0 0, .thr 0 0, .thr 0 0, .thr 0 1, .thr 1 0]

example : Reachable 256 demoProgs demoState := reachable_run _ _ _
example : demoState.live = [⟨1, 1, 1⟩, ⟨1, 2, 2⟩] ∧ demoState.rlock = 1 ∧
    demoState.threads = [⟨.bcastHold 1 7 [2], []⟩, ⟨.idle, [.remove 1]⟩] ∧
    demoState.inbox = [⟨1, 1, 7⟩] := by decide
/-- the remove step was skipped: the write lock is not available while the broadcast is inside -/
example : step demoState 1 0 = none := by decide
example : ∃ th ∈ demoState.threads, finished th = false := ⟨_, List.mem_cons_self .., rfl⟩

/-- quiescent state after a replacement, a CloseSession and removes: hypotheses of `C11_no_leak` -/
def demoProgs2 : List (List Op) :=
  [[.add 1 1 1, .remove 1], [.add 1 2 1, .sendTo 1 1 5, .remove 2], [.add 2 3 3, .closeSession 2]]
def demoState2 : St := run (TV.Hub.init 256 demoProgs2)
  [.thr 0 0, .thr 1 0, .thr 2 0, .thr 1 0, .thr 0 0, .thr 2 0, .thr 2 3, .thr 1 0, .thr 1 0, .thr 1 0]

example : Reachable 256 demoProgs2 demoState2 := reachable_run _ _ _
example : (∀ th ∈ demoState2.threads, th.pc = .idle) ∧ demoState2.gone = [1, 3, 2] ∧ demoState2.reg = [] ∧
    demoState2.results = [.sent 1 1 1 true] ∧ demoState2.inbox = [⟨2, 1, 5⟩] := by decide

/-! ## the decision structure of the source, as regenerated on this run (xlate, `Gen/Shapes.lean`) -/

open TV.Gen.Shapes in
/-- `Add` with its `remove` closure (replacement test, still-registered test, index ownership test, GC of the *current* empty map),
`SendTo`, `BroadcastExcept`, `CloseSession`: every `if` condition in source order -/
theorem C11_source_shapes :
    hub_add_and_remove = ["err != nil", "h.sessions[sessionID] == nil", "h.byPeerID[sessionID] == nil", "exists && oldConnID != p.ConnID",
      "exists && oldConnID != p.ConnID ; ok", "!exists", "!stillExists", "exists", "exists ; peerIDMap[p.PeerID] == p.ConnID",
      "ok && len(current) == 0"] ∧
    hub_sendto = ["!exists", "!exists", "!exists"] ∧
    hub_bcast_except = ["!exists", "exists", "connID == exceptConnID"] ∧
    hub_close_session = ["!exists"] ∧
    -- the per-connection writer goroutine: on a failed socket write it only stops consuming; it never closes the send channel
    -- (closing is `closeSend`'s, after the connection was unlinked) - the model's writer has no step that closes anything
    hub_writer = ["{ defer close(done) for env := range ch { if err := send(env); err != nil { return } } }"] := by decide

end TV.C11
