import ThruVerif.Model.Server
import ThruVerif.Gen.Shapes
import Mathlib.Data.List.Nodup
/-!
# C14 — Join codes live exactly as long as their session; server limits hold

Everything is proved for **all sequences of atomic resource operations** (`ROp`), i.e. for every interleaving of
concurrently running handlers, and then transferred to handler-level histories (`handle`), each of which is shown
to be such a sequence (`handle_is_rrun`).
-/
namespace TV.C14
open TV.Server

/-! ## the store -/

structure StoreInv (st : Store) : Prop where
  idsNodup : (st.sessions.map (·.id)).Nodup
  codesNodup : (st.byCode.map (·.1)).Nodup
  fwd : ∀ s ∈ st.sessions, (s.code, s.id) ∈ st.byCode
  bwd : ∀ e ∈ st.byCode, ∃ s ∈ st.sessions, s.id = e.2 ∧ s.code = e.1
  fresh : ∀ s ∈ st.sessions, s.id < st.nextId

theorem sess_unique {l : List Sess} (h : (l.map (·.id)).Nodup) {a b : Sess} (ha : a ∈ l) (hb : b ∈ l)
    (hid : a.id = b.id) : a = b :=
  List.inj_on_of_nodup_map h ha hb hid

theorem code_unique {l : List (Nat × Nat)} (h : (l.map (·.1)).Nodup) {a b : Nat × Nat} (ha : a ∈ l) (hb : b ∈ l)
    (hc : a.1 = b.1) : a = b :=
  List.inj_on_of_nodup_map h ha hb hc

/-- live sessions have pairwise distinct join codes -/
theorem StoreInv.codes_distinct {st : Store} (h : StoreInv st) {a b : Sess} (ha : a ∈ st.sessions)
    (hb : b ∈ st.sessions) (hc : a.code = b.code) : a = b := by
  have e1 := h.fwd a ha
  have e2 := h.fwd b hb
  have := code_unique h.codesNodup e1 e2 hc
  exact sess_unique h.idsNodup ha hb (by simpa using congrArg Prod.snd this)

theorem pickCode_fresh {byCode : List (Nat × Nat)} {cands : List Nat} {c : Nat} (h : pickCode byCode cands = some c) :
    ∀ e ∈ byCode, e.1 ≠ c := by
  induction cands with
  | nil => simp [pickCode] at h
  | cons x xs ih =>
    simp only [pickCode] at h
    split at h
    · exact ih h
    · rename_i hn
      cases h
      intro e he hc
      apply hn
      simp only [List.any_eq_true, beq_iff_eq]
      exact ⟨e, he, hc⟩

theorem pickCode_mem {byCode : List (Nat × Nat)} {cands : List Nat} {c : Nat} (h : pickCode byCode cands = some c) :
    c ∈ cands := by
  induction cands with
  | nil => simp [pickCode] at h
  | cons x xs ih =>
    simp only [pickCode] at h
    split at h
    · exact List.mem_cons_of_mem _ (ih h)
    · cases h; exact List.mem_cons_self ..

/-- the collision loop ends as soon as the generator yields a code that is not registered -/
theorem pickCode_terminates {byCode : List (Nat × Nat)} {cands : List Nat} {c : Nat} (hc : c ∈ cands)
    (hf : ∀ e ∈ byCode, e.1 ≠ c) : ∃ c', pickCode byCode cands = some c' := by
  induction cands with
  | nil => cases hc
  | cons x xs ih =>
    simp only [pickCode]
    split
    · rename_i hx
      rcases List.mem_cons.mp hc with rfl | hc'
      · exfalso
        simp only [List.any_eq_true, beq_iff_eq] at hx
        obtain ⟨e, he, hec⟩ := hx
        exact hf e he hec
      · exact ih hc'
    · exact ⟨x, rfl⟩

theorem filter_id_fresh {l : List Sess} {n : Nat} (h : ∀ s ∈ l, s.id < n) : l.filter (fun x => x.id != n) = l := by
  rw [List.filter_eq_self]
  intro s hs
  have := h s hs
  simp only [bne_iff_ne, ne_eq]
  omega

theorem filter_code_fresh {l : List (Nat × Nat)} {c : Nat} (h : ∀ e ∈ l, e.1 ≠ c) : l.filter (fun e => e.1 != c) = l := by
  rw [List.filter_eq_self]
  intro e he
  simpa using h e he

theorem create_inv {st : Store} (h : StoreInv st) (max now : Nat) (cands : List Nat) :
    StoreInv (st.create max now cands).1 := by
  unfold Store.create
  split
  · exact h
  · split
    · exact h
    · rename_i c hc
      have hfc := pickCode_fresh hc
      simp only [filter_id_fresh h.fresh, filter_code_fresh hfc]
      constructor
      · simp only [List.map_append, List.map_cons, List.map_nil]
        rw [List.nodup_append]
        refine ⟨h.idsNodup, by simp, ?_⟩
        intro a ha b hb
        simp only [List.mem_singleton] at hb
        subst hb
        obtain ⟨s, hs, rfl⟩ := List.mem_map.mp ha
        have := h.fresh s hs
        omega
      · simp only [List.map_append, List.map_cons, List.map_nil]
        rw [List.nodup_append]
        refine ⟨h.codesNodup, by simp, ?_⟩
        intro a ha b hb
        simp only [List.mem_singleton] at hb
        subst hb
        obtain ⟨e, he, rfl⟩ := List.mem_map.mp ha
        exact hfc e he
      · intro s hs
        rcases List.mem_append.mp hs with hs | hs
        · exact List.mem_append_left _ (h.fwd s hs)
        · simp only [List.mem_singleton] at hs
          subst hs
          simp
      · intro e he
        rcases List.mem_append.mp he with he | he
        · obtain ⟨s, hs, h1, h2⟩ := h.bwd e he
          exact ⟨s, List.mem_append_left _ hs, h1, h2⟩
        · simp only [List.mem_singleton] at he
          subst he
          exact ⟨_, List.mem_append_right _ (List.mem_singleton.mpr rfl), rfl, rfl⟩
      · intro s hs
        rcases List.mem_append.mp hs with hs | hs
        · have := h.fresh s hs
          simp only
          omega
        · simp only [List.mem_singleton] at hs
          subst hs
          simp

/-- dropping session `s0` and the entry of its code keeps the two maps mutually inverse -/
theorem drop_inv {st : Store} (h : StoreInv st) {s0 : Sess} (hs0 : s0 ∈ st.sessions) :
    StoreInv { st with sessions := st.sessions.filter (fun x => x.id != s0.id)
                       byCode := st.byCode.filter (fun e => e.1 != s0.code) } := by
  constructor
  · exact (h.idsNodup.sublist (List.Sublist.map _ (List.filter_sublist))).imp id |> fun x => x
  · exact h.codesNodup.sublist (List.Sublist.map _ (List.filter_sublist))
  · intro s hs
    simp only [List.mem_filter, bne_iff_ne, ne_eq] at hs ⊢
    refine ⟨h.fwd s hs.1, ?_⟩
    intro hc
    exact hs.2 (congrArg Sess.id (h.codes_distinct hs.1 hs0 hc))
  · intro e he
    simp only [List.mem_filter, bne_iff_ne, ne_eq] at he
    obtain ⟨s, hs, h1, h2⟩ := h.bwd e he.1
    refine ⟨s, ?_, h1, h2⟩
    simp only [List.mem_filter, bne_iff_ne, ne_eq]
    refine ⟨hs, ?_⟩
    intro hid
    have := sess_unique h.idsNodup hs hs0 hid
    subst this
    exact he.2 h2.symm
  · intro s hs
    simp only [List.mem_filter] at hs
    exact h.fresh s hs.1

theorem find_sess {l : List Sess} {id : Nat} {s : Sess} (h : l.find? (fun x => x.id == id) = some s) :
    s ∈ l ∧ s.id = id := by
  have := List.find?_some h
  exact ⟨List.mem_of_find?_eq_some h, by simpa using this⟩

theorem find_code {l : List (Nat × Nat)} {c : Nat} {e : Nat × Nat} (h : l.find? (fun x => x.1 == c) = some e) :
    e ∈ l ∧ e.1 = c := by
  have := List.find?_some h
  exact ⟨List.mem_of_find?_eq_some h, by simpa using this⟩

theorem getByCode_inv {st : Store} (h : StoreInv st) (code now : Nat) : StoreInv (st.getByCode code now).1 := by
  unfold Store.getByCode
  split
  · exact h
  · rename_i c id hf
    split
    · exact h
    · rename_i s hs
      split
      · obtain ⟨hmem, hid⟩ := find_sess hs
        obtain ⟨hemem, hec⟩ := find_code hf
        obtain ⟨s', hs', h1, h2⟩ := h.bwd _ hemem
        have : s' = s := sess_unique h.idsNodup hs' hmem (by simp_all)
        subst this
        simp only at hec h1 h2
        have := drop_inv h hmem
        rw [hid, h2, hec] at this
        exact this
      · exact h

theorem delete_inv {st : Store} (h : StoreInv st) (id : Nat) : StoreInv (st.delete id) := by
  unfold Store.delete
  split
  · exact h
  · rename_i s hs
    obtain ⟨hmem, hid⟩ := find_sess hs
    have := drop_inv h hmem
    rw [hid] at this
    exact this

/-! ## lifetime -/

/-- `GetByJoinCode` answers with a session exactly when one with that code is stored and has not expired -/
theorem getByCode_some_iff {st : Store} (h : StoreInv st) (code now : Nat) (s : Sess) :
    (st.getByCode code now).2 = some s ↔ s ∈ st.sessions ∧ s.code = code ∧ s.expired now = false := by
  unfold Store.getByCode
  constructor
  · intro hr
    split at hr
    · cases hr
    · rename_i c id hf
      split at hr
      · cases hr
      · rename_i s' hs'
        split at hr
        · cases hr
        · rename_i hexp
          cases hr
          obtain ⟨hmem, hid⟩ := find_sess hs'
          obtain ⟨hemem, hec⟩ := find_code hf
          obtain ⟨s'', hs'', h1, h2⟩ := h.bwd _ hemem
          have : s'' = s := sess_unique h.idsNodup hs'' hmem (by simp_all)
          subst this
          exact ⟨hmem, by simp_all, by simpa using hexp⟩
  · rintro ⟨hmem, hc, hexp⟩
    have he := h.fwd s hmem
    have hfind : ∃ e, st.byCode.find? (fun e => e.1 == code) = some e := by
      cases hfc : st.byCode.find? (fun e => e.1 == code) with
      | some e => exact ⟨e, rfl⟩
      | none =>
        rw [List.find?_eq_none] at hfc
        have := hfc _ he
        simp [hc] at this
    obtain ⟨e, hfe⟩ := hfind
    obtain ⟨hemem, hec⟩ := find_code hfe
    have hee : e = (s.code, s.id) := code_unique h.codesNodup hemem he (by simp [hec, hc])
    subst hee
    simp only [hfe]
    have hfind2 : ∃ x, st.sessions.find? (fun x => x.id == s.id) = some x := by
      cases hfs : st.sessions.find? (fun x => x.id == s.id) with
      | some x => exact ⟨x, rfl⟩
      | none =>
        rw [List.find?_eq_none] at hfs
        have := hfs _ hmem
        simp at this
    obtain ⟨x, hfx⟩ := hfind2
    obtain ⟨hxmem, hxid⟩ := find_sess hfx
    have : x = s := sess_unique h.idsNodup hxmem hmem hxid
    subst this
    simp [hfx, hexp]

/-- an expired session is never returned, whether or not its timer has fired yet -/
theorem expired_not_found {st : Store} (h : StoreInv st) {s : Sess} (_hs : s ∈ st.sessions) {now : Nat}
    (hexp : s.expired now = true) : (st.getByCode s.code now).2 ≠ some s := by
  intro hc
  have := (getByCode_some_iff h s.code now s).mp hc
  simp [hexp] at this

/-- expiry is permanent: time only moves forward -/
theorem expired_mono {s : Sess} {now now' : Nat} (h : s.expired now = true) (hle : now ≤ now') : s.expired now' = true := by
  simp only [Sess.expired, Bool.and_eq_true, bne_iff_ne, ne_eq, decide_eq_true_eq] at h ⊢
  exact ⟨h.1, by omega⟩

/-- `Store.Delete` removes the session: its code finds nothing of it afterwards -/
theorem delete_gone {st : Store} (_h : StoreInv st) (id : Nat) : ∀ s ∈ (st.delete id).sessions, s.id ≠ id := by
  unfold Store.delete
  split
  · rename_i hn
    rw [List.find?_eq_none] at hn
    intro s hs
    simpa using hn s hs
  · intro s hs
    simp only [List.mem_filter, bne_iff_ne, ne_eq] at hs
    exact hs.2

/-! ## the shared state under arbitrary sequences of atomic operations -/

structure Inv (s : St) : Prop where
  store : StoreInv s.store
  sessCap : s.cfg.maxSessions > 0 → s.store.sessions.length ≤ s.cfg.maxSessions
  recvCap : s.cfg.maxRecv > 0 → ∀ sid, receiversOf s.members sid ≤ s.cfg.maxRecv
  connCap : s.cfg.maxWS > 0 → s.inUse ≤ s.cfg.maxWS

theorem inv_init (cfg : Cfg) (ttl : Nat) : Inv (init cfg ttl) := by
  constructor
  · constructor <;> simp [init]
  · intro _; simp [init]
  · intro _ sid; simp [init, receiversOf]
  · intro _; simp [init]

theorem rstep_cfg (s : St) (o : ROp) : (rstep s o).1.cfg = s.cfg := by
  cases o <;> simp only [rstep] <;> (repeat' split) <;> rfl

theorem receiversOf_filter_le (ms : List Member) (p : Member → Bool) (sid : Nat) :
    receiversOf (ms.filter p) sid ≤ receiversOf ms sid := by
  unfold receiversOf
  rw [List.filter_filter]
  apply List.Sublist.length_le
  apply List.monotone_filter_right
  intro m hm
  simp only [Bool.and_eq_true] at hm ⊢
  exact hm.1

theorem receiversOf_hubAdd (ms : List Member) (m : Member) (sid : Nat) :
    receiversOf (hubAdd ms m) sid ≤ receiversOf ms sid + (if m.sid = sid ∧ m.role = .receiver then 1 else 0) := by
  unfold hubAdd
  have h1 := receiversOf_filter_le ms (fun x => !(x.sid == m.sid && x.peer == m.peer) && x.conn != m.conn) sid
  unfold receiversOf at *
  rw [List.filter_append, List.length_append]
  have : ([m].filter (fun m' => m'.sid == sid && m'.role == .receiver)).length =
      (if m.sid = sid ∧ m.role = .receiver then 1 else 0) := by
    by_cases hc : m.sid = sid ∧ m.role = .receiver
    · simp [hc]
    · simp only [hc, if_false]
      rw [List.filter_cons]
      have : (m.sid == sid && m.role == Role.receiver) = false := by
        rcases not_and_or.mp hc with h | h <;> simp [h]
      simp [this]
  omega

theorem rstep_inv {s : St} (h : Inv s) (o : ROp) : Inv (rstep s o).1 := by
  have hcfg := rstep_cfg s o
  cases o with
  | create now cands =>
    have hst := create_inv h.store s.cfg.maxSessions now cands
    have hlen : s.cfg.maxSessions > 0 → (s.store.create s.cfg.maxSessions now cands).1.sessions.length ≤ s.cfg.maxSessions := by
      intro hpos
      unfold Store.create
      split
      · exact h.sessCap hpos
      · rename_i hn
        split
        · exact h.sessCap hpos
        · simp only [List.length_append, List.length_cons, List.length_nil]
          have := List.length_filter_le (fun x : Sess => x.id != s.store.nextId) s.store.sessions
          have hlt : s.store.sessions.length < s.cfg.maxSessions := by
            by_contra hc
            exact hn ⟨hpos, by omega⟩
          omega
    simp only [rstep]
    split <;> rename_i heq <;>
      (have e1 : (s.store.create s.cfg.maxSessions now cands).1 = _ := congrArg Prod.fst heq
       simp only at e1
       constructor
       · simpa [← e1] using hst
       · simpa [← e1] using hlen
       · exact h.recvCap
       · exact h.connCap)
  | lookup code now =>
    have hst := getByCode_inv h.store code now
    have hlen : (s.store.getByCode code now).1.sessions.length ≤ s.store.sessions.length := by
      unfold Store.getByCode
      split
      · exact Nat.le_refl _
      · split
        · exact Nat.le_refl _
        · split
          · exact List.length_filter_le ..
          · exact Nat.le_refl _
    simp only [rstep]
    split <;> rename_i heq <;>
      (have e1 : (s.store.getByCode code now).1 = _ := congrArg Prod.fst heq
       simp only at e1
       constructor
       · simpa [← e1] using hst
       · intro hp
         have := h.sessCap hp
         simp only [← e1]
         omega
       · exact h.recvCap
       · exact h.connCap)
  | delete sid =>
    simp only [rstep]
    constructor
    · exact delete_inv h.store sid
    · intro hp
      have := h.sessCap hp
      have hl : (s.store.delete sid).sessions.length ≤ s.store.sessions.length := by
        unfold Store.delete
        split
        · exact Nat.le_refl _
        · exact List.length_filter_le ..
      simp only
      omega
    · exact h.recvCap
    · exact h.connCap
  | acquire =>
    simp only [rstep]
    split
    · exact h
    · rename_i hn
      constructor
      · exact h.store
      · exact h.sessCap
      · exact h.recvCap
      · intro hp
        simp only
        have : s.inUse < s.cfg.maxWS := by
          by_contra hc
          exact hn ⟨hp, by omega⟩
        omega
  | release =>
    simp only [rstep]
    constructor
    · exact h.store
    · exact h.sessCap
    · exact h.recvCap
    · intro hp
      have := h.connCap hp
      simp only
      omega
  | register m =>
    simp only [rstep]
    split
    · exact h
    · rename_i hn
      constructor
      · exact h.store
      · exact h.sessCap
      · intro hp sid
        have hb := receiversOf_hubAdd s.members m sid
        have hold := h.recvCap hp sid
        simp only
        by_cases hc : m.sid = sid ∧ m.role = .receiver
        · simp only [hc, and_self, if_true] at hb
          have : receiversOf s.members m.sid < s.cfg.maxRecv := by
            by_contra hcc
            exact hn ⟨hp, hc.2, by omega⟩
          rw [hc.1] at this
          omega
        · simp only [hc, if_false] at hb
          omega
      · exact h.connCap
  | remove conn =>
    simp only [rstep]
    constructor
    · exact h.store
    · exact h.sessCap
    · intro hp sid
      have := receiversOf_filter_le s.members (fun x => x.conn != conn) sid
      have := h.recvCap hp sid
      simp only
      omega
    · exact h.connCap
  | closeSession sid =>
    simp only [rstep]
    constructor
    · exact h.store
    · exact h.sessCap
    · intro hp sid'
      have := receiversOf_filter_le s.members (fun x => x.sid != sid) sid'
      have := h.recvCap hp sid'
      simp only
      omega
    · exact h.connCap

theorem rrun_inv {s : St} (h : Inv s) (ops : List ROp) : Inv (rrun s ops) := by
  induction ops generalizing s with
  | nil => exact h
  | cons o os ih => exact ih (rstep_inv h o)

theorem rrun_cfg (s : St) (ops : List ROp) : (rrun s ops).cfg = s.cfg := by
  induction ops generalizing s with
  | nil => rfl
  | cons o os ih => rw [rrun, ih, rstep_cfg]


/-! ## a session that is gone stays gone -/

/-- the id was handed out and no stored session carries it -/
def Dead (s : St) (id : Nat) : Prop := id < s.store.nextId ∧ ∀ x ∈ s.store.sessions, x.id ≠ id

theorem rstep_dead {s : St} {id : Nat} (h : Dead s id) (o : ROp) : Dead (rstep s o).1 id := by
  obtain ⟨hlt, hno⟩ := h
  cases o with
  | create now cands =>
    have key : Dead { s with store := (s.store.create s.cfg.maxSessions now cands).1 } id := by
      unfold Store.create
      split
      · exact ⟨hlt, hno⟩
      · split
        · exact ⟨hlt, hno⟩
        · refine ⟨Nat.lt_succ_of_lt hlt, ?_⟩
          intro x hx
          simp only [List.mem_append, List.mem_filter, List.mem_singleton] at hx
          rcases hx with hx | hx
          · exact hno x hx.1
          · subst hx
            simp only
            omega
    simp only [rstep]
    split <;> rename_i heq <;>
      (have e1 : (s.store.create s.cfg.maxSessions now cands).1 = _ := congrArg Prod.fst heq
       simp only at e1
       simpa [Dead, ← e1] using key)
  | lookup code now =>
    have key : Dead { s with store := (s.store.getByCode code now).1 } id := by
      unfold Store.getByCode
      split
      · exact ⟨hlt, hno⟩
      · split
        · exact ⟨hlt, hno⟩
        · split
          · refine ⟨hlt, ?_⟩
            intro x hx
            simp only [List.mem_filter] at hx
            exact hno x hx.1
          · exact ⟨hlt, hno⟩
    simp only [rstep]
    split <;> rename_i heq <;>
      (have e1 : (s.store.getByCode code now).1 = _ := congrArg Prod.fst heq
       simp only at e1
       simpa [Dead, ← e1] using key)
  | delete sid =>
    simp only [rstep, Dead]
    unfold Store.delete
    split
    · exact ⟨hlt, hno⟩
    · refine ⟨hlt, ?_⟩
      intro x hx
      simp only [List.mem_filter] at hx
      exact hno x hx.1
  | acquire => simp only [rstep]; split <;> exact ⟨hlt, hno⟩
  | release => exact ⟨hlt, hno⟩
  | register m => simp only [rstep]; split <;> exact ⟨hlt, hno⟩
  | remove conn => exact ⟨hlt, hno⟩
  | closeSession sid => exact ⟨hlt, hno⟩

theorem rrun_dead {s : St} {id : Nat} (h : Dead s id) (ops : List ROp) : Dead (rrun s ops) id := by
  induction ops generalizing s with
  | nil => exact h
  | cons o os ih => exact ih (rstep_dead h o)

/-! ## handlers are sequences of atomic operations -/

theorem rrun_append (s : St) (a b : List ROp) : rrun s (a ++ b) = rrun (rrun s a) b := by
  induction a generalizing s with
  | nil => rfl
  | cons o os ih => simp only [List.cons_append, rrun, ih]

theorem wsAdmit_is_rrun (s0 s : St) (x : Sess) (conn peer : Nat) (role : Role) (ops : List ROp) (held : Bool)
    (h : s = rrun s0 ops) : (wsAdmit s x conn peer role ops held).1 = rrun s0 (wsAdmit s x conn peer role ops held).2.2 := by
  simp only [wsAdmit]
  split <;> rename_i heq
  · simp [rrun_append, ← h, rrun, heq]
  · cases held <;> simp [rrun_append, ← h, rrun, heq]

theorem wsAcquire_is_rrun (s0 s : St) (x : Sess) (conn peer : Nat) (role : Role) (ops : List ROp)
    (h : s = rrun s0 ops) : (wsAcquire s x conn peer role ops).1 = rrun s0 (wsAcquire s x conn peer role ops).2.2 := by
  simp only [wsAcquire]
  split
  · split <;> rename_i heq
    · apply wsAdmit_is_rrun
      simp [rrun_append, ← h, rrun, heq]
    · simp [rrun_append, ← h, rrun, heq]
  · exact wsAdmit_is_rrun s0 s x conn peer role ops false h

theorem wsOpen_is_rrun (s : St) (code peer : Nat) (role : Role) (mr : Option Int) (conn now : Nat) :
    (wsOpen s code peer role mr conn now).1 = rrun s (wsOpen s code peer role mr conn now).2.2 := by
  simp only [wsOpen]
  split
  · rfl
  · split
    · rename_i s1 x heq
      split
      · simp [rrun, heq]
      · split
        · simp [rrun, heq]
        · split
          · simp [rrun, heq]
          · apply wsAcquire_is_rrun
            simp [rrun, heq]
    · rename_i s1 o hne heq
      simp [rrun, heq]

theorem handle_is_rrun (h : HSt) (e : Ev) : (handle h e).1.st = rrun h.st (handle h e).2.2 := by
  cases e with
  | post mr now cands =>
    simp only [handle]
    split
    · rfl
    · split <;> rename_i heq <;> simp [rrun, heq]
  | wsOpen code peer role mr conn now =>
    have := wsOpen_is_rrun h.st code peer role mr conn now
    simp only [handle]
    split <;> rename_i heq <;> (rw [heq] at this; simpa using this)
  | wsClose conn =>
    simp only [handle]
    split <;> rfl
  | timer sid => rfl

def srun (h : HSt) : List Ev → HSt
  | [] => h
  | e :: es => srun (handle h e).1 es

theorem srun_inv {h : HSt} (hi : Inv h.st) (es : List Ev) : Inv (srun h es).st := by
  induction es generalizing h with
  | nil => exact hi
  | cons e es ih =>
    apply ih
    rw [handle_is_rrun]
    exact rrun_inv hi _

/-- every handler-level history is a resource-level run, hence reachable -/
theorem srun_is_rrun (h : HSt) (es : List Ev) : ∃ ops, (srun h es).st = rrun h.st ops := by
  induction es generalizing h with
  | nil => exact ⟨[], rfl⟩
  | cons e es ih =>
    obtain ⟨ops, hops⟩ := ih (handle h e).1
    refine ⟨(handle h e).2.2 ++ ops, ?_⟩
    rw [srun, hops, handle_is_rrun, rrun_append]

/-! ## the property -/

/-- **Reachable shared states**: any sequence of atomic operations from the empty server, i.e. any interleaving
of any number of concurrently running handlers. -/
def Reachable (cfg : Cfg) (ttl : Nat) (s : St) : Prop := ∃ ops, s = rrun (init cfg ttl) ops

theorem reachable_inv {cfg : Cfg} {ttl : Nat} {s : St} (h : Reachable cfg ttl s) : Inv s := by
  obtain ⟨ops, rfl⟩ := h
  exact rrun_inv (inv_init cfg ttl) ops

theorem reachable_cfg {cfg : Cfg} {ttl : Nat} {s : St} (h : Reachable cfg ttl s) : s.cfg = cfg := by
  obtain ⟨ops, rfl⟩ := h
  rw [rrun_cfg]; rfl

/-- codes of live sessions are pairwise distinct, and the two maps of the store agree -/
theorem C14_codes_distinct {cfg : Cfg} {ttl : Nat} {s : St} (h : Reachable cfg ttl s) {a b : Sess}
    (ha : a ∈ s.store.sessions) (hb : b ∈ s.store.sessions) (hc : a.code = b.code) : a = b :=
  (reachable_inv h).store.codes_distinct ha hb hc

theorem C14_store_maps_agree {cfg : Cfg} {ttl : Nat} {s : St} (h : Reachable cfg ttl s) :
    (∀ x ∈ s.store.sessions, (x.code, x.id) ∈ s.store.byCode) ∧
    (∀ e ∈ s.store.byCode, ∃ x ∈ s.store.sessions, x.id = e.2 ∧ x.code = e.1) :=
  ⟨(reachable_inv h).store.fwd, (reachable_inv h).store.bwd⟩

/-- a join code admits exactly while its session is stored and unexpired -/
theorem C14_lifetime {cfg : Cfg} {ttl : Nat} {s : St} (h : Reachable cfg ttl s) (code now : Nat) (x : Sess) :
    (rstep s (.lookup code now)).2 = .found x ↔ x ∈ s.store.sessions ∧ x.code = code ∧ x.expired now = false := by
  rw [← getByCode_some_iff (reachable_inv h).store code now x]
  simp only [rstep]
  split <;> rename_i heq <;> (have e2 := congrArg Prod.snd heq; simp only at e2; simp [e2])

theorem wsAdmit_opened {s : St} {x : Sess} {conn peer sid : Nat} {role : Role} {ops : List ROp} {held : Bool}
    (h : (wsAdmit s x conn peer role ops held).2.1 = .opened sid) : x.id = sid := by
  simp only [wsAdmit] at h
  split at h
  · simpa using h
  · cases held <;> simp at h

theorem wsAcquire_opened {s : St} {x : Sess} {conn peer sid : Nat} {role : Role} {ops : List ROp}
    (h : (wsAcquire s x conn peer role ops).2.1 = .opened sid) : x.id = sid := by
  simp only [wsAcquire] at h
  split at h
  · split at h
    · exact wsAdmit_opened h
    · simp at h
  · exact wsAdmit_opened h

theorem mrCheck_not_opened {cfg : Cfg} {mr : Option Int} {e : Out} {sid : Nat} (h : mrCheck cfg mr = some e) :
    e ≠ .opened sid := by
  unfold mrCheck at h
  split at h
  · cases h
  · split at h
    · cases h; simp
    · split at h
      · cases h; simp
      · cases h

/-- a WebSocket is opened only into a stored, unexpired session carrying the presented code -/
theorem C14_open_only_live {cfg : Cfg} {ttl : Nat} {s : St} (h : Reachable cfg ttl s) {code peer conn now sid : Nat}
    {role : Role} {mr : Option Int} (ho : (wsOpen s code peer role mr conn now).2.1 = .opened sid) :
    ∃ x ∈ s.store.sessions, x.id = sid ∧ x.code = code ∧ x.expired now = false := by
  simp only [wsOpen] at ho
  split at ho
  · cases ho
  · split at ho
    · rename_i s1 x heq
      have hx := (C14_lifetime h code now x).mp (by rw [heq])
      refine ⟨x, hx.1, ?_, hx.2⟩
      split at ho
      · cases ho
      · split at ho
        · cases ho
        · split at ho
          · rename_i e he
            split at he
            · exact absurd ho (mrCheck_not_opened he)
            · cases he
          · exact wsAcquire_opened ho
    · cases ho

/-- once the session is gone (host left, expired and collected, or deleted) its id never comes back: no later
lookup, under any further interleaving, returns it -/
theorem C14_never_afterwards {s : St} {id : Nat} (hd : Dead s id) (ops : List ROp) (code now : Nat) (x : Sess)
    (hf : (rstep (rrun s ops) (.lookup code now)).2 = .found x) : x.id ≠ id := by
  have hd' := rrun_dead hd ops
  simp only [rstep] at hf
  split at hf <;> rename_i heq
  · cases hf
    have e2 := congrArg Prod.snd heq
    simp only at e2
    unfold Store.getByCode at e2
    split at e2
    · cases e2
    · split at e2
      · cases e2
      · rename_i s' hs'
        split at e2
        · cases e2
        · cases e2
          exact hd'.2 _ (find_sess hs').1
  · cases hf

theorem delete_nextId (st : Store) (id : Nat) : (st.delete id).nextId = st.nextId := by
  unfold Store.delete; split <;> rfl

/-- the host's disconnect kills the session: whatever else the clean-up does, and whatever follows -/
theorem C14_host_left_dead {cfg : Cfg} {ttl : Nat} {h : HSt} (hr : Reachable cfg ttl h.st) {conn : Nat} {m : Member}
    (hm : h.socks.find? (fun m => m.conn == conn) = some m) (hrole : m.role = .sender)
    (hlive : m.sid < h.st.store.nextId) : Dead (handle h (.wsClose conn)).1.st m.sid := by
  simp only [handle, hm, closeOps, hrole, if_true]
  have h1 : Dead (rstep h.st (.delete m.sid)).1 m.sid := by
    simp only [rstep, Dead]
    exact ⟨by rw [delete_nextId]; exact hlive, delete_gone (reachable_inv hr).store m.sid⟩
  simp only [List.cons_append, List.nil_append]
  rw [rrun]
  exact rrun_dead h1 _

/-- the expiry timer kills the session and unregisters its peers -/
theorem C14_timer_dead {cfg : Cfg} {ttl : Nat} {h : HSt} (hr : Reachable cfg ttl h.st) {sid : Nat}
    (hlive : sid < h.st.store.nextId) :
    Dead (handle h (.timer sid)).1.st sid := by
  simp only [handle, List.cons_append, List.nil_append]
  rw [rrun, rrun]
  apply rrun_dead
  simp only [rstep, Dead]
  exact ⟨by rw [delete_nextId]; exact hlive, delete_gone (reachable_inv hr).store sid⟩

theorem C14_close_session_unregisters (s : St) (sid : Nat) :
    ∀ m ∈ (rstep s (.closeSession sid)).1.members, m.sid ≠ sid := by
  intro m hm
  simp only [rstep, List.mem_filter, bne_iff_ne, ne_eq] at hm
  exact hm.2

/-- the configured limits hold in every reachable state — for every interleaving of concurrent requests -/
theorem C14_limits {cfg : Cfg} {ttl : Nat} {s : St} (h : Reachable cfg ttl s) :
    (cfg.maxSessions > 0 → s.store.count ≤ cfg.maxSessions) ∧
    (cfg.maxRecv > 0 → ∀ sid, receiversOf s.members sid ≤ cfg.maxRecv) ∧
    (cfg.maxWS > 0 → s.inUse ≤ cfg.maxWS) := by
  have hi := reachable_inv h
  have hc := reachable_cfg h
  rw [← hc]
  exact ⟨hi.sessCap, hi.recvCap, hi.connCap⟩

/-- the same for sequentially handled requests (what the differential against the binary runs) -/
theorem C14_limits_handlers (cfg : Cfg) (ttl : Nat) (es : List Ev) :
    Inv (srun (hinit cfg ttl) es).st ∧ Reachable cfg ttl (srun (hinit cfg ttl) es).st :=
  ⟨srun_inv (inv_init cfg ttl) es, by
    obtain ⟨ops, h⟩ := srun_is_rrun (hinit cfg ttl) es
    exact ⟨ops, h⟩⟩

theorem create_limit_iff (st : Store) (max now : Nat) (cands : List Nat) :
    (st.create max now cands).2 = .limit ↔ (max > 0 ∧ st.sessions.length ≥ max) := by
  unfold Store.create
  split
  · simp_all
  · rename_i hn
    cases hp : pickCode st.byCode cands <;> simp [hn]

theorem rstep_create_limit_iff (s : St) (now : Nat) (cands : List Nat) :
    (rstep s (.create now cands)).2 = .createLimit ↔ (s.cfg.maxSessions > 0 ∧ s.store.sessions.length ≥ s.cfg.maxSessions) := by
  rw [← create_limit_iff s.store s.cfg.maxSessions now cands]
  simp only [rstep]
  split <;> rename_i heq <;> (have e2 := congrArg Prod.snd heq; simp only at e2; simp [e2])

/-- a limit of 0 never refuses -/
theorem C14_zero_sessions (s : St) (h0 : s.cfg.maxSessions = 0) (now : Nat) (cands : List Nat) :
    (rstep s (.create now cands)).2 ≠ .createLimit := by
  rw [Ne, rstep_create_limit_iff]
  omega

theorem C14_zero_receivers (s : St) (h0 : s.cfg.maxRecv = 0) (m : Member) : (rstep s (.register m)).2 = .admitted := by
  simp [rstep, h0]

theorem C14_zero_conns (s : St) (h0 : s.cfg.maxWS = 0) : (rstep s .acquire).2 = .acquired := by
  simp [rstep, h0]

theorem C14_zero_msg (cfg : Cfg) (h0 : cfg.maxMsg = 0) (size : Nat) : msgAccepted cfg size = true := by
  simp [msgAccepted, h0]

/-- a processed message is within the configured size -/
theorem C14_msg_size (cfg : Cfg) (size : Nat) (hp : cfg.maxMsg > 0) (h : msgAccepted cfg size = true) :
    size ≤ cfg.maxMsg := by
  simp only [msgAccepted, Bool.or_eq_true, beq_iff_eq, decide_eq_true_eq] at h
  omega

/-- below the limit nobody is refused (the limits are not over-strict) -/
theorem C14_not_overstrict (s : St) :
    (s.store.count < s.cfg.maxSessions → ∀ now cands, (rstep s (.create now cands)).2 ≠ .createLimit) ∧
    (∀ m, receiversOf s.members m.sid < s.cfg.maxRecv → (rstep s (.register m)).2 = .admitted) ∧
    (s.inUse < s.cfg.maxWS → (rstep s .acquire).2 = .acquired) := by
  refine ⟨?_, ?_, ?_⟩
  · intro hlt now cands
    rw [Ne, rstep_create_limit_iff]
    simp only [Store.count] at hlt
    omega
  · intro m hlt
    simp only [rstep]
    have : ¬ (s.cfg.maxRecv > 0 ∧ m.role = .receiver ∧ receiversOf s.members m.sid ≥ s.cfg.maxRecv) := by omega
    simp [this]
  · intro hlt
    simp only [rstep]
    have : ¬ (s.cfg.maxWS > 0 ∧ s.inUse ≥ s.cfg.maxWS) := by omega
    simp [this]

/-! ## token bucket and connection limiter -/

theorem allow_account (u : Nat) (b : Bucket) (dt : Nat) :
    (b.allow u dt).1.tokens + (if (b.allow u dt).2 then u else 0) ≤ b.tokens + dt * b.rate := by
  unfold Bucket.allow
  simp only
  split <;> simp <;> omega

theorem allow_rate (u : Nat) (b : Bucket) (dt : Nat) : (b.allow u dt).1.rate = b.rate := by
  unfold Bucket.allow; simp only; split <;> rfl

/-- over any arrival pattern, admitted events (in the unit of account) plus what is left never exceed what was
there plus what the rate added: in an interval of total length `T` at most `burst + rate·T` events pass -/
theorem bucket_account (u : Nat) (b : Bucket) (dts : List Nat) :
    (b.runAllow u dts).2 * u + (b.runAllow u dts).1.tokens ≤ b.tokens + dts.sum * b.rate := by
  induction dts generalizing b with
  | nil => simp [Bucket.runAllow]
  | cons dt dts ih =>
    simp only [Bucket.runAllow, List.sum_cons]
    have h1 := allow_account u b dt
    have h2 := ih (b.allow u dt).1
    rw [allow_rate] at h2
    have e1 : (dt + dts.sum) * b.rate = dt * b.rate + dts.sum * b.rate := Nat.add_mul ..
    have e2 : (((b.allow u dt).1.runAllow u dts).2 + 1) * u = ((b.allow u dt).1.runAllow u dts).2 * u + u := by
      rw [Nat.add_mul, Nat.one_mul]
    cases hok : (b.allow u dt).2 <;> simp only [hok, if_true, if_false, Bool.false_eq_true, Nat.add_zero] at h1 ⊢ <;> omega

theorem C14_bucket (u rate burst : Nat) (dts : List Nat) :
    ((Bucket.new u rate burst).runAllow u dts).2 * u ≤ (max burst 1) * u + dts.sum * rate := by
  have := bucket_account u (Bucket.new u rate burst) dts
  have hb : (Bucket.new u rate burst).tokens = (max burst 1) * u := by
    unfold Bucket.new; simp only; split <;> (congr 1; omega)
  have hr : (Bucket.new u rate burst).rate = rate := by unfold Bucket.new; rfl
  rw [hb, hr] at this
  omega

theorem allow_burst (u : Nat) (b : Bucket) (dt : Nat) : (b.allow u dt).1.burst = b.burst := by
  unfold Bucket.allow; simp only; split <;> rfl

theorem runAllow_fields (u : Nat) (b : Bucket) (dts : List Nat) :
    (b.runAllow u dts).1.burst = b.burst ∧ (b.runAllow u dts).1.rate = b.rate := by
  induction dts generalizing b with
  | nil => simp [Bucket.runAllow]
  | cons dt dts ih =>
    simp only [Bucket.runAllow]
    have := ih (b.allow u dt).1
    rw [allow_burst, allow_rate] at this
    exact this

/-- the first call of a window finds at most `burst` in the bucket, whatever went on before and however long it was idle -/
theorem allow_capped (u : Nat) (b : Bucket) (dt : Nat) :
    (b.allow u dt).1.tokens + (if (b.allow u dt).2 then u else 0) ≤ b.burst := by
  unfold Bucket.allow
  simp only
  split <;> simp <;> omega

/-- **C14_bucket_window.** In every window of a bucket's life - after any history `pre`, starting with any call (after any idle
time `dt0`) - the calls admitted from that call on number at most `burst + rate · (time from that call to the last)`: idle time before
the window buys nothing beyond the burst. -/
theorem C14_bucket_window (u rate burst : Nat) (pre : List Nat) (dt0 : Nat) (dts : List Nat) :
    ((((Bucket.new u rate burst).runAllow u pre).1).runAllow u (dt0 :: dts)).2 * u ≤ (max burst 1) * u + dts.sum * rate := by
  have hf := runAllow_fields u (Bucket.new u rate burst) pre
  generalize ((Bucket.new u rate burst).runAllow u pre).1 = b at hf
  have hb : (Bucket.new u rate burst).burst = (max burst 1) * u := by
    unfold Bucket.new; simp only; split <;> (congr 1; omega)
  have hr : (Bucket.new u rate burst).rate = rate := by unfold Bucket.new; rfl
  rw [hb, hr] at hf
  simp only [Bucket.runAllow]
  have h1 := allow_capped u b dt0
  have h2 := bucket_account u (b.allow u dt0).1 dts
  rw [allow_rate, hf.2] at h2
  rw [hf.1] at h1
  have e2 : (((b.allow u dt0).1.runAllow u dts).2 + 1) * u = ((b.allow u dt0).1.runAllow u dts).2 * u + u := by
    rw [Nat.add_mul, Nat.one_mul]
  cases hok : (b.allow u dt0).2 <;> simp only [hok, if_true, if_false, Bool.false_eq_true, Nat.add_zero] at h1 ⊢ <;> omega

-- a volley of 2·burst after a long idle period: only `burst` pass (rate 5/s, burst 5, unit 1000, times in ms)
example : ((Bucket.new 1000 5 5).runAllow 1000 ([1300] ++ List.replicate 14 0)).2 = 5 := by decide

/-- a full bucket admits: the limiter is not stricter than configured -/
theorem bucket_admits_when_full (u : Nat) (b : Bucket) (dt : Nat) (h : u ≤ min (b.tokens + dt * b.rate) b.burst) :
    (b.allow u dt).2 = true := by
  unfold Bucket.allow
  simp only
  split
  · omega
  · rfl

theorem connRun_bound (limit : Nat) (hl : limit > 0) (inUse : Nat) (ops : List Bool) (h : inUse ≤ limit) :
    (connRun limit inUse ops).1 ≤ limit := by
  induction ops generalizing inUse with
  | nil => simpa [connRun]
  | cons o os ih =>
    cases o with
    | true =>
      simp only [connRun]
      split
      · exact ih inUse h
      · rename_i hn
        apply ih
        by_contra hc
        exact hn ⟨hl, by omega⟩
    | false =>
      simp only [connRun]
      apply ih
      omega

/-! ## non-vacuity: concrete runs -/

def demoCfg : Cfg := ⟨2, 1, 3, 100⟩

/-- two sessions fit, the third is refused; the first code admits, an unknown one does not -/
example :
    let s0 := init demoCfg 1000
    let (s1, o1) := rstep s0 (.create 10 [7])
    let (s2, o2) := rstep s1 (.create 20 [7, 8])     -- collision on 7, retry yields 8
    let (s3, o3) := rstep s2 (.create 30 [9])
    (o1, o2, o3) = (.created ⟨1, 7, 1010⟩, .created ⟨2, 8, 1020⟩, .createLimit) ∧
    (rstep s3 (.lookup 7 500)).2 = .found ⟨1, 7, 1010⟩ ∧ (rstep s3 (.lookup 7 1011)).2 = .notFound ∧
    (rstep s3 (.lookup 5 500)).2 = .notFound := by decide

/-- host leaves: the code is dead; the receiver limit refuses the second receiver -/
example :
    let s0 := hinit demoCfg 0
    let s1 := srun s0 [.post none 10 [7], .wsOpen 7 1 .sender none 100 11, .wsOpen 7 2 .receiver none 101 12]
    (handle s1 (.wsOpen 7 3 .receiver none 102 13)).2.1 = .tooMany "receiver limit reached" ∧
    (handle (handle s1 (.wsClose 100)).1 (.wsOpen 7 3 .receiver none 102 14)).2.1 = .notFound ∧
    s1.st.inUse = 2 ∧
    (handle (handle s1 (.wsOpen 7 3 .sender none 102 13)).1 (.wsOpen 7 4 .sender none 103 13)).2.1 = .tooMany "connection limit reached" := by decide

/-- expiry: the timer unregisters and disconnects the peers, and frees their connection slots -/
example :
    let s1 := srun (hinit demoCfg 50) [.post none 10 [7], .wsOpen 7 1 .sender none 100 11, .wsOpen 7 2 .receiver none 101 12]
    let s2 := (handle s1 (.timer 1)).1
    s1.st.members.length = 2 ∧ s2.st.members = [] ∧ s2.socks = [] ∧ s2.st.inUse = 0 ∧ s2.st.store.sessions = [] := by decide

example : Reachable demoCfg 0 (rrun (init demoCfg 0) [.create 1 [5], .lookup 5 2, .acquire, .register ⟨1, 1, 1, .receiver⟩]) := ⟨_, rfl⟩

example : ((Bucket.new 1000 1 3).runAllow 1000 [0, 0, 0, 0, 500, 500, 0]).2 = 4 := by decide

/-! ## connection slots are exactly the open sockets

With `max-ws-connections` configured, the limiter's counter equals the number of sockets whose handler is running, after
every handler-level history in which connection ids are fresh (the server draws them at random): the bound of
`C14_limits` on the counter is a bound on the concurrently open WebSocket connections. -/

structure Slots (h : HSt) : Prop where
  count : h.st.cfg.maxWS > 0 → h.st.inUse = h.socks.length
  nodup : (h.socks.map (·.conn)).Nodup

def freshConn (h : HSt) : Ev → Prop
  | .wsOpen _ _ _ _ conn _ => ∀ m ∈ h.socks, m.conn ≠ conn
  | _ => True

theorem rstep_inUse_other (s : St) (o : ROp) (h1 : o ≠ .acquire) (h2 : o ≠ .release) : (rstep s o).1.inUse = s.inUse := by
  cases o <;> simp only [rstep] <;> (try (repeat' split)) <;> simp_all

theorem rrun_closeOps_inUse (s : St) (m : Member) :
    (rrun s (closeOps s.cfg m)).inUse = if s.cfg.maxWS > 0 then s.inUse - 1 else s.inUse := by
  unfold closeOps
  by_cases hs : m.role = .sender <;> by_cases hw : s.cfg.maxWS > 0 <;>
    simp [hs, hw, rrun, rstep]

theorem rrun_closeOps_cfg (s : St) (cfg : Cfg) (m : Member) : (rrun s (closeOps cfg m)).cfg = s.cfg := rrun_cfg _ _

theorem rrun_flat_closeOps_inUse (s : St) (ks : List Member) (hw : s.cfg.maxWS > 0) :
    (rrun s (ks.flatMap (closeOps s.cfg))).inUse = s.inUse - ks.length := by
  induction ks generalizing s with
  | nil => simp [rrun]
  | cons k ks ih =>
    simp only [List.flatMap_cons, rrun_append, List.length_cons]
    have hc : (rrun s (closeOps s.cfg k)).cfg = s.cfg := rrun_cfg _ _
    have := ih (rrun s (closeOps s.cfg k)) (by rw [hc]; exact hw)
    rw [hc] at this
    rw [this, rrun_closeOps_inUse, if_pos hw]
    omega

theorem wsRegister_inUse (s : St) (x : Sess) (conn peer : Nat) (role : Role) (ops : List ROp) (held : Bool) :
    (wsAdmit s x conn peer role ops held).1.inUse =
      if (wsAdmit s x conn peer role ops held).2.1 = .opened x.id then s.inUse
      else if held then s.inUse - 1 else s.inUse := by
  simp only [wsAdmit]
  by_cases hc : s.cfg.maxRecv > 0 ∧ role = .receiver ∧ receiversOf s.members x.id ≥ s.cfg.maxRecv
  · cases held <;> simp [rstep, hc]
  · simp [rstep, hc]

theorem wsAdmit_out (s : St) (x : Sess) (conn peer : Nat) (role : Role) (ops : List ROp) (held : Bool) :
    (wsAdmit s x conn peer role ops held).2.1 = .opened x.id ∨
    (wsAdmit s x conn peer role ops held).2.1 = .tooMany "receiver limit reached" := by
  simp only [wsAdmit]
  by_cases hc : s.cfg.maxRecv > 0 ∧ role = .receiver ∧ receiversOf s.members x.id ≥ s.cfg.maxRecv
  · cases held <;> simp [rstep, hc]
  · simp [rstep, hc]

def isOpened : Out → Bool
  | .opened _ => true
  | _ => false

/-- what `/ws` does to the slot counter: +1 exactly when the socket is opened (and slots are configured) -/
theorem wsOpen_inUse (s : St) (code peer : Nat) (role : Role) (mr : Option Int) (conn now : Nat) :
    (wsOpen s code peer role mr conn now).1.inUse =
      if isOpened (wsOpen s code peer role mr conn now).2.1 = true ∧ s.cfg.maxWS > 0 then s.inUse + 1 else s.inUse := by
  have hlk : ∀ s1 o, rstep s (.lookup code now) = (s1, o) → s1.inUse = s.inUse ∧ s1.cfg = s.cfg := by
    intro s1 o h
    have h1 := rstep_inUse_other s (.lookup code now) (by simp) (by simp)
    have h2 := rstep_cfg s (.lookup code now)
    rw [h] at h1 h2
    exact ⟨h1, h2⟩
  simp only [wsOpen]
  split
  · simp [isOpened]
  · split
    · rename_i s1 x heq
      obtain ⟨hi, hcfg⟩ := hlk _ _ heq
      split
      · simp [isOpened, hi]
      · split
        · simp [isOpened, hi]
        · split
          · rename_i e he
            have : isOpened e = false := by
              cases e <;> simp only [isOpened] <;> rename_i sid
              split at he
              · exact absurd rfl (mrCheck_not_opened (sid := sid) he)
              · cases he
            simp [this, hi]
          · simp only [wsAcquire, hcfg]
            by_cases hw : s.cfg.maxWS > 0
            · simp only [hw, if_true, and_true]
              by_cases hfull : s1.inUse ≥ s.cfg.maxWS
              · have : rstep s1 .acquire = (s1, .connLimit) := by simp [rstep, hcfg, hw, hfull]
                simp [this, hi, isOpened]
              · have : rstep s1 .acquire = ({ s1 with inUse := s1.inUse + 1 }, .acquired) := by
                  simp [rstep, hcfg, hw, hfull]
                simp only [this, List.cons_append, List.nil_append, hi]
                rw [wsRegister_inUse]
                rcases wsAdmit_out ⟨s1.cfg, s1.store, s1.members, s.inUse + 1⟩ x conn peer role [ROp.lookup code now, .acquire] true with ho | ho
                · simp [ho, isOpened]
                · simp [ho, isOpened]
            · simp only [hw, if_false, and_false]
              rw [wsRegister_inUse]
              rcases wsAdmit_out s1 x conn peer role [ROp.lookup code now] false with ho | ho <;> simp [ho, hi, isOpened]
    · rename_i s1 o hne heq
      obtain ⟨hi, _⟩ := hlk _ _ heq
      have : isOpened Out.notFound = false := rfl
      simp [hi, this]

theorem filter_ne_length {l : List Member} (hnd : (l.map (·.conn)).Nodup) {m : Member} (hm : m ∈ l) :
    (l.filter (fun x => x.conn != m.conn)).length + 1 = l.length := by
  induction l with
  | nil => cases hm
  | cons y ys ih =>
    simp only [List.map_cons, List.nodup_cons, List.mem_map, not_exists, not_and] at hnd
    rcases List.mem_cons.mp hm with rfl | hin'
    · have hall : ys.filter (fun x => x.conn != m.conn) = ys := by
        rw [List.filter_eq_self]
        intro z hz
        have := hnd.1 z hz
        simp only [bne_iff_ne, ne_eq]
        exact this
      simp [List.filter_cons, hall]
    · have hy : y.conn ≠ m.conn := fun hc => hnd.1 m hin' hc.symm
      simp only [List.filter_cons, bne_iff_ne, ne_eq, hy, not_false_eq_true, if_true, List.length_cons]
      have := ih hnd.2 hin'
      omega

theorem filter_not_add (l : List Member) (P : Member → Bool) :
    (l.filter (fun m => !P m)).length + (l.filter P).length = l.length := by
  induction l with
  | nil => rfl
  | cons y ys ih =>
    simp only [List.filter_cons]
    cases hp : P y <;> simp <;> omega

theorem kicked_split (socks : List Member) (P : Member → Bool) (hnd : (socks.map (·.conn)).Nodup) :
    (socks.filter (fun m => !(socks.filter P).any (fun k => k.conn == m.conn))).length + (socks.filter P).length = socks.length := by
  have hcongr : socks.filter (fun m => !(socks.filter P).any (fun k => k.conn == m.conn)) = socks.filter (fun m => !P m) := by
    apply List.filter_congr
    intro y hy
    congr 1
    by_cases hp : P y = true
    · rw [hp, List.any_eq_true]
      exact ⟨y, List.mem_filter.mpr ⟨hy, hp⟩, by simp⟩
    · have hp' : P y = false := by simpa using hp
      rw [hp', List.any_eq_false]
      intro k hk
      simp only [List.mem_filter] at hk
      simp only [beq_iff_eq]
      intro hc
      have : k = y := List.inj_on_of_nodup_map hnd hk.1 hy hc
      rw [this] at hk
      rw [hk.2] at hp'; cases hp'
  rw [hcongr]
  exact filter_not_add socks P

theorem handle_slots {h : HSt} {e : Ev} (hs : Slots h) (hf : freshConn h e) : Slots (handle h e).1 := by
  cases e with
  | post mr now cands =>
    simp only [handle]
    split
    · exact hs
    · have hi := rstep_inUse_other h.st (.create now cands) (by simp) (by simp)
      have hc := rstep_cfg h.st (.create now cands)
      split <;> rename_i heq <;> (rw [heq] at hi hc; simp only at hi hc; exact ⟨fun hw => by simp only at hw ⊢; rw [hi]; exact hs.count (by rw [← hc]; exact hw), hs.nodup⟩)
  | wsOpen code peer role mr conn now =>
    have hin := wsOpen_inUse h.st code peer role mr conn now
    have hcfg : (wsOpen h.st code peer role mr conn now).1.cfg = h.st.cfg := by
      rw [wsOpen_is_rrun, rrun_cfg]
    simp only [handle]
    split
    · rename_i s1 sid ops heq
      rw [heq] at hin hcfg
      simp only at hin hcfg
      constructor
      · intro hw
        simp only at hw ⊢
        rw [hcfg] at hw
        simp only [hw, and_true, isOpened, if_true] at hin
        rw [hin, hs.count hw]
        simp
      · simp only [List.map_append, List.map_cons, List.map_nil]
        rw [List.nodup_append]
        refine ⟨hs.nodup, by simp, ?_⟩
        intro a ha b hb
        simp only [List.mem_singleton] at hb
        subst hb
        obtain ⟨m, hm, rfl⟩ := List.mem_map.mp ha
        exact hf m hm
    · rename_i s1 o ops hno heq
      rw [heq] at hin hcfg
      simp only at hin hcfg
      constructor
      · intro hw
        simp only at hw ⊢
        rw [hcfg] at hw
        have : isOpened o = false := by
          cases o <;> simp only [isOpened]
          rename_i sid
          exact absurd rfl (hno sid)
        simp only [this, Bool.false_eq_true, false_and, if_false] at hin
        rw [hin]; exact hs.count hw
      · exact hs.nodup
  | wsClose conn =>
    simp only [handle]
    split
    · rename_i m hm
      have hmem : m ∈ h.socks := List.mem_of_find?_eq_some hm
      have hmc : m.conn = conn := by simpa using List.find?_some hm
      constructor
      · intro hw
        simp only at hw ⊢
        rw [rrun_cfg] at hw
        rw [rrun_closeOps_inUse, if_pos hw, hs.count hw]
        -- exactly one socket carries this connection id
        have hlen := filter_ne_length hs.nodup hmem
        rw [hmc] at hlen
        omega
      · exact hs.nodup.sublist (List.Sublist.map _ List.filter_sublist)
    · exact hs
  | timer sid =>
    simp only [handle]
    constructor
    · intro hw
      simp only at hw ⊢
      rw [rrun_cfg] at hw
      simp only [List.cons_append, List.nil_append, rrun]
      have hc1 : (rstep (rstep h.st (.closeSession sid)).1 (.delete sid)).1.cfg = h.st.cfg := by
        rw [rstep_cfg, rstep_cfg]
      have hi1 : (rstep (rstep h.st (.closeSession sid)).1 (.delete sid)).1.inUse = h.st.inUse := by
        rw [rstep_inUse_other _ _ (by simp) (by simp), rstep_inUse_other _ _ (by simp) (by simp)]
      have key := rrun_flat_closeOps_inUse (rstep (rstep h.st (.closeSession sid)).1 (.delete sid)).1
        (h.socks.filter (fun m => h.st.members.any (fun x => x.conn == m.conn && x.sid == sid))) (by rw [hc1]; exact hw)
      rw [hc1] at key
      rw [key, hi1, hs.count hw]
      -- the sockets that stay are exactly those that were not kicked
      have := kicked_split h.socks (fun m => h.st.members.any (fun x => x.conn == m.conn && x.sid == sid)) hs.nodup
      omega
    · exact hs.nodup.sublist (List.Sublist.map _ List.filter_sublist)

theorem slots_init (cfg : Cfg) (ttl : Nat) : Slots (hinit cfg ttl) := by
  constructor <;> simp [hinit, init]

/-- histories in which every `/ws` request carries a fresh connection id -/
def FreshRun : HSt → List Ev → Prop
  | _, [] => True
  | h, e :: es => freshConn h e ∧ FreshRun (handle h e).1 es

theorem srun_slots {h : HSt} (hs : Slots h) (es : List Ev) (hf : FreshRun h es) : Slots (srun h es) := by
  induction es generalizing h with
  | nil => exact hs
  | cons e es ih => exact ih (handle_slots hs hf.1) hf.2

/-- **concurrently open WebSocket connections never exceed `max-ws-connections`** -/
theorem C14_open_sockets_bounded (cfg : Cfg) (ttl : Nat) (es : List Ev) (hf : FreshRun (hinit cfg ttl) es)
    (hw : cfg.maxWS > 0) : (srun (hinit cfg ttl) es).socks.length ≤ cfg.maxWS := by
  have hs := srun_slots (slots_init cfg ttl) es hf
  obtain ⟨hinv, hreach⟩ := C14_limits_handlers cfg ttl es
  have hcfg := reachable_cfg hreach
  have h1 := hs.count (by rw [hcfg]; exact hw)
  have h2 := hinv.connCap (by rw [hcfg]; exact hw)
  rw [hcfg] at h2
  omega

/-! ## the decision points of the source, as regenerated on this run (xlate, `Gen/Shapes.lean`)

The model's guards were transcribed from these expressions; a change of any of them in /repo changes the generated
text and breaks this theorem (the check then searches for a concrete failing input with the histories and bursts). -/

open TV.Gen.Shapes in
theorem C14_source_shapes :
    -- `Store.CreateLimited`: test and insertion under one lock; `Store.create`'s guard
    store_create_limit = ["max > 0 && len(s.sessions) >= max"] ∧
    -- lazy expiry in `GetByJoinCode`; `Sess.expired`
    store_expiry_test = ["!session.ExpiresAt.IsZero() && time.Now().After(session.ExpiresAt)"] ∧
    -- /session: the read-only pre-test and the deciding answer of CreateLimited
    handler_session_limit = ["limits.maxSessions > 0 && store.Count() >= limits.maxSessions", "!created"] ∧
    -- `mrCheck`
    handler_post_maxrecv = ["maxReceiversRaw != \"\" ; limits.maxReceiversPerSender > 0 && reqMax > limits.maxReceiversPerSender"] ∧
    handler_ws_maxrecv = ["role == \"sender\" && maxReceiversRaw != \"\" ; limits.maxReceiversPerSender > 0 && reqMax > limits.maxReceiversPerSender"] ∧
    -- receiver admission: before the upgrade and again under `receiverAdmitMu`; `rstep (.register m)`'s guard
    handler_receiver_limit =
      ["limits.maxReceiversPerSender > 0 && role == \"receiver\" ; countReceivers(hub.List(sess.ID)) >= limits.maxReceiversPerSender",
       "limits.maxReceiversPerSender > 0 && role == \"receiver\" ; countReceivers(hub.List(sess.ID)) >= limits.maxReceiversPerSender"] ∧
    -- connection slots: `wsAcquire` / `rstep .acquire`
    handler_conn_limit = ["limits.maxWSConnections > 0 ; !wsConnLimiter.Acquire()"] ∧
    connlimiter_acquire = ["l.limit > 0 && l.inUse >= l.limit"] ∧
    -- one slot taken per connection, given back exactly once, when the handler returns (`Slots`: slots in use = sockets open)
    handler_slot_acquire = ["limits.maxWSConnections > 0 ; !wsConnLimiter.Acquire()"] ∧
    handler_slot_release = ["defer wsConnLimiter.Release()"] ∧
    -- message size and rate: `msgAccepted`, `Bucket.allow`
    handler_msg_size = ["maxMessageSize > 0 && len(message) > maxMessageSize"] ∧
    handler_msg_rate = ["limits.msgRatePerSec > 0 && !msgLimiter.Allow()"] ∧
    bucket_allow = ["b.tokens < 1"] ∧
    handler_lookup_args = ["joinCode"] := by decide

end TV.C14
