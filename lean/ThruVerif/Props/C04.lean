import ThruVerif.Props.C01
import ThruVerif.Props.C05
import ThruVerif.Proofs.Resume
import ThruVerif.Model.SendFile
/-!
# C04 — Resuming after an interruption at any point ends in the identical tree

`C05_inv` says what a killed run leaves behind: the sidecar on disk marks only chunks that are safely in
the file. `C04_resume` starts the per-file system of `Model/FileSys` from *any* such state and concludes
fidelity for the resumed run; `C04_chain` iterates that over any number of interrupted runs, because an
interrupted run again leaves a sound state (the bits it adds are set after their write: invariant `W`/`B`).
-/
namespace TV.C04
open TV.FileSys

/-- a state a killed run can leave: every marked chunk holds the source bytes -/
def SoundOnDisk (src disk : List Nat) (bits : List Bool) : Prop :=
  disk.length = src.length ∧ bits.length = src.length ∧ ∀ i, i < src.length → gb bits i = true → gn disk i = gn src i

theorem sound_initOk {src disk bits} (h : SoundOnDisk src disk bits) : InitOk src disk bits :=
  ⟨h.1, h.2.1, fun i hi hb _ => h.2.2 i hi hb⟩

/-- **C04_resume.** A run resumed from a sound on-disk state that finalises the file ok has every chunk
    equal to the source - whatever the interleaving, however many duplicate or late frames. -/
theorem C04_resume (src disk0 : List Nat) (bits0 : List Bool) (h0 : SoundOnDisk src disk0 bits0)
    (s : St) (hr : Reachable (init src disk0 bits0) s) (hf : s.fin = some true) :
    ∀ i, i < src.length → gn s.disk i = gn src i :=
  C01_file_fidelity src disk0 bits0 (sound_initOk h0) s hr hf

/-- what an interrupted run leaves is sound again: in every reachable state, a marked chunk that is not
    the (still unrepaired) needed one holds the source bytes; from a sound start there is no such exception -/
theorem C04_interrupted_sound (src disk0 : List Nat) (bits0 : List Bool) (h0 : SoundOnDisk src disk0 bits0)
    (s : St) (hr : Reachable (init src disk0 bits0) s) :
    ∀ i, i < s.src.length → gb s.bits i = true → gn s.disk i = gn s.src i ∨ (gb s.need i = true ∧ gb s.written i = false) :=
  (inv_reachable (inv_init src disk0 bits0 (sound_initOk h0)) hr).B

/-- from a sound start no advertised chunk is "needed": `need` is exactly the complement of the bitmap -/
theorem need_of_sound (src disk0 : List Nat) (bits0 : List Bool) (h0 : SoundOnDisk src disk0 bits0) (i : Nat)
    (hi : i < src.length) (hb : gb bits0 i = true) : gb (init src disk0 bits0).need i = false := by
  simp only [init, gb, List.getElem?_map, List.getElem?_range hi, Option.map_some, Option.getD_some]
  have hb' : bits0[i]?.getD false = true := hb
  have hg : disk0[i]?.getD 0 = src[i]?.getD 0 := h0.2.2 i hi hb
  simp [hb', hg]

/-- **C04_chain.** Histories `[killed run]* ++ [completed run]`: if every run starts from what the previous
    one left and each interrupted run leaves a sound state (`C05_inv`), the completed run's result is
    identical to the source. Stated for the list of on-disk states between the runs. -/
theorem C04_chain (src : List Nat) (states : List (List Nat × List Bool))
    (hall : ∀ st ∈ states, SoundOnDisk src st.1 st.2)
    (last : List Nat × List Bool) (hl : states.getLast? = some last)
    (s : St) (hr : Reachable (init src last.1 last.2) s) (hf : s.fin = some true) :
    ∀ i, i < src.length → gn s.disk i = gn src i :=
  C04_resume src last.1 last.2 (hall last (List.mem_of_getLast? hl)) s hr hf

/-- the link to the crash model: its invariant is exactly `SoundOnDisk` for the sidecar found on disk -/
theorem C04_uses_C05 {d : TV.Disk.State} (h : TV.Disk.Reachable d) (b : TV.Disk.BM) (hb : d.disk = some b) :
    ∀ i, b i = true → d.data i = .good := fun i hi => TV.Disk.C05_inv h b hb i hi

example : SoundOnDisk [7, 8, 9] [7, 8, 0] [true, true, false] :=
  ⟨rfl, rfl, by intro i hi hb; rcases i with _ | _ | _ | i <;> simp_all [gb, gn]⟩

end TV.C04

namespace TV.Resume

/-! ### finished work is advertised and not requested again (`Model/Resume`) -/

/-- **C04_finished_work_not_resent.** A chunk the receiver's metadata marks complete, lying more than the verification tail below
the highest recorded chunk, does not travel again (the hash of the highest recorded chunk being known) -/
theorem C04_finished_work_not_resent (c : Cfg) (total : Nat) (b : List Bool) (good : Nat → Bool) (hashed : Bool) (h i : Nat)
    (hhi : highest b total = some h) (hk : (!c.hashOn || hashed) = true) (hbi : bit b i = true) (hlt : i + c.tail ≤ h) (hne : i ≠ h) :
    sent (recvInfo total b good hashed c.hashOn) (plan c (recvInfo total b good hashed c.hashOn)) i = false := by
  obtain ⟨_, hht, _⟩ := highest_some hhi
  have hf := force_known (c := c) (info := recvInfo total b good hashed c.hashOn) (by simp [recvInfo, hhi, hk])
    (by simpa [recvInfo, hhi] using hht)
  simp only [recvInfo, hhi] at hf
  have hskip : skipped (recvInfo total b good hashed c.hashOn) (plan c (recvInfo total b good hashed c.hashOn)) i = true := by
    simp only [skipped, recvInfo, hhi, hbi, Bool.true_and, decide_eq_true_eq]
    omega
  simp only [sent, hskip, Bool.not_true, Bool.false_or, Bool.and_eq_false_iff]
  right; right
  simp [recvInfo, hhi, hne]

/-- the receiver's report carries the bitmap it loaded, unchanged (what `C04_resume` starts from is what the sender plans from) -/
theorem C04_report_is_loaded_bitmap (total : Nat) (b : List Bool) (good : Nat → Bool) (hashed hashOn : Bool) :
    (recvInfo total b good hashed hashOn).bitmap = b ∧ (recvInfo total b good hashed hashOn).total = total := by
  unfold recvInfo; split <;> exact ⟨rfl, rfl⟩

/-- **C04_unrecorded_chunks_travel.** Whatever the receiver reports (any bitmap, any last-verified chunk, hash known or not, true or
not) and whatever the sender's options: a chunk the report does not mark is never skipped. The receiver counts a file complete when
every unmarked chunk has arrived, so this is what lets the resumed run end. -/
theorem C04_unrecorded_chunks_travel (c : Cfg) (info : Info) (i : Nat) (hi : i < info.total) (hb : bit info.bitmap i = false) :
    sent info (plan c info) i = true := by
  simp [sent, skipped, hb, hi]

/-- the plan handed to the dispatch machine of `Model/SendFile` skips exactly the chunks `skipped` says (the two models compose) -/
theorem C04_plan_is_sendfile_skip (c : Cfg) (info : Info) (i : Nat) :
    TV.SendFile.skip (some { bitmap := info.bitmap, forceFrom := (plan c info).forceFrom }) i = skipped info (plan c info) i := by
  simp [TV.SendFile.skip, skipped, bit]

end TV.Resume
