import ThruVerif.Model.Sidecar
import ThruVerif.Gen.Consts
/-!
# C06 — Stale, foreign or damaged resume state is never trusted  (metadata part)

What `LoadSidecar` accepts is well-formed, what `Flush` writes is read back unchanged, and a sidecar is
used only when its identity triple equals the requested one. The behaviour of the resumed transfer from
tampered states is decided by the per-file protocol model (`Props/C01`) together with the tamper runs.
-/
namespace TV.C06
open TV TV.Codec TV.Sidecar

theorem crcBit_lt (c : Nat) (h : c < 2 ^ 32) : crcBit c < 2 ^ 32 := by
  unfold crcBit
  split
  · apply Nat.xor_lt_two_pow
    · omega
    · decide
  · omega

theorem crcByte_lt (c : Nat) (b : UInt8) (h : c < 2 ^ 32) : crcByte c b < 2 ^ 32 := by
  unfold crcByte
  have hb : b.toNat < 2 ^ 32 := by have := b.toNat_lt; omega
  have h0 : c ^^^ b.toNat < 2 ^ 32 := Nat.xor_lt_two_pow h hb
  exact crcBit_lt _ (crcBit_lt _ (crcBit_lt _ (crcBit_lt _ (crcBit_lt _ (crcBit_lt _ (crcBit_lt _ (crcBit_lt _ h0)))))))

theorem crc32c_lt (bs : Bytes) : crc32c bs < 2 ^ 32 := by
  unfold crc32c
  have : ∀ (l : Bytes) (c : Nat), c < 2 ^ 32 → l.foldl crcByte c < 2 ^ 32 := by
    intro l
    induction l with
    | nil => intro c h; exact h
    | cons b bs ih => intro c h; exact ih _ (crcByte_lt c b h)
  exact Nat.xor_lt_two_pow (this bs _ (by decide)) (by decide)

/-- field limits of a sidecar the code can write -/
structure Wf (s : Sc) : Prop where
  hid : s.fileID.length < 2 ^ 16
  hfs : s.fileSize < 2 ^ 64
  hcs : s.chunkSize < 2 ^ 32
  htot : s.total < 2 ^ 32
  hbm : s.bitmap.length < 2 ^ 32
  hok : bitmapOk s.bitmap s.total = true

/-- **C06_roundtrip.** What `Flush` writes, `LoadSidecar` reads back unchanged. -/
theorem C06_roundtrip (magic : Bytes) (version : Nat) (s : Sc) (hm : magic.length = 4) (hv : version < 2 ^ 16) (h : Wf s) :
    parse magic version (serialize magic version s) = .ok s := by
  obtain ⟨hid, hfs, hcs, htot, hbm, hok⟩ := h
  have hfits : FitsL layout [.n version, .n s.chunkSize, .n s.fileSize, .n s.total, .bs s.fileID, .bs s.bitmap,
      .n (crc32c (body magic version s))] := by
    refine .cons ?_ (.cons ?_ (.cons ?_ (.cons ?_ (.cons ⟨by simpa using hid, by intro l hl; cases hl⟩
      (.cons ⟨by simpa using hbm, by intro l hl; cases hl⟩ (.cons ?_ .nil))))))
    · simp only [Fits]; omega
    · simp only [Fits]; omega
    · simp only [Fits]; omega
    · simp only [Fits]; omega
    · simp only [Fits]; have := crc32c_lt (body magic version s); omega
  have henc : serialize magic version s = magic ++ encL layout [.n version, .n s.chunkSize, .n s.fileSize, .n s.total,
      .bs s.fileID, .bs s.bitmap, .n (crc32c (body magic version s))] := by
    simp [serialize, body, layout, encL, encF, List.append_assoc]
  have hlen : (serialize magic version s).length = (body magic version s).length + 4 := by
    simp [serialize, putBE_length]
  have htake : (serialize magic version s).take ((serialize magic version s).length - 4) = body magic version s := by
    rw [hlen]; simp [serialize]
  unfold parse
  have h6 : ¬ (serialize magic version s).length < 6 := by
    rw [hlen]; simp [body, hm]; omega
  have hmag : (serialize magic version s).take 4 = magic := by
    rw [henc, ← hm]; simp
  have hdrop : (serialize magic version s).drop 4 = encL layout [.n version, .n s.chunkSize, .n s.fileSize, .n s.total,
      .bs s.fileID, .bs s.bitmap, .n (crc32c (body magic version s))] ++ [] := by
    rw [henc, ← hm]; simp
  simp only [h6, if_false, hmag, ne_eq, not_true_eq_false]
  rw [hdrop, decL_encL _ _ _ hfits]
  simp [htake, hok]

/-- **C06_wellformed.** Whatever bytes are on disk: an accepted sidecar has exactly ⌈total/8⌉ bitmap
    bytes and no bit at an index ≥ total, so the number of set bits never exceeds `total`. -/
theorem C06_wellformed (magic : Bytes) (version : Nat) (data : Bytes) (s : Sc) (h : parse magic version data = .ok s) :
    s.bitmap.length = (s.total + 7) / 8 ∧ noStrayBits s.bitmap s.total = true := by
  unfold parse at h
  split at h
  · cases h
  · split at h
    · cases h
    · split at h
      · cases h
      · split at h
        · cases h
        · split at h
          · cases h
          · split at h
            · cases h
            · rename_i hb
              cases h
              simp only [bitmapOk, Bool.not_eq_true, Bool.and_eq_false_iff, not_or, Bool.not_eq_false] at hb
              simpa using hb
      · cases h

/-- **C06_parse_total.** `LoadSidecar` decides every byte string (error or record) -/
theorem C06_parse_total (magic : Bytes) (version : Nat) (data : Bytes) :
    (∃ e, parse magic version data = .error e) ∨ (∃ s, parse magic version data = .ok s) := by
  cases parse magic version data with
  | error e => exact Or.inl ⟨e, rfl⟩
  | ok s => exact Or.inr ⟨s, rfl⟩

/-- **C06_identity.** A stored sidecar is used only if its (id, size, chunk size) equal the requested ones;
    anything else — unreadable, damaged, foreign — yields a fresh all-zero sidecar. -/
theorem C06_identity (magic : Bytes) (version : Nat) (data : Option Bytes) (fid : Bytes) (fs cs : Nat) (s : Sc)
    (h : loadValid magic version data fid fs cs = some s) :
    s.fileID = fid ∧ s.fileSize = fs ∧ s.chunkSize = cs ∧ ∃ d, data = some d ∧ parse magic version d = .ok s := by
  unfold loadValid at h
  split at h
  · cases h
  · rename_i d
    split at h
    · cases h
    · rename_i s' hp
      split at h
      · cases h
      · rename_i hne
        cases h
        simp only [not_or, Decidable.not_not] at hne
        exact ⟨hne.2.2, hne.2.1, hne.1, d, rfl, hp⟩

/-- too-short and wrong-magic files are refused -/
theorem C06_small (magic : Bytes) (version : Nat) (data : Bytes) (h : data.length < 6) :
    parse magic version data = .error .tooSmall := by
  simp [parse, h]

-- non-vacuity
example : Wf { fileID := [97], fileSize := 74, chunkSize := 32, total := 3, bitmap := [3] } :=
  ⟨by decide, by decide, by decide, by decide, by decide, by decide⟩
example : bitmapOk [0xF8] 3 = false := by decide      -- stray bits 3..7 with total 3
example : bitmapOk [0x07] 3 = true := by decide

end TV.C06
