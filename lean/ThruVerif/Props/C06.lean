import ThruVerif.Model.Sidecar
import ThruVerif.Gen.Consts
import ThruVerif.Proofs.Resume
import ThruVerif.Model.Entry
import ThruVerif.Model.Begin
import ThruVerif.Gen.Shapes
/-!
# C06 — Stale, foreign or damaged resume state is never trusted  (metadata part)

What `LoadSidecar` accepts is well-formed, what `Flush` writes is read back unchanged, and a sidecar is
used only when its identity triple equals the requested one. The behaviour of the resumed transfer from
tampered states is decided by the per-file protocol model (`Props/C01`) together with the tamper runs.
-/
namespace TV.C06
open TV TV.Codec TV.Sidecar

theorem crcBit_lt (c : Nat) (h : c < 2 ^ 32) : crcBit c < 2 ^ 32 := by
  unfold crcBit
  split
  · apply Nat.xor_lt_two_pow
    · omega
    · decide
  · omega

theorem crcByte_lt (c : Nat) (b : UInt8) (h : c < 2 ^ 32) : crcByte c b < 2 ^ 32 := by
  unfold crcByte
  have hb : b.toNat < 2 ^ 32 := by have := b.toNat_lt; omega
  have h0 : c ^^^ b.toNat < 2 ^ 32 := Nat.xor_lt_two_pow h hb
  exact crcBit_lt _ (crcBit_lt _ (crcBit_lt _ (crcBit_lt _ (crcBit_lt _ (crcBit_lt _ (crcBit_lt _ (crcBit_lt _ h0)))))))

theorem crc32c_lt (bs : Bytes) : crc32c bs < 2 ^ 32 := by
  unfold crc32c
  have : ∀ (l : Bytes) (c : Nat), c < 2 ^ 32 → l.foldl crcByte c < 2 ^ 32 := by
    intro l
    induction l with
    | nil => intro c h; exact h
    | cons b bs ih => intro c h; exact ih _ (crcByte_lt c b h)
  exact Nat.xor_lt_two_pow (this bs _ (by decide)) (by decide)

/-- field limits of a sidecar the code can write -/
structure Wf (s : Sc) : Prop where
  hid : s.fileID.length < 2 ^ 16
  hfs : s.fileSize < 2 ^ 64
  hcs : s.chunkSize < 2 ^ 32
  htot : s.total < 2 ^ 32
  hbm : s.bitmap.length < 2 ^ 32
  hok : bitmapOk s.bitmap s.total = true

/-- **C06_roundtrip.** What `Flush` writes, `LoadSidecar` reads back unchanged. -/
theorem C06_roundtrip (magic : Bytes) (version : Nat) (s : Sc) (hm : magic.length = 4) (hv : version < 2 ^ 16) (h : Wf s) :
    parse magic version (serialize magic version s) = .ok s := by
  obtain ⟨hid, hfs, hcs, htot, hbm, hok⟩ := h
  have hfits : FitsL layout [.n version, .n s.chunkSize, .n s.fileSize, .n s.total, .bs s.fileID, .bs s.bitmap,
      .n (crc32c (body magic version s))] := by
    refine .cons ?_ (.cons ?_ (.cons ?_ (.cons ?_ (.cons ⟨by simpa using hid, by intro l hl; cases hl⟩
      (.cons ⟨by simpa using hbm, by intro l hl; cases hl⟩ (.cons ?_ .nil))))))
    · simp only [Fits]; omega
    · simp only [Fits]; omega
    · simp only [Fits]; omega
    · simp only [Fits]; omega
    · simp only [Fits]; have := crc32c_lt (body magic version s); omega
  have henc : serialize magic version s = magic ++ encL layout [.n version, .n s.chunkSize, .n s.fileSize, .n s.total,
      .bs s.fileID, .bs s.bitmap, .n (crc32c (body magic version s))] := by
    simp [serialize, body, layout, encL, encF, List.append_assoc]
  have hlen : (serialize magic version s).length = (body magic version s).length + 4 := by
    simp [serialize, putBE_length]
  have htake : (serialize magic version s).take ((serialize magic version s).length - 4) = body magic version s := by
    rw [hlen]; simp [serialize]
  unfold parse
  have h6 : ¬ (serialize magic version s).length < 6 := by
    rw [hlen]; simp [body, hm]; omega
  have hmag : (serialize magic version s).take 4 = magic := by
    rw [henc, ← hm]; simp
  have hdrop : (serialize magic version s).drop 4 = encL layout [.n version, .n s.chunkSize, .n s.fileSize, .n s.total,
      .bs s.fileID, .bs s.bitmap, .n (crc32c (body magic version s))] ++ [] := by
    rw [henc, ← hm]; simp
  simp only [h6, if_false, hmag, ne_eq, not_true_eq_false]
  rw [hdrop, decL_encL _ _ _ hfits]
  simp [htake, hok]

/-- **C06_wellformed.** Whatever bytes are on disk: an accepted sidecar has exactly ⌈total/8⌉ bitmap
    bytes and no bit at an index ≥ total, so the number of set bits never exceeds `total`. -/
theorem C06_wellformed (magic : Bytes) (version : Nat) (data : Bytes) (s : Sc) (h : parse magic version data = .ok s) :
    s.bitmap.length = (s.total + 7) / 8 ∧ noStrayBits s.bitmap s.total = true := by
  unfold parse at h
  split at h
  · cases h
  · split at h
    · cases h
    · split at h
      · cases h
      · split at h
        · cases h
        · split at h
          · cases h
          · split at h
            · cases h
            · rename_i hb
              cases h
              simp only [bitmapOk, Bool.not_eq_true, Bool.and_eq_false_iff, not_or, Bool.not_eq_false] at hb
              simpa using hb
      · cases h

/-- **C06_parse_total.** `LoadSidecar` decides every byte string (error or record) -/
theorem C06_parse_total (magic : Bytes) (version : Nat) (data : Bytes) :
    (∃ e, parse magic version data = .error e) ∨ (∃ s, parse magic version data = .ok s) := by
  cases parse magic version data with
  | error e => exact Or.inl ⟨e, rfl⟩
  | ok s => exact Or.inr ⟨s, rfl⟩

/-- **C06_identity.** A stored sidecar is used only if its (id, size, chunk size) equal the requested ones;
    anything else — unreadable, damaged, foreign — yields a fresh all-zero sidecar. -/
theorem C06_identity (magic : Bytes) (version : Nat) (data : Option Bytes) (fid : Bytes) (fs cs : Nat) (s : Sc)
    (h : loadValid magic version data fid fs cs = some s) :
    s.fileID = fid ∧ s.fileSize = fs ∧ s.chunkSize = cs ∧ ∃ d, data = some d ∧ parse magic version d = .ok s := by
  unfold loadValid at h
  split at h
  · cases h
  · rename_i d
    split at h
    · cases h
    · rename_i s' hp
      split at h
      · cases h
      · rename_i hne
        cases h
        simp only [not_or, Decidable.not_not] at hne
        exact ⟨hne.2.2, hne.2.1, hne.1, d, rfl, hp⟩

/-- too-short and wrong-magic files are refused -/
theorem C06_small (magic : Bytes) (version : Nat) (data : Bytes) (h : data.length < 6) :
    parse magic version data = .error .tooSmall := by
  simp [parse, h]

-- non-vacuity
example : Wf { fileID := [97], fileSize := 74, chunkSize := 32, total := 3, bitmap := [3] } :=
  ⟨by decide, by decide, by decide, by decide, by decide, by decide⟩
example : bitmapOk [0xF8] 3 = false := by decide      -- stray bits 3..7 with total 3
example : bitmapOk [0x07] 3 = true := by decide

/-! ### which stored state a beginning file resumes from (`Model/Entry`) -/

open TV.Entry in
/-- **C06_entry_trusts_only_matching_state.** Whatever bytes lie at the primary and the fallback metadata location and whatever
became of the data file: the receiver resumes from a stored record only if the data file is there with exactly the announced
length and the record - a well-formed one, from one of the two locations - was written for this id, this size and this chunk size.
Metadata left over from a deleted or shortened data file, or from another file, is never used. -/
theorem C06_entry_trusts_only_matching_state (magic : Bytes) (version : Nat) (df : DataFile) (primary fallback : Option Bytes)
    (fid : Bytes) (fs cs : Nat) (s : Sc) (h : entry magic version df primary fallback fid fs cs = some s) :
    df = .present fs ∧ s.fileID = fid ∧ s.fileSize = fs ∧ s.chunkSize = cs ∧
    ∃ d, (primary = some d ∨ fallback = some d) ∧ parse magic version d = .ok s := by
  unfold entry at h
  simp only at h
  have hk : kept df fs = true := by
    cases hkk : kept df fs with
    | true => rfl
    | false =>
      simp only [hkk, Bool.false_eq_true, ↓reduceIte] at h
      simp [loadValid] at h
  have hdf : df = .present fs := by
    cases df with
    | absent => simp [kept] at hk
    | present sz => simp only [kept, beq_iff_eq] at hk; rw [hk]
  simp only [hk, ↓reduceIte] at h
  split at h
  · rename_i s' hs
    cases h
    obtain ⟨h1, h2, h3, d, hd, hp⟩ := C06_identity magic version primary fid fs cs s hs
    exact ⟨hdf, h1, h2, h3, d, Or.inl hd, hp⟩
  · obtain ⟨h1, h2, h3, d, hd, hp⟩ := C06_identity magic version fallback fid fs cs s h
    exact ⟨hdf, h1, h2, h3, d, Or.inr hd, hp⟩

open TV.Entry in
/-- **C06_entry_only_next_to_the_file.** What the receiver calls: it resumes from a stored record only if the data file it is about to
write is there with exactly the announced length and the record is the well-formed one lying *next to that file*, written for this
id, size and chunk size. No other location is consulted. -/
theorem C06_entry_only_next_to_the_file (magic : Bytes) (version : Nat) (df : DataFile) (primary : Option Bytes)
    (fid : Bytes) (fs cs : Nat) (s : Sc) (h : entryAt magic version df primary fid fs cs = some s) :
    df = .present fs ∧ s.fileID = fid ∧ s.fileSize = fs ∧ s.chunkSize = cs ∧ ∃ d, primary = some d ∧ parse magic version d = .ok s := by
  obtain ⟨h1, h2, h3, h4, d, hd, hp⟩ := C06_entry_trusts_only_matching_state magic version df primary none fid fs cs s h
  rcases hd with hd | hd
  · exact ⟨h1, h2, h3, h4, d, hd, hp⟩
  · cases hd

open TV.Entry in
/-- the receiver as it was: with no record next to the file being written, a record lying under `<out>/<root>` - written for the
file of the same name over there - was resumed from, provided only that *some* file of the announced length stood at `<out>/<rel
path>`; its bitmap then made the sender skip chunks that file never held -/
theorem C06_entry_refuted_before_fix (magic : Bytes) (version : Nat) (elsewhere : Bytes) (fid : Bytes) (fs cs : Nat) (s : Sc)
    (hl : loadValid magic version (some elsewhere) fid fs cs = some s) :
    entryOld magic version (.present fs) none (some elsewhere) fid fs cs = some s := by
  simp [entryOld, entry, kept, loadValid] at hl ⊢
  exact hl

open TV.Entry in
/-- premises satisfiable / the two clauses apart: with the data file gone nothing is resumed, whatever the metadata says -/
example (magic : Bytes) (version : Nat) (p f : Option Bytes) (fid : Bytes) (fs cs : Nat) :
    entry magic version .absent p f fid fs cs = none ∧ entry magic version (.present (fs + 1)) p f fid fs cs = none := by
  constructor <;> simp [entry, kept, loadValid]

open TV.Gen.Shapes in
set_option maxRecDepth 16384 in
/-- the source `Model/Entry` was transcribed from: the stat test and what is removed when it fails, the arguments of
`LoadOrCreateSidecarWithFallback`, and its decisions (primary first, identity triple compared, mismatching file removed) -/
theorem C06_source_entry :
    entry_stat_test = ["opts.Resume ; statErr != nil || info.Size() != int64(begin.FileSize)"] ∧
    entry_removes = ["SidecarPath(baseDir, \"\", sidecarIdentifier(item))"] ∧
    -- both loads (`buildResumeInfo`, `handleFileBegin`) pass the record under `baseDir` and an empty fallback path (`entryAt`);
    -- the data file the stat test looks at lies under the same `baseDir`
    entry_load_args = ["primary, \"\", state.item.ID, state.item.Size, state.chunkSize", "primary, \"\", item.ID, int64(begin.FileSize), begin.ChunkSize"] ∧
    entry_primary_path = ["SidecarPath(baseDir, \"\", sidecarIdentifier(state.item))", "SidecarPath(baseDir, \"\", sidecarIdentifier(item))"] ∧
    entry_file_path = ["filepath.Join(baseDir, filepath.FromSlash(begin.RelPath))"] ∧
    entry_load_ifs = ["chunkSize == 0", "path == \"\"", "err != nil", "sc.ChunkSize != chunkSize || sc.FileSize != fileSize || sc.FileID != fileID",
      "err != nil", "err != nil ; ok", "err != nil", "err != nil ; ok"] := by decide

end TV.C06

namespace TV.Resume

/-! ### the resume negotiation (`Model/Resume`): what the receiver reports and what the sender plans from it -/

/-- **C06_resume_repairs_last_chunk.** The receiver found a sidecar whose recorded chunks are in the file except, possibly, the
highest recorded one (torn by power loss). With verification on (`--resume-verify` other than none and a hash algorithm: what
`thru host` runs with), for any verify tail (`thru host`: 0), any bitmap, any position of the damaged chunk, and whether or not the
receiver could hash it in time: after the resumed run every chunk of the file is good - the damaged chunk is re-sent because its
hash differs or, when the hash is unknown, because it lies at or above `forceSendFrom` (fix 85dab2f; before it this needed a tail
of at least one chunk, which the live sender does not have); nothing that is missing is skipped. -/
theorem C06_resume_repairs_last_chunk (c : Cfg) (total : Nat) (b : List Bool) (good : Nat → Bool) (hashed : Bool)
    (ht : total > 0) (hv : c.verify = true) (hh : c.hashOn = true)
    (hsound : ∀ i, bit b i = true → highest b total ≠ some i → good i = true) (i : Nat) (hi : i < total) :
    goodAfter good (recvInfo total b good hashed c.hashOn) (plan c (recvInfo total b good hashed c.hashOn)) i = true := by
  cases hhi : highest b total with
  | none =>
    have hb := highest_none hhi i hi
    simp [goodAfter, sent, skipped, recvInfo, hhi, hb, hi]
  | some h =>
    obtain ⟨hbh, hht, habove⟩ := highest_some hhi
    by_cases hbi : bit b i = true
    · by_cases hih : i = h
      · subst hih
        cases hg : good i with
        | true => simp [goodAfter, hg]
        | false =>
          cases hashed with
          | true =>
            simp only [goodAfter, sent, resend, recvInfo, hhi, hi, hg, hh, decide_true, Bool.true_and, Bool.false_or, Bool.not_true,
              Bool.not_false, Bool.and_true, Bool.or_eq_true, Bool.or_true]
            right
            rw [verifyNeeded_eq]
            simp [hi, hv, hh]
          | false =>
            have hle := force_le_unknown (c := c) (info := recvInfo total b good false c.hashOn)
              (by simp [recvInfo, hhi, hh]) (by simpa [recvInfo, hhi] using ht) (by simpa [recvInfo, hhi] using hi)
            simp only [recvInfo, hhi] at hle
            simp only [goodAfter, sent, skipped, recvInfo, hhi, hi, decide_true, Bool.true_and, Bool.or_eq_true]
            right; left
            simp only [Bool.not_eq_true', Bool.and_eq_false_iff, decide_eq_false_iff_not]
            right
            omega
      · have := hsound i hbi (by rw [hhi]; intro e; injection e with e; exact hih e.symm)
        simp [goodAfter, this]
    · have hbf : bit b i = false := by cases hb : bit b i <;> simp_all
      simp [goodAfter, sent, skipped, recvInfo, hhi, hbf, hi]

/-- nothing recorded: every chunk travels -/
theorem C06_nothing_recorded_sends_all (c : Cfg) (total : Nat) (b : List Bool) (good : Nat → Bool) (hashed : Bool)
    (hn : highest b total = none) (i : Nat) (hi : i < total) :
    sent (recvInfo total b good hashed c.hashOn) (plan c (recvInfo total b good hashed c.hashOn)) i = true := by
  have hb := highest_none hn i hi
  simp [sent, skipped, recvInfo, hn, hb, hi]

open TV.Gen.Shapes in
set_option maxRecDepth 16384 in
/-- the source `Model/Resume.plan` / `recvInfo` were transcribed from: every assignment to `forceSendFrom`, every `if` that mentions it
(enclosing conditions first), the definitions of `verifyNeeded`, `allComplete`, `hashUnknown`, `minForce`, the chunk that is re-sent,
and what the receiver puts into its report -/
theorem C06_source_plan :
    plan_force_assigns = ["uint32(0)", "verifiedChunk + 1", "totalChunks", "0", "tail", "totalChunks", "minForce", "verifiedChunk"] ∧
    plan_force_ifs = ["totalChunks > 0 && len(info.Bitmap) > 0 ; !allComplete ; tail > 0 && forceSendFrom > 0",
      "totalChunks > 0 && len(info.Bitmap) > 0 ; !allComplete ; tail > 0 && forceSendFrom > 0 ; tail >= forceSendFrom",
      "totalChunks > 0 && len(info.Bitmap) > 0 ; forceSendFrom > totalChunks",
      "totalChunks > 0 && len(info.Bitmap) > 0 ; hashUnknown && totalChunks > 0 ; forceSendFrom > minForce",
      "totalChunks > 0 && len(info.Bitmap) > 0 ; hashUnknown && totalChunks > 0 ; verifiedChunk < totalChunks && forceSendFrom > verifiedChunk",
      "totalChunks > 0 && len(info.Bitmap) > 0 ; opts.ResumeStatsFn != nil ; forceSendFrom > 0"] ∧
    plan_verify_needed = ["verifyMode != \"none\" && verifiedChunk < totalChunks && hashAlg != HashAlgNone && !hashUnknown"] ∧
    plan_all_complete = ["totalChunks > 0 && completedChunks >= totalChunks"] ∧
    plan_hash_unknown = ["info.LastVerifiedHash == resumeHashUnknown"] ∧
    plan_min_force = ["uint32(0)", "totalChunks - tail"] ∧
    plan_resend_chunk = ["vChunk"] ∧
    report_last_verified = ["state.totalChunks", "uint32(highest)", "state.totalChunks"] ∧
    report_hash = ["hashValue", "resumeHashUnknown"] ∧
    report_bitmap = ["state.sidecar.MarshalBitmap()"] := by decide

-- non-vacuity and the excluded configurations, on 8 chunks with chunks 0,1,2,5 recorded and chunk 5 torn
def exGood : Nat → Bool := fun i => i == 0 || i == 1 || i == 2
def exB : List Bool := [true, true, true, false, false, true, false, false]
-- tail 1: chunks 3,4 (missing), 5 (torn: hash differs; also within the tail), 6,7 travel; 0..2 do not
example : sentList (recvInfo 8 exB exGood true true) (plan ⟨1, true, true⟩ (recvInfo 8 exB exGood true true)) = [3, 4, 5, 6, 7] := by decide
-- the live configuration (tail = 0) with the hash not computed in time: the torn chunk 5 travels (before fix 85dab2f the real sender
-- sent [3, 4, 6, 7] for this report - the replay recorded in known_findings.json)
example : sentList (recvInfo 8 exB exGood false true) (plan ⟨0, true, true⟩ (recvInfo 8 exB exGood false true)) = [3, 4, 5, 6, 7] := by decide
-- verification switched off by the user and everything recorded: nothing travels, a torn last chunk stays
example : sentList (recvInfo 3 [true, true, true] (fun i => i != 2) true true) (plan ⟨1, false, true⟩ (recvInfo 3 [true, true, true] (fun i => i != 2) true true)) = [] := by decide

end TV.Resume

namespace TV.Begin

/-! ### a resumed file with everything recorded: when may the receiver call it complete (`Model/Begin`) -/

structure Inv (s : St) : Prop where
  ph : s.phase ≥ 1 → s.verifyAsked = true
  reg : s.registered = true → s.phase = 2
  fin : s.finalised = true → ∃ n, s.endCount = some n ∧ s.framesRecv ≥ n

theorem inv_init : Inv init := ⟨by simp [init], by simp [init], by simp [init]⟩

theorem inv_step {s s' : St} {a : Step} (hI : Inv s) (h : step true s a = some s') : Inv s' := by
  obtain ⟨hp, hr, hf⟩ := hI
  cases a with
  | begin_ =>
    simp only [step] at h
    split at h
    · rename_i h0
      injection h with h; subst h
      refine ⟨fun _ => rfl, ?_, hf⟩
      intro hreg
      have := hr hreg
      omega
    · split at h
      · rename_i h0 h1
        injection h with h; subst h
        exact ⟨fun _ => hp (by omega), fun _ => rfl, hf⟩
      · cases h
  | frame =>
    simp only [step] at h
    split at h
    · injection h with h; subst h; exact ⟨hp, hr, hf⟩
    · split at h
      · rename_i hnf hreg
        have hv : s.verifyAsked = true := hp (by have := hr hreg; omega)
        injection h with h; subst h
        split
        · rename_i hc
          refine ⟨hp, hr, fun _ => ?_⟩
          simp only [complete, hv, Bool.not_true, Bool.false_eq_true, ↓reduceIte] at hc
          cases he : s.endCount with
          | none => simp [he] at hc
          | some n => exact ⟨n, rfl, by simpa [he] using hc⟩
        · exact ⟨hp, hr, fun hfin => by simp at hnf; simp [hnf] at hfin⟩
      · cases h
  | fileEnd n =>
    simp only [step] at h
    split at h
    · rename_i hc
      have hv : s.verifyAsked = true := hp (by omega)
      injection h with h; subst h
      split
      · rename_i hcc
        refine ⟨hp, hr, fun _ => ⟨n, rfl, ?_⟩⟩
        simp only [Bool.and_eq_true, Bool.not_eq_true', complete, hv, Bool.not_true, Bool.false_eq_true, ↓reduceIte, decide_eq_true_eq] at hcc
        exact hcc.2
      · rename_i hcc
        refine ⟨hp, hr, fun hfin => ?_⟩
        -- already finalised before: the earlier witness was for endCount = none, impossible
        obtain ⟨m, hm, _⟩ := hf hfin
        rw [hc.2] at hm
        cases hm
    · cases h

theorem inv_run {s s' : St} {as : List Step} (hI : Inv s) (h : run true s as = some s') : Inv s' := by
  induction as generalizing s with
  | nil => simp [run] at h; subst h; exact hI
  | cons a as ih =>
    simp only [run] at h
    split at h
    · rename_i s1 h1
      exact ih (inv_step hI h1) h
    · cases h

/-- **C06_all_recorded_file_waits_for_file_end.** Frames may overtake the file's `FileBegin` and readers may run between any two
actions of `handleFileBegin`: with the report built before the file is registered, a file whose chunks are all recorded is finalised
only after `FileEnd`, when every frame `FileEnd` announces has been processed - the re-send of a torn last chunk is one of them -/
theorem C06_all_recorded_file_waits_for_file_end (as : List Step) (s : St) (h : run true init as = some s) (hf : s.finalised = true) :
    ∃ n, s.endCount = some n ∧ s.framesRecv ≥ n :=
  (inv_run inv_init h).fin hf

/-- premises satisfiable: seven frames, two of them parked before the FileBegin is handled -/
example : ∃ s, run true init [.begin_, .begin_, .frame, .frame, .frame, .fileEnd 7, .frame, .frame, .frame, .frame] = some s ∧
    s.finalised = true ∧ s.framesRecv = 7 ∧ s.drained = 0 := ⟨_, rfl, rfl, rfl, rfl⟩

/-- the order before fix 91ddaf6 (registration, then report): a reader running between the two finalises the file at its first frame;
the six frames behind it are drained (the schedule replayed with `recv.file_begin.enter` held and a slow display callback) -/
theorem C06_all_recorded_file_refuted_before_fix :
    ∃ s, run false init [.begin_, .frame, .begin_, .frame, .frame, .frame, .frame, .frame, .frame] = some s ∧
      s.finalised = true ∧ s.framesRecv = 1 ∧ s.drained = 6 ∧ s.endCount = none := ⟨_, rfl, rfl, rfl, rfl, rfl⟩

open TV.Gen.Shapes in
/-- `handleFileBegin`: the report is built (`buildResumeInfo`, which sets `verifyAsked`) before the file is put into `stateByKey` and
the parked readers are signalled (the last entry is the `ResumeRequest` handler's own call) -/
theorem C06_source_begin_order :
    begin_order = ["info, err := buildResumeInfo(state)", "stateByKey[key] = state", "fileReady.signal(key)",
      "info, err := buildResumeInfo(state)"] := by decide

end TV.Begin
