import ThruVerif.Model.Race
import ThruVerif.Gen.Shapes
import ThruVerif.Proto.Race
/-!
# C09 — Connection racing leaves both peers on the same single connection

For every number of candidates and every interleaving of handshake completions on both sides, failures,
cancellations, claims, the caller's receive, the listener's accepts and the concurrent authentications.
-/
namespace TV.C09
open TV.Race

structure Inv (s : St) : Prop where
  handedWinner : ∀ i, task s i = .handed → s.winner = some i
  winnerHanded : ∀ i, s.winner = some i → task s i = .handed
  claimedIff : s.claimed = true ↔ (s.winner.isSome ∨ s.aborted = true)
  abortedClean : s.aborted = true → s.winner = none ∧ s.slot = none ∧ s.returned = none
  slotWinner : ∀ i, s.slot = some i → s.winner = some i ∧ s.returned = none
  retWinner : ∀ i, s.returned = some i → s.winner = some i
  authedRet : ∀ i ∈ s.authed, s.returned = some i
  primAuthed : ∀ i, s.primary = some i → i ∈ s.authed

theorem task_init (k i : Nat) : task (init k) i = .probing ∨ task (init k) i = .failed := by
  unfold task taskL init
  simp only
  by_cases h : i < k
  · left; simp [h]
  · right; simp [h]

theorem inv_init (k : Nat) : Inv (init k) := by
  constructor
  · intro i h
    rcases task_init k i with h' | h' <;> rw [h'] at h <;> cases h
  · intro i h; simp [init] at h
  · simp [init]
  · intro h; simp [init] at h
  · intro i h; simp [init] at h
  · intro i h; simp [init] at h
  · intro i h; simp [init] at h
  · intro i h; simp [init] at h

/-- reading a task after one task was overwritten -/
theorem taskL_set (l : List Task) (i j : Nat) (t : Task) (hi : taskL l i ≠ .failed) :
    taskL (l.set i t) j = if i = j then t else taskL l j := by
  unfold taskL
  simp only [List.getElem?_set]
  by_cases h : i = j
  · subst h
    have : i < l.length := by
      apply Decidable.byContradiction
      intro hc
      apply hi
      unfold taskL
      simp [List.getElem?_eq_none (Nat.le_of_not_lt hc)]
    simp [this]
  · simp [h]

theorem step_inv {s s' : St} {a : Step} (h : Inv s) (hs : step s a = some s') : Inv s' := by
  cases a with
  | clientDone i =>
    simp only [step] at hs
    split at hs
    · rename_i hp
      cases hs
      have hne : task s i ≠ .failed := by rw [hp]; decide
      refine { h with handedWinner := ?_, winnerHanded := ?_ }
      · intro j hj
        simp only [task] at hj ⊢; rw [taskL_set _ i j _ hne] at hj
        split at hj
        · cases hj
        · exact h.handedWinner j hj
      · intro j hj
        simp only [task]; rw [taskL_set _ i j _ hne]
        split
        · rename_i hij
          subst hij
          have := h.winnerHanded i hj
          rw [hp] at this; cases this
        · exact h.winnerHanded j hj
    · cases hs
  | clientFail i =>
    simp only [step] at hs
    split at hs
    · rename_i hp
      cases hs
      have hne : task s i ≠ .failed := by rw [hp]; decide
      refine { h with handedWinner := ?_, winnerHanded := ?_ }
      · intro j hj
        simp only [task] at hj ⊢; rw [taskL_set _ i j _ hne] at hj
        split at hj
        · cases hj
        · exact h.handedWinner j hj
      · intro j hj
        simp only [task]; rw [taskL_set _ i j _ hne]
        split
        · rename_i hij
          subst hij
          have := h.winnerHanded i hj
          rw [hp] at this; cases this
        · exact h.winnerHanded j hj
    · cases hs
  | cancelSeen i =>
    simp only [step] at hs
    split at hs
    · rename_i hp
      cases hs
      have hne : task s i ≠ .failed := by rw [hp.2]; decide
      refine { h with handedWinner := ?_, winnerHanded := ?_ }
      · intro j hj
        simp only [task] at hj ⊢; rw [taskL_set _ i j _ hne] at hj
        split at hj
        · cases hj
        · exact h.handedWinner j hj
      · intro j hj
        simp only [task]; rw [taskL_set _ i j _ hne]
        split
        · rename_i hij
          subst hij
          have := h.winnerHanded i hj
          rw [hp.2] at this; cases this
        · exact h.winnerHanded j hj
    · cases hs
  | claim i =>
    simp only [step] at hs
    split at hs
    · rename_i hp
      have hne : task s i ≠ .failed := by rw [hp]; decide
      split at hs
      · cases hs
        refine { h with handedWinner := ?_, winnerHanded := ?_ }
        · intro j hj
          simp only [task] at hj ⊢; rw [taskL_set _ i j _ hne] at hj
          split at hj
          · cases hj
          · exact h.handedWinner j hj
        · intro j hj
          simp only [task]; rw [taskL_set _ i j _ hne]
          split
          · rename_i hij
            subst hij
            have := h.winnerHanded i hj
            rw [hp] at this; cases this
          · exact h.winnerHanded j hj
      · rename_i hcl
        cases hs
        have hnone : s.winner = none := by
          cases hw : s.winner with
          | none => rfl
          | some w =>
            exfalso; apply hcl
            exact h.claimedIff.mpr (by simp [hw])
        have hna : s.aborted ≠ true := fun ha => hcl (h.claimedIff.mpr (Or.inr ha))
        constructor
        · intro j hj
          simp only [task] at hj ⊢; rw [taskL_set _ i j _ hne] at hj
          split at hj
          · rename_i hij; subst hij; rfl
          · have := h.handedWinner j hj
            rw [hnone] at this; cases this
        · intro j hj
          simp only [Option.some.injEq] at hj
          subst hj
          simp only [task]; rw [taskL_set _ i i _ hne]; simp
        · simp
        · intro ha; exact absurd ha hna
        · intro j hj
          simp only [Option.some.injEq] at hj
          subst hj
          refine ⟨rfl, ?_⟩
          cases hr : s.returned with
          | none => rfl
          | some r =>
            have := h.retWinner r hr
            rw [hnone] at this; cases this
        · intro j hj
          have := h.retWinner j hj
          rw [hnone] at this; cases this
        · exact h.authedRet
        · exact h.primAuthed
    · cases hs
  | mainRecv =>
    simp only [step] at hs
    split at hs
    · rename_i i hsl hret
      cases hs
      refine { h with slotWinner := ?_, retWinner := ?_, authedRet := ?_, abortedClean := ?_ }
      · intro ha
        have := (h.abortedClean ha).2.1
        rw [hsl] at this; cases this
      · intro j hj; cases hj
      · intro j hj
        simp only [Option.some.injEq] at hj
        subst hj
        exact (h.slotWinner i hsl).1
      · intro j hj
        have := h.authedRet j hj
        rw [hret] at this; cases this
    · cases hs
  | mainGiveUp =>
    simp only [step] at hs
    split at hs
    · cases hs; exact { h with }
    · cases hs
  | callerCancel =>
    simp only [step] at hs
    cases hs; exact { h with }
  | mainAbort =>
    simp only [step] at hs
    split at hs
    · rename_i hg
      split at hs
      · rename_i hcl
        cases hs
        have hnone : s.winner = none := by
          cases hw : s.winner with
          | none => rfl
          | some w =>
            have := h.claimedIff.mpr (Or.inl (by simp [hw]))
            rw [hcl] at this; cases this
        have hsl : s.slot = none := by
          cases hw : s.slot with
          | none => rfl
          | some w =>
            have := (h.slotWinner w hw).1
            rw [hnone] at this; cases this
        refine { h with claimedIff := ?_, abortedClean := ?_ }
        · simp
        · intro _; exact ⟨hnone, hsl, hg.2.1⟩
      · rename_i hcl
        split at hs
        · rename_i i hsl
          cases hs
          have hw := (h.slotWinner i hsl).1
          have hh := h.winnerHanded i hw
          have hne : task s i ≠ .failed := by rw [hh]; decide
          constructor
          · intro j hj
            simp only [task] at hj ⊢; rw [taskL_set _ i j _ hne] at hj
            split at hj
            · cases hj
            · rename_i hij
              have := h.handedWinner j hj
              rw [hw] at this
              exact absurd (Option.some.inj this) hij
          · intro j hj; cases hj
          · simpa using hcl
          · intro _; exact ⟨rfl, rfl, hg.2.1⟩
          · intro j hj; cases hj
          · intro j hj
            simp only at hj
            rw [hg.2.1] at hj; cases hj
          · exact h.authedRet
          · exact h.primAuthed
        · cases hs
    · cases hs
  | srvDone i =>
    simp only [step] at hs
    split at hs
    · cases hs; exact { h with }
    · cases hs
  | accept =>
    simp only [step] at hs
    split at hs
    · cases hs; exact { h with }
    · cases hs
  | authOk i =>
    simp only [step] at hs
    split at hs
    · rename_i hc
      cases hs
      refine { h with authedRet := ?_, primAuthed := ?_ }
      · intro j hj
        simp only [List.mem_append, List.mem_singleton] at hj
        rcases hj with hj | hj
        · exact h.authedRet j hj
        · subst hj; exact hc.2
      · intro j hj
        exact List.mem_append_left _ (h.primAuthed j hj)
    · cases hs
  | authFail i =>
    simp only [step] at hs
    split at hs
    · cases hs; exact { h with }
    · cases hs
  | pickPrimary =>
    simp only [step] at hs
    split at hs
    · rename_i i rest ha hp
      cases hs
      refine { h with primAuthed := ?_ }
      intro j hj
      simp only [Option.some.injEq] at hj
      subst hj
      rw [ha]; simp
    · cases hs

theorem reachable_inv {k : Nat} {s : St} (h : Reachable k s) : Inv s := by
  induction h with
  | init => exact inv_init k
  | step a _ hs ih => exact step_inv ih hs

/-- **One connection on the dialing side.** Once `ProbeAndDial` has returned `c` and every dial goroutine has
finished, `c` is the only connection still open: every other attempt failed, was cancelled, or closed itself —
also the ones that completed after the winner had been taken out of the channel. -/
theorem C09_single {k : Nat} {s : St} (h : Reachable k s) {c : Nat} (hr : s.returned = some c) (hq : quiescent s) :
    ∀ i, isOpen s i ↔ i = c := by
  have hi := reachable_inv h
  have hw := hi.retWinner c hr
  intro i
  constructor
  · rintro (he | hh)
    · exact absurd he (hq i).2
    · have := hi.handedWinner i hh
      rw [hw] at this
      exact (Option.some.inj this).symm
  · rintro rfl
    exact Or.inr (hi.winnerHanded i hw)

/-- **Failure is reported only when nothing was established.** If `ProbeAndDial` returned "all probes failed", then at
that moment no attempt had a connection: every dial had failed (none was still in flight, none was claimed or closed
as a loser, since a loser implies a winner in the channel, which is taken first). -/
theorem C09_gives_up_only_without_connection {s s' : St} (hs : step s .mainGiveUp = some s') :
    ∀ i, i < s.tasks.length → task s i = .failed ∨ task s i = .cancelled ∨ task s i = .closedLoser := by
  simp only [step] at hs
  split at hs
  · rename_i hc
    intro i hi
    have hall := hc.2.2.2.2
    rw [List.all_eq_true] at hall
    have hm : s.tasks[i] ∈ s.tasks := List.getElem_mem hi
    have := hall _ hm
    simp only [Bool.or_eq_true, beq_iff_eq] at this
    have ht : task s i = s.tasks[i] := by simp [task, taskL, hi]
    rw [ht]
    rcases this with (h | h) | h
    · exact Or.inl h
    · exact Or.inr (Or.inl h)
    · exact Or.inr (Or.inr h)
  · cases hs

/-- at any moment at most one attempt has been handed to the caller (exactly one "won") -/
theorem C09_one_winner {k : Nat} {s : St} (h : Reachable k s) {i j : Nat} (hi : task s i = .handed)
    (hj : task s j = .handed) : i = j := by
  have hv := reachable_inv h
  have a := hv.handedWinner i hi
  have b := hv.handedWinner j hj
  rw [a] at b
  exact Option.some.inj b

/-- **Both peers on the same connection.** The accepting side commits only to the connection the dialing side was
given: never to one that was abandoned (closed as loser, cancelled, dropped), whatever the order in which the listener
completed the handshakes. -/
theorem C09_agree {k : Nat} {s : St} (h : Reachable k s) {i : Nat} (hp : s.primary = some i) :
    s.returned = some i ∧ task s i = .handed := by
  have hv := reachable_inv h
  have hr := hv.authedRet i (hv.primAuthed i hp)
  exact ⟨hr, hv.winnerHanded i (hv.retWinner i hr)⟩

/-- every connection that passes authentication at the receiver — the transfer connection and any later extra one —
is the dialer's choice -/
theorem C09_only_chosen_authenticates {k : Nat} {s : St} (h : Reachable k s) {i : Nat} (ha : i ∈ s.authed) :
    s.returned = some i := (reachable_inv h).authedRet i ha

/-! ### authentication and the transfer start instead of waiting on abandoned connections -/

theorem run_append (s : St) (a b : List Step) :
    run s (a ++ b) = match run s a with | some s' => run s' b | none => none := by
  induction a generalizing s with
  | nil => rfl
  | cons x xs ih =>
    simp only [List.cons_append, run]
    split
    · exact ih _
    · rfl

/-- accepting drains the listener's queue whatever is in it (abandoned connections do not block the accept loop:
each one only occupies its own authentication goroutine) -/
theorem accept_all (s : St) : ∃ s', run s (List.replicate s.queue.length .accept) = some s' ∧
    s'.queue = [] ∧ s'.pending = s.pending ++ s.queue ∧ s'.returned = s.returned ∧ s'.authed = s.authed ∧
    s'.primary = s.primary ∧ s'.tasks = s.tasks := by
  generalize hq : s.queue = q
  induction q generalizing s with
  | nil => exact ⟨s, by simp [run, hq]⟩
  | cons x xs ih =>
    simp only [List.length_cons, List.replicate_succ, run, step, hq]
    obtain ⟨s', h1, h2, h3, h4, h5, h6, h7⟩ := ih { s with queue := xs, pending := s.pending ++ [x] } rfl
    exact ⟨s', h1, h2, by simp [h3], h4, h5, h6, h7⟩

/-- **The transfer starts.** When the dialer has been given `c` and the listener has completed `c`'s handshake
(queued or already being authenticated), the receiver reaches `primary = c` — however many abandoned connections
the listener completed before it. -/
theorem C09_starts {k : Nat} {s : St} (h : Reachable k s) {c : Nat} (hr : s.returned = some c)
    (hc : c ∈ s.queue ∨ c ∈ s.pending) (hnone : s.primary = none) (hna : s.authed = []) :
    ∃ steps s', run s steps = some s' ∧ s'.primary = some c := by
  obtain ⟨s1, h1, _, hp1, hr1, ha1, hprim1, _⟩ := accept_all s
  have hc1 : c ∈ s1.pending := by
    rw [hp1]; rcases hc with hc | hc
    · exact List.mem_append_right _ hc
    · exact List.mem_append_left _ hc
  refine ⟨List.replicate s.queue.length .accept ++ [.authOk c, .pickPrimary], ?_⟩
  rw [run_append, h1]
  simp only [run, step, hc1, hr1, hr, and_self, if_true, ha1, hna, List.nil_append, hprim1, hnone]
  exact ⟨_, rfl, rfl⟩

/-! ### the caller gives up (its context is cancelled while the dials are running) -/

/-- **Nothing is left behind when the caller cancels.** Once `ProbeAndDial` has returned the cancellation and every dial goroutine
has finished, no attempt has a connection open - also not a dial whose handshake had completed before the cancellation and that
got to its claim only afterwards, and not one that had claimed the race at the same moment. -/
theorem C09_cancelled_leaves_nothing {k : Nat} {s : St} (h : Reachable k s) (ha : s.aborted = true) (hq : quiescent s) :
    ∀ i, ¬ isOpen s i := by
  have hi := reachable_inv h
  rintro i (he | hh)
  · exact (hq i).2 he
  · have := hi.handedWinner i hh
    rw [(hi.abortedClean ha).1] at this; cases this

/-- and the accepting side commits to none of them: without a connection returned to the dialing side nothing passes authentication -/
theorem C09_cancelled_nothing_authenticates {k : Nat} {s : St} (h : Reachable k s) (ha : s.aborted = true) :
    s.authed = [] ∧ s.primary = none := by
  have hi := reachable_inv h
  have hau : s.authed = [] := by
    cases hl : s.authed with
    | nil => rfl
    | cons x xs =>
      have := hi.authedRet x (by rw [hl]; simp)
      rw [(hi.abortedClean ha).2.2] at this; cases this
  refine ⟨hau, ?_⟩
  cases hp : s.primary with
  | none => rfl
  | some i =>
    have := hi.primAuthed i hp
    rw [hau] at this; cases this

/-- the two outcomes exclude each other: a caller that was given a connection was not told "cancelled" -/
theorem C09_cancelled_or_returned {k : Nat} {s : St} (h : Reachable k s) (ha : s.aborted = true) : s.returned = none :=
  ((reachable_inv h).abortedClean ha).2.2

/-- premises satisfiable: candidate 0 completes its handshake, the caller cancels and returns, then 0 gets to its claim (and closes
itself); candidate 1 sees the cancellation in flight -/
example : (run (init 2) [.clientDone 0, .callerCancel, .mainAbort, .claim 0, .cancelSeen 1]).map
    (fun s => (s.aborted, s.returned, s.tasks)) = some (true, none, [.closedLoser, .cancelled]) := by decide

/-- a dial that had claimed the race when the cancellation was taken: its connection is taken out of the channel and closed -/
example : (run (init 1) [.clientDone 0, .claim 0, .callerCancel, .mainAbort]).map
    (fun s => (s.aborted, s.returned, s.slot, s.tasks)) = some (true, none, none, [.closedLoser]) := by decide

/-- the code as it was (the caller looked into the channel without taking the claim): a dial that got to its claim after the caller
had returned the cancellation put its connection into a channel nobody reads - it stayed open at both ends -/
theorem C09_cancelled_leaves_nothing_refuted_before_fix :
    (runOld (init 1) [.clientDone 0, .callerCancel, .mainAbort, .claim 0]).map
      (fun s => (s.aborted, s.returned, s.tasks)) = some (true, none, [.handed]) := by decide

/-! ### the full-strength statements fail for the code as it was (kept as refuted witnesses) -/

/-- before the repair (Proto/Race): a dial completing after the winner was taken found the slot free again -/
theorem C09_single_refuted_before_fix :
    (TV.RaceOld.run (TV.RaceOld.init 2) [.handshake 0, .handshake 1, .offer 0, .mainRecv, .offer 1]).map
      (fun s => (s.returned, TV.RaceOld.openConns s)) = some (some 0, [0, 1]) := by decide

/-- before the repair the listener committed to whichever handshake it completed first -/
theorem C09_agree_refuted_before_fix :
    (TV.RaceOld.run (TV.RaceOld.init 2) [.handshake 1, .handshake 0, .offer 0, .mainRecv, .offer 1]).map
      (fun s => (s.returned, s.serverOrder.head?)) = some (some 0, some 1) := by decide

/-! ### non-vacuity -/

/-- three candidates: the listener completes the loser 1 first, then the dropped 2, then the winner 0 -/
def demo : List Step :=
  [.clientDone 0, .clientDone 1, .srvDone 1, .claim 0, .mainRecv, .claim 1, .cancelSeen 2, .srvDone 2, .srvDone 0,
   .accept, .accept, .accept, .authFail 1, .authOk 0, .pickPrimary]

example : (run (init 3) demo).map (fun s => (s.returned, s.primary, s.tasks, s.pending, s.discarded)) =
    some (some 0, some 0, [.handed, .closedLoser, .cancelled], [2], [1]) := by decide

theorem reachable_run {k : Nat} {s : St} (hs : Reachable k s) (as : List Step) {s' : St}
    (h : run s as = some s') : Reachable k s' := by
  induction as generalizing s with
  | nil => simp only [run, Option.some.injEq] at h; exact h ▸ hs
  | cons a as ih =>
    simp only [run] at h
    split at h
    · rename_i s1 h1
      exact ih (Reachable.step a hs h1) h
    · cases h

example : ∃ s, Reachable 3 s ∧ s.returned = some 0 ∧ quiescent s ∧ s.primary = some 0 :=
  ⟨(run (init 3) demo).getD (init 3), reachable_run Reachable.init demo (by decide), by decide, by
    intro i
    match i with
    | 0 => decide
    | 1 => decide
    | 2 => decide
    | n + 3 => simp [task, taskL, demo, run, step, init], by decide⟩

/-- the claim is one atomic compare-and-swap (regenerated from the source on this run): the model's `claim` step in the dial
goroutine, and the caller's own claim when it gives up (`mainAbort`) -/
theorem C09_source_claim : TV.Gen.Shapes.probe_claim =
    ["claimed.CompareAndSwap(false, true)", "!claimed.CompareAndSwap(false, true)"] := by decide

/-- inside a dial goroutine: the claim, then at once the hand-over into the channel, and only then log and status callback - the
model's `claim` step is claim + hand-over with nothing in between, which is what lets `mainAbort` take a claimed connection out of
the channel without waiting on foreign code -/
theorem C09_source_claim_order : TV.Gen.Shapes.probe_claim_order =
    ["claimed.CompareAndSwap(false, true)", "resultCh <- conn", "State: ProbeStateWon", "conn.CloseWithError(0, \"race_lost\")"] := by decide

set_option maxRecDepth 16384 in
/-- the caller's `select`, case by case: `mainRecv`, `mainAbort` (take the claim; if a dial holds it, its connection is in the
channel or about to be - take it out and close it) and `mainGiveUp` (a claimed connection in the channel is taken first) -/
theorem C09_source_select : TV.Gen.Shapes.probe_selects =
    ["conn := <-resultCh => verifhook.PointS(\"ice.main.got_result\", conn.RemoteAddr().String()); return conn, nil",
     "<-ctx.Done() => if !claimed.CompareAndSwap(false, true) { conn := <-resultCh conn.CloseWithError(0, \"probe_canceled\") }; return nil, ctx.Err()",
     "<-allDone => select { case conn := <-resultCh: return conn, nil default: }; return nil, fmt.Errorf(\"all probes failed\")"] := by decide

open TV.Gen.Shapes in
/-- direct and relay (`turn:`) candidates are raced in two *sequential* phases of the same procedure: the relay phase is entered only
after the direct phase has returned an error - which `probeWithTransport` does only once every direct dial has finished (the
"all done" case of `C09_gives_up_only_without_connection`) - so the theorems above apply to each phase on its own and no direct dial
is still running when a relay candidate wins -/
theorem C09_source_phases :
    probe_phases = ["directCandidates, p.transport", "turnCandidates, p.transport"] ∧
    probe_direct_phase = ["!p.config.TurnOnly && len(directCandidates) > 0"] ∧
    probe_turn_phase = ["len(turnCandidates) > 0"] ∧
    probe_phase_errs = ["len(turnCandidates) > 0 ; directErr != nil", "directErr != nil"] := by decide

end TV.C09
