import ThruVerif.Model.Decision
import ThruVerif.Gen.Shapes
import ThruVerif.Props.C01
/-!
# C02 — No false success under faults

Layered on `Props/C01`: a damaged frame never ends up in a file finalised ok (`C02_corrupt`), a failed
file stays failed (`fin_final`), and the endpoints' return decisions report success only with every file
finalised ok / confirmed. Together with `C01_file_fidelity`: a receiver that returns success holds the
source bytes in every chunk of every file, whatever happened on the network.
-/
namespace TV.C02
open TV.Decision TV.FileSys

/-- **C02_receiver_decision.** Whichever `select` case fires, the receiver returns success only when every
    file of the manifest has been finalised with ok = true. -/
theorem C02_receiver_decision (completed total : Nat) (endReceived : Bool) (ev : RecvEv)
    (h : recvTurn completed total endReceived ev = .ok) : completed ≥ total := by
  cases ev with
  | ctxDone => simp [recvTurn] at h
  | doneSignal => simp only [recvTurn] at h; split at h <;> simp_all
  | controlErr isEOF graceful =>
    simp only [recvTurn] at h
    split at h
    · split at h <;> simp_all
    · split at h <;> simp_all
  | dataErr isNil graceful =>
    simp only [recvTurn] at h
    split at h
    · cases h
    · split at h <;> simp_all
  | endRecord => simp only [recvTurn] at h; split at h <;> simp_all
  | handled ok => simp only [recvTurn] at h; split at h <;> cases h

/-- **C02_sender_decision.** The sender returns success only if no error was recorded and the receiver
    confirmed every file (and End was written). -/
theorem C02_sender_decision (transferErr : Bool) (confirmed total : Nat) (endWritten : Bool)
    (h : sendReturn transferErr confirmed total endWritten = .ok) : transferErr = false ∧ confirmed ≥ total := by
  simp only [sendReturn] at h
  split at h
  · cases h
  · split at h
    · cases h
    · rename_i h1 h2
      exact ⟨by simpa using h1, by omega⟩

/-- **C02_file.** Per file, under arbitrary corruption, loss of frames (never delivered), duplication
    and reordering: ok-finalised ⇒ identical; a corrupted frame ⇒ the file fails; verdicts are final. -/
theorem C02_file (src disk0 : List Nat) (bits0 : List Bool) (h0 : InitOk src disk0 bits0)
    (s : St) (hr : Reachable (init src disk0 bits0) s) :
    (s.fin = some true → ∀ i, i < src.length → gn s.disk i = gn src i) ∧
    (∀ a s' b, s.fin = some b → step s a = some s' → s'.fin = some b) :=
  ⟨C01_file_fidelity src disk0 bits0 h0 s hr, fun a s' b hb hs => fin_final s s' a b hb hs⟩

-- the unfixed behaviour, as a model fact: counting a failed file would make `endRecord` return ok
example : recvTurn 1 1 false .endRecord = .ok ∧ recvTurn 0 1 false .endRecord = .err := by decide


/-! ## the receiver's main loop, as regenerated on this run (xlate, `Gen/Shapes.lean`) -/

set_option maxRecDepth 16384 in
/-- per `case` of the receiver's last `for { select … }`: the communication and every `if` condition inside it (enclosing
conditions first). `Decision.recvTurn` was transcribed from exactly this text; success is returned only where
`completedCount >= totalFiles` stands. -/
theorem C02_source_recv_loop : TV.Gen.Shapes.recv_main_loop =
    ["<-recvCtx.Done() :: recvErr != nil",
     "<-doneCh :: endReceived && completedCount >= totalFiles",
     "err := <-controlErr :: err != nil && !errors.Is(err, io.EOF) | err != nil && !errors.Is(err, io.EOF) ; isGracefulRemoteClose(err) && completedCount >= totalFiles | completedCount >= totalFiles",
     "err := <-dataErrCh :: err != nil | err != nil ; isGracefulRemoteClose(err) && completedCount >= totalFiles",
     "ev := <-controlCh :: ev.typ == controlTypeEnd | ev.typ == controlTypeEnd ; completed >= totalFiles | err != nil"] := by decide

end TV.C02
