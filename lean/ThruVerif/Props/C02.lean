import ThruVerif.Model.Decision
import ThruVerif.Gen.Shapes
import ThruVerif.Props.C01
import ThruVerif.Proofs.Once
/-!
# C02 — No false success under faults

Layered on `Props/C01`: a damaged frame never ends up in a file finalised ok (`C02_corrupt`), a failed
file stays failed (`fin_final`), and the endpoints' return decisions report success only with every file
finalised ok / confirmed. Together with `C01_file_fidelity`: a receiver that returns success holds the
source bytes in every chunk of every file, whatever happened on the network.
-/
namespace TV.C02
open TV.Decision TV.FileSys

/-- **C02_receiver_decision.** Whichever `select` case fires, the receiver returns success only when every
    file of the manifest has been finalised with ok = true. -/
theorem C02_receiver_decision (completed total : Nat) (endReceived : Bool) (ev : RecvEv)
    (h : recvTurn completed total endReceived ev = .ok) : completed ≥ total := by
  cases ev with
  | ctxDone => simp [recvTurn] at h
  | doneSignal => simp only [recvTurn] at h; split at h <;> simp_all
  | controlErr isEOF graceful =>
    simp only [recvTurn] at h
    split at h
    · split at h <;> simp_all
    · split at h <;> simp_all
  | dataErr isNil graceful =>
    simp only [recvTurn] at h
    split at h
    · cases h
    · split at h <;> simp_all
  | endRecord => simp only [recvTurn] at h; split at h <;> simp_all
  | handled ok => simp only [recvTurn] at h; split at h <;> cases h

/-- **C02_sender_decision.** The sender returns success only if no error was recorded and the receiver
    confirmed every file (and End was written). -/
theorem C02_sender_decision (transferErr : Bool) (confirmed total : Nat) (endWritten : Bool)
    (h : sendReturn transferErr confirmed total endWritten = .ok) : transferErr = false ∧ confirmed ≥ total := by
  simp only [sendReturn] at h
  split at h
  · cases h
  · split at h
    · cases h
    · rename_i h1 h2
      exact ⟨by simpa using h1, by omega⟩

/-- **C02_file.** Per file, under arbitrary corruption, loss of frames (never delivered), duplication
    and reordering: ok-finalised ⇒ identical; a corrupted frame ⇒ the file fails; verdicts are final. -/
theorem C02_file (src disk0 : List Nat) (bits0 : List Bool) (h0 : InitOk src disk0 bits0)
    (s : St) (hr : Reachable (init src disk0 bits0) s) :
    (s.fin = some true → ∀ i, i < src.length → gn s.disk i = gn src i) ∧
    (∀ a s' b, s.fin = some b → step s a = some s' → s'.fin = some b) :=
  ⟨C01_file_fidelity src disk0 bits0 h0 s hr, fun a s' b hb hs => fin_final s s' a b hb hs⟩

-- the unfixed behaviour, as a model fact: counting a failed file would make `endRecord` return ok
example : recvTurn 1 1 false .endRecord = .ok ∧ recvTurn 0 1 false .endRecord = .err := by decide


/-! ## the receiver's main loop, as regenerated on this run (xlate, `Gen/Shapes.lean`) -/

set_option maxRecDepth 16384 in
/-- per `case` of the receiver's last `for { select … }`: the communication and every `if` condition inside it (enclosing
conditions first). `Decision.recvTurn` was transcribed from exactly this text; success is returned only where
`completedCount >= totalFiles` stands. -/
theorem C02_source_recv_loop : TV.Gen.Shapes.recv_main_loop =
    ["<-recvCtx.Done() :: recvErr != nil",
     "<-doneCh :: endReceived && completedCount >= totalFiles",
     "err := <-controlErr :: err != nil && !errors.Is(err, io.EOF) | err != nil && !errors.Is(err, io.EOF) ; isGracefulRemoteClose(err) && completedCount >= totalFiles | completedCount >= totalFiles",
     "err := <-dataErrCh :: err != nil | err != nil ; isGracefulRemoteClose(err) && completedCount >= totalFiles",
     "ev := <-controlCh :: ev.typ == controlTypeEnd | ev.typ == controlTypeEnd ; completed >= totalFiles | err != nil"] := by decide

end TV.C02

namespace TV.Once

/-! ### `completedCount` counts files, not finalisation attempts (`Model/Once`) -/

/-- **C02_completed_counts_distinct_files.** However many goroutines try to finalise however many files, in any interleaving of
their gate and count sections: `completedCount` is the number of *distinct* files finalised with verdict ok. -/
theorem C02_completed_counts_distinct_files (as : List Step) (s : St) (h : run true init as = some s) :
    s.completed = s.counted.length ∧ s.counted.Nodup ∧ ∀ f ∈ s.counted, f ∈ s.done := by
  have hI := inv_run inv_init h
  refine ⟨hI.count, (List.nodup_append.mp hI.nodup).2.1, fun f hf => hI.isdone f (List.mem_append_right _ hf)⟩

/-- **C02_success_means_every_file.** Hence the test every success exit of the receiver makes (`completedCount >= totalFiles`,
`C02_receiver_decision`) holds only when every file of the manifest was finalised ok: the files are `0 .. total-1`. -/
theorem C02_success_means_every_file (total : Nat) (as : List Step) (s : St) (h : run true init as = some s)
    (hfiles : ∀ f ok, Step.gate f ok ∈ as → f < total) (hc : s.completed ≥ total) : ∀ f, f < total → f ∈ s.counted := by
  obtain ⟨hcount, hnd, _⟩ := C02_completed_counts_distinct_files as s h
  have hlt : ∀ f ∈ s.counted, f < total := fun f hf =>
    counted_from_gates total inv_init (by simp [init]) hfiles h f (List.mem_append_right _ hf)
  have hsub : s.counted ⊆ List.range total := fun f hf => List.mem_range.mpr (hlt f hf)
  have hsp : s.counted.Subperm (List.range total) := List.subperm_of_subset hnd hsub
  have hperm : s.counted.Perm (List.range total) := hsp.perm_of_length_le (by simp; omega)
  intro f hf
  exact hperm.symm.subset (List.mem_range.mpr hf)

/-- premises satisfiable: two files, file 0 finalised from three goroutines at once (two of them find the flag set) -/
example : ∃ s, run true init [.gate 0 true, .gate 0 true, .gate 1 true, .gate 0 false, .count 1 true, .count 0 true] = some s ∧
    s.completed = 2 ∧ s.counted = [0, 1] := ⟨_, rfl, rfl, rfl⟩

/-- test and set of the flag in two critical sections (a seeded change): one file finalised from the data reader and from the
control loop is counted twice - `completedCount >= totalFiles` then holds for two files although file 1 was never finalised -/
theorem C02_double_count_without_atomic_gate :
    ∃ s, run false init [.gate 0 true, .gate 0 true, .set 0 true, .set 0 true, .count 0 true, .count 0 true] = some s ∧
      s.completed = 2 ∧ 1 ∉ s.done := ⟨_, rfl, rfl, by decide⟩

open TV.Gen.Shapes in
/-- `finalizeFile` tests and sets `state.done` in one critical section before anything else, and counts afterwards -/
theorem C02_source_finalize_once :
    finalize_gate = ["state.mu.Lock()", "if state.done { state.mu.Unlock() return }", "state.done = true", "state.mu.Unlock()"] ∧
    finalize_done_sets = ["state.done = true", "completedCount++"] := by decide

open TV.Gen.Shapes in
set_option maxRecDepth 65536 in
/-- the goroutine that waits for a file's `FileDone` at the sender: a rejected file records the error and returns *before* the slot
is released and `completedCount` is incremented - the sender's "all files confirmed" never includes a rejected file
(`Decision.sendReturn`'s `confirmed`) -/
theorem C02_source_sender_confirm : send_confirm_goroutine = ["fileDone, err := doneRegistry.wait(transferCtx, state.key)", "if err != nil { setErr(err) return }", "if !fileDone.OK { if fileDone.ErrMsg == \"\" { if opts.FileDoneFn != nil { opts.FileDoneFn(state.item.RelPath, false) } setErr(fmt.Errorf(\"receiver reported failure for %s\", state.item.RelPath)) } else { if opts.FileDoneFn != nil { opts.FileDoneFn(state.item.RelPath, false) } setErr(fmt.Errorf(\"receiver reported failure for %s: %s\", state.item.RelPath, fileDone.ErrMsg)) } return }", "if opts.FileDoneFn != nil { opts.FileDoneFn(state.item.RelPath, true) }", "schedMu.Lock()", "for i := 0; i < len(activeFiles); i++ { if activeFiles[i] == state { activeFiles = append(activeFiles[:i], activeFiles[i+1:]...) if activeIdx >= len(activeFiles) { activeIdx = 0 } break } }", "if key, ok := keyByRelPath[state.item.RelPath]; ok { sched.Remove(key) }", "schedMu.Unlock()", "state.closeFile()", "statsMu.Lock()", "activeCount--", "completedCount++", "remainingBytes -= state.item.Size", "active := activeCount", "completed := completedCount", "remaining := remainingBytes", "statsMu.Unlock()", "updateStats(active, completed, remaining)", "if totalFiles > 0 && completed >= totalFiles { signalDone() }", "signalWake()"] := by decide

end TV.Once
