import ThruVerif.Model.ProtoL
import ThruVerif.Model.Path
import ThruVerif.Model.Budget
import ThruVerif.Gen.Consts
import ThruVerif.Proofs.ProtoLM
import ThruVerif.Proofs.FileWait
import ThruVerif.Proofs.ProtoLMC
import ThruVerif.Model.Sched
import ThruVerif.Gen.Shapes
/-!
# C03 — Every transfer between healthy peers completes

* `C03_completes`: on the liveness abstraction `ProtoL` (streams accepted lazily - the code after the fix of
  the accept-all-streams-first hang), for every number of announced streams n ≥ 1 and every number of
  chunks including 0: no reachable non-final state is stuck, and every step strictly decreases a natural
  measure, so every maximal run is finite and ends with the sender having received FileDone.
* `C03_names`: every legal relative name passes `validateRelPath`.
* `C03_budget`: the stream budget arithmetic of `computeParallelBudget` + `NormalizeParams`.
-/
namespace TV.ProtoLFix

theorem sum_set_succ (l : List Nat) (w : Nat) (h : w < l.length) :
    (l.set w (l[w]?.getD 0 + 1)).sum = l.sum + 1 := by
  induction l generalizing w with
  | nil => simp at h
  | cons a as ih =>
    cases w with
    | zero => simp; omega
    | succ k =>
      simp at h ⊢
      have := ih k h
      omega

theorem sum_set_pred (l : List Nat) (w : Nat) (h : l[w]?.getD 0 > 0) :
    (l.set w (l[w]?.getD 0 - 1)).sum + 1 = l.sum := by
  induction l generalizing w with
  | nil => simp at h
  | cons a as ih =>
    cases w with
    | zero => simp at h ⊢; omega
    | succ k =>
      simp at h ⊢
      have := ih k h
      omega

theorem exists_pos_of_sum_pos (l : List Nat) (h : 0 < l.sum) : ∃ w, w < l.length ∧ l[w]?.getD 0 > 0 := by
  induction l with
  | nil => simp at h
  | cons a as ih =>
    by_cases ha : a > 0
    · exact ⟨0, by simp, by simpa using ha⟩
    · have : 0 < as.sum := by simp at h; omega
      obtain ⟨w, hw, hp⟩ := ih this
      exact ⟨w + 1, by simpa using hw, by simpa using hp⟩

structure Inv (s : St) : Prop where
  len : s.buffered.length = s.n
  cons : s.remaining = s.toSend + s.buffered.sum
  vis : ∀ w, s.buffered[w]?.getD 0 > 0 → w < s.visible
  acc : s.accepted ≤ s.visible ∧ s.visible ≤ s.n
  done1 : s.doneSent = true → s.remaining = 0 ∧ s.endRecv = true
  done2 : s.remaining = 0 → s.endRecv = true → s.doneSent = true
  endo : s.endRecv = true → s.endSent = true
  ends : s.endSent = true → s.toSend = 0
  dr : s.doneRecv = true → s.doneSent = true
  npos : 0 < s.n

theorem getD_set' (l : List Nat) (i j v : Nat) :
    (l.set i v)[j]?.getD 0 = if i = j ∧ i < l.length then v else l[j]?.getD 0 := by
  simp only [List.getElem?_set]
  by_cases hij : i = j
  · subst hij; by_cases hl : i < l.length <;> simp [hl]
  · simp [hij]

theorem inv_init (n c : Nat) (hn : 0 < n) : Inv (init n c) := by
  refine ⟨by simp [init], by simp [init], ?_, by simp [init], by simp [init], by simp [init], by simp [init],
    by simp [init], by simp [init], hn⟩
  intro w hw
  simp [init, List.getElem?_replicate] at hw
  split at hw <;> simp at hw

theorem inv_step {s s' : St} {a : Step} (hi : Inv s) (h : step s a = some s') : Inv s' := by
  obtain ⟨hlen, hcons, hvis, ⟨hacc1, hacc2⟩, hd1, hd2, heo, hes, hdr, hn⟩ := hi
  cases a with
  | dispatch w =>
    simp only [step] at h
    split at h
    · rename_i hc
      simp at h; subst h
      have hw : w < s.buffered.length := by omega
      refine ⟨by simpa using hlen, ?_, ?_, ⟨by simp; omega, by simp; omega⟩, ?_, ?_, heo, ?_, hdr, hn⟩
      · simp only; rw [sum_set_succ _ _ hw]; omega
      · intro v hv
        simp only at hv ⊢
        rw [getD_set'] at hv
        split at hv
        · rename_i hh; omega
        · have := hvis v hv; omega
      · intro hds; have := hd1 hds; omega
      · intro hr he; exact hd2 hr he
      · intro he; have := hes he; omega
    · simp at h
  | sendEnd =>
    simp only [step] at h
    split at h
    · rename_i hc
      simp at h; subst h
      exact ⟨hlen, hcons, hvis, ⟨hacc1, hacc2⟩, hd1, hd2, fun _ => rfl, fun _ => hc.1, hdr, hn⟩
    · simp at h
  | accept =>
    simp only [step] at h
    split at h
    · simp at h; subst h
      exact ⟨hlen, hcons, hvis, ⟨by simp; omega, hacc2⟩, hd1, hd2, heo, hes, hdr, hn⟩
    · simp at h
  | readFrame w =>
    simp only [step] at h
    split at h
    · rename_i hc
      simp at h; subst h
      have hsum := sum_set_pred s.buffered w hc.2
      have hvis' : ∀ v, (s.buffered.set w (s.buffered[w]?.getD 0 - 1))[v]?.getD 0 > 0 → v < s.visible := by
        intro v hv
        rw [getD_set'] at hv
        split at hv
        · rename_i hh; rw [← hh.1]; exact hvis w hc.2
        · exact hvis v hv
      have hnd : s.doneSent = false := by
        cases hds : s.doneSent with
        | false => rfl
        | true => have := hd1 hds; have : s.buffered.sum > 0 := by omega
                  omega
      simp only [fin]
      split
      · rename_i hz
        refine ⟨by simpa using hlen, by simp; omega, hvis', ⟨hacc1, hacc2⟩, fun _ => ⟨hz.1, hz.2⟩, fun _ _ => rfl, heo, hes,
          ?_, hn⟩
        intro hdr'; have := hdr hdr'; simp [hnd] at this
      · rename_i hz
        refine ⟨by simpa using hlen, by simp; omega, hvis', ⟨hacc1, hacc2⟩, ?_, ?_, heo, hes, hdr, hn⟩
        · intro hds; simp [hnd] at hds
        · intro hr he; exact absurd ⟨hr, he⟩ hz
    · simp at h
  | recvEnd =>
    simp only [step] at h
    split at h
    · rename_i hc
      simp at h; subst h
      have hnd : s.doneSent = false := by
        cases hds : s.doneSent with
        | false => rfl
        | true => have := (hd1 hds).2; simp [hc.2] at this
      simp only [fin]
      split
      · rename_i hz
        exact ⟨hlen, hcons, hvis, ⟨hacc1, hacc2⟩, fun _ => ⟨hz.1, rfl⟩, fun _ _ => rfl, fun _ => hc.1, hes,
          fun hdr' => by have := hdr hdr'; simp [hnd] at this, hn⟩
      · rename_i hz
        refine ⟨hlen, hcons, hvis, ⟨hacc1, hacc2⟩, ?_, ?_, fun _ => hc.1, hes, hdr, hn⟩
        · intro hds; simp [hnd] at hds
        · intro hr _; exact absurd ⟨hr, by simp⟩ hz
    · simp at h
  | recvDone =>
    simp only [step] at h
    split at h
    · rename_i hc
      simp at h; subst h
      refine ⟨hlen, hcons, ?_, ⟨by simp; omega, by simp⟩, hd1, hd2, heo, hes, fun _ => hc.1, hn⟩
      intro v hv
      have := hvis v hv
      simp; omega
    · simp at h

/-- C03 progress on the lazily-accepting design: no reachable non-final state is stuck. -/
theorem progress {s : St} (hi : Inv s) (hnf : ¬ final s) : ∃ a, (step s a).isSome = true := by
  obtain ⟨hlen, hcons, hvis, ⟨hacc1, hacc2⟩, hd1, hd2, heo, hes, hdr, hn⟩ := hi
  by_cases h1 : s.toSend > 0
  · exact ⟨.dispatch 0, by simp [step, h1, hn]⟩
  · have h1' : s.toSend = 0 := by omega
    by_cases h2 : s.endSent = false
    · exact ⟨.sendEnd, by simp [step, h1', h2]⟩
    · have h2' : s.endSent = true := by simpa using h2
      by_cases h3 : s.endRecv = false
      · exact ⟨.recvEnd, by simp [step, h2', h3]⟩
      · have h3' : s.endRecv = true := by simpa using h3
        by_cases h4 : s.remaining = 0
        · have hds := hd2 h4 h3'
          have hndr : s.doneRecv = false := by simpa [final] using hnf
          exact ⟨.recvDone, by simp [step, hds, hndr]⟩
        · have hpos : 0 < s.buffered.sum := by omega
          obtain ⟨w, _, hw⟩ := exists_pos_of_sum_pos _ hpos
          by_cases h5 : w < s.accepted
          · exact ⟨.readFrame w, by simp [step, h5, hw]⟩
          · have := hvis w hw
            exact ⟨.accept, by simp [step]; omega⟩

def b2n (b : Bool) : Nat := if b then 0 else 1

/-- every step strictly decreases this measure, so every run is finite -/
def mu (s : St) : Nat :=
  2 * s.toSend + s.buffered.sum + (s.n - s.accepted) + b2n s.endSent + b2n s.endRecv + b2n s.doneRecv

theorem mu_decreases {s s' : St} {a : Step} (hi : Inv s) (h : step s a = some s') : mu s' < mu s := by
  obtain ⟨hlen, hcons, hvis, ⟨hacc1, hacc2⟩, hd1, hd2, heo, hes, hdr, hn⟩ := hi
  cases a with
  | dispatch w =>
    simp only [step] at h
    split at h
    · rename_i hc; simp at h; subst h
      have := sum_set_succ s.buffered w (by omega)
      simp only [mu]; omega
    · simp at h
  | sendEnd =>
    simp only [step] at h
    split at h
    · rename_i hc; simp at h; subst h; simp [mu, b2n, hc.2]
    · simp at h
  | accept =>
    simp only [step] at h
    split at h
    · simp at h; subst h; simp only [mu]; omega
    · simp at h
  | readFrame w =>
    simp only [step] at h
    split at h
    · rename_i hc; simp at h; subst h
      have := sum_set_pred s.buffered w hc.2
      simp only [fin, mu]; split <;> simp <;> omega
    · simp at h
  | recvEnd =>
    simp only [step] at h
    split at h
    · rename_i hc; simp at h; subst h
      simp only [fin, mu]; split <;> simp [b2n, hc.2] <;> omega
    · simp at h
  | recvDone =>
    simp only [step] at h
    split at h
    · rename_i hc; simp at h; subst h; simp [mu, b2n, hc.2]
    · simp at h


theorem inv_reachable {n c : Nat} (hn : 0 < n) {s : St} (h : Reachable n c s) : Inv s := by
  induction h with
  | init => exact inv_init n c hn
  | step _ hs ih => exact inv_step ih hs

/-- C03 on the abstraction, for every number of streams n ≥ 1 and every number of chunks (including 0):
    no reachable state is stuck short of completion, and every step consumes the measure — every run terminates in `final`. -/
theorem completes {n c : Nat} (hn : 0 < n) {s : St} (h : Reachable n c s) :
    (¬ final s → ∃ a, (step s a).isSome = true) ∧ (∀ a s', step s a = some s' → mu s' < mu s) :=
  ⟨progress (inv_reachable hn h), fun _ _ hs => mu_decreases (inv_reachable hn h) hs⟩



/-- **C03_completes** (headline). -/
theorem C03_completes {n c : Nat} (hn : 0 < n) {s : St} (h : Reachable n c s) :
    (¬ final s → ∃ a, (step s a).isSome = true) ∧ (∀ a s', step s a = some s' → mu s' < mu s) :=
  completes hn h

/-- the state the unfixed receiver hung in (one 1-chunk file announced on 4 streams) is not stuck any more:
    the control record is handled without the three silent streams -/
example : ∃ s, step (init 4 1) (.dispatch 0) = some s ∧ (step s .accept).isSome = true := by
  refine ⟨_, rfl, ?_⟩; decide

end TV.ProtoLFix

namespace TV.ProtoLM

/-! ## the whole manifest: `k` files over `n` data streams (any chunk counts, any `n ≥ 1`) -/

/-- **C03_manifest_completes.** In every reachable state of the manifest-level abstraction that is not final (the
receiver has not yet seen `End`), some step is enabled; and every step strictly decreases `measure`. Hence every run
ends, after at most `measure (init …)` steps, with `End` received - which happens only after every file was confirmed. -/
theorem C03_manifest_completes {k n : Nat} {chunks : Nat → Nat} (hn : 0 < n) {s : St} (h : Reachable k n chunks s) :
    (s.endAllRecv = false → ∃ a s', step s a = some s') ∧
    (∀ a s', step s a = some s' → measure s' < measure s) ∧
    (s.endAllRecv = true → ∀ f, f < s.k → s.doneRecv f = true ∧ s.remaining f = 0) := by
  have hi := reachable_inv hn h
  refine ⟨progress hi, fun a s' hs => step_measure hi hs, ?_⟩
  intro he f hf
  have hd := hi.eas (hi.ear he) f hf
  exact ⟨hd, (hi.done1 f hf (hi.dr f hf hd)).1⟩

def run (s : St) : List Step → Option St
  | [] => some s
  | a :: as => match step s a with | some s' => run s' as | none => none

/-- a run can never be longer than the measure of the state it starts from -/
theorem run_length_le {k n : Nat} {chunks : Nat → Nat} (hn : 0 < n) {s s' : St} (h : Reachable k n chunks s)
    (as : List Step) (hr : run s as = some s') : as.length + measure s' ≤ measure s := by
  induction as generalizing s with
  | nil => simp only [run, Option.some.injEq] at hr; subst hr; simp
  | cons a as ih =>
    simp only [run] at hr
    split at hr
    · rename_i s1 h1
      have := ih (Reachable.step a h h1) hr
      have hm := step_measure (reachable_inv hn h) h1
      simp only [List.length_cons]
      omega
    · cases hr

-- non-vacuity: two files (1 and 2 chunks) over two streams; the receiver accepts the streams while frames are already arriving
example : ((run (init 2 2 (fun f => f + 1))
    [.dispatch 1 1, .dispatch 0 0, .accept, .readFrame 0 0, .dispatch 1 0, .sendEnd 0, .sendEnd 1, .recvEnd 0, .recvDone 0,
     .accept, .readFrame 1 1, .readFrame 0 1, .recvEnd 1, .recvDone 1, .sendEndAll, .recvEndAll]).map (·.endAllRecv)) = some true := by
  decide
-- a frame on a stream that is not yet accepted cannot be read
example : ((run (init 2 2 (fun f => f + 1)) [.dispatch 1 1, .readFrame 1 1]).map (·.endAllRecv)) = none := by decide

end TV.ProtoLM

namespace TV.C03
open TV TV.Path

/-- a legal relative name: non-empty, at most `maxLen` bytes, not absolute, no `..` element -/
def LegalRel (maxLen : Nat) (p : Bytes) : Prop :=
  p ≠ [] ∧ p.length ≤ maxLen ∧ isAbs p = false ∧ hasParentSeg p = false

/-- **C03_names.** `validateRelPath` accepts exactly the legal relative names (so names such as `a..b`,
    `dir/file..txt`, names with spaces, backslashes or non-UTF-8 bytes are all transferable). -/
theorem C03_names (maxLen : Nat) (p : Bytes) : validateRelPath maxLen p = none ↔ LegalRel maxLen p := by
  unfold validateRelPath LegalRel
  by_cases h1 : p.length > maxLen
  · simp [h1]; omega
  · by_cases h2 : hasParentSeg p = true
    · simp [h1, h2]
    · by_cases h3 : isAbs p = true
      · simp [h1, h2, h3]
      · by_cases h4 : p = []
        · simp [h1, h2, h3, h4]
        · simp [h1, h2, h3, h4]; omega

example : LegalRel 1024 [97, 46, 46, 98] := ⟨by decide, by decide, by decide, by decide⟩   -- "a..b"

open TV.Budget in
/-- **C03_budget.** For every file count, requested stream count and connection count the sender announces
    between 1 and 8 data streams after normalisation (so the count fits the 16-bit DataStreams field), and
    with several connections at least one stream per connection before normalisation. -/
theorem C03_budget (files req conns : Nat) :
    1 ≤ normalizeStreams (computeBudget files req conns (decide (conns > 1))).1 ∧
    normalizeStreams (computeBudget files req conns (decide (conns > 1))).1 ≤ 8 ∧
    normalizeStreams (computeBudget files req conns (decide (conns > 1))).1 < 2 ^ 16 ∧
    (conns > 1 → conns ≤ (computeBudget files req conns (decide (conns > 1))).1) :=
  TV.Budget.budget_bounds files req conns

end TV.C03

namespace TV.ProtoLMC

/-! ## the whole manifest over several connections: `k` files, `n ≥ 1` data streams spread round-robin over `c ≥ 1` connections -/

/-- **C03_manifest_completes_multiconn.** In every reachable state of the multi-connection abstraction that is not final some step
is enabled, every step strictly decreases `measure`, and `End` is received only after every file was confirmed with nothing left
to receive - for any number of connections, streams, files and chunks, any number of additional chunks per file that travel
although the receiver does not wait for them (resume: marked chunks at or above `forceSendFrom`, the verification re-send; they may
arrive after their file was finalised and are then drained), and any interleaving of the per-connection stream visibility with the
receiver's accepts. -/
theorem C03_manifest_completes_multiconn {k n c : Nat} {chunks extra : Nat → Nat} (hn : 0 < n) (hc : 0 < c) {s : St}
    (h : Reachable k n c chunks extra s) :
    (s.endAllRecv = false → ∃ a s', step s a = some s') ∧
    (∀ a s', step s a = some s' → measure s' < measure s) ∧
    (s.endAllRecv = true → ∀ f, f < s.k → s.doneRecv f = true ∧ s.remaining f = 0) := by
  have hi := reachable_inv hn hc h
  refine ⟨progress hi, fun a s' hs => step_measure hi hs, ?_⟩
  intro he f hf
  have hd := hi.eas (hi.ear he) f hf
  exact ⟨hd, (hi.done1 f hf (hi.dr f hf hd)).1⟩

def run (s : St) : List Step → Option St
  | [] => some s
  | a :: as => match step s a with | some s' => run s' as | none => none

/-- a run can never be longer than the measure of the state it starts from -/
theorem run_length_le_multiconn {k n c : Nat} {chunks extra : Nat → Nat} (hn : 0 < n) (hc : 0 < c) {s s' : St} (h : Reachable k n c chunks extra s)
    (as : List Step) (hr : run s as = some s') : as.length + measure s' ≤ measure s := by
  induction as generalizing s with
  | nil => simp only [run, Option.some.injEq] at hr; subst hr; simp
  | cons a as ih =>
    simp only [run] at hr
    split at hr
    · rename_i s1 h1
      have := ih (Reachable.step a h h1) hr
      have hm := step_measure (reachable_inv hn hc h) h1
      simp only [List.length_cons]
      omega
    · cases hr

/-- a frame is never in flight on a stream the sender does not have, and the receiver never takes more streams from a connection
than the sender opened on it -/
theorem C03_multiconn_streams_bounded {k n c : Nat} {chunks extra : Nat → Nat} (hn : 0 < n) (hc : 0 < c) {s : St}
    (h : Reachable k n c chunks extra s) (j : Nat) (hj : j < s.c) : s.accepted j ≤ cnt s.n s.c j := by
  have := (reachable_inv hn hc h).acc j hj
  omega

-- non-vacuity: two files (1 and 2 chunks), three data streams over two connections (streams 1 and 3 on connection 1, stream 2
-- next to the control stream on connection 0); a frame on stream 3 reveals stream 1 too
example : ((run (init 2 3 2 (fun f => f + 1) (fun _ => 0))
    [.dispatch 1 3, .dispatch 0 2, .accept 1, .accept 0, .readFrame 2 0, .dispatch 1 1, .sendEnd 0, .sendEnd 1, .recvEnd 0, .recvDone 0,
     .accept 1, .readFrame 3 1, .readFrame 1 1, .recvEnd 1, .recvDone 1, .sendEndAll, .recvEndAll]).map (·.endAllRecv)) = some true := by
  decide
-- a frame on stream 3 (second stream of connection 1) cannot be read after a single accept on that connection
example : ((run (init 2 3 2 (fun f => f + 1) (fun _ => 0)) [.dispatch 1 3, .accept 1, .readFrame 3 1]).map (·.endAllRecv)) = none := by decide
-- and nothing is revealed on connection 0 beyond the control stream by traffic on connection 1
example : ((run (init 2 3 2 (fun f => f + 1) (fun _ => 0)) [.dispatch 1 3, .accept 0]).map (·.endAllRecv)) = none := by decide

open TV.Gen.Shapes in
/-- the source `Model/ProtoLMC` was transcribed from: `multiConn.OpenStream` places streams round-robin over the connections in the
order they are opened; the sender opens the control stream, then the data streams; the first `AcceptStream` takes the control
stream from connection 0 (compare-and-swap on `control`), later ones take what the per-connection accept loops deliver -/
theorem C03_source_multiconn :
    multiconn_open_rr = ["int(atomic.AddUint32(&m.nextIdx, 1)-1) % len(m.conns)"] ∧
    send_open_order = ["controlStream, err := conn.OpenStream(ctx)", "stream, err := conn.OpenStream(ctx)"] ∧
    multiconn_accept_ifs = ["atomic.CompareAndSwapUint32(&m.control, 0, 1)", "atomic.CompareAndSwapUint32(&m.control, 0, 1) ; err != nil",
      "atomic.CompareAndSwapUint32(&m.control, 0, 1) ; err != nil", "res.err != nil", "err != nil"] ∧
    multiconn_accept_control = ["ctx"] ∧ multiconn_loop_accept = ["context.Background()"] ∧ multiconn_loops = ["idx, conn"] := by decide

-- resume: file 0 has one chunk the receiver waits for and two it already has; one of those arrives only after the file was finalised
example : ((run (init 1 2 1 (fun _ => 1) (fun _ => 2))
    [.dispatchU 0 2, .dispatch 0 1, .dispatchU 0 1, .accept 0, .accept 0, .readFrame 1 0, .readFrameU 1 0, .sendEnd 0, .recvEnd 0, .recvDone 0,
     .readFrameU 2 0, .sendEndAll, .recvEndAll]).map (fun s => (s.endAllRecv, s.doneSent 0))) = some (true, true) := by
  decide
-- FileEnd is not sent while such a chunk is still to be handed out
example : ((run (init 1 2 1 (fun _ => 1) (fun _ => 1)) [.dispatch 0 1, .sendEnd 0]).map (·.endAllRecv)) = none := by decide

end TV.ProtoLMC

namespace TV.FileWait

/-! ### The FileBegin wake-up between data readers and the control loop (`Model/FileWait`)

A chunk frame may reach the receiver before the `FileBegin` of its file was handled (they travel on different streams). For any
number of data readers and every interleaving of their critical sections with `handleFileBegin`'s: -/

/-- no schedule is longer than `4 n + 2` steps, and a schedule that cannot be extended has every reader proceeding with the
file state: no reader waits for a wake-up that was given before it registered -/
theorem C03_filebegin_wakeup (n : Nat) (as : List Step) (s : St) (h : run true (init n) as = some s) :
    as.length ≤ 4 * n + 2 ∧ ((∀ a, step true s a = none) → done s) := by
  refine ⟨?_, ?_⟩
  · have := run_measure h
    rw [measure_init] at this
    omega
  · intro hstuck
    apply Decidable.byContradiction
    intro hd
    obtain ⟨a, s', h'⟩ := progress (inv_run (inv_init n) h) hd
    rw [hstuck a] at h'
    cases h'

/-- as long as a reader has not proceeded (or FileBegin is not handled) some step is enabled, and every step lowers a measure -/
theorem C03_filebegin_wakeup_progress (n : Nat) (as : List Step) (s : St) (h : run true (init n) as = some s) (hd : ¬ done s) :
    ∃ a s', step true s a = some s' ∧ measure s' < measure s := by
  obtain ⟨a, s', h'⟩ := progress (inv_run (inv_init n) h) hd
  exact ⟨a, s', h', measure_step h'⟩

/-- a blocked reader has been woken once `handleFileBegin` has signalled -/
theorem C03_blocked_reader_woken (n : Nat) (as : List Step) (s : St) (h : run true (init n) as = some s) (i : Nat)
    (hb : s.pcs[i]? = some .blocked) (hs : s.hpc = .signalled) : i ∈ s.closed := by
  have hI := inv_run (inv_init n) h
  rcases hI.chan i (Or.inr hb) with h' | h'
  · exact absurd hb (hI.late hs i h')
  · exact h'

/-- premises satisfiable: two readers, one overtaken by FileBegin between its look-up and its registration, one parked early -/
example : ∃ s, run true (init 2) [.lookup 0, .lookup 1, .register 1, .recheck 1, .store, .signal, .register 0, .recheck 0, .wake 1] = some s ∧
    done s := by
  refine ⟨_, rfl, ?_⟩
  decide

/-- the code before fix 39667d3 (no predicate after registering): the schedule look-up, store, signal, register leaves the reader
blocked for good - replayed on the real code with the hook points `recv.file_begin.enter` and `recv.reader.before_wait` -/
theorem C03_filebegin_wakeup_refuted_before_fix :
    ∃ s, run false (init 1) [.lookup 0, .store, .signal, .register 0] = some s ∧ (∀ a, step false s a = none) ∧ ¬ done s := by
  refine ⟨{ pcs := [.blocked], hpc := .signalled, waiters := [0], closed := [] }, by decide, ?_, by decide⟩
  intro a
  cases a with
  | lookup i => rcases i with _ | i <;> simp [step]
  | register i => rcases i with _ | i <;> simp [step]
  | recheck i => rcases i with _ | i <;> simp [step]
  | wake i => rcases i with _ | i <;> simp [step]
  | store => simp [step]
  | signal => simp [step]

open TV.Gen.Shapes in
set_option maxRecDepth 16384 in
/-- the source the model's steps were transcribed from: `wait` registers its channel, then evaluates the predicate, then blocks;
`signal` takes the channels out and closes every one of them; the reader's predicate is the look-up of the state under `stateMu`;
`handleFileBegin` stores the state before it signals, the reader looks up before its wait -/
theorem C03_source_filewait :
    filewait_wait = ["ch := make(chan struct{})", "r.mu.Lock()", "r.waiters[id] = append(r.waiters[id], ch)", "r.mu.Unlock()",
      "if ready != nil && ready() { return true }", "select { case <-ctx.Done(): return false case <-ch: return true }"] ∧
    filewait_signal = ["r.mu.Lock()", "chans := r.waiters[id]", "delete(r.waiters, id)", "r.mu.Unlock()", "for _, ch := range chans { close(ch) }"] ∧
    filewait_call_args = ["recvCtx, fileKey, registered"] ∧
    filewait_ready_pred = ["func() bool {\n\tstateMu.Lock()\n\tdefer stateMu.Unlock()\n\treturn stateByKey[fileKey] != nil\n}"] ∧
    filewait_signal_args = ["key"] ∧
    filewait_order = ["stateByKey[key] = state", "fileReady.signal(key)", "state := stateByKey[fileKey]",
      "verifhook.Point(\"recv.reader.before_wait\", fileKey)"] := by decide

end TV.FileWait

namespace TV.Sched

/-! ### the file scheduler never starves a pending file (`Model/Sched`, `HybridScheduler.Next`) -/

/-- `Next` declines only when no medium or large file is pending and either no small file is pending or every small slot is busy -/
theorem C03_scheduler_declines_only_when (cfg : Cfg) (fs : List F) (pick : Nat) (h : next cfg fs pick = none) :
    pendingWeighted cfg fs = [] ∧ (pendingSmall cfg fs = [] ∨ activeSmall cfg fs ≥ cfg.smallSlots) := by
  unfold next at h
  simp only at h
  split at h
  · rename_i hc
    have := argmin_some hc.2
    split at h
    · cases h
    · rename_i hn; rw [hn] at this; cases this
  · rename_i hc
    refine ⟨?_, ?_⟩
    · split at h
      · cases h
      · rename_i hn
        apply Decidable.byContradiction
        intro hne
        have hl : 0 < (pendingWeighted cfg fs).length := List.length_pos_iff.mpr hne
        have hlt : pick % (pendingWeighted cfg fs).length < (pendingWeighted cfg fs).length := Nat.mod_lt _ hl
        rw [List.getElem?_eq_getElem hlt] at hn
        cases hn
    · by_cases hps : pendingSmall cfg fs = []
      · exact Or.inl hps
      · right
        apply Decidable.byContradiction
        intro hlt
        exact hc ⟨by omega, hps⟩

/-- **C03_scheduler_no_starvation.** While a file is pending and a small slot is free, `Next` hands out a file: whatever the
sizes, the order of additions and removals, and however much time has passed (time does not enter: a pending file has never been
scheduled, and aging looks only at files that have) -/
theorem C03_scheduler_no_starvation (cfg : Cfg) (fs : List F) (pick : Nat) (f : F) (hf : f ∈ fs) (hp : f.started = false)
    (hfree : activeSmall cfg fs < cfg.smallSlots) : (next cfg fs pick).isSome = true := by
  cases hn : next cfg fs pick with
  | some _ => rfl
  | none =>
    obtain ⟨hw, hs⟩ := C03_scheduler_declines_only_when cfg fs pick hn
    exfalso
    by_cases hsm : isSmall cfg f = true
    · have : f ∈ pendingSmall cfg fs := by simp [pendingSmall, hf, hp, hsm]
      rcases hs with hs | hs
      · rw [hs] at this; cases this
      · omega
    · have : f ∈ pendingWeighted cfg fs := by simp [pendingWeighted, hf, hp, hsm]
      rw [hw] at this; cases this

open TV.Gen.Shapes in
set_option maxRecDepth 16384 in
/-- aging (`effectiveClass`) applies only to a file that has been scheduled before (`LastScheduledAt` set), and promotes large to
medium, medium to small - a file never drops out of every class; pending files are the ones with `StartedAt` zero -/
theorem C03_source_sched_aging :
    sched_effective_class = ["class := s.classForRemaining(s.remainingForMeta(meta))",
      "if !meta.LastScheduledAt.IsZero() && now.Sub(meta.LastScheduledAt) > s.cfg.AgingAfter { switch class { case classLarge: return classMedium case classMedium: return classSmall } }",
      "return class"] ∧
    sched_pending_small_ifs = ["!meta.StartedAt.IsZero()", "s.effectiveClass(meta, now) == class"] ∧
    sched_pending_weighted_ifs = ["!meta.StartedAt.IsZero()", "eff == classMedium || eff == classLarge"] := by decide

end TV.Sched

namespace TV.Mailbox

/-- **C03_mailbox_no_lost_delivery.** One waiter and one delivery for an id, in either order: the waiter receives the message
(`FileDone`, `FileResumeInfo` and accepted data streams reach the goroutine that waits for them whichever comes first) -/
theorem C03_mailbox_no_lost_delivery (m : Nat) :
    (run init [.wait, .deliver m]).got = some m ∧ (run init [.deliver m, .wait]).got = some m := by
  constructor <;> rfl

open TV.Gen.Shapes in
set_option maxRecDepth 16384 in
/-- look-up-or-register and hand-over-or-leave are single critical sections in all three registries -/
theorem C03_source_mailboxes :
    mailbox_done_wait = ["r.mu.Lock()", "if msg, ok := r.pending[id]; ok { delete(r.pending, id) r.mu.Unlock() return msg, nil }",
      "ch := make(chan FileDone, 1)", "r.waiters[id] = ch", "r.mu.Unlock()"] ∧
    mailbox_done_deliver = ["r.mu.Lock()", "defer r.mu.Unlock()",
      "if ch, ok := r.waiters[msg.StreamID]; ok { delete(r.waiters, msg.StreamID) ch <- msg close(ch) return }", "r.pending[msg.StreamID] = msg"] ∧
    mailbox_resume_wait = ["r.mu.Lock()", "if msg, ok := r.pending[id]; ok { delete(r.pending, id) r.mu.Unlock() return msg, nil }",
      "ch := make(chan FileResumeInfo, 1)", "r.waiters[id] = ch", "r.mu.Unlock()"] ∧
    mailbox_resume_deliver = ["r.mu.Lock()", "defer r.mu.Unlock()",
      "if ch, ok := r.waiters[msg.StreamID]; ok { delete(r.waiters, msg.StreamID) ch <- msg close(ch) return }", "r.pending[msg.StreamID] = msg"] ∧
    mailbox_stream_wait = ["r.mu.Lock()", "if s, ok := r.streams[id]; ok { delete(r.streams, id) r.mu.Unlock() return s, nil }",
      "ch := make(chan Stream, 1)", "r.waiters[id] = append(r.waiters[id], ch)", "r.mu.Unlock()"] := by decide

end TV.Mailbox
