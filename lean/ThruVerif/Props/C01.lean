import ThruVerif.Model.FileSys
import ThruVerif.Gen.Shapes
import ThruVerif.Proofs.BufPool
/-!
# C01 / C02 / C06 (per-file core) — a file finalised ok is byte-identical to the source

`Inv` is an inductive invariant of the per-file system of `Model/FileSys.lean`; `C01_file_fidelity` is its
consequence: whenever the receiver finalises a file with ok = true - under any interleaving of sends,
network corruption, deliveries in any order, FileEnd overtaking frames, duplicate and late frames, fresh
or resumed with a sound sidecar, or resumed with a damaged highest chunk - every chunk on disk equals the
source. (`C06_repair` is the resumed case; `C02_corrupt` the corrupted-frame case.)
-/
namespace TV.FileSys

abbrev gb (l : List Bool) (i : Nat) : Bool := l[i]?.getD false
abbrev gn (l : List Nat) (i : Nat) : Nat := l[i]?.getD 0

structure Inv (s : St) : Prop where
  lenD : s.disk.length = s.src.length
  lenB : s.bits.length = s.src.length
  lenS : s.sent.length = s.src.length
  lenW : s.written.length = s.src.length
  F : ∀ f ∈ s.flight, f.crcOk = true → f.idx < s.src.length ∧ f.pay = gn s.src f.idx
  W : ∀ i, i < s.src.length → gb s.written i = true → gn s.disk i = gn s.src i
  B : ∀ i, i < s.src.length → gb s.bits i = true →
        gn s.disk i = gn s.src i ∨ (gb s.need i = true ∧ gb s.written i = false)
  C : s.remaining = countFalse s.bits
  V : s.verifyAsked = false → ∀ i, i < s.src.length → gb s.bits i = true → gb s.written i = true
  K : s.fin = none → s.flight.length + s.framesRecv = s.sentCount
  P : s.fin = none → ∀ i, i < s.src.length → gb s.sent i = true → gb s.written i = true ∨ ∃ f ∈ s.flight, f.idx = i
  N : ∀ c, s.endSent = some c → c = s.sentCount ∧ ∀ i, i < s.src.length → gb s.need i = true → gb s.sent i = true
  E : s.endReceived = true → s.endSent = some s.endCount
  D : s.fin = some true → s.remaining = 0 ∧ ∀ i, i < s.src.length → gb s.need i = true → gb s.written i = true

theorem getD_set_b (l : List Bool) (i j : Nat) (v : Bool) :
    gb (l.set i v) j = if i = j ∧ i < l.length then v else gb l j := by
  simp only [gb, List.getElem?_set]
  by_cases hij : i = j
  · subst hij
    by_cases hl : i < l.length <;> simp [hl]
  · simp [hij]

theorem getD_set_n (l : List Nat) (i j : Nat) (v : Nat) :
    gn (l.set i v) j = if i = j ∧ i < l.length then v else gn l j := by
  simp only [gn, List.getElem?_set]
  by_cases hij : i = j
  · subst hij
    by_cases hl : i < l.length <;> simp [hl]
  · simp [hij]

theorem countFalse_zero_all (l : List Bool) (h : countFalse l = 0) : ∀ i, i < l.length → gb l i = true := by
  induction l with
  | nil => intro i hi; simp at hi
  | cons b bs ih =>
    intro i hi
    cases b with
    | false => simp [countFalse] at h
    | true =>
      have h' : countFalse bs = 0 := by simpa [countFalse] using h
      cases i with
      | zero => simp [gb]
      | succ j => simpa [gb] using ih h' j (by simpa using hi)

theorem countFalse_set_true (l : List Bool) (i : Nat) (hi : i < l.length) (hb : gb l i = false) :
    countFalse (l.set i true) + 1 = countFalse l := by
  induction l generalizing i with
  | nil => simp at hi
  | cons b bs ih =>
    cases i with
    | zero =>
      simp [gb] at hb; subst hb
      simp [countFalse]
    | succ j =>
      have := ih j (by simpa using hi) (by simpa [gb] using hb)
      cases b <;> simp [countFalse] at this ⊢ <;> omega

/-- finalising a complete, not yet finalised file preserves the invariant (this is where the frame
    count carried by FileEnd and the conservation of frames give "every needed chunk was written") -/
theorem finIfComplete_inv (s : St) (h : Inv s) (hf : s.fin = none) : Inv (finIfComplete s) := by
  unfold finIfComplete
  split
  · rename_i hc
    simp only [complete, Bool.and_eq_true, beq_iff_eq, Bool.or_eq_true, Bool.not_eq_true', decide_eq_true_eq] at hc
    obtain ⟨hrem, hgate⟩ := hc
    refine { h with K := ?_, P := ?_, D := ?_ }
    · intro hn; cases hn
    · intro hn; cases hn
    · intro _
      refine ⟨hrem, ?_⟩
      intro i hi hneed
      rcases hgate with hva | ⟨her, hcnt⟩
      · -- fresh file: every bit comes from a write, and all bits are set
        have hz : countFalse s.bits = 0 := by rw [← h.C]; exact hrem
        have hb := countFalse_zero_all _ hz i (by rw [h.lenB]; exact hi)
        exact h.V hva i hi hb
      · have hE := h.E her
        obtain ⟨hc1, hc2⟩ := h.N _ hE
        have hK := h.K hf
        have hfl : s.flight = [] := by
          apply List.eq_nil_of_length_eq_zero; omega
        have hs := hc2 i hi hneed
        rcases h.P hf i hi hs with hw | ⟨f, hfm, _⟩
        · exact hw
        · rw [hfl] at hfm; cases hfm
  · exact h

theorem inv_step (s s' : St) (a : Step) (h : Inv s) (hs : step s a = some s') : Inv s' := by
  cases a with
  | send i =>
    simp only [step] at hs
    split at hs
    · rename_i hc
      obtain ⟨hi, hend⟩ := hc
      cases hs
      refine { h with lenS := ?_, F := ?_, K := ?_, P := ?_, N := ?_ }
      · simp [h.lenS]
      · intro f hfm hok
        simp only [List.mem_append, List.mem_singleton] at hfm
        rcases hfm with hfm | rfl
        · exact h.F f hfm hok
        · exact ⟨hi, rfl⟩
      · intro hfin
        have := h.K hfin
        simp only [List.length_append, List.length_singleton]; omega
      · intro hfin j hj hsj
        rw [getD_set_b] at hsj
        split at hsj
        · rename_i hij
          right
          exact ⟨⟨i, gn s.src i, true⟩, by simp, hij.1⟩
        · rcases h.P hfin j hj hsj with hw | ⟨f, hfm, hfi⟩
          · exact Or.inl hw
          · exact Or.inr ⟨f, by simp [hfm], hfi⟩
      · intro c hc; rw [hend] at hc; cases hc
    · cases hs
  | corrupt k =>
    simp only [step] at hs
    split at hs
    · rename_i f hk
      cases hs
      have hlt : k < s.flight.length := by
        have := List.getElem?_eq_some_iff.mp hk; exact this.1
      refine { h with F := ?_, K := ?_, P := ?_ }
      · intro g hg hok
        rcases List.mem_or_eq_of_mem_set hg with hg | rfl
        · exact h.F g hg hok
        · simp at hok
      · intro hfin; have := h.K hfin; simpa using this
      · intro hfin j hj hsj
        rcases h.P hfin j hj hsj with hw | ⟨g, hgm, hgi⟩
        · exact Or.inl hw
        · right
          by_cases hgf : g = f
          · subst hgf
            exact ⟨{ g with pay := 0, crcOk := false }, List.mem_set hlt _, hgi⟩
          · -- g is another frame: it is still there
            obtain ⟨m, hm, hmg⟩ := List.mem_iff_getElem.mp hgm
            by_cases hmk : m = k
            · subst hmk
              have : s.flight[m]? = some g := by simp [hm, hmg]
              rw [this] at hk; cases hk; exact absurd rfl hgf
            · refine ⟨g, ?_, hgi⟩
              apply List.mem_iff_getElem.mpr
              refine ⟨m, by simpa using hm, ?_⟩
              simp [List.getElem_set, Ne.symm hmk, hmg]
    · cases hs
  | sendEnd =>
    simp only [step] at hs
    split at hs
    · rename_i hc
      obtain ⟨hend, hall⟩ := hc
      cases hs
      refine { h with N := ?_, E := ?_ }
      · intro c hc
        cases hc
        refine ⟨rfl, ?_⟩
        intro i hi hn
        simp only [allNeededSent, List.all_eq_true, List.mem_range, Bool.or_eq_true, Bool.not_eq_true'] at hall
        rcases hall i hi with h1 | h1
        · simp only [gb] at hn; rw [hn] at h1; cases h1
        · exact h1
      · intro her
        have := h.E her; rw [hend] at this; cases this
    · cases hs
  | endArrives =>
    simp only [step] at hs
    split at hs
    · cases hs
    · rename_i c hc
      split at hs
      · cases hs
      · rename_i hnr
        have base : Inv { s with endReceived := true, endCount := c } :=
          { h with E := fun _ => hc }
        split at hs
        · cases hs; exact base
        · rename_i hfin
          cases hs
          apply finIfComplete_inv _ base
          cases hf : s.fin with
          | none => rfl
          | some b => simp [hf] at hfin
  | deliver k =>
    simp only [step] at hs
    split at hs
    · cases hs
    · rename_i f hk
      have hmem : f ∈ s.flight := List.mem_of_getElem? hk
      have hlt : k < s.flight.length := (List.getElem?_eq_some_iff.mp hk).1
      have hsub : ∀ g, g ∈ s.flight.eraseIdx k → g ∈ s.flight := fun g hg => List.mem_of_mem_eraseIdx hg
      split at hs
      · -- late frame after finalisation: drained, nothing changes but the flight list
        rename_i hfin
        cases hs
        have hne : s.fin ≠ none := by
          intro hn; simp [hn] at hfin
        exact { h with F := fun g hg hok => h.F g (hsub g hg) hok,
                       K := fun hn => absurd hn hne, P := fun hn => absurd hn hne }
      · rename_i hfin
        have hfn : s.fin = none := by
          cases hf : s.fin with
          | none => rfl
          | some b => simp [hf] at hfin
        split at hs
        · cases hs
          exact { h with F := fun g hg hok => h.F g (hsub g hg) hok,
                         K := fun hn => (by cases hn), P := fun hn => (by cases hn), D := fun hn => (by cases hn) }
        · split at hs
          · cases hs
            exact { h with F := fun g hg hok => h.F g (hsub g hg) hok,
                           K := fun hn => (by cases hn), P := fun hn => (by cases hn), D := fun hn => (by cases hn) }
          · rename_i hidx hcrc
            have hidx' : f.idx < s.src.length := by simpa using hidx
            have hok : f.crcOk = true := by simpa using hcrc
            obtain ⟨_, hpay⟩ := h.F f hmem hok
            -- frames still in flight, and where the sent chunks are now
            have hlen : (s.flight.eraseIdx k).length + (s.framesRecv + 1) = s.sentCount := by
              have := h.K hfn
              rw [List.length_eraseIdx_of_lt hlt]; omega
            have hP' : ∀ i, i < s.src.length → gb s.sent i = true →
                gb (s.written.set f.idx true) i = true ∨ ∃ g ∈ s.flight.eraseIdx k, g.idx = i := by
              intro i hi hsi
              rw [getD_set_b]
              by_cases hfi : f.idx = i
              · left; simp [hfi, h.lenW, hi]
              · rcases h.P hfn i hi hsi with hw | ⟨g, hgm, hgi⟩
                · left; simp [hfi, hw]
                · right
                  -- g ≠ f (different idx), so g survives the erase
                  obtain ⟨m, hm, hmg⟩ := List.mem_iff_getElem.mp hgm
                  have hmk : m ≠ k := by
                    intro he; subst he
                    have : s.flight[m]? = some g := by simp [hm, hmg]
                    rw [this] at hk; cases hk; exact hfi hgi
                  refine ⟨g, ?_, hgi⟩
                  rw [List.mem_eraseIdx_iff_getElem]
                  exact ⟨m, hm, hmk, hmg⟩
            have hW' : ∀ i, i < s.src.length → gb (s.written.set f.idx true) i = true →
                gn (s.disk.set f.idx f.pay) i = gn s.src i := by
              intro i hi hwi
              rw [getD_set_n]
              rw [getD_set_b] at hwi
              by_cases hfi : f.idx = i
              · subst hfi; simp [h.lenD, hidx', hpay]
              · simp only [hfi, false_and, if_false] at hwi ⊢
                exact h.W i hi hwi
            split at hs
            · -- the chunk was already marked (duplicate / re-send of an advertised chunk)
              rename_i hbit
              cases hs
              refine finIfComplete_inv _ ?_ hfn
              refine { h with lenD := by simp [h.lenD], lenW := by simp [h.lenW],
                              F := fun g hg hok => h.F g (hsub g hg) hok, W := hW', B := ?_, V := ?_,
                              K := fun _ => hlen, P := fun _ => hP',
                              D := fun hn => (by rw [hfn] at hn; cases hn) }
              · intro i hi hbi
                by_cases hfi : f.idx = i
                · left; subst hfi; rw [getD_set_n]; simp [h.lenD, hidx', hpay]
                · rcases h.B i hi hbi with hg | ⟨hn, hw⟩
                  · left; rw [getD_set_n]; simp [hfi, hg]
                  · right; refine ⟨hn, ?_⟩; rw [getD_set_b]; simp [hfi, hw]
              · intro hva i hi hbi
                rw [getD_set_b]
                by_cases hfi : f.idx = i
                · simp [hfi, h.lenW, hi]
                · simp [hfi, h.V hva i hi hbi]
            · rename_i hbit
              have hbit' : gb s.bits f.idx = false := by simpa [gb] using hbit
              cases hs
              refine finIfComplete_inv _ ?_ hfn
              refine { h with lenD := by simp [h.lenD], lenW := by simp [h.lenW], lenB := by simp [h.lenB],
                              F := fun g hg hok => h.F g (hsub g hg) hok, W := hW', B := ?_, C := ?_, V := ?_,
                              K := fun _ => hlen, P := fun _ => hP',
                              D := fun hn => (by rw [hfn] at hn; cases hn) }
              · intro i hi hbi
                rw [getD_set_b] at hbi
                by_cases hfi : f.idx = i
                · left; subst hfi; rw [getD_set_n]; simp [h.lenD, hidx', hpay]
                · simp only [hfi, false_and, if_false] at hbi
                  rcases h.B i hi hbi with hg | ⟨hn, hw⟩
                  · left; rw [getD_set_n]; simp [hfi, hg]
                  · right; refine ⟨hn, ?_⟩; rw [getD_set_b]; simp [hfi, hw]
              · have := countFalse_set_true s.bits f.idx (by rw [h.lenB]; exact hidx') hbit'
                have hC := h.C
                show s.remaining - 1 = countFalse (s.bits.set f.idx true)
                omega
              · intro hva i hi hbi
                rw [getD_set_b] at hbi
                rw [getD_set_b]
                by_cases hfi : f.idx = i
                · simp [hfi, h.lenW, hi]
                · simp only [hfi, false_and, if_false] at hbi ⊢
                  exact h.V hva i hi hbi

theorem inv_reachable {s0 s : St} (h0 : Inv s0) (h : Reachable s0 s) : Inv s := by
  induction h with
  | init => exact h0
  | step _ hs ih => exact inv_step _ _ _ ih hs

/-- the consequence of the invariant -/
theorem fidelity_of_inv {s : St} (h : Inv s) (hf : s.fin = some true) :
    ∀ i, i < s.src.length → gn s.disk i = gn s.src i := by
  intro i hi
  obtain ⟨hrem, hneed⟩ := h.D hf
  have hz : countFalse s.bits = 0 := by rw [← h.C]; exact hrem
  have hb := countFalse_zero_all _ hz i (by rw [h.lenB]; exact hi)
  rcases h.B i hi hb with hg | ⟨hn, hw⟩
  · exact hg
  · have := hneed i hi hn; rw [hw] at this; cases this

/-- initial states: a source, whatever is on disk, a bitmap - such that every advertised chunk other
    than the highest one is really on disk (the guarantee of `C05` for states left by a killed run) -/
structure InitOk (src disk0 : List Nat) (bits0 : List Bool) : Prop where
  lenD : disk0.length = src.length
  lenB : bits0.length = src.length
  sound : ∀ i, i < src.length → gb bits0 i = true → highest bits0 ≠ some i → gn disk0 i = gn src i

theorem any_false_all (l : List Bool) (h : l.any id = false) : ∀ i, gb l i = false := by
  intro i
  simp only [gb]
  cases hg : l[i]? with
  | none => rfl
  | some b =>
    have hm : b ∈ l := List.mem_of_getElem? hg
    have := List.any_eq_false.mp h b hm
    simpa using this

theorem inv_init (src disk0 : List Nat) (bits0 : List Bool) (h : InitOk src disk0 bits0) : Inv (init src disk0 bits0) := by
  obtain ⟨hD, hB, hS⟩ := h
  have hrep : ∀ i, gb (List.replicate src.length false) i = false := by
    intro i; simp only [gb]
    by_cases hi : i < src.length
    · simp [List.getElem?_replicate, hi]
    · simp [List.getElem?_replicate, hi]
  refine ⟨hD, hB, by simp [init], by simp [init], ?_, ?_, ?_, rfl, ?_, ?_, ?_, ?_, ?_, ?_⟩
  · intro f hf; simp [init] at hf
  · intro i _ hw; simp only [init] at hw; rw [hrep] at hw; cases hw
  · intro i hi hb
    simp only [init] at hb ⊢
    by_cases hh : highest bits0 = some i
    · by_cases hg : gn disk0 i = gn src i
      · exact Or.inl hg
      · right
        refine ⟨?_, hrep i⟩
        have hi' : i < src.length := hi
        simp only [gb, List.getElem?_map, List.getElem?_range hi', Option.map_some, Option.getD_some]
        have hg' : disk0[i]?.getD 0 ≠ src[i]?.getD 0 := hg
        rw [Bool.or_eq_true]; right
        rw [Bool.and_eq_true]
        exact ⟨by simp [hh], by simpa using hg'⟩
    · exact Or.inl (hS i hi hb hh)
  · intro hva i _ hb
    simp only [init] at hva hb
    have := any_false_all bits0 hva i
    rw [this] at hb; cases hb
  · intro _; simp [init]
  · intro _ i _ hs; simp only [init] at hs; rw [hrep] at hs; cases hs
  · intro c hc; simp [init] at hc
  · intro he; simp [init] at he
  · intro hf; simp [init] at hf

/-- **C01_file_fidelity** (also C06_repair and C02_corrupt). From any initial state whose advertised chunks
    other than the highest are on disk - a fresh file, a sound partial file, or a partial file whose
    highest recorded chunk is damaged - every reachable state in which the receiver has finalised the file
    with ok = true has the source bytes in every chunk. -/
theorem C01_file_fidelity (src disk0 : List Nat) (bits0 : List Bool) (h0 : InitOk src disk0 bits0)
    (s : St) (hr : Reachable (init src disk0 bits0) s) (hf : s.fin = some true) :
    ∀ i, i < src.length → gn s.disk i = gn src i := by
  have hinv := inv_reachable (inv_init src disk0 bits0 h0) hr
  have hsrc : s.src = src := by
    clear hf hinv
    induction hr with
    | init => rfl
    | step _ hs ih =>
      rename_i s1 s2 a
      rw [← ih]
      cases a <;> simp only [step] at hs <;> (repeat' split at hs) <;> (try cases hs) <;> (try rfl) <;>
        (try (simp only [finIfComplete]; split <;> rfl))
  intro i hi
  have := fidelity_of_inv hinv hf i (by rw [hsrc]; exact hi)
  rw [hsrc] at this; exact this

/-- **C02_corrupt.** A frame damaged in flight never ends up in a file that is finalised ok: delivering it
    finalises the file with ok = false, and that verdict is final. -/
theorem C02_corrupt (s s' : St) (k : Nat) (f : Frame) (hk : s.flight[k]? = some f) (hbad : f.crcOk = false)
    (hfin : s.fin = none) (hidx : f.idx < s.src.length) (hs : step s (.deliver k) = some s') : s'.fin = some false := by
  simp only [step, hk] at hs
  simp [hfin, hbad, Nat.not_le.mpr hidx] at hs
  rw [← hs]

theorem fin_final (s s' : St) (a : Step) (b : Bool) (hf : s.fin = some b) (hs : step s a = some s') : s'.fin = some b := by
  cases a <;> simp only [step] at hs <;> (repeat' split at hs) <;> (try cases hs) <;> simp_all

def runSteps (s : St) : List Step → Option St
  | [] => some s
  | a :: as => match step s a with | some s' => runSteps s' as | none => none

-- non-vacuity: a resumed run with a damaged highest chunk (chunk 1 on disk is 0 instead of 8)
example : (init [7, 8, 9] [7, 0, 0] [true, true, false]).need = [false, true, true] := by decide
-- FileEnd overtakes the re-sent chunk: the file is finalised only when that frame has been written too
example : (runSteps (init [7, 8, 9] [7, 0, 0] [true, true, false])
    [.send 2, .send 1, .sendEnd, .deliver 0, .endArrives]).map (·.fin) = some none := by decide
example : (runSteps (init [7, 8, 9] [7, 0, 0] [true, true, false])
    [.send 2, .send 1, .sendEnd, .deliver 0, .endArrives, .deliver 0]).map (fun s => (s.fin, s.disk)) = some (some true, [7, 8, 9]) := by decide
-- the sender may not end before re-sending the damaged chunk
example : (runSteps (init [7, 8, 9] [7, 0, 0] [true, true, false]) [.send 2, .sendEnd]) = none := by decide


/-! ## the whole manifest

Files are independent machines: every chunk frame and every per-file control record carries its file key, the receiver
looks the state up by that key (`recvFileStateMux`), and keys of distinct manifest items are distinct. A manifest-level
state is the list of per-file states in manifest order; a manifest-level step is a per-file step of the file its key
denotes. Interleaving across files, streams and connections is arbitrary. -/

structure FileCfg where
  src : List Nat
  disk0 : List Nat
  bits0 : List Bool

def minit (fs : List FileCfg) : List St := fs.map fun f => init f.src f.disk0 f.bits0

inductive MReach (fs : List FileCfg) : List St → Prop
  | init : MReach fs (minit fs)
  | step {m : List St} {j : Nat} {s s' : St} {a : Step} :
      MReach fs m → m[j]? = some s → step s a = some s' → MReach fs (m.set j s')

/-- every component of a reachable manifest state is reachable in its own per-file system -/
theorem mreach_proj {fs : List FileCfg} {m : List St} (h : MReach fs m) :
    m.length = fs.length ∧ ∀ (j : Nat) (f : FileCfg) (s : St), fs[j]? = some f → m[j]? = some s → Reachable (init f.src f.disk0 f.bits0) s := by
  induction h with
  | init =>
    refine ⟨by simp [minit], ?_⟩
    intro j f s hf hs
    simp only [minit, List.getElem?_map, hf, Option.map_some, Option.some.injEq] at hs
    subst hs
    exact Reachable.init
  | @step m j s s' a _ hj hs ih =>
    refine ⟨by simp [ih.1], ?_⟩
    intro j' f t hf ht
    rw [List.getElem?_set] at ht
    split at ht
    · rename_i hjj
      subst hjj
      split at ht
      · cases ht
        exact Reachable.step (ih.2 j f s hf hj) hs
      · cases ht
    · exact ih.2 j' f t hf ht

/-- **C01_manifest_fidelity.** Whatever the interleaving of the files' frames and records over any number of streams and
    connections: when the receiver has finalised *every* file of the manifest with ok = true (its condition for returning
    success), every chunk of every file holds the source bytes. -/
theorem C01_manifest_fidelity (fs : List FileCfg) (h0 : ∀ f ∈ fs, InitOk f.src f.disk0 f.bits0)
    (m : List St) (hr : MReach fs m) (hall : ∀ s ∈ m, s.fin = some true) :
    ∀ (j : Nat) (f : FileCfg) (s : St), fs[j]? = some f → m[j]? = some s → ∀ i, i < f.src.length → gn s.disk i = gn f.src i := by
  intro j f s hf hs
  have hreach := (mreach_proj hr).2 j f s hf hs
  exact C01_file_fidelity f.src f.disk0 f.bits0 (h0 f (List.mem_of_getElem? hf)) s hreach
    (hall s (List.mem_of_getElem? hs))

/-- a file finalised with ok = true is correct whatever happens to the other files (one failing file cannot make another
    one silently wrong) -/
theorem C01_manifest_file_independent (fs : List FileCfg) (h0 : ∀ f ∈ fs, InitOk f.src f.disk0 f.bits0)
    (m : List St) (hr : MReach fs m) (j : Nat) (f : FileCfg) (s : St) (hf : fs[j]? = some f) (hs : m[j]? = some s)
    (hfin : s.fin = some true) : ∀ i, i < f.src.length → gn s.disk i = gn f.src i :=
  C01_file_fidelity f.src f.disk0 f.bits0 (h0 f (List.mem_of_getElem? hf)) s ((mreach_proj hr).2 j f s hf hs) hfin

-- non-vacuity: two files, frames of the second sent before frames of the first
example : ∃ m, MReach [⟨[7], [0], [false]⟩, ⟨[8, 9], [0, 0], [false, false]⟩] m ∧ (m.map (·.sentCount)) = [1, 1] := by
  refine ⟨_, MReach.step (j := 0) (a := .send 0) (MReach.step (j := 1) (a := .send 1) MReach.init rfl rfl) rfl rfl, ?_⟩
  decide

end TV.FileSys

namespace TV.BufPool

/-! ### chunk buffers shared by the transfers of one sender process (`Model/BufPool`) -/

/-- **C01_checksum_over_own_bytes.** A buffer of the shared pool is taken, filled by a read-pool goroutine, summed, written and put
back - by any number of workers of any number of transfers one after the other, with cancellations at any moment: as long as a
cancelled reader waits for its queued read before it gives the buffer back (fix e43a242), the checksum of every frame is computed
over the bytes that this frame's own read put there, and nobody writes into a buffer that lies in the pool. -/
theorem C01_checksum_over_own_bytes (as : List Step) (s : St) (h : run true init as = some s) :
    s.wrong = 0 ∧ (s.inPool = true → s.pendingIds = []) := by
  have hI := inv_run inv_init h
  refine ⟨hI.ok, fun hp => ?_⟩
  have hn := hI.pool.mp hp
  rw [hI.pend]
  simp [expectedPending, hn]

/-- premises satisfiable: a transfer cancelled while its read is queued (the read completes, then the cancelled call returns),
followed by a complete cycle of another worker on the same buffer -/
example : ∃ s, run true init [.take, .runRead 0, .cancel, .take, .runRead 1, .result, .sum, .put] = some s ∧ s.wrong = 0 ∧ s.inPool = true :=
  ⟨_, rfl, rfl, rfl⟩

/-- with the mutex a cancelled reader cannot give the buffer back while its read is pending -/
example : run true init [.take, .cancel] = none := rfl

/-- the code before fix e43a242 (the cancelled call returned at once): the abandoned read of the cancelled transfer completes after
the next holder's own read - the checksum is computed over the wrong bytes (the schedule `stalebuf` replays on the real sender) -/
theorem C01_recycled_buffer_refuted_before_fix :
    ∃ s, run false init [.take, .cancel, .take, .runRead 1, .runRead 0, .result, .sum] = some s ∧ s.wrong = 1 := ⟨_, rfl, rfl⟩

open TV.Gen.Shapes in
set_option maxRecDepth 32768 in
/-- `readAtWithPool`: once the job is queued, a cancelled call waits for the job's result before it returns (last case); the sender
worker hands the buffer back right after the call - the only read that can target a pooled buffer is one whose caller still holds it -/
theorem C01_source_readpool :
    readpool_selects = ["getReadPool().jobs <- job => ", "<-time.After(10 * time.Minute) => fmt.Fprintf(termio.Stderr(), \"sender read queue timeout after 10m: offset=%d len=%d\\n\", offset, len(buf)); os.Exit(1); return 0, fmt.Errorf(\"sender read queue timeout after 10m\")", "<-ctx.Done() => return 0, ctx.Err()", "res := <-resultCh => return res.n, res.err", "<-time.After(10 * time.Minute) => fmt.Fprintf(termio.Stderr(), \"sender read timeout after 10m: offset=%d len=%d\\n\", offset, len(buf)); os.Exit(1); return 0, fmt.Errorf(\"sender read timeout after 10m\")", "<-ctx.Done() => select { case <-resultCh: case <-time.After(10 * time.Minute): }; return 0, ctx.Err()"] ∧
    readpool_result_chan = ["resultCh := make(chan readResult, 1)"] ∧
    send_read_args = ["transferCtx, f, offset, buf[:chunkLen]"] := by decide

end TV.BufPool
