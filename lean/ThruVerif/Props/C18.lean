import ThruVerif.Model.Codec
import ThruVerif.Gen.Layouts
import ThruVerif.Gen.Consts
/-!
# C18 — Control-protocol encoding round-trips and stays in frame

`TV.Codec` interprets layouts; the layouts used for the nine control records are tied to the source by the
`layout_*` obligations below: the token list xlate reads off each `write*` / `read*` body in
`controlproto.go` must be exactly the token list the model's layout denotes, and the dispatcher table of
`readControlMessage` must pair every tag with the reader of the same record.
-/
namespace TV.C18
open TV TV.Codec TV.Gen.Layouts

def maxPath : Nat := TV.Gen.Consts.maxRelPathLength

/-- tokens a `write*` body shows for a layout -/
def toksW : List Fld → List Tok
  | [] => []
  | .tag t :: fs => .tag t :: toksW fs
  | .uint w :: fs => .u w :: toksW fs
  | .lenBytes w _ :: fs => .u w :: .bytes :: toksW fs
  | .rep w ws :: fs => .u w :: .loop :: (ws.map Tok.u ++ .endloop :: toksW fs)

/-- tokens a `read*` body shows for a layout -/
def toksR : List Fld → List Tok
  | [] => []
  | .tag t :: fs => .tag t :: toksR fs
  | .uint w :: fs => .u w :: toksR fs
  | .lenBytes w (some _) :: fs => .u w :: .limit :: .bytes :: toksR fs
  | .lenBytes w none :: fs => .u w :: .bytes :: toksR fs
  | .rep w ws :: fs => .u w :: .ifzero :: .loop :: (ws.map Tok.u ++ .endloop :: toksR fs)

def wOf (k : Kind) : List Tok := .tag k.tag :: toksW (k.body maxPath)
def rOf (k : Kind) : List Tok := toksR (k.body maxPath)

/-- **layout obligations** (regenerated data vs model layouts) -/
theorem layout_fileBegin : writeFileBegin = .validate :: wOf .fileBegin ∧ readFileBegin = rOf .fileBegin := by decide
theorem layout_credit : writeCredit = wOf .credit ∧ readCredit = rOf .credit := by decide
theorem layout_creditBatch : writeCreditBatch = wOf .creditBatch ∧ readCreditBatch = rOf .creditBatch := by decide
theorem layout_fileEnd : writeFileEnd = wOf .fileEnd ∧ readFileEnd = rOf .fileEnd := by decide
theorem layout_fileDone : writeFileDone = wOf .fileDone ∧ readFileDone = rOf .fileDone := by decide
theorem layout_fileResumeInfo : writeFileResumeInfo = wOf .fileResumeInfo ∧ readFileResumeInfo = rOf .fileResumeInfo := by decide
theorem layout_resumeRequest : writeResumeRequest = wOf .resumeRequest ∧ readResumeRequest = rOf .resumeRequest := by decide
theorem layout_dataStreams : writeDataStreams = wOf .dataStreams ∧ readDataStreams = rOf .dataStreams := by decide
theorem layout_end : writeEnd = wOf .end_ := by decide
theorem layout_header : writeHeader = [.magic 4, .u 4, .bytes] ∧ readHeader = writeHeader := by decide

/-- every case of `readControlMessage` calls the reader of the record whose writer emits that tag and
    returns that tag; the cases are exactly the nine record kinds -/
theorem dispatch_table :
    dispatch.all (fun r => r.1 == r.2.1 && r.1 == r.2.2) = true ∧
    dispatch.length = allKinds.length ∧
    (allKinds.map Kind.tag).all (fun t => (dispatch.map (·.1)).contains t) = true := by decide

theorem tags_distinct : (allKinds.map Kind.tag).Nodup := by decide

theorem tags_match_source :
    Kind.tag .fileBegin = Gen.Consts.controlTypeFileBegin ∧ Kind.tag .credit = Gen.Consts.controlTypeCredit ∧
    Kind.tag .fileEnd = Gen.Consts.controlTypeFileEnd ∧ Kind.tag .fileDone = Gen.Consts.controlTypeFileDone ∧
    Kind.tag .fileResumeInfo = Gen.Consts.controlTypeFileResumeInfo ∧ Kind.tag .resumeRequest = Gen.Consts.controlTypeResumeRequest ∧
    Kind.tag .creditBatch = Gen.Consts.controlTypeCreditBatch ∧ Kind.tag .dataStreams = Gen.Consts.controlTypeDataStreams ∧
    Kind.tag .end_ = Gen.Consts.controlTypeEnd := by decide

/-! ### Round trip -/

theorem kindOfTag_tag (k : Kind) : kindOfTag k.tag = some k := by cases k <;> decide
theorem tag_lt (k : Kind) : k.tag < 256 := by cases k <;> decide

theorem ofVals_vals (r : Rec) : r.kind.ofVals r.vals = some r := by
  cases r with
  | creditBatch es =>
    simp only [Rec.kind, Rec.vals, Kind.ofVals, List.map_map]
    have : (pairOf ∘ fun (x : Nat × Nat) => [x.1, x.2]) = id := by funext x; simp [pairOf]
    simp [this]
  | fileDone a ok e => cases ok <;> simp [Rec.kind, Rec.vals, Kind.ofVals]
  | _ => simp [Rec.kind, Rec.vals, Kind.ofVals]

theorem fits_vals (r : Rec) (h : Wf maxPath r) : FitsL (r.kind.body maxPath) r.vals := by
  cases r with
  | fileBegin p a b c d e f g h' =>
    obtain ⟨h0, h1, h2, h3, h4, h5, h6, h7, h8, h9⟩ := h
    refine .cons ?_ (.cons ?_ (.cons ?_ (.cons ?_ (.cons ?_ (.cons ?_ (.cons ?_ (.cons ?_ (.cons ?_ .nil))))))))
    · exact ⟨by simpa using h1, by intro l hl; cases hl; exact h0⟩
    all_goals (simp only [Fits]; omega)
  | credit a b => obtain ⟨h1, h2⟩ := h; exact .cons (by simp only [Fits]; omega) (.cons (by simp only [Fits]; omega) .nil)
  | creditBatch es =>
    obtain ⟨h1, h2⟩ := h
    refine .cons ⟨by simpa using h1, ?_⟩ .nil
    intro g hg
    simp only [List.mem_map] at hg
    obtain ⟨e, he, rfl⟩ := hg
    have := h2 e he
    exact ⟨by omega, by omega, trivial⟩
  | fileEnd a b => obtain ⟨h1, h2⟩ := h; exact .cons (by simp only [Fits]; omega) (.cons (by simp only [Fits]; omega) .nil)
  | fileDone a ok e =>
    obtain ⟨h1, h2⟩ := h
    refine .cons (by simp only [Fits]; omega) (.cons ?_ (.cons ⟨by simpa using h2, by intro l hl; cases hl⟩ .nil))
    cases ok <;> simp [Fits]
  | fileResumeInfo f a b bm c d =>
    obtain ⟨h1, h2, h3, h4, h5, h6⟩ := h
    refine .cons ⟨by simpa using h1, by intro l hl; cases hl⟩ (.cons ?_ (.cons ?_ (.cons ⟨by simpa using h4, by intro l hl; cases hl⟩ (.cons ?_ (.cons ?_ .nil)))))
    all_goals (simp only [Fits]; omega)
  | resumeRequest f a =>
    obtain ⟨h1, h2⟩ := h
    exact .cons ⟨by simpa using h1, by intro l hl; cases hl⟩ (.cons (by simp only [Fits]; omega) .nil)
  | dataStreams c => exact .cons (by simp only [Fits]; simpa [Wf] using h) .nil
  | end_ => exact .nil

theorem beVal_single (t : Nat) (h : t < 256) : beVal [UInt8.ofNat t] 0 = t := by
  simp [beVal, UInt8.toNat_ofNat']; omega

/-- **C18_roundtrip.** Every record within the field limits decodes to itself and the decoder stops
    exactly where the encoder stopped. -/
theorem C18_roundtrip (r : Rec) (rest : Bytes) (h : Wf maxPath r) :
    decode maxPath (encode maxPath r ++ rest) = .ok (r, rest) := by
  unfold decode encode
  have ht := takeN_append [UInt8.ofNat r.kind.tag] (encL (r.kind.body maxPath) r.vals ++ rest)
  simp only [List.length_singleton, List.cons_append, List.nil_append] at ht
  simp only [List.cons_append, ht, beVal_single _ (tag_lt _), kindOfTag_tag,
    decL_encL _ _ _ (fits_vals r h), ofVals_vals]

/-- **C18_sequence.** A concatenation of records decodes to the same sequence. -/
theorem C18_sequence (rs : List Rec) (h : ∀ r ∈ rs, Wf maxPath r) :
    decodeAll maxPath (rs.length + 1) (rs.flatMap (encode maxPath)) = .ok rs := by
  induction rs with
  | nil => simp [decodeAll]
  | cons r rs ih =>
    have hr := h r (by simp)
    have hrs : ∀ r' ∈ rs, Wf maxPath r' := fun r' hm => h r' (by simp [hm])
    have hne : (encode maxPath r ++ rs.flatMap (encode maxPath)) ≠ [] := by simp [encode]
    simp only [List.flatMap_cons, List.length_cons, decodeAll, hne, if_false,
      C18_roundtrip r _ hr, ih hrs]

/-- **C18_header.** The manifest header round-trips for any JSON shorter than 2³² bytes. -/
theorem C18_header (magic json rest : Bytes) (h : json.length < 2 ^ 32) :
    decodeHeader magic (encodeHeader magic json ++ rest) = .ok (json, rest) := by
  unfold decodeHeader encodeHeader
  have h1 := takeN_append magic (putBE 4 json.length ++ json ++ rest)
  simp only [List.append_assoc] at h1 ⊢
  simp only [h1, ne_eq, not_true_eq_false, if_false]
  have h2 := getU_putBE 4 json.length (json ++ rest) (by simpa using h)
  simp only [h2, takeN_append]

/-- **C18_limits_tight.** The 16-bit limit is exactly right: an error text of 2¹⁶ bytes does *not*
    round-trip (its length prefix wraps), so `Wf` is not stronger than needed. -/
theorem C18_limits_tight (e : Bytes) (he : e.length = 65536) :
    decode maxPath (encode maxPath (.fileDone 0 true e)) ≠ .ok (.fileDone 0 true e, []) := by
  have hw : putBE 2 65536 = putBE 2 0 := by decide
  have henc : encode maxPath (.fileDone 0 true e) = encode maxPath (.fileDone 0 true []) ++ e := by
    simp [encode, Rec.kind, Rec.vals, Kind.body, encL, encF, he, hw]
  rw [henc, C18_roundtrip (.fileDone 0 true []) _ (by simp [Wf])]
  intro h
  injection h with h
  injection h with h1 h2
  injection h1 with _ _ h3
  rw [← h3] at he
  simp at he

-- non-vacuity: concrete records at the field boundaries satisfy `Wf`
example : Wf maxPath (.fileBegin [97] (2 ^ 64 - 1) (2 ^ 32 - 1) 0 1 0 0 0 0) := by
  simp [Wf, maxPath, TV.Gen.Consts.maxRelPathLength]
example : Wf maxPath (.fileResumeInfo [] 0 0 [] (2 ^ 32 - 1) (2 ^ 64 - 1)) := by simp [Wf]
example : decode maxPath (encode maxPath (.fileDone 7 false [1, 2, 3]) ++ [9]) = .ok (.fileDone 7 false [1, 2, 3], [9]) := by
  rfl

end TV.C18
